#!/usr/bin/env python3
"""Generates /verif/MANIFEST.json from the table below. A property is claimed only when its
check package exists under harness/ and is listed in BUILT; everything else is listed under
not_applicable with the reason."""
import json, os, subprocess

ROOT = os.path.dirname(os.path.dirname(os.path.abspath(__file__)))

CHECKS = {
    "C19": dict(cat="exploration", sec="5 C19",
                tech="runtime monitor: structure-aware hostile-input generator over 61 parsing/validation entry points (in-process with recover + watchdog, v2 protocol in worker child processes, HTTP against a full node); panic / process-exit / hang / state-digest oracle; race detector incl. checkptr",
                text="61 entry points: dag.ParseTransaction and State.Add, the IBLT unmarshal/subtract/decode path, 8 pe entries, did:web bodies/HTTP, did:nuts validators, did:jwk, did:key, DPoP, ParseJWT/ParseJWS, the tokenV2 middleware, Verify/VerifyVP (ldp and jwt), "
                     "RegisterRevocation, status-list verification; the v2 protocol Handle for 10 envelope kinds with and without node DID in worker child processes (input logged before handling; a process exit is the observed event); 16 HTTP entries of a full node "
                     "(/token, /authorize incl. hostile remote OpenID configuration, request.jwt, /response, discovery register, verifier vc/vp; handler panics detected through the server error log). Inputs: valid seeds, every JSON member x type-confusion/null/missing/"
                     "extreme-number/nesting/duplicate operators, truncations, seeded 1-3 fold mutations, JWS/JWT re-signed by an attacker key after mutation, protobuf field and wire-level mutation; current input written to disk before each call. Oracle: no panic, no child "
                     "exit, return within a 20 s watchdog (hang only if reproduced 3x alone and not finishing within 150 s alone, else inconclusive), rejected input leaves the state digest unchanged.",
                note="Panics inside third-party go-did on hostile DID documents are listed known findings; notifier/ambassador receivers and the discovery client refresh are not run in child processes; no memory oracle."),
    "C07": dict(cat="exploration", sec="5 C07",
                tech="runtime monitor: deterministic single-threaded adversarial network simulator over real v2 protocol instances and dag.States (wire-level envelopes only); per-step safety oracle + bounded-round convergence; live mode under the race detector",
                text="N in {2,3,4} real nodes (real dag.State with production verifiers + real v2 protocol through the verif shims) in pair/line/triangle/ring/star/full topologies exchange only marshalled envelopes through a simulator whose seeded adversary delivers in "
                     "any order, drops, duplicates, delays, injects stale and unsolicited copies, forges Gossip/TransactionSet/TransactionList messages carrying tampered transactions, ticks gossip, expires conversations and creates transactions. DAG groups: identical, "
                     "disjoint, behind, far behind (root vs 1560-2000 txs over 4 pages), arbitrary, IBLT overflow (>650 in one page; capacity measured), multi-page, private, gossip-ahead, XOR-colliding. After every step: every admission is a generated valid "
                     "transaction arriving after its prevs exactly once, sets only grow, XOR/clock agree with the admissions. Liveness as bounded progress: after the fault phase all nodes hold the union within R = 4 + pages + 2*(diameter-1) fair gossip rounds "
                     "(logical; hard cap 10R; livelock detection). Thorough adds live mode through production Handle in a child process under -race (convergence held/inconclusive only).",
                note="Unbounded 'eventually' is restated as R logical rounds after faults stop; handlers run synchronously in the simulator (goroutine fan-out only in live mode); no peer disconnect/reconnect; payload synchronisation is C15's."),
    "C16": dict(cat="exploration", sec="5 C16",
                tech="runtime monitor: reference list model vs real discovery server/client node pairs driven over HTTP by harness-owned registrants; hook-steered polls racing registrations; online timestamp monotonicity; race detector",
                text="4-8 pairs of complete in-process nodes (server S, pure client C polling S over real localhost HTTP via a synchronous refresh shim). Registrants are harness-owned did:jwk/did:key holders presenting harness-issued JWT credentials (status lists served by the harness). "
                     "Seeded histories (~25 events) of register / refresh / retract / expire (SQL ageing), 24 classes of defective registrations, concurrent bursts, planted entries C cannot verify, server resets (new seed) and one real reinstall per pair, with client polls at arbitrary "
                     "points and polls parked at the store hook while 1-2 registrations race them (seeded scheduler, distinct interleavings counted). Oracle: S's list and search equal the model after every event (one live entry per subject, nothing refused/superseded/retracted); "
                     "timestamps strictly increase, seed stable per epoch; every defective registration refused and list unchanged; C's search returns only verified unexpired entries of the current seed; after <=2 polls at quiescence C equals the model's live set.",
                note="SQLite stores; dropped HTTP responses not injected; expired entries served until pruned and audience errors answered 500 are unspecified."),
    "C03": dict(cat="exploration", sec="5 C03",
                tech="runtime monitor: canary scan of every output channel of full nodes for all encodings of the private scalars the harness reads from the key directory; namespace monitor (file-tree snapshots + inotify decoys) over hostile key names; sign/verify agreement",
                text="Two full in-process nodes (did:web and did:nuts) with the fs key back end at debug/trace verbosity and body logging; log and audit taps installed before start. Workload of 113 distinct operations (subjects, keys, ldp/jwt issuance, presentations, "
                     "revocation, sign_jwt/sign_jws with 16-136 caller-supplied header variants incl. public/private/own jwk, JWE, DPoP, s2s and OpenID4VP flows incl. session wallet keys, every KeyStore method, imported RSA/Ed25519/P-384 keys, DAG transactions). "
                     "(1) every encoding (raw, base64/base64url, hex, decimal, PEM lines, DER) of every private scalar is searched in all response bodies/headers of both listeners, outbound requests, log and audit entries, every row of every SQL table, decoded token "
                     "headers/claims, DID documents, file names and Go return values; the scanner self-tests on planted shapes. (2) ~180-550 hostile key names through the fs back end behind the validating wrapper, the KeyStore and HTTP kid parameters, between snapshots of "
                     "everything outside the key directory with inotify on decoy key files. (3) every signature requested for kid K verifies with K's published key and with no other key of the node.",
                note="The quantifier 'all call sites that can reach raw key bytes' is about program text: the check covers the channels its workload drives and lists the operations exercised. Patterns shorter than 16 bytes are skipped. Vault/Azure/external back ends not exercised."),
    "C14": dict(cat="fault_enumeration", sec="5 C14",
                tech="runtime monitor: SIGKILL crash-point enumeration in worker processes over real dag.State + notifiers with production-style subscribers; offline at-least-once / no-redelivery-after-completion oracle over merged ledgers",
                text="Worker processes hold a real dag.State on bbolt (sync writes) with subscribers registered as network.Subscribe does (persistent vdr/vcr/nats/private/txlog with production filters, one non-persistent, sometimes an unfiltered one) and scripted receivers "
                     "(succeed, fail n, incomplete n, fatal, slow, fail forever, receiver writes the payload / marks finished). Every scenario (5-30 public/private transactions, payload with Add / later / twice / never) runs at every crash point: inside the admission write, "
                     "after commit before notify, inside/after the payload write, receiver returned before completion marking, failure before/after recording, mid back-off, after completion, and one double crash during the start-up replay. Later processes re-register, call Run() "
                     "and drain. Offline oracle over the merged ledgers, final DAG, payload store, shelves and GetFailedEvents: every admitted selected event delivered or still visible; no delivery of non-admitted; no delivery after recorded completion (also after restart); "
                     "no retry after fatal; persisted retry counters consistent; pending events replayed; nothing stalled; failed-for-good events visible.",
                note="Ordering and counts only, never durations; adds are sequential in the worker (concurrency comes from the real retry goroutines); subscriber selecting both event types of one tx and second WritePayload are unspecified."),
    "C10": dict(cat="exploration", sec="5 C10",
                tech="runtime monitor: permutation/replica differential over the real didstore (resolution digest equality across arrival orders and independent stores) + online deactivation/conflict invariants",
                text="Seeded did:nuts event sets over 13 shapes (linear, 2-/3-way forks, resolved/partial/late forks, deactivation (+fork), root conflict, two DIDs, id clashes) x rich documents (3-4 controllers, keys, services), four signing-time modes, "
                     "clock jitter and exact duplicates are fed to the real didstore on bbolt in all permutations (<=24 orders quick, <=120 thorough; sampled above), each order on independent stores, with duplicates re-delivered, reopen from disk mid-way and at the end. "
                     "Oracle: the resolution digest (latest in three forms, Resolve by every source tx / payload hash / version-hash chain / times at, between and around signing times, history, ConflictedCount, DocumentCount, Conflicted set, Iterate; "
                     "SourceTransactions as sets) is identical across all orders and stores of one set; online after every Add: a delivered deactivation is never resolved as active again, conflicted count/iterator/flag agree; single-head result = that transaction's document.",
                note="bbolt only; sequential Add (concurrent Add out of scope); Resolve with a ResolveTime after deactivation returning an older active version is unspecified."),
    "C12": dict(cat="exploration", sec="5 C12",
                tech="runtime monitor: schema-driven generator of definitions/wallets/envelopes driving the real pe Match/Build/Validate/Resolve and PEXConsumer; independent reference matcher as oracle; submission mutators",
                text="Generated presentation definitions that pass the bundled JSON schema (const/enum/pattern/type filters, optional fields, formats, all/pick with every subset of count/min/max, nesting <=3) x wallets with matching, near-miss and decoy credentials "
                     "(JSON-LD and JWT) x envelope shapes drive the real Match, Build, Wallet.BuildSubmission (signed JWT VP), ParseEnvelope, Validate, ResolveConstraintsFields and the PEXConsumer. An independent reference (own JSON reader, path walker, RE2 filter "
                     "evaluator, requirement-tree evaluator; no code shared with pe) decides soundness, completeness (non-nested), wallet/verifier agreement, rejection of 21 classes of mutated submissions/envelopes that change the descriptor->credential relation, "
                     "and extracted field values (whole value or single capture). Panics recovered per call.",
                note="Completeness only for definitions without nesting; contradictory bounds, filters without type, object-valued targets are unspecified; JSON-LD VP signing through the presenter not exercised."),
    "C18": dict(cat="exploration", sec="5 C18",
                tech="runtime monitor: recording/scripted RoundTripper at the http client seam observing every outbound URL (incl. redirect hops) during real resolver runs; independent did:jwk/did:key derivation; local histories on a full node with refusing dialer",
                text="did:web identifier grammar (26 classes: ports, percent-encodings, empty/dot segments, '@', IPv4/IPv6/numeric literals, case, trailing dot, IDN) x 85 server scripts (content types, 22 id-mismatch variants, 21 real 3xx redirect scripts, bodies) through the "
                     "standalone resolver and a full node's resolver chain: every recorded request must be https, without user-info, to the non-IP host the identifier encodes and the decoded path + /did.json; success only with doc.id == did; every mismatch script fails. "
                     "Round-trip law URLToDID/DIDToURL for the stated class in both directions. did:jwk (22) and did:key (15) variants resolved three times must be identical and equal an independent derivation, with zero outbound requests. Local subjects created/updated/"
                     "deactivated on a node (did:web and did:nuts) resolve with zero outbound requests and dials; deactivated errors unless allowed.",
                note="Numeric hosts that Go does not parse as IP literals, %2F inside a path element and did:jwk text with -/_ are unspecified; ResolveTime variants for deactivated DIDs not built."),
    "C09": dict(cat="exploration", sec="5 C09",
                tech="runtime monitor: generator-classified (transaction, document) histories through the real DAG verifiers + did:nuts ambassador + didstore; before/after resolvability snapshots; global authorisation invariant on every accepted update",
                text="Real dag.State with the production verifiers (kid resolution through the didstore), real didstore, real didnuts resolver/key resolvers and the real ambassador subscribed the way network.Subscribe does it. "
                     "The harness signs as anyone: creations (correct/foreign key, DID != thumbprint forms), updates by own capabilityInvocation key, non-capInv keys, removed/demoted keys over 2-4 versions with every prevs ordering, "
                     "controllers (sole/shared/two, removed or deactivated keys, former controllers), chains of depth 1-6, 25 validator/DID-core rules as creation and update, seeded random walks. Each case is MUST-ACCEPT / MUST-REJECT / UNSPECIFIED from "
                     "the property text and the generator's shadow; a rejection must leave every resolvable answer (latest, by tx, by hash, by time, key resolvers per relation, conflicted set) identical; every accepted update is checked against the invariant "
                     "'signer is a capabilityInvocation key of a controller of the version it succeeds'; every accepted creation against DID == thumbprint.",
                note="Forks from old versions, one branch of a conflict, no-prev-resolves, and updates naming only a controller's stale version are classed UNSPECIFIED; liveness (MUST-ACCEPT) demanded only for plain shapes."),
    "C13": dict(cat="fault_enumeration", sec="5 C13",
                tech="runtime monitor: step-boundary fault/stop enumeration (verifhook points in transactionHelper) over real SqlManager + didweb + didnuts managers; all-or-nothing snapshot oracle after restart + aged rollback sweep",
                text="Real didsubject.SqlManager on a migrated SQLite DB, real key store, real didweb manager and the real didnuts manager behind a fault-injecting decorator over a scripted network that signs real DAG transactions, keeps the publish ledger and "
                     "delivers to the real ambassador + didstore. Every operation of every seeded sequence (create, add/update/delete service, add verification method, deactivate; 1-3 subjects) runs once per fault site (14: after tx1, before/after each method's Commit, "
                     "commit error, network refusal, stop inside the publish delivered/undelivered, before tx2, sweep in flight). After each: restart, ageing of updated_at by SQL, the real Rollback sweep, snapshot comparison, retry. Oracle: unchanged or advanced by exactly one "
                     "version on every DID together; empty change log; consecutive growing versions; abandoned key ids never resolvable or published; ListDIDs nothing or one full resolving set; retry succeeds; other subjects untouched.",
                note="Process stop = sentinel panic unwinding out of transactionHelper (manager keeps no state outside SQL/key store) followed by a fresh manager on the same DB; SQLite only."),
    "C20": dict(cat="exploration", sec="5 C20",
                tech="runtime monitor: covering arrays of security-relevant configuration run through the real `nuts server` start-up in child processes + action-level probes + recording listeners for outbound requests; documented-list reference predicate",
                text="Each configuration (strictmode x url x tls.* x crypto.storage x storage.sql.connection x contract validators x irma scheme manager x jsonld allow list x didmethods x delivery channel; pairwise in quick, 3-wise in thorough, plus every single insecure / "
                     "moved-key / CLI-secret deviation with a non-strict twin) starts the assembled system in its own child process; the child records refused/running, whether /status was ever reachable and whether it held a listening socket at refusal, then probes dummy "
                     "signing means, the JSON-LD loader and 9 URL classes through every http/IAM client constructor against recording plain/TLS listeners. Part 2 drives http/client directly (480 cases incl. redirect chains ending on http). Oracle: reference predicate written "
                     "from the documented strict-mode list; strict+insecure refused before listeners accept, non-strict starts, moved keys and CLI secrets refused in both modes, no plain-HTTP request ever attempted in strict mode. Pair coverage is measured.",
                note="IRMA runs against the signed empty scheme shipped in the repository; vault is a fake answering the token self-lookup; options whose insecurity the documents do not list are unspecified."),
    "C06": dict(cat="exploration", sec="5 C06",
                tech="runtime monitor: generator-known admission reference model vs real dag.State (production verifiers, didstore-backed kid resolution); byte-level store snapshots; hook-steered concurrent histories checked with porcupine; race detector",
                text="Real dag.State on bbolt with the previous-transactions and signature verifiers, kid resolution through dag.SourceTXKeyResolver over a real didstore (documents with key rotation), five persistent subscribers. "
                     "Generated valid DAGs (chain/fan/diamond/random, private, ES384/ES512/PS256 signers, clocks over 512/1024) and ~155 hostile variant classes (headers removed/retyped/duplicated, alg, JSON serialisations, kid/jwk, rotation, prevs, lc, "
                     "sigt/ver, payload, second root, bit flips, compact re-encodings) are offered in perturbed orders. After every offer: Add/Parse verdict vs the model, presence, byte dump of every bucket, XOR/IBLT/head and receiver-call delta: "
                     "refused or re-submitted items change nothing and notify nobody; admitted ones are stored as offered and notified at most once. Concurrent same/sibling submissions steered at the Add hooks are checked against a set-of-refs model with porcupine.",
                note="Reference model is computed from what the generator built (never by re-parsing with the code under test); injected write faults are C08's; kid transactions only in sequential histories."),
    "C15": dict(cat="exploration", sec="5 C15",
                tech="runtime monitor: taint scan of every envelope handed to Connection.Send by real v2 protocol instances + payload-store diff after every inbound message; real tlsAuthenticator cases",
                text="Four real v2 protocol instances over real dag.States with real PAL encryption/decryption (node DID present / key missing / no node DID / rotated key), peers of seven kinds (anonymous, unauthenticated claiming a DID, "
                     "authenticated listed / unlisted / outsider / own DID). Every query and response type for every public and private transaction, 16 inbound TransactionPayload variants, TransactionList flows and gossip ticks. "
                     "Each private payload is a unique marker: no captured envelope may contain it (raw/hex/base64) unless it is a TransactionPayload to an authenticated peer on the decrypted list sent by a listed node; list/range/gossip never carry "
                     "payloads of PAL transactions; the payload shelf is diffed after every inbound message (a new entry must hash to the payload hash of a transaction already in the DAG). 32 certificate/DID-document cases for the real authenticator.",
                note="Handlers are driven synchronously through the verif export shim (production goroutine fan-out not exercised); DID-document resolver is an environment fake."),
    "C17": dict(cat="exploration", sec="5 C17",
                tech="runtime monitor: one hostile JOSE/LD-proof variant generator applied to valid tokens of seven real consumers; accept => independently re-verified single asymmetric signature by the mandated key",
                text="One generator (23 variant classes: alg none/HS*/other family/other curve, signature removed/truncated/DER, JSON serialisation with 0/1/2 signatures or unprotected headers, injected jwk/jku/x5c/x5u "
                     "re-signed by an attacker key, foreign kid, key swap, embedded private jwk, altered protected bytes, non-canonical encodings) is applied to 12 valid instances of 7 consumers on real code: credential JWT and "
                     "presentation JWT (verifier API of a full node), authorization request object (captured from a real OpenID4VP flow), DPoP proof (validate endpoint and token-endpoint header), internal-API bearer token "
                     "(second node with token_v2), DAG transaction (ParseTransaction + signature verifier + State.Add), JSON-LD proof. Oracle: every variant classified hostile must be rejected; every accepted token is re-verified "
                     "with crypto/ecdsa|rsa over the received bytes with the protocol-mandated key; identical-content re-encodings are unspecified.",
                note="Valid instances use P-256/RSA keys (no EdDSA/P-384 instances); legacy v1 tokens not covered; classification hostile/benign is the generator's."),
    "C11": dict(cat="exploration", sec="5 C11",
                tech="runtime monitor: reference bit-set/slot model vs a full node's StatusList2021 issuer, served lists and verifier verdicts; concurrent issuance + page roll-over by ageing; harness-served external lists; race detector",
                text="A complete in-process node issues credentials with status entries for 3-4 issuers sequentially, from 8-32 goroutines and across page roll-overs (page counter aged by SQL to 3 before the end, "
                     "twice per issuer), revokes random subsets concurrently with issuance, serves its lists and verifies. Reference model: set of slots handed out (pairwise distinct, in range, on the issuer's own list) "
                     "and per-list bit set = exactly the revoked slots. Every served list must verify at the node's verifier, carry the named id and purpose, expire > 1 h ahead, equal the model bits and never clear a bit; "
                     "revoked credentials fail and unrevoked ones verify after every step, after forced re-signing and after a restart on the same data directory. Verifier side: harness-owned did:jwk issuer + list server: "
                     "refresh after ageing the cache, list with foreign id, wrong purpose, broken signature (bit must not be honoured).",
                note="SQLite single connection serialises DB transactions (row-lock behaviour of other engines not exercised); did:nuts network revocations and their forgeries not generated; real list expiry cannot be reached without waiting (re-signing observed through aged bookkeeping only)."),
    "C01": dict(cat="exploration", sec="5 C01",
                tech="runtime monitor: structure-aware mutation of node-issued VCs/VPs submitted to the real verifier API; reject-or-equivalent oracle; reference-verdict grid (time, revocation, trust, deactivation, signer)",
                text="A complete in-process node issues credentials (ldp_vc, jwt_vc, with status list / expiry) and builds presentations (ldp_vp, jwt_vp); every artefact must verify (round trip). "
                     "Mutation operators (change/delete/rename/add member at every JSON pointer, array edits, embedded-credential swap, proof options, JWT header/claim re-encoding under the original signature, "
                     "signature edits) produce mutants that are submitted to the verifier API: a mutant that still verifies must be JSON-LD-equivalent (resp. byte-equal signing input) to the original. "
                     "A grid of validAt times around issuance/expiry, status-list revocation, trust required/not, issuer deactivation, forged issuer and signer != subject is compared with a reference verdict.",
                note="did:web issuers on one node: key add/remove over time (did:nuts histories) and a second resolving node are not exercised; equivalence = normalised JSON-LD (sets, single-element arrays, @value, aliases, context listing)."),
    "C04": dict(cat="exploration", sec="5 C04",
                tech="runtime monitor: raw-TCP request-target/credential grammar against a full node with token_v2 auth; handler-reached ground truth by response shape, audit entries and SQL/key-store state diff",
                text="Full in-process node with token_v2 authentication and a generated authorized_keys file (Ed25519, P-256/384/521, RSA; ignored lines), in split-listener and shared-listener configurations. "
                     "Raw TCP requests in every request-target form (origin/absolute/authority/asterisk, encoded and duplicated slashes, dot segments, case, params, queries, HTTP/1.0) x ~190 credential classes "
                     "labelled by a reference predicate (signature by authorised key, aud, iss = key comment, sub, UUID jti, bounded lifetime; JOSE hostile variants). Oracle: a handler under /internal is reached only "
                     "with a conforming token; failing credentials get exactly 401, no AccessGranted audit entry and no state change (21 SQL tables + key files); /internal,/status,/metrics,/health never served on the public listener.",
                note="Ground truth for 'handler reached' is response shape + audit log + state diff (no hook inside echo); HTTP/2 and request smuggling not covered."),
    "C02": dict(cat="exploration", sec="5 C02",
                tech="runtime monitor: defect-injecting token-request generator against a full in-process authorization server + reference predicate; introspection compared with issuance facts; session-store write hooks",
                text="The harness owns did:jwk holders, has the real node issue credentials to them and signs its own JWT presentations, so every single defect (and seeded pairs) of a valid "
                     "vp_token-bearer request can be produced: audience, validity window, nonce missing/reused, signer != subject, mixed subjects, foreign/unknown definition, forged descriptor map, "
                     "bad VP/VC signatures, revoked/expired credential, scope, missing parameters; plus client_id/PKCE/replay defects on real authorization-code requests captured from the OpenID4VP flow. "
                     "Oracle: token issued iff defect set empty; no access-token store write on refusal (hook); introspection (standard+extended) equals issuance facts, inactive for never-issued/aged tokens; "
                     "hostile definition field ids never override response members.",
                note="Presentations are harness-signed jwt_vp (JSON-LD VP only via the node's own client); in the OpenID4VP leg policies with both organisation and user definitions, descriptor format mismatches and the error-response branch are not generated; expiry by ageing the stored token, not by waiting."),
    "C05": dict(cat="exploration", sec="5 C05",
                tech="runtime monitor: hook-steered interleavings of session-store operations over real OAuth flows on a full in-process node; at-most-once history oracle; race detector",
                text="A complete in-process node runs the real RFC021 s2s and OpenID4VP authorization-code flows through a harness-owned proxy that withholds the redeeming hop, "
                     "yielding fresh valid secrets (authorization code, both request objects, OpenID4VP nonce, s2s nonce, DPoP jti). Each is presented by 2-3 actors steered at "
                     "session-store operation hooks (seeded schedules, distinct interleavings counted), by 8-16 unsteered actors under the race detector, and sequentially afterwards; "
                     "codes are also spoiled by a failing redemption first. Oracle: at most one presentation per value succeeds; spoiled codes are dead.",
                note="In-memory session store only (no redis/memcached in the sandbox); interleavings at hook granularity; after-window replay uses a harness-signed future-dated JSON-LD presentation and ~11.5 s of real waiting (stopwatch-guarded)."),
    "C08": dict(cat="fault_enumeration", sec="5 C08",
                tech="runtime monitor: reference-model fold vs real dag.State at quiescent points + write-op fault enumeration + SIGKILL crash workers + hook-steered interleavings + race detector",
                text="Runs the real dag.State on bbolt through valid histories (page and tree-growth boundaries), rejected and duplicate adds, every single failing "
                     "Put of a write transaction, refused commits, cancelled contexts, the rollback/reload window, hook-steered concurrent Adds, SIGKILL crash points "
                     "followed by reopen, and XOR-leaf corruption + repair; after each step an independent fold (XOR, RFC017 IBLT re-implementation, listing, head, "
                     "counters) over the harness ledger must equal what the State reports. Held-on-observed-executions, not a proof.",
                note="Trusted: harness ledger/IBLT re-implementation, go-stoabs bbolt semantics; crash = SIGKILL (page cache survives), I/O errors inside bbolt commit are represented by commit refusal."),
}


# Extensions made after independently seeded changes (DESIGN.md §12.20-§12.24, §13); appended to the level text.
ADDENDA = {
    "C01": "Extended: hosted did:web issuers; key-history grid on a second node (did:nuts + did:web; v1 key1, v2 +key2, v3 -key1, deactivated) at validation times inside the recorded version intervals; credentialStatus arrays over an alphabet of entries (unusable lists, other purposes, unknown types); re-verification after list re-issue and node restart. Round 5: validity-window grid (harness-signed ldp/jwt VPs and VCs and wallet-built VPs with start/end from Go zero time, epoch, past, future, year 9999, absent; four validation times x three routes; valid outside the window = violation); revocation-lookup faults on a did:nuts node with network revocations (store lookup failing at a hook in five ways incl. the real store closed, six routes) and issuer-document faults (seven ways).",
    "C02": "Extended: late replay in the skew tail, scope lists, backdated over-long validity, audiences that extend/truncate/re-case this server's identifier, two-presentation assertions (accepted controls, 10 defects on the mapped or the other presentation, both orders). Round 5: OpenID4VP wallet-response leg - the real authorization-code flow runs until the node's own wallet posts to the verifier's direct_post endpoint, the proxy withholds that post and the harness plays the wallet (did:jwk holders, jwt_vp and ldp_vp over the session's real nonce/state): 3 controls and 72 distinct single defects (nonce/state of another, finished or unknown session, audience, signer != subject, non-matching or revoked/expired credential, forged/permuted/empty descriptor map, tampered signatures, other subject's endpoint, second use, two-presentation arrays in both orders), one fresh session each; a defective response must never lead to a token at the token endpoint or a token-store write.",
    "C03": "Extended: private half of every held key family x 5 header forms x 12 signing entry points; kid life-cycle programs (create, warm up, re-point by Link/New/Delete also inside committed and rolled-back SQL transactions, use again) on two key stores with a harness-kept designation table. Round 6: key-id relatives - 8 families of held ids x ~130 unregistered textual relatives each (percent decoded/encoded/hex-case/double-encoded, case, white space, unicode, fragment, affix, sql, separator) requested through 9 signing/decrypting entry points (Go and HTTP, two path escapings): must be refused, or served with the key published for exactly the requested id.",
    "C04": "Extended: hostile path-parameter values on parameterised routes in every tier, deferred calibration judgement. Round 5: presentation sequences (short-lived tokens presented repeatedly while valid, failing credentials derived from a just-accepted one, six presentations after expiry on a monotonic stopwatch) and 12 listener configurations (http.internal.address empty/blank/unset/:0/no port via env, file, flag) booted through cmd.Execute with the public listener probed.",
    "C05": "Extended: store-fault enumeration below the session database (every backend operation of a presentation lost or answered with an error, single and outage-spanning, also steered two-actor), volume phase (1 000 ... 262 144 live entries between use and replay).",
    "C06": "Extended: every third valid offer is first made to fail in the store (commit refused, caller gone, n-th Put failing) and the full snapshot incl. reported clock compared. Round 5: young-DAG matrix - format version {1,2} x key family {P-256,P-384,P-521,RSA} x private/resolver; every variant class (158, incl. mandatory headers removed with/without their crit entry and further retypes) offered to the root of an empty DAG and to the first child.",
    "C07": "Round 5: scenario class deep-fork (two or three nodes each owning a large branch above a common prefix, tops at page boundaries 512/1024/1536 one or two pages apart, the peer's transactions on the requester's pages just under/over the IBLT capacity; walk-down and climb requests counted and calibrated), stagnation stop.",
    "C08": "Extended: repair on 513/1025-transaction chains.",
    "C09": "Extended: id text-extension rules, percent-escaped thumbprint, byte-for-byte republication by an outsider, publicKeyJwk declaring its own kid, RSA and Ed25519 verification methods. Round 5: 19 uniqueness rules with realistic mixed-case service types/ids in seven arrangements; update-style transactions for DIDs no version of which is known (4 target kinds x 9 payload shapes x prev choices) followed by the rightful creation.",
    "C11": "Extended: signed revocations (genuine + 7 forgeries, hosted did:web), re-issue racing revocations, stored lists aged (document and expiry column) to 20 min left / 1 h / 5 h past expiry. Round 5/6: every revoked-must-fail verdict also at 8 explicit validation times around issuance and revocation through 5 routes (signed network revocations and status-list revocations); SQL fault enumeration below the status-list store (gorm callbacks on the node's DB + SQLite ABORT triggers over every statement of revoke/issue/roll-over/serve; what the node reported must show afterwards); multi-entry credentialStatus arrays (revoked entry at every position of 2-4 entries x 14 neighbour kinds).",
    "C12": "Extended: same-id and id-less twin credentials with the map forged at the twin; typeless filters refuted by the reference, edge batch of filter vocabulary (enum+pattern, enum+const), one-sided verifier probes on single-descriptor definitions. Round 6: requirement-tree batch (2-4 groups of 1-3 descriptors, from_nested at depth 2-3 with all / pick count,min,max bounds leaning to >=2, steered wallets) judged by a reference extended to nested trees (upper bound per level; completeness for trees without overlap or vacuous children).",
    "C13": "Extended: node configurations with one method and a mid-sequence upgrade, single-change and no-op operations, failing clean-up transaction, operations on deactivated subjects, 8 subject-name families with ~45 look-alike lookups per name and operations on names no subject has. Round 5: every snapshot also holds the dependent rows of the latest version as the manager reads them (services, verification methods, key presence) and FindServices per type; a different fault-free operation follows every second not-took-effect case and is judged as previous version + that operation.",
    "C14": "Extended: must-refuse offers, offers failing in the store and repeated offers woven into every scenario; completions recorded by another party at three positions x five receiver outcomes; torn ledger tails ignored by shape. Round 5: single-operation fault matrix in the parent process (a decorating store fails exactly one Get/Put/Delete/Iterate/Range or the commit of every Add / Add-with-payload / WritePayload incl. the nested private write, each position in turn; unparsable job record; subscriber on another database): admitted => delivered or still replayable, not admitted => delivered to nobody.",
    "C15": "Extended: redelivery of admitted transactions (8 payload variants, range and list conversations), same-payload-hash alias transactions (incl. empty pal header), the real Network.CreateTransaction with 27+ participant situations (ground truth = the list the application asked for), serving while the own document is deactivated/unresolvable. Round 5: shared-identity connection lists (13 kinds of twin connection sharing peer ID, node DID, address or Peer.Key() with a participant x 5 registration/reconnect histories), every query type over every connection.",
    "C16": "Extended: three-credential service (clause x position x neighbour expiry), hosted did:web identities whose documents fail and heal between client passes, mixes of never/now/later verifiable entries on two services. Round 5: real expiry (4-6 s entries, stopwatch-guarded wait, server still serving the unpruned successor) with an offered-to-poll oracle; 8 retraction defect classes + a directed retraction sweep per world; resets with the new last timestamp above / equal / below the stored one.",
    "C17": "Extended: one attacker key per JWK family (EC P-256/384/521, RSA, Ed25519, X25519, oct) in every private form, really signed, for every consumer; did:jwk kid of a private key; hosted did:web kid-other-party. Round 5: eighth consumer access-token-v1 (legacy introspect/verify endpoints) incl. a foreign-signer class (8 resolvable foreign signers) and a key-store fault dimension (decorated key store of the running node, 4 fault modes).",
    "C18": "Round 5: notable-port generator (scheme defaults, their neighbours and look-alikes, range boundaries) for every ported identifier, port sweep (57 notable ports x 9 path shapes x 14 host shapes; every port 1..65535 in thorough) through both round-trip laws, collapse monitor (two distinct in-class identifiers/URLs never convert to the same result).",
    "C19": "Extended to 79 entry points: hostile remote server behind the real caching HTTP clients (length/caching-header/cache-state grid, consumption bound), status-list refresh sequences, discovery client answers, PE descriptor x requirement x credential grid (also through discovery search and the token endpoint), DAG state x relation x clock grid in a child process with an allocation budget, key-shape x alg grid over 9 entry points.",
    "C20": "Extended: ~80 kinds of look-alike URL per JSON-LD allow-list/local-mapping entry on three routes incl. redirect/Link carriers; bystander option factors (http.cache.maxbytes, operational bundles); the real http.Engine.Configure per strictmode x cache size; StatusList2021 fetch and n2n token request as further outbound consumers; all flag orders around a command-line secret.",
}

NOT_BUILT_REASON = "check not built yet (see DESIGN.md section 5 for the planned monitor); not claimed until its check runs silently on the unchanged tree"

PLANNED = ["C%02d" % i for i in range(1, 21)]


def main():
    hooks = subprocess.run(["git", "-C", "/repo", "log", "--format=%h %s", "--grep=^verif hooks", "-E"],
                           stdout=subprocess.PIPE, text=True).stdout.strip().split("\n")
    hook_commits = [h.split()[0] for h in hooks if h]
    checks = []
    na = []
    for pid in PLANNED:
        c = CHECKS.get(pid)
        if c and os.path.isdir(os.path.join(ROOT, "harness", pid.lower())):
            checks.append({
                "property_id": pid,
                "quick_cmd": "./check %s quick" % pid,
                "thorough_cmd": "./check %s thorough" % pid,
                "evidence_file": "/verif/evidence/%s.json" % pid,
                "replay_cmd_template": "./check %s --replay {path}" % pid,
                "engine": "go-runtime-monitors",
                "level_claimed": {"category": c["cat"], "text": c["text"] + (" " + ADDENDA[pid] if pid in ADDENDA else ""), "design_ref": "DESIGN.md §" + c["sec"]},
                "level_note": c["note"],
                "technique": c["tech"],
            })
        else:
            na.append({"property_id": pid, "reason": NOT_BUILT_REASON})
    m = {
        "version": 1,
        "setup_cmd": "./check --build-all",
        "hooks": {
            "guard": "verif",
            "enable": "go test -c -race -tags verif (harness module /verif/harness with replace github.com/nuts-foundation/nuts-node => /repo)",
            "baseline_off_cmd": "cd /repo && GOFLAGS=-mod=mod GOPROXY=off GOSUMDB=off GOTOOLCHAIN=local go test -json -vet=off -count=1 -timeout 25m ./...",
            "source_commits": hook_commits,
            "add_only": True,
        },
        "engines": [{
            "name": "go-runtime-monitors", "path": "/verif/harness",
            "serves_properties": [c["property_id"] for c in checks],
            "kind_free_text": "Go test binaries built with -race -tags verif against /repo's working tree: real components driven by seeded generators, "
                              "verifhook scheduler/fault injection, crash workers, reference-model and history oracles (porcupine where linearizability-shaped)",
        }],
        "checks": checks,
        "not_applicable": na,
        "notes": "All checks: exit 0 held / exit 1 + VIOLATION line / exit 2 check broken or inconclusive as a whole. Known findings: /verif/known_findings.json. "
                 "Race-detector reports gate only schedule-quantified properties (C05,C06,C07,C08,C11,C16).",
    }
    with open(os.path.join(ROOT, "MANIFEST.json"), "w") as f:
        json.dump(m, f, indent=1)
    print("claimed:", [c["property_id"] for c in checks])


if __name__ == "__main__":
    main()
