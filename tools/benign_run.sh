#!/bin/sh
# Runs the check of each property-preserving change under /verif/benign/<cXX-name>/ (patch.diff) and reports whether it
# stayed silent: tools/benign_run.sh [glob]   e.g. tools/benign_run.sh 'c02-*'
cd /verif
for d in benign/${1:-*}/; do
  n=$(basename "$d"); P=$(echo "$n" | cut -c1-3 | tr a-z A-Z)
  out=$(tools/mutrun.sh "$P" "$d/patch.diff" quick 2>&1); rc=$(echo "$out" | sed -n 's/^mutrun: check .* exited //p')
  v=$(echo "$out" | grep -c '^VIOLATION'); b=$(echo "$out" | grep -c '^BROKEN')
  echo "BENIGN $n: exit=$rc violations=$v broken=$b"
  [ -z "$rc" ] && echo "$out" | tail -5 | cut -c1-300
  [ "$rc" != "0" ] && echo "$out" | grep -E '^(VIOLATION|BROKEN|INCONCLUSIVE)' | cut -c1-300 | head -6
done
