#!/bin/sh
# Independently confirms a seeded change: tools/confirm_seed.sh <seeded-dir> <package-dir-of-demo> [demo-test-regex]
#  1. scratch worktree of /repo HEAD; demo WITHOUT the patch must pass
#  2. patch applied: touched packages build, their existing tests pass (without the demo), demo must FAIL
# Prints a CONFIRM line; the worktree and its build output are removed afterwards.
set -u
export GOFLAGS=-mod=mod GOPROXY=off GOSUMDB=off GOTOOLCHAIN=local
SEED=$(realpath "$1"); PKG=$2; RX=${3:-Seed|Demo}
T=$(mktemp -d /tmp/confirm-XXXXXX)
trap 'git -C /repo worktree remove --force "$T/wt" >/dev/null 2>&1; rm -rf "$T"' EXIT
git -C /repo worktree add -q --detach "$T/wt" HEAD || exit 2
cd "$T/wt"
cp "$SEED/demo_test.go" "$PKG/zz_seed_demo_test.go"
go test -count=1 -run "$RX" "./$PKG/" > "$T/without.txt" 2>&1; R_WITHOUT=$?
rm "$PKG/zz_seed_demo_test.go"
git apply "$SEED/patch.diff" || { echo "CONFIRM $(basename $SEED): patch does not apply"; exit 2; }
PKGS=$(git diff --name-only | xargs -n1 dirname | sort -u | sed 's|^|./|')
go build $PKGS > "$T/build.txt" 2>&1; R_BUILD=$?
go test -count=1 $PKGS > "$T/existing.txt" 2>&1; R_EXIST=$?
cp "$SEED/demo_test.go" "$PKG/zz_seed_demo_test.go"
go test -count=1 -run "$RX" "./$PKG/" > "$T/with.txt" 2>&1; R_WITH=$?
echo "CONFIRM $(basename $SEED): demo_without_patch=$R_WITHOUT(want 0) build=$R_BUILD(want 0) existing_tests=$R_EXIST(want 0) demo_with_patch=$R_WITH(want !=0) packages=$PKGS"
[ $R_EXIST -ne 0 ] && grep -E "^(--- FAIL|FAIL|ok)" "$T/existing.txt" | head -10
[ $R_WITHOUT -ne 0 ] && tail -15 "$T/without.txt"
[ $R_WITH -eq 0 ] && tail -5 "$T/with.txt"
[ $R_WITHOUT -eq 0 ] && [ $R_BUILD -eq 0 ] && [ $R_EXIST -eq 0 ] && [ $R_WITH -ne 0 ]
