#!/usr/bin/env python3
"""mkmut.py <out.diff> <repo-relative-file> <old> <new> : writes a unified diff (-p1) that replaces the first occurrence of <old> by <new> in /repo/<file>."""
import sys, difflib
out, rel, old, new = sys.argv[1:5]
src = open('/repo/' + rel).read()
if old not in src:
    sys.exit("pattern not found in " + rel)
dst = src.replace(old, new, 1)
d = difflib.unified_diff(src.splitlines(True), dst.splitlines(True), 'a/' + rel, 'b/' + rel)
open(out, 'w').write(''.join(d))
print("wrote", out)
