#!/usr/bin/env python3
# tools/str_prompt.py Cxx seed-dir [seed-dir ...]  -> prompt for a strengthening agent (has access to /verif)
import json, sys
pid = sys.argv[1]; seeds = sys.argv[2:]
lc = pid.lower()
desc = []
for s in seeds:
    m = json.load(open('/verif/seeded/%s/meta.json' % s))
    desc.append("  * /verif/seeded/%s/ — %s\n      breaks: %s\n      needs: %s" % (s, m.get('title', ''), str(m.get('what_it_breaks', ''))[:600], str(m.get('needs_to_manifest', ''))[:600]))
print(f"""You are strengthening an existing runtime-monitoring check for nuts-node (Go, repository at /repo). The check of property {pid} lives in /verif/harness/{lc}/ and is run with `cd /verif && ./check {pid} quick` (exit 0 held / 1 VIOLATION / 2 broken). First read /verif/AGENT_GUIDE.md completely (rules, environment — every shell call needs `export GOFLAGS=-mod=mod GOPROXY=off GOSUMDB=off GOTOOLCHAIN=local` —, shared library, allowed /repo changes), then property {pid} in /verif/properties.jsonl, the `### {pid}` section of /verif/DESIGN.md, and the check's sources.

Independent developers seeded the following realistic regressions (each compiles and passes the repository's own tests; each has patch.diff, demo_test.go and meta.json in its directory). The {pid} check as it stands does NOT detect them (`cd /verif && tools/mutrun.sh {pid} seeded/<dir>/patch.diff quick` ends with exit 0, or with exit 2 "broken" instead of a VIOLATION):

{chr(10).join(desc)}

Your task: widen the check's WORKLOAD and/or ORACLE so that the whole clause of the property that each of these regressions violates is exercised — not a special case for the patch. Think about which class of input / fault / sequence / configuration the check never produces (that is why it missed) and add that class with reasonable breadth (several variants, positions, neighbours), so that sibling regressions of the same kind would be caught too. The oracle must stay a refutation condition taken from the property TEXT; where the text is silent use r.Unspecified. Runtime monitoring only: observe executions of the real code (real packages or the full in-process node), no static scans. If a fault must be injected, inject it at a real seam (a decorating store / SQL hook or trigger / failing io / the existing `verifhook.Point|Fault` points; new hook lines in /repo only as the guide allows: single added lines behind the `verif` build tag mechanism, or a new `verif_export.go`).

Acceptance:
 1. `VERIF_SEED=n ./check {pid} quick` is silent (exit 0; KNOWN-FINDING lines allowed) on the unchanged tree for n = 1, 2, 3, 7, 42, and `./check {pid} thorough` still exits 0. Quick tier should stay under ~2.5 min wall.
 2. `tools/mutrun.sh {pid} seeded/<dir>/patch.diff quick` exits 1 with a VIOLATION line (stable key `{pid}/<class>/<site>`) for each seed above. A run that ends "broken" (exit 2) does not count as detection — if the regression makes your calibration fail, judge calibration AFTER the matrix or turn the calibration failure into a property violation only if the property text itself is violated by what you observed.
 3. The earlier seeds of this property must still be caught (spot-check two of /verif/seeded/{lc}-*/ with mutrun) and the existing behaviour of the check must not be weakened.
 4. If the new workload exposes a violation on the UNCHANGED tree: triage by reading the code. Genuine defect with a small, safe repair → apply it in the /repo working tree (minimal, additive; run `go test -count=1 ./<pkg>/...` of the touched packages), do NOT commit, and report it; genuine but not small → propose a known-finding entry {{property,key,status:"open",what}} (do not edit known_findings.json yourself); false alarm → correct your oracle.
Do not edit files outside /verif/harness/{lc}/ (new files there are welcome; new packages under /verif/harness/lib/ are allowed) apart from the permitted /repo hook lines. Do not git commit anywhere. Other agents work concurrently on other properties' directories and the machine is loaded: be patient with build times and never `go build ./...` in /repo. Time budget: about 45 minutes; if one of the seeds cannot be reached in that time, finish the other(s) cleanly and say so. Final report ≤ 35 lines: what class of workload/oracle was added, files touched, /repo hook lines or fixes (file + line), counts observed, seeds tried, result of mutrun for each seed (violation keys), any violation on the unchanged tree with triage.""")
