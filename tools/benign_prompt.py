import json,sys
pid=sys.argv[1]
for ln in open('/verif/properties.jsonl'):
    p=json.loads(ln)
    if p['id']==pid: break
wt='/tmp/benign-'+pid.lower()
print(f"""You are given a Go repository (nuts-node: a decentralized-identity server) as a git worktree at {wt}. Work ONLY inside {wt}. Do NOT read, list or touch /verif or /repo (other people's work; looking there would invalidate this exercise). Environment for every shell call: `export GOFLAGS=-mod=mod GOPROXY=off GOSUMDB=off GOTOOLCHAIN=local` (no network; Go 1.23). Do not run `go mod tidy`; if go.sum gets modified, `git checkout go.sum`. The machine is shared and busy: run only the tests of the packages you touch, not the whole suite.

A semantic property of this code base that users rely on:

  {p['id']} — {p['title']}
  Statement: {p['statement']}
  Quantifier: {p['quantifier']['text']}
  Code it is anchored in: {', '.join(p['anchors']['files'])}

(Ignore `verifhook.Point(...)`/`verifhook.Fault(...)` calls and files with `//go:build verif`: inert instrumentation, not part of the product. Do not use, move or modify them: keep every such call exactly where it is relative to the statements around it.)

Your task: play the role of a maintainer who makes ordinary, legitimate changes to the code this property is anchored in — changes after which the property STILL HOLDS. A verification tool will be run against your changes; it must stay silent on them, and we want to find out whether it raises false alarms. So make changes that alter observable-but-unspecified behaviour or internal structure as much as a real maintenance commit would, without violating any clause of the statement. Produce FOUR different changes (each 5–60 lines, different kinds), for example:
  - a refactoring that restructures the anchored functions (extract/inline a function, reorder independent checks, replace a loop by a map lookup, change internal data structures, rename unexported identifiers);
  - reworded error messages and log lines, different wrapping of errors, a different (still appropriate) HTTP status code or OAuth error code for a REJECTED request where the statement does not prescribe one;
  - a stricter check that the statement allows (rejecting some more malformed inputs earlier), an additional defensive re-check, an added lock or a wider critical section;
  - a performance change that keeps the result: caching with correct invalidation, early exit that is really equivalent, batching, a different but valid iteration order where order is not specified, extra fields in a response, different default for a tunable the statement does not fix (time-to-live, page size, retry interval) within what the statement allows.
Each change must (a) compile (`go build` and `go vet` of the touched packages), (b) keep the EXISTING tests of every package you touch passing, unedited, and (c) keep the property true — argue briefly why for each clause it could touch. Do not make no-op changes (comments/whitespace only) and do not touch test files.

For each change i deliver in {wt}/BENIGN/{pid.lower()}-<short-name>/ :
  - `patch.diff`: `git diff` output (-p1 relative to the repository root) of the change only (each patch applies on its own to the clean tree);
  - `meta.json`: {{"property": "{pid}", "title": "<one line>", "kind": "refactor|wording|stricter|performance|tunable|other", "why_property_still_holds": "<argument>", "observable_differences": "<what a black-box observer could notice>", "packages_touched": [...], "commands_run": [...], "existing_tests_pass": true}}.
At the end leave the worktree CLEAN of your source changes (`git checkout -- .`) — only the BENIGN/ directory remains. Your final message: for each change 3–5 lines: what, where, observable differences, why the property still holds, results of (a),(b).""")
