#!/usr/bin/env python3
"""stage_hunks.py <repo-relative-file> <regex> : stages (git apply --cached) only those hunks of `git -C /repo diff <file>` whose text matches the regex."""
import re, subprocess, sys, tempfile
f, rx = sys.argv[1], re.compile(sys.argv[2], re.S)
d = subprocess.run(["git", "-C", "/repo", "diff", f], stdout=subprocess.PIPE, text=True).stdout
head, *hunks = re.split(r'(?m)^(?=@@ )', d)
keep = [h for h in hunks if rx.search(h)]
if not keep:
    sys.exit("no hunk matches")
with tempfile.NamedTemporaryFile("w", suffix=".diff", delete=False) as t:
    t.write(head + "".join(keep))
r = subprocess.run(["git", "-C", "/repo", "apply", "--cached", "--recount", t.name])
print("staged %d of %d hunks of %s" % (len(keep), len(hunks), f))
sys.exit(r.returncode)
