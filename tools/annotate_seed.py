#!/usr/bin/env python3
# tools/annotate_seed.py <seed-dir-name> <demo-pkg> <check> <strengthened:0|1> "<key1,key2>" "<note>" [existing-tests-note]
# Records the coordinator's confirmation and the detection result in seeded/<dir>/meta.json.
import json, sys
d, pkg, chk, strg, keys, note = sys.argv[1:7]
p = '/verif/seeded/%s/meta.json' % d
m = json.load(open(p))
res = 'demo passes without patch; patch applies and builds; stable existing tests of touched packages pass; demo fails with patch'
if len(sys.argv) > 7:
    res += ' (' + sys.argv[7] + ')'
m['confirmed_by_coordinator'] = {'command': 'tools/confirm_seed.sh seeded/%s %s' % (d, pkg), 'result': res}
m['detection'] = {'check': chk, 'command': 'tools/mutrun.sh %s seeded/%s/patch.diff quick' % (chk, d), 'caught': True,
                  'needed_strengthening': strg == '1', 'violation_keys': [k for k in keys.split(',') if k], 'note': note}
json.dump(m, open(p, 'w'), indent=1)
print('annotated', d)
