#!/bin/bash
# tools/process_seed.sh <seed-worktree> <Cxx> [demo-pkg-override]
# Collects every SEED/<name>/ of a seeder's worktree into /verif/seeded/<name>/, confirms it
# (tools/confirm_seed.sh) and runs the property's quick check against it (tools/mutrun.sh).
# One summary line per seed: PROCESSED <name> confirm=<rc> check=<rc> keys=<violation keys>
WT=$1; ID=$2; PKGOVR=${3:-}
cd /verif || exit 2
for d in "$WT"/SEED/*/; do
  [ -d "$d" ] || continue
  name=$(basename "$d")
  mkdir -p "/verif/seeded/$name"
  cp -r "$d"/* "/verif/seeded/$name/"
  S="/verif/seeded/$name"
  if [ ! -f "$S/demo_test.go" ]; then
    f=$(ls "$S"/*_test.go 2>/dev/null | head -1); [ -n "$f" ] && cp "$f" "$S/demo_test.go"
  fi
  pkg=$PKGOVR
  if [ -z "$pkg" ]; then
    pkg=$(python3 - "$S" <<'E'
import json,re,sys,os
S=sys.argv[1]
try: m=json.load(open(S+'/meta.json'))
except Exception: m={}
txt=json.dumps(m)
src=open(S+'/demo_test.go').read() if os.path.exists(S+'/demo_test.go') else ''
pk=re.search(r'^package (\w+)',src,re.M)
pk=pk.group(1) if pk else ''
cands=[]
for k in ('demo','demo_location','demo_package','demo_dir','demonstration'):
    v=m.get(k)
    if isinstance(v,str): cands+=re.findall(r'([a-z0-9_]+(?:/[a-z0-9_]+)*)/?',v)
cands+= [p.strip('./') for p in m.get('packages_touched',[]) if isinstance(p,str)]
cands=[c.replace('github.com/nuts-foundation/nuts-node/','') for c in cands]
best=''
for c in cands:
    if os.path.isdir('/repo/'+c) and (not pk or c.split('/')[-1]==pk.replace('_test','') or pk.replace('_test','') in c.split('/')[-1]):
        best=c;break
if not best:
    for c in cands:
        if os.path.isdir('/repo/'+c): best=c;break
print(best)
E
)
  fi
  rx=$(grep -o '^func Test[A-Za-z0-9_]*' "$S/demo_test.go" | sed 's/^func //' | sort -u | tr '\n' '|' | sed 's/|$//'); rx="^(${rx:-TestDemo})\$"
  tools/confirm_seed.sh "seeded/$name" "$pkg" "$rx" > "/tmp/proc-$name.confirm.log" 2>&1; crc=$?
  tools/mutrun.sh "$ID" "seeded/$name/patch.diff" quick > "/tmp/proc-$name.check.log" 2>&1; mrc=$?
  keys=$(grep -ao 'VIOLATION property=[A-Z0-9]* replay=[^ ]* key=[^ ]*' "/tmp/proc-$name.check.log" | sed 's/.*key=//' | sort -u | head -8 | tr '\n' ',')
  echo "PROCESSED $name pkg=$pkg confirm=$crc check=$mrc keys=$keys"
  grep -a '^CONFIRM' "/tmp/proc-$name.confirm.log"
done
