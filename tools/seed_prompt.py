import json,sys
pid=sys.argv[1]
for ln in open('/verif/properties.jsonl'):
    p=json.loads(ln)
    if p['id']==pid: break
wt='/tmp/seed-'+pid.lower()
# round 2+: optional second argument "r2" -> other worktree name and a list of changes that already exist (titles only)
import glob,os
taken=''
if len(sys.argv)>2:
    wt='/tmp/seed-'+pid.lower()+'-'+sys.argv[2]
    titles=[]
    for m in sorted(glob.glob('/verif/seeded/'+pid.lower()+'-*/meta.json')):
        try:
            d=json.load(open(m)); titles.append('  - '+os.path.basename(os.path.dirname(m))+': '+str(d.get('title',''))[:200]+' [needs: '+str(d.get('needs_to_manifest',''))[:160]+']')
        except Exception: pass
    if titles:
        taken='\nOther developers have ALREADY delivered the following changes for this property. Produce DIFFERENT ones: other code sites, other mechanisms, other clauses of the statement where possible (prefer clauses not touched below):\n'+'\n'.join(titles)+'\n'
print(f"""You are given a Go repository (nuts-node: a decentralized-identity server) as a git worktree at {wt}. Work ONLY inside {wt}. Do NOT read, list or touch /verif or /repo (other people's work; looking there would invalidate this exercise). Environment for every shell call: `export GOFLAGS=-mod=mod GOPROXY=off GOSUMDB=off GOTOOLCHAIN=local` (no network; Go 1.23). Do not run `go mod tidy`; if go.sum gets modified, `git checkout go.sum`. The machine is shared and busy: run only the tests of the packages you touch, not the whole suite.

A semantic property of this code base that users rely on:

  {p['id']} — {p['title']}
  Statement: {p['statement']}
  Quantifier: {p['quantifier']['text']}
  Why the existing tests cannot settle it: {p['why_tests_cant']}
  Code it is anchored in: {', '.join(p['anchors']['files'])}

(Ignore `verifhook.Point(...)`/`verifhook.Fault(...)` calls and files with `//go:build verif`: inert instrumentation, not part of the product. Do not use or modify them.)

{taken}
Your task: play the role of a developer who introduces a realistic, plausible-looking bug. Produce TWO different changes (different mechanisms, different code sites) to nuts-node, each of which BREAKS this property while
  (a) the code still compiles (`go build ./...` of the touched packages and `go vet` of them),
  (b) the EXISTING tests of every package you touch still pass, unedited (`go test -count=1 ./<pkg>/...`) — you may not modify, delete or skip tests,
  (c) it needs something SPECIFIC to manifest: a particular interleaving, a crash or fault at a particular point, a multi-step sequence of operations, an unusual input, or two cooperating sites that each look fine alone. NOT something ordinary use would expose at once, and not a change that makes the feature obviously dead.
Prefer changes a code reviewer could wave through (an off-by-one, a dropped re-check, a condition narrowed or widened, a lock released early, a wrong variable, an error swallowed, an optimisation that skips a step in a rare case). Keep each change small (1–15 lines).

For each change i ∈ {{1,2}} deliver in {wt}/SEED/{pid.lower()}-<short-name>/ (use short names different from the ones listed above) :
  - `patch.diff`: `git diff` output (-p1 relative to the repository root) of the change only;
  - a DEMONSTRATION: a Go test file `demo_test.go` (say in which package directory it must be placed) or a small program, that FAILS with the change applied and PASSES without it — actually run it both ways and record the outputs;
  - `meta.json`: {{"property": "{pid}", "title": "<one line>", "what_it_breaks": "<which clause of the statement>", "needs_to_manifest": "<the specific input/interleaving/fault/sequence>", "packages_touched": [...], "commands_run": [...], "existing_tests_pass": true, "demo_fails_with_patch": true, "demo_passes_without_patch": true}}.
At the end leave the worktree CLEAN of your source change (`git checkout -- .` for tracked files; remove demo files you placed in package directories) — only the SEED/ directory remains. Your final message: for each change 5–8 lines: what, where, why it breaks the property, what it needs to manifest, and the results of (a),(b) and the demo both ways.""")
