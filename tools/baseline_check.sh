#!/bin/sh
# Runs the repository's own test suite (guard OFF, no build tag) on a scratch checkout of /repo's HEAD
# and compares the result with the stable-pass list of /root/.vp/BASELINE.json.
# Usage: tools/baseline_check.sh [pkg-pattern ...]   (default ./...)
# Everything lives under a temp dir that is removed afterwards.
set -e
PATCH=${PATCH:+$(realpath "$PATCH")}
export GOFLAGS=-mod=mod GOPROXY=off GOSUMDB=off GOTOOLCHAIN=local
T=$(mktemp -d /tmp/baseline-XXXXXX)
trap 'git -C /repo worktree remove --force "$T/wt" >/dev/null 2>&1; rm -rf "$T"' EXIT
git -C /repo worktree add -q --detach "$T/wt" HEAD
PKGS=${*:-./...}
# optional: PATCH=<file> applies a patch (-p1) to the scratch checkout first (used to judge seeded changes against the stable baseline)
if [ -n "${PATCH:-}" ]; then (cd "$T/wt" && git apply "$(realpath "$PATCH")") || exit 2; fi
(cd "$T/wt" && go test -json -vet=off -count=1 -timeout 25m $PKGS > "$T/out.json" 2>"$T/err.txt") || true
python3 - "$T/out.json" <<'EOF'
import json, sys
res = {}
for ln in open(sys.argv[1], errors="replace"):
    try:
        e = json.loads(ln)
    except Exception:
        continue
    if e.get("Action") in ("pass", "fail", "skip") and e.get("Test"):
        res[e["Package"] + "::" + e["Test"]] = e["Action"]
base = json.load(open("/root/.vp/BASELINE.json"))
stable = base["stable_pass"]
pk = set(k.split("::")[0] for k in res)
rel = [s for s in stable if s.split("::")[0] in pk]
bad = [s for s in rel if res.get(s) != "pass"]
print("tests run: %d, stable-pass tests in the packages run: %d, of which not passing now: %d" % (len(res), len(rel), len(bad)))
for b in bad[:60]:
    print("  NOT PASSING:", b, res.get(b, "missing"))
sys.exit(1 if bad else 0)
EOF
