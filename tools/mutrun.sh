#!/bin/sh
# Runs a check against a scratch copy of /repo (current working tree incl. uncommitted hook
# changes) with a patch applied: tools/mutrun.sh <Cxx> <patch.diff> [quick|thorough] [seed]
# Everything (repo copy, /verif copy, build output) lives in a temp dir that is removed afterwards.
# Exit status = the check's exit status (1 = the mutation was detected).
set -e
ID=$1; PATCH=$(realpath "$2"); TIER=${3:-quick}; SEED=${4:-1}
T=$(mktemp -d /tmp/mutrun-XXXXXX)
trap 'rm -rf "$T"' EXIT
rsync -a --exclude .git /repo/ "$T/repo/"
(cd "$T/repo" && (git apply --unsafe-paths -p1 "$PATCH" 2>/dev/null || patch -s -p1 < "$PATCH"))
rsync -a --exclude bin --exclude logs --exclude replay --exclude evidence --exclude .git /verif/ "$T/verif/"
set +e
VERIF_REPO="$T/repo" VERIF_ROOT="$T/verif" VERIF_SEED=$SEED "$T/verif/check" "$ID" "$TIER"
RC=$?
echo "mutrun: check $ID exited $RC"
exit $RC
