// Check C15: private transaction payloads go only to authenticated listed participants.
//
// Real v2 protocol instances over real dag.State (bbolt), real PAL encryption/decryption (dag.PAL.Encrypt /
// EncryptedPAL.Decrypt, ECIES) with real keys in real key stores and a DID document resolver that serves generated did:nuts
// documents (environment fake). Peers are grpc.VerifConnections: every envelope the node hands to Connection.Send is
// captured as wire bytes and scanned for the unique random marker that each private payload is (taint scan). The payload
// store is compared before/after every inbound message. The real tlsAuthenticator is fed generated certificates and DID
// documents.
//
// c15_widen_test.go holds the multi-step phases: known transactions re-delivered in TransactionList messages, transactions
// re-using the payload hash of a private transaction, the node's own CreateTransaction over participant key situations,
// and payload queries while the node's own DID document is deactivated/unresolvable.
//
// c15_stream_test.go: stream set-up on a node behind a TLS terminator (real connection manager, offloading interceptor,
// tlsAuthenticator and v2 stream over a loopback socket); the identity of the connection and the answer to a payload query.
package c15

import (
	"bytes"
	"context"
	"crypto/ecdsa"
	"crypto/elliptic"
	crand "crypto/rand"
	"crypto/x509"
	"crypto/x509/pkix"
	"encoding/base64"
	"encoding/hex"
	"errors"
	"fmt"
	"io"
	"math/big"
	"math/rand"
	"net"
	"os"
	"runtime/debug"
	"sort"
	"strings"
	"sync"
	"testing"
	"time"

	ssi "github.com/nuts-foundation/go-did"
	"github.com/nuts-foundation/go-did/did"
	"github.com/nuts-foundation/go-stoabs"
	"github.com/nuts-foundation/nuts-node/audit"
	nutscrypto "github.com/nuts-foundation/nuts-node/crypto"
	"github.com/nuts-foundation/nuts-node/crypto/hash"
	"github.com/nuts-foundation/nuts-node/network/dag"
	"github.com/nuts-foundation/nuts-node/network/transport"
	"github.com/nuts-foundation/nuts-node/network/transport/grpc"
	v2 "github.com/nuts-foundation/nuts-node/network/transport/v2"
	"github.com/nuts-foundation/nuts-node/network/transport/v2/gossip"
	"github.com/nuts-foundation/nuts-node/vdr/resolver"
	"github.com/sirupsen/logrus"
	"google.golang.org/protobuf/proto"
	"verif/lib/dagx"
	"verif/lib/ev"
)

const payloadType = "application/x-verif"

var sigTime = time.Unix(1700000000, 0)

// ---- environment: DID documents ------------------------------------------------------------------------------------

type docStore struct {
	mu          sync.RWMutex
	m           map[string]*did.Document
	deactivated map[string]bool  // latest version is deactivated: resolves only with AllowDeactivated (as the did:nuts store)
	fail        map[string]error // resolution of this DID fails with the given error
}

func (d *docStore) Resolve(id did.DID, md *resolver.ResolveMetadata) (*did.Document, *resolver.DocumentMetadata, error) {
	d.mu.RLock()
	defer d.mu.RUnlock()
	doc, ok := d.m[id.String()]
	if !ok {
		return nil, nil, resolver.ErrNotFound
	}
	if err := d.fail[id.String()]; err != nil {
		return nil, nil, err
	}
	if d.deactivated[id.String()] && (md == nil || !md.AllowDeactivated) {
		return nil, nil, resolver.ErrDeactivated
	}
	cp := *doc
	return &cp, &resolver.DocumentMetadata{Deactivated: d.deactivated[id.String()]}, nil
}

func (d *docStore) setDeactivated(id did.DID, v bool) {
	d.mu.Lock()
	if d.deactivated == nil {
		d.deactivated = map[string]bool{}
	}
	d.deactivated[id.String()] = v
	d.mu.Unlock()
}

func (d *docStore) setFail(id did.DID, err error) {
	d.mu.Lock()
	if d.fail == nil {
		d.fail = map[string]error{}
	}
	d.fail[id.String()] = err
	d.mu.Unlock()
}

// remove makes the DID unresolvable (ErrNotFound) and returns the document it had.
func (d *docStore) remove(id did.DID) *did.Document {
	d.mu.Lock()
	defer d.mu.Unlock()
	doc := d.m[id.String()]
	delete(d.m, id.String())
	return doc
}

func (d *docStore) put(doc *did.Document) {
	d.mu.Lock()
	d.m[doc.ID.String()] = doc
	d.mu.Unlock()
}

type kaKey struct {
	fragment string
	pub      any // public key (the node and peer identities use *ecdsa.PublicKey on P-256)
}

func mkDoc(id did.DID, keys []kaKey, services ...did.Service) *did.Document {
	doc := &did.Document{Context: []interface{}{did.DIDContextV1URI()}, ID: id}
	for _, k := range keys {
		vm, err := did.NewVerificationMethod(did.DIDURL{DID: id, Fragment: k.fragment}, ssi.JsonWebKey2020, id, k.pub)
		if err != nil {
			panic(err)
		}
		doc.AddKeyAgreement(vm)
	}
	doc.Service = append(doc.Service, services...)
	return doc
}

func nutsComm(id did.DID, endpoint any) did.Service {
	return did.Service{ID: ssi.MustParseURI(id.String() + "#nutscomm"), Type: transport.NutsCommServiceType, ServiceEndpoint: endpoint}
}

func newDID(rnd *rand.Rand, tag string) did.DID {
	b := make([]byte, 12)
	rnd.Read(b)
	return did.MustParseDID("did:nuts:" + tag + hex.EncodeToString(b))
}

func genKey() *ecdsa.PrivateKey {
	k, err := ecdsa.GenerateKey(elliptic.P256(), crand.Reader) // key values never influence verdicts
	if err != nil {
		panic(err)
	}
	return k
}

// ---- world: identities, transactions, ground truth -------------------------------------------------------------------

type txInfo struct {
	tx       dag.Transaction
	payload  []byte
	private  bool
	class    string          // public | pal{...} | hostile class
	listed   map[string]bool // ground truth: DIDs in the PAL plaintext (nil: no readable list)
	patterns [][]byte
	absent   bool // payload withheld from the nodes at set-up
	oldKey   bool // built before n4 rotated its keyAgreement key: n4 can no longer decrypt the list
	// aliasOf: this transaction was built by a party that does NOT hold the payload: it only copied the payload hash of
	// aliasOf (public in every transaction) under a participant list of its own. Its payload bytes are those of aliasOf;
	// the taint scan judges them by the participant list of aliasOf.
	aliasOf *txInfo
}

// ref names the transaction in witnesses ("" while/if CreateTransaction has not produced one for the payload).
func (t *txInfo) ref() string {
	if t.tx == nil {
		return ""
	}
	return t.tx.Ref().String()
}

func (t *txInfo) isListed(id did.DID) bool {
	return !id.Empty() && t.listed[id.String()]
}

type world struct {
	t    *testing.T
	r    *ev.Run
	rnd  *rand.Rand
	docs *docStore
	key  *dagx.Key
	ids  map[string]did.DID          // n1 n2 n4 P1 P2 P3 P4
	pubs map[string]*ecdsa.PublicKey // current keyAgreement key used for PAL encryption
	ks   map[string]*nutscrypto.Crypto
	txs  []*txInfo // initial DAG, topological order
	all  []*txInfo // every transaction the harness ever built (markers to scan for)
	byH  map[hash.SHA256Hash]*txInfo
	n    int

	// taint scan index over the patterns of every txInfo in all (same verdicts as bytes.Contains per pattern, one pass)
	patFilter [8192]byte                          // bitset over the first two bytes of every pattern
	patByHead map[uint16][]patRef                 // first two bytes -> patterns
	parsed    map[hash.SHA256Hash]dag.Transaction // transactions parsed from captured list entries, by sha256 of the entry data
}

type patRef struct {
	t   *txInfo
	pat []byte
}

// track adds a transaction (or a payload about to become one) to the set of markers the taint scan looks for.
func (w *world) track(ti *txInfo) {
	ti.patterns = encodings(ti.payload)
	w.all = append(w.all, ti)
	if ti.aliasOf != nil {
		return // same bytes as aliasOf
	}
	if w.patByHead == nil {
		w.patByHead = map[uint16][]patRef{}
	}
	for _, pat := range ti.patterns {
		if len(pat) < 2 {
			panic("marker pattern too short")
		}
		h := uint16(pat[0])<<8 | uint16(pat[1])
		w.patFilter[h>>3] |= 1 << (h & 7)
		w.patByHead[h] = append(w.patByHead[h], patRef{ti, pat})
	}
}

// scan returns the tracked transactions of which a payload encoding occurs in wire.
func (w *world) scan(wire []byte) map[*txInfo]bool {
	var hits map[*txInfo]bool
	for i := 0; i+1 < len(wire); i++ {
		h := uint16(wire[i])<<8 | uint16(wire[i+1])
		if w.patFilter[h>>3]&(1<<(h&7)) == 0 {
			continue
		}
		for _, p := range w.patByHead[h] {
			if bytes.HasPrefix(wire[i:], p.pat) {
				if hits == nil {
					hits = map[*txInfo]bool{}
				}
				hits[p.t] = true
			}
		}
	}
	return hits
}

func encodings(m []byte) [][]byte {
	set := map[string]bool{}
	var out [][]byte
	for _, e := range []string{string(m), hex.EncodeToString(m), strings.ToUpper(hex.EncodeToString(m)),
		base64.StdEncoding.EncodeToString(m), base64.URLEncoding.EncodeToString(m),
		base64.RawStdEncoding.EncodeToString(m), base64.RawURLEncoding.EncodeToString(m)} {
		if !set[e] {
			set[e] = true
			out = append(out, []byte(e))
		}
	}
	return out
}

func (w *world) marker() []byte {
	m := make([]byte, 24)
	w.rnd.Read(m)
	return m
}

// encryptFor builds a PAL header by hand: plaintext list, one ciphertext per key.
func encryptFor(plain []did.DID, keys ...*ecdsa.PublicKey) [][]byte {
	var parts []string
	for _, p := range plain {
		parts = append(parts, p.String())
	}
	var out [][]byte
	for _, k := range keys {
		c, err := nutscrypto.EciesEncrypt(k, []byte(strings.Join(parts, "\n")))
		if err != nil {
			panic(err)
		}
		out = append(out, c)
	}
	return out
}

func (w *world) register(ti *txInfo) *txInfo {
	w.track(ti)
	w.byH[ti.tx.Ref()] = ti
	return ti
}

func (w *world) newPublic(prevs ...dag.Transaction) *txInfo {
	p := w.marker()
	return w.register(&txInfo{tx: dagx.NewTx(w.key, true, p, payloadType, sigTime, nil, prevs...), payload: p, class: "public"})
}

// newHonest builds a private transaction with the production PAL encryption for the named participants.
func (w *world) newHonest(names []string, prevs ...dag.Transaction) *txInfo {
	var pal dag.PAL
	listed := map[string]bool{}
	for _, n := range names {
		pal = append(pal, w.ids[n])
		listed[w.ids[n].String()] = true
	}
	epal, err := pal.Encrypt(resolver.DIDKeyResolver{Resolver: w.docs})
	if err != nil {
		w.r.Fatalf("PAL.Encrypt: %v", err)
	}
	p := w.marker()
	return w.register(&txInfo{tx: dagx.NewTx(w.key, true, p, payloadType, sigTime, epal, prevs...), payload: p, private: true,
		class: "pal{" + strings.Join(names, ",") + "}", listed: listed})
}

func (w *world) newRaw(class string, pal [][]byte, listed []did.DID, prevs ...dag.Transaction) *txInfo {
	l := map[string]bool{}
	for _, d := range listed {
		l[d.String()] = true
	}
	p := w.marker()
	return w.register(&txInfo{tx: dagx.NewTx(w.key, true, p, payloadType, sigTime, pal, prevs...), payload: p, private: true, class: class, listed: l})
}

func (w *world) prevs(built []*txInfo) []dag.Transaction {
	if len(built) == 0 {
		return nil
	}
	out := []dag.Transaction{built[len(built)-1-w.rnd.Intn(min(len(built), 3))].tx}
	if len(built) > 2 && w.rnd.Intn(3) == 0 {
		o := built[len(built)-1-w.rnd.Intn(min(len(built), 4))].tx
		if !o.Ref().Equals(out[0].Ref()) {
			out = append(out, o)
		}
	}
	return out
}

var participants = []string{"n1", "n2", "n4", "P1", "P2", "P3"}

func newWorld(t *testing.T, r *ev.Run, idx int) *world {
	w := &world{t: t, r: r, rnd: r.Rand(fmt.Sprintf("world%d", idx)), docs: &docStore{m: map[string]*did.Document{}}, key: dagx.NewKey(""),
		ids: map[string]did.DID{}, pubs: map[string]*ecdsa.PublicKey{}, ks: map[string]*nutscrypto.Crypto{}, byH: map[hash.SHA256Hash]*txInfo{}, n: idx}
	// nodes under test with their own key stores
	for _, n := range []string{"n1", "n2", "n3", "n4"} {
		w.ks[n] = nutscrypto.NewMemoryCryptoInstance(t)
	}
	for _, n := range []string{"n1", "n4"} {
		id := newDID(w.rnd, n)
		w.ids[n] = id
		_, pub, err := w.ks[n].New(audit.TestContext(), nutscrypto.StringNamingFunc(id.String()+"#ka-0"))
		if err != nil {
			r.Fatalf("key store: %v", err)
		}
		w.pubs[n] = pub.(*ecdsa.PublicKey)
		w.docs.put(mkDoc(id, []kaKey{{"ka-0", w.pubs[n]}}, nutsComm(id, "grpc://"+n+".nodes.example:5555")))
	}
	// n2: document lists a keyAgreement key whose private key is not in n2's key store (key missing)
	// peers: keys exist only as public keys in their documents
	for _, n := range []string{"n2", "P1", "P2", "P3", "P4"} {
		id := newDID(w.rnd, n)
		w.ids[n] = id
		w.pubs[n] = &genKey().PublicKey
		w.docs.put(mkDoc(id, []kaKey{{"ka-0", w.pubs[n]}}, nutsComm(id, "grpc://"+n+".nodes.example:5555")))
	}

	// ---- initial DAG
	var built []*txInfo
	add := func(ti *txInfo) *txInfo { built = append(built, ti); return ti }
	add(w.newPublic())
	fixed := [][]string{{"n1", "P1"}, {"n1", "P2"}, {"n1", "P1", "P2"}, {"n1"}, {"P1"}, {"P1", "P2"}, {"n2", "P1"}, {"n4", "P1"},
		{"n1", "n2", "n4", "P1"}, {"n1", "P3"}, {"P3"}, {"n1", "n2", "n4", "P1", "P2", "P3"}}
	nRandom := r.Pick(2, 24)
	nPublic := r.Pick(3, 10)
	type mk func() *txInfo
	var makers []mk
	for _, f := range fixed {
		f := f
		makers = append(makers, func() *txInfo { return w.newHonest(f, w.prevs(built)...) })
	}
	for i := 0; i < nRandom; i++ {
		makers = append(makers, func() *txInfo {
			var s []string
			for _, p := range participants {
				if w.rnd.Intn(2) == 0 {
					s = append(s, p)
				}
			}
			if len(s) == 0 {
				s = []string{participants[w.rnd.Intn(len(participants))]}
			}
			return w.newHonest(s, w.prevs(built)...)
		})
	}
	for i := 0; i < nPublic; i++ {
		makers = append(makers, func() *txInfo { return w.newPublic(w.prevs(built)...) })
	}
	// payload withheld at set-up: delivered later through inbound TransactionPayload messages
	for i := 0; i < 6; i++ {
		makers = append(makers, func() *txInfo {
			ti := w.newHonest([]string{"n1", "n2", "n4", "P1"}, w.prevs(built)...)
			ti.absent = true
			ti.class += "/payload-absent"
			return ti
		})
	}
	// hostile / degenerate participant lists
	other := &genKey().PublicKey
	n1, n4, p1 := w.ids["n1"], w.ids["n4"], w.ids["P1"]
	garbage := func(n int) []byte { b := make([]byte, n); w.rnd.Read(b); return b }
	makers = append(makers,
		func() *txInfo {
			return w.newRaw("pal-garbage", [][]byte{garbage(113), garbage(7)}, nil, w.prevs(built)...)
		},
		func() *txInfo { return w.newRaw("pal-empty-entry", [][]byte{{}}, nil, w.prevs(built)...) },
		// the node can decrypt the list but is not on it
		func() *txInfo {
			return w.newRaw("pal-decryptable-unlisted{P1}", encryptFor([]did.DID{p1}, w.pubs["n1"], w.pubs["n4"]), []did.DID{p1}, w.prevs(built)...)
		},
		// the node is on the list but the list was encrypted with another key than its keyAgreement key (cannot decrypt)
		func() *txInfo {
			return w.newRaw("pal-listed-undecryptable{n1,n4,P1}", encryptFor([]did.DID{n1, n4, p1}, other), []did.DID{n1, n4, p1}, w.prevs(built)...)
		},
		// decryptable, but one entry is not a DID
		func() *txInfo {
			c, _ := nutscrypto.EciesEncrypt(w.pubs["n1"], []byte(n1.String()+"\nnot a did\n"+p1.String()))
			return w.newRaw("pal-invalid-participant", [][]byte{c}, []did.DID{n1, p1}, w.prevs(built)...)
		},
		// the same DID listed twice, extra whitespace-free duplicates
		func() *txInfo {
			return w.newRaw("pal-duplicate-entries{n1,P1}", encryptFor([]did.DID{n1, p1, p1, n1}, w.pubs["n1"], w.pubs["P1"]), []did.DID{n1, p1}, w.prevs(built)...)
		},
	)
	w.rnd.Shuffle(len(makers), func(i, j int) { makers[i], makers[j] = makers[j], makers[i] })
	for _, m := range makers {
		add(m())
	}
	w.txs = built
	for _, ti := range built {
		ti.oldKey = true
	}

	// n4 rotates its keyAgreement key: everything addressed to it so far can no longer be decrypted by it
	id4 := w.ids["n4"]
	_, pub, err := w.ks["n4"].New(audit.TestContext(), nutscrypto.StringNamingFunc(id4.String()+"#ka-1"))
	if err != nil {
		r.Fatalf("key store: %v", err)
	}
	w.pubs["n4"] = pub.(*ecdsa.PublicKey)
	w.docs.put(mkDoc(id4, []kaKey{{"ka-1", w.pubs["n4"]}}, nutsComm(id4, "grpc://n4.nodes.example:5555")))
	return w
}

// ---- node under test + its peers -------------------------------------------------------------------------------------------

type pconn struct {
	kind      string
	conn      *grpc.VerifConnection
	truthAuth bool    // ground truth: the peer's node DID was verified
	truthDID  did.DID // the DID the peer presents
	n         *node
	sent      []*v2.Envelope // captured since the last drain (decoded from the wire bytes)
}

type node struct {
	w     *world
	r     *ev.Run
	name  string // n1 (full) | n2 (key missing) | n3 (no node DID) | n4 (rotated key)
	id    did.DID
	dir   string
	db    stoabs.KVStore
	st    dag.State
	p     transport.Protocol
	list  *grpc.VerifConnectionList
	peers []*pconn
	cur   string // description of the message being handled (for witnesses)
	from  *pconn // the connection the message being handled arrived on (nil: the node acts on its own, e.g. gossip tick)

	dagXor  hash.SHA256Hash
	dagSet  map[hash.SHA256Hash]bool // payload hashes of the transactions in the DAG
	dagRefs map[hash.SHA256Hash]bool
	primed  bool
}

func envType(e *v2.Envelope) string {
	return strings.TrimPrefix(fmt.Sprintf("%T", e.Message), "*v2.Envelope_")
}

// relation of a peer to a transaction, as the property words it
func relation(c *pconn, t *txInfo) string {
	switch {
	case !c.truthAuth:
		return "unauthenticated"
	case t.isListed(c.truthDID):
		return "authenticated-listed"
	}
	return "authenticated-unlisted"
}

func (n *node) situation(t *txInfo) string {
	switch {
	case !t.private:
		return "public"
	case n.id.Empty():
		return "no-node-did"
	case t.listed == nil || len(t.listed) == 0:
		return "unreadable-list"
	case !t.isListed(n.id):
		if strings.HasPrefix(t.class, "pal-decryptable-unlisted") && (n.name == "n1") {
			return "unlisted-can-decrypt"
		}
		return "unlisted"
	case n.name == "n2":
		return "listed-key-missing"
	case n.name == "n4" && t.oldKey, strings.HasPrefix(t.class, "pal-listed-undecryptable"):
		return "listed-cannot-decrypt"
	case t.class == "pal-invalid-participant":
		return "listed-invalid-entry"
	}
	return "listed"
}

// onSend is the observation point: every envelope the node hands to Connection.Send.
func (n *node) onSend(c *pconn, envelope interface{}) error {
	env, ok := envelope.(*v2.Envelope)
	if !ok {
		n.r.Violation("C15/send/not-an-envelope", fmt.Sprintf("Send called with %T", envelope), nil)
		return nil
	}
	wire, err := proto.Marshal(env)
	if err != nil {
		n.r.Fatalf("marshal captured envelope: %v", err)
	}
	cp := &v2.Envelope{}
	if err := proto.Unmarshal(wire, cp); err != nil {
		n.r.Fatalf("unmarshal captured envelope: %v", err)
	}
	c.sent = append(c.sent, cp)
	typ := envType(cp)
	n.r.Count("captured/"+typ+"/"+c.kind, 1)
	n.r.Count("envelopes_captured", 1)
	n.r.Count("bytes_scanned", len(wire))
	if n.from != nil && n.from != c {
		n.r.Count("sent_over_another_connection_than_the_message_came_in_on/"+typ, 1)
	}

	// taint scan over the wire bytes
	hits := n.w.scan(wire)
	n.r.Count("marker_scans", len(n.w.all))
	for _, t := range n.w.all {
		// (a transaction re-using the payload hash of another one, aliasOf, is not tracked itself: same bytes, and the
		// participant list of aliasOf decides)
		if !hits[t] {
			continue
		}
		if !t.private {
			n.r.Count("public_marker_hits/"+typ, 1)
			continue
		}
		n.r.Count("private_marker_hits/"+typ+"/"+relation(c, t), 1)
		witness := map[string]any{"node": n.name, "node_did": n.id.String(), "peer_kind": c.kind, "peer": c.conn.Peer().String(), "peer_authenticated_truth": c.truthAuth,
			"sent_over_the_connection_the_query_arrived_on": n.from == nil || n.from == c,
			"envelope_type": typ, "transaction": t.ref(), "transaction_class": t.class, "participants": keys(t.listed), "while_handling": n.cur,
			"envelope_hex_head": hex.EncodeToString(wire[:min(len(wire), 200)])}
		if typ != "TransactionPayload" {
			n.r.Violation("C15/leak/"+typ, fmt.Sprintf("payload of private transaction (%s) carried by a %s message to peer %s", t.class, typ, c.kind), witness)
			continue
		}
		// the response names the transaction it answers for: another transaction than t with t's payload hash?
		via := n.w.byH[hash.FromSlice(cp.GetTransactionPayload().TransactionRef)]
		if via != nil && via.aliasOf == t {
			witness["answered_for_transaction"] = via.tx.Ref().String()
			witness["answered_for_transaction_class"] = via.class
			witness["answered_for_transaction_participants"] = keys(via.listed)
			witness["payload_hash"] = t.tx.PayloadHash().String()
		}
		switch {
		case via != nil && via.aliasOf == t && c.truthAuth && via.isListed(c.truthDID) && !t.isListed(c.truthDID):
			// the peer passes every check for the transaction it asked for; the bytes it receives are those of t
			n.r.Violation("C15/leak/TransactionPayload/other-transaction-with-same-payload-hash", fmt.Sprintf("private payload (%s) sent by %s to authenticated peer %s that is not on its participant list, "+
				"in answer to a query for another transaction (%s) that carries the same payload hash and lists the peer", t.class, n.name, c.kind, via.class), witness)
		case !c.truthAuth:
			n.r.Violation("C15/leak/TransactionPayload/peer-unauthenticated", fmt.Sprintf("private payload (%s) sent by %s over unauthenticated connection %s", t.class, n.name, c.kind), witness)
		case !t.isListed(c.truthDID):
			n.r.Violation("C15/leak/TransactionPayload/peer-not-listed", fmt.Sprintf("private payload (%s) sent by %s to authenticated peer %s that is not on the participant list", t.class, n.name, c.kind), witness)
		case n.id.Empty():
			n.r.Violation("C15/leak/TransactionPayload/sender-without-node-did", fmt.Sprintf("private payload (%s) sent by a node without node DID", t.class), witness)
		case !t.isListed(n.id):
			n.r.Violation("C15/leak/TransactionPayload/sender-not-listed", fmt.Sprintf("private payload (%s) sent by node %s that is not on the participant list itself (to listed peer %s)", t.class, n.name, c.kind), witness)
		default:
			n.r.Count("private_payload_delivered_to_listed_peer_by_listed_node", 1)
			if n.from != nil && n.from != c {
				// the property constrains the connection a payload leaves on, not that it is the one the query came in on
				n.r.Unspecified("private payload answered over another authenticated connection of a listed participant than the one that asked")
			}
		}
	}

	// structure: a transaction list never carries a payload for a transaction with a PAL (whatever the payload bytes are)
	if tl := cp.GetTransactionList(); tl != nil {
		for _, e := range tl.Transactions {
			dk := hash.SHA256Sum(e.Data)
			tx := n.w.parsed[dk]
			if tx == nil {
				var err error
				if tx, err = dag.ParseTransaction(e.Data); err != nil {
					n.r.Violation("C15/list/unparsable-transaction", "node sent a TransactionList entry that does not parse: "+err.Error(), nil)
					continue
				}
				if n.w.parsed == nil {
					n.w.parsed = map[hash.SHA256Hash]dag.Transaction{}
				}
				n.w.parsed[dk] = tx
			}
			n.r.Count("list_entries_inspected", 1)
			if len(tx.PAL()) > 0 {
				n.r.Count("list_entries_with_pal", 1)
				if len(e.Payload) > 0 {
					n.r.Violation("C15/list/payload-of-pal-transaction", fmt.Sprintf("TransactionList to %s carries a payload for a transaction with a participant list", c.kind),
						map[string]any{"node": n.name, "peer_kind": c.kind, "transaction": tx.Ref().String(), "while_handling": n.cur})
				}
			}
		}
	}
	return nil
}

func keys(m map[string]bool) []string {
	out := make([]string, 0, len(m))
	for k := range m {
		out = append(out, k)
	}
	sort.Strings(out)
	return out
}

func (w *world) newNode(name string) *node {
	dir, err := os.MkdirTemp("", "c15-"+name+"-")
	if err != nil {
		w.r.Fatalf("tmp: %v", err)
	}
	w.t.Cleanup(func() { os.RemoveAll(dir) })
	db, err := dagx.OpenStore(dir, false)
	if err != nil {
		w.r.Fatalf("store: %v", err)
	}
	n := &node{w: w, r: w.r, name: name, id: w.ids[name], dir: dir, db: db, list: grpc.NewVerifConnectionList()}
	n.st = dagx.NewState(db, dag.NewPrevTransactionsVerifier(), dag.NewTransactionSignatureVerifier(nil))
	cfg := v2.Config{Datadir: dir, PayloadRetryDelay: time.Hour, GossipInterval: 24 * 3600 * 1000, DiagnosticsInterval: 0}
	n.p = v2.New(cfg, n.id, n.st, w.docs, w.ks[name], func() transport.Diagnostics { return transport.Diagnostics{} }, db)
	v2.VerifAttach(n.p, n.list)
	if err := n.p.Configure(transport.PeerID("c15-" + name)); err != nil {
		w.r.Fatalf("configure: %v", err)
	}
	if err := n.p.Start(); err != nil {
		w.r.Fatalf("start: %v", err)
	}
	return n
}

func (n *node) close() {
	n.p.Stop()
	_ = n.st.Shutdown()
	_ = n.db.Close(context.Background())
}

func (n *node) connect(kind string, id did.DID, authenticated bool) *pconn {
	i := len(n.peers) + 1
	peer := transport.Peer{ID: transport.PeerID(fmt.Sprintf("peer-%s-%d", kind, i)), Address: fmt.Sprintf("10.9.%d.%d:5555", i/250, i%250), NodeDID: id, Authenticated: authenticated}
	return n.connectPeer(kind, peer, authenticated)
}

// connectPeer registers a connection whose peer information is exactly the given one; truthAuth is the ground truth about
// whether the presented node DID was verified.
func (n *node) connectPeer(kind string, peer transport.Peer, truthAuth bool) *pconn {
	c := &pconn{kind: kind, truthAuth: truthAuth, truthDID: peer.NodeDID, n: n}
	c.conn = grpc.NewVerifConnection(peer, func(_ grpc.Protocol, envelope interface{}, _ bool) error { return n.onSend(c, envelope) })
	n.list.Add(c.conn)
	n.peers = append(n.peers, c)
	v2.VerifPeerConnected(n.p, peer)
	return c
}

func (n *node) drain() {
	for _, c := range n.peers {
		c.sent = nil
	}
}

// ---- payload store observation ------------------------------------------------------------------------------------------

type storeSnap struct {
	content map[hash.SHA256Hash]hash.SHA256Hash // shelf key -> sha256(stored bytes)
	dag     map[hash.SHA256Hash]bool            // payload hashes of the transactions in the DAG
	refs    map[hash.SHA256Hash]bool
}

func (n *node) snapshot() storeSnap {
	s := storeSnap{content: map[hash.SHA256Hash]hash.SHA256Hash{}}
	err := n.db.ReadShelf(context.Background(), "payloads", func(rd stoabs.Reader) error {
		return rd.Iterate(func(k stoabs.Key, v []byte) error {
			s.content[hash.FromSlice(k.Bytes())] = hash.SHA256Sum(v)
			return nil
		}, stoabs.BytesKey{})
	})
	if err != nil {
		n.r.Fatalf("payload shelf: %v", err)
	}
	xor, _ := n.st.XOR(dag.MaxLamportClock)
	if !n.primed || !xor.Equals(n.dagXor) {
		txs, err := n.st.FindBetweenLC(context.Background(), 0, dag.MaxLamportClock)
		if err != nil {
			n.r.Fatalf("FindBetweenLC: %v", err)
		}
		n.dagSet, n.dagRefs = map[hash.SHA256Hash]bool{}, map[hash.SHA256Hash]bool{}
		for _, tx := range txs {
			n.dagSet[tx.PayloadHash()] = true
			n.dagRefs[tx.Ref()] = true
		}
		n.dagXor, n.primed = xor, true
	}
	s.dag, s.refs = n.dagSet, n.dagRefs
	return s
}

// api reads the payload store through the State API for the given hashes.
func (n *node) api(hashes []hash.SHA256Hash) map[hash.SHA256Hash]string {
	out := map[hash.SHA256Hash]string{}
	for _, h := range hashes {
		present, err := n.st.IsPayloadPresent(context.Background(), h)
		if err != nil {
			n.r.Fatalf("IsPayloadPresent: %v", err)
		}
		data, err := n.st.ReadPayload(context.Background(), h)
		if err != nil && !errors.Is(err, dag.ErrPayloadNotFound) {
			n.r.Fatalf("ReadPayload: %v", err)
		}
		if present != (len(data) > 0) {
			n.r.Violation("C15/store/api-disagrees", fmt.Sprintf("IsPayloadPresent=%v but ReadPayload returned %d bytes", present, len(data)), nil)
		}
		if present {
			out[h] = hash.SHA256Sum(data).String()
		} else {
			out[h] = ""
		}
	}
	return out
}

// deliver hands one inbound envelope (as it would come off the wire) to the synchronous handler and checks the payload store.
func (n *node) deliver(c *pconn, env *v2.Envelope, label string) (herr error, panicked bool) {
	wire, err := proto.Marshal(env)
	if err != nil {
		n.r.Fatalf("marshal: %v", err)
	}
	in := &v2.Envelope{}
	if err := proto.Unmarshal(wire, in); err != nil {
		n.r.Fatalf("unmarshal: %v", err)
	}
	typ := envType(in)
	n.cur = fmt.Sprintf("%s from %s: %s", typ, c.kind, label)
	n.from = c
	defer func() { n.from = nil }()
	// hashes of interest for the API comparison: everything this message could cause to be stored
	var interest []hash.SHA256Hash
	if tp := in.GetTransactionPayload(); tp != nil {
		interest = append(interest, hash.SHA256Sum(tp.Data), hash.FromSlice(tp.TransactionRef))
		if t := n.w.byH[hash.FromSlice(tp.TransactionRef)]; t != nil {
			interest = append(interest, t.tx.PayloadHash())
		}
	}
	if tl := in.GetTransactionList(); tl != nil {
		for _, e := range tl.Transactions {
			interest = append(interest, hash.SHA256Sum(e.Payload))
			if tx, err := dag.ParseTransaction(e.Data); err == nil {
				interest = append(interest, tx.PayloadHash())
			}
		}
	}
	before := n.snapshot()
	apiBefore := n.api(interest)
	n.drain()
	func() {
		defer func() {
			if rec := recover(); rec != nil {
				panicked = true
				fn := panicFunction(string(debug.Stack()))
				n.r.Violation("C15/panic/"+fn, fmt.Sprintf("panic while handling %s on node %s: %v", n.cur, n.name, rec),
					map[string]any{"node": n.name, "message": n.cur, "panic": fmt.Sprint(rec), "envelope_hex": hex.EncodeToString(wire[:min(len(wire), 400)])})
			}
		}()
		herr = v2.VerifHandleSync(n.p, c.conn, in)
	}()
	after := n.snapshot()
	apiAfter := n.api(interest)
	n.r.Count("handled/"+typ+"/"+c.kind, 1)
	n.r.Count("messages_handled", 1)
	n.r.Count("payload_store_comparisons", 1)

	witness := func(h hash.SHA256Hash) map[string]any {
		return map[string]any{"node": n.name, "message": n.cur, "store_key": h.String(), "handler_error": fmt.Sprint(herr), "envelope_hex": hex.EncodeToString(wire[:min(len(wire), 400)])}
	}
	for h, sum := range after.content {
		if prev, ok := before.content[h]; ok {
			if !prev.Equals(sum) {
				n.r.Violation("C15/store/overwritten/"+typ, fmt.Sprintf("stored payload %s changed content while handling %s", h, n.cur), witness(h))
			}
			continue
		}
		n.r.Count("payloads_stored/"+typ, 1)
		if !sum.Equals(h) {
			n.r.Violation("C15/store/hash-mismatch/"+typ, fmt.Sprintf("payload stored under %s hashes to %s (%s)", h, sum, n.cur), witness(h))
		}
		switch {
		case before.dag[h]:
			n.r.Count("payloads_stored_for_transaction_already_in_dag", 1)
		case after.dag[h] && typ == "TransactionList":
			// the transaction and its payload arrived in one message and were admitted in one write: the property speaks of
			// payloads for transactions already in the DAG; the hash was checked against the transaction admitted with it
			n.r.Unspecified("payload stored together with its transaction (TransactionList)")
		default:
			n.r.Violation("C15/store/no-transaction/"+typ, fmt.Sprintf("payload stored under %s although no transaction in the DAG has that payload hash (%s)", h, n.cur), witness(h))
		}
	}
	for h := range before.content {
		if _, ok := after.content[h]; !ok {
			n.r.Unspecified("stored payload removed while handling a message")
		}
	}
	for _, h := range interest {
		if apiBefore[h] == apiAfter[h] {
			continue
		}
		n.r.Count("api_store_changes", 1)
		// the State API must tell the same story as the shelf
		sum, ok := after.content[h]
		if !ok || sum.String() != apiAfter[h] {
			n.r.Violation("C15/store/api-disagrees", fmt.Sprintf("ReadPayload(%s) changed to sha256=%q but the payload shelf holds %v (%s)", h, apiAfter[h], ok, n.cur), witness(h))
		}
		if apiAfter[h] != h.String() {
			n.r.Violation("C15/store/hash-mismatch/"+typ, fmt.Sprintf("ReadPayload(%s) returns bytes hashing to %q after %s", h, apiAfter[h], n.cur), witness(h))
		}
		if !before.dag[h] && !(after.dag[h] && typ == "TransactionList") {
			n.r.Violation("C15/store/no-transaction/"+typ, fmt.Sprintf("ReadPayload(%s) became present although no transaction in the DAG has that payload hash (%s)", h, n.cur), witness(h))
		}
	}
	return herr, panicked
}

// panicFunction extracts the innermost nuts-node function from a stack (stable: no line numbers).
func panicFunction(stack string) string {
	for _, ln := range strings.Split(stack, "\n") {
		ln = strings.TrimSpace(ln)
		if strings.HasPrefix(ln, "github.com/nuts-foundation/nuts-node/") && !strings.Contains(ln, "VerifHandleSync") {
			fn := strings.TrimPrefix(ln, "github.com/nuts-foundation/nuts-node/")
			if i := strings.LastIndex(fn, "("); i > 0 {
				fn = fn[:i]
			}
			if i := strings.LastIndex(fn, "."); i > 0 {
				fn = fn[i+1:]
			}
			return fn
		}
	}
	return "unknown"
}

// ---- message constructors ----------------------------------------------------------------------------------------------------

func payloadQuery(ref hash.SHA256Hash) *v2.Envelope {
	return &v2.Envelope{Message: &v2.Envelope_TransactionPayloadQuery{TransactionPayloadQuery: &v2.TransactionPayloadQuery{TransactionRef: ref.Slice()}}}
}

func listQuery(cid string, refs ...hash.SHA256Hash) *v2.Envelope {
	var bs [][]byte
	for _, r := range refs {
		bs = append(bs, r.Slice())
	}
	return &v2.Envelope{Message: &v2.Envelope_TransactionListQuery{TransactionListQuery: &v2.TransactionListQuery{ConversationID: []byte(cid), Refs: bs}}}
}

func rangeQuery(cid string, start, end uint32) *v2.Envelope {
	return &v2.Envelope{Message: &v2.Envelope_TransactionRangeQuery{TransactionRangeQuery: &v2.TransactionRangeQuery{ConversationID: []byte(cid), Start: start, End: end}}}
}

func stateMsg(cid string, xor hash.SHA256Hash, lc uint32) *v2.Envelope {
	return &v2.Envelope{Message: &v2.Envelope_State{State: &v2.State{ConversationID: []byte(cid), XOR: xor.Slice(), LC: lc}}}
}

func gossipMsg(xor hash.SHA256Hash, lc uint32, refs ...hash.SHA256Hash) *v2.Envelope {
	var bs [][]byte
	for _, r := range refs {
		bs = append(bs, r.Slice())
	}
	return &v2.Envelope{Message: &v2.Envelope_Gossip{Gossip: &v2.Gossip{XOR: xor.Slice(), LC: lc, Transactions: bs}}}
}

func payloadMsg(ref []byte, data []byte) *v2.Envelope {
	return &v2.Envelope{Message: &v2.Envelope_TransactionPayload{TransactionPayload: &v2.TransactionPayload{TransactionRef: ref, Data: data}}}
}

func listMsg(cid []byte, entries []*v2.Transaction) *v2.Envelope {
	return &v2.Envelope{Message: &v2.Envelope_TransactionList{TransactionList: &v2.TransactionList{ConversationID: cid, Transactions: entries, TotalMessages: 1, MessageNumber: 1}}}
}

func randHash(rnd *rand.Rand) hash.SHA256Hash {
	b := make([]byte, 32)
	rnd.Read(b)
	return hash.FromSlice(b)
}

// ---- the check --------------------------------------------------------------------------------------------------------------

func TestCheck(t *testing.T) {
	logrus.SetOutput(io.Discard)
	logrus.SetLevel(logrus.ErrorLevel)
	r := ev.Start(t, "C15", "exploration")
	defer r.Finish()
	r.SetRule("cases = (node situation [listed | listed-cannot-decrypt | listed-key-missing | listed-invalid-entry | unlisted | unlisted-can-decrypt | unreadable-list | no-node-did | public], peer relation " +
		"[unauthenticated | authenticated-unlisted | authenticated-listed], message type, transaction class / inbound-payload variant / certificate case, outcome). " +
		"Worlds (DIDs, keyAgreement keys, DAG with seeded participant subsets, hostile participant lists) and the message order are functions of the seed. " +
		"Further case families: known transactions re-delivered in TransactionList messages (conversation kind, state of the known transaction, payload variant, stored before/after); " +
		"transactions re-using the payload hash of a private transaction under the sender's own participant list (variant, querying peer, response); " +
		"CreateTransaction over participant resolution/key situations (list shape, outcome) followed by every query type; payload queries while the node's own DID document is deactivated/unresolvable/keyless; " +
		"connection lists in which several live connections share a self-asserted peer ID and/or a node DID (kind of the twin connection, registration order / reconnect history, querying connection, query type, transaction, response, connection the payload went to); " +
		"stream set-up on a node behind a TLS terminator: real connection manager + offloading interceptor + tlsAuthenticator + v2 stream over a loopback socket (terminator style, certificate header values sent by the client, node DID headers; result, identity of the connection, answer to a payload query read off the wire). " +
		"A case is non-trivial when the addressed node holds at least one private payload (or, for authenticator cases, a certificate was evaluated); distinct by the tuple above.")
	r.Require(r.Pick(500, 5000), r.Pick(80, 150))
	r.Assume("peer identity (Authenticated, NodeDID) is what the connection carries: set by the harness for the three peer kinds, produced by the real tlsAuthenticator for the certificate cases, " +
		"established by the real connection manager (offloading interceptor, handleInboundStream, tlsAuthenticator) for the stream set-up cases, where the ground truth is the certificate the harness (as TLS terminator) verified in the handshake")
	r.Assume("handlers are driven synchronously through VerifHandleSync (same per-message handlers as protocol.handle); the goroutine fan-out of production Handle is not part of this check")

	worlds := r.Pick(1, 4)
	for wi := 0; wi < worlds; wi++ {
		w := newWorld(t, r, wi)
		var nodes []*node
		for _, name := range []string{"n1", "n2", "n3", "n4"} {
			n := w.setupNode(name)
			nodes = append(nodes, n)
		}
		for _, n := range nodes {
			queries(n, "initial")
		}
		for _, n := range nodes {
			inboundPayloads(n)
			listFlows(n)
		}
		for _, n := range nodes {
			redelivery(n)
			aliasAttack(n)
		}
		creation(w, nodes)
		servingSituations(nodes[0])
		servingSituations(nodes[3])
		for _, n := range nodes {
			sharedIdentity(n)
		}
		for _, n := range nodes {
			queries(n, "after-inbound")
		}
		authenticator(w, nodes[0])
		streamSetup(w)
		if wi == 0 {
			r.Extra("transactions_in_initial_dag", len(w.txs))
			classes := map[string]int{}
			for _, ti := range w.txs {
				c := ti.class
				if strings.HasPrefix(c, "pal{") {
					c = "pal{honest subset}"
				}
				classes[c]++
			}
			r.Extra("transaction_classes", classes)
		}
		for _, n := range nodes {
			n.close()
		}
	}
	// the monitor must have seen what it claims to watch
	if r.Get("private_payload_delivered_to_listed_peer_by_listed_node") == 0 {
		r.Fatalf("no private payload was ever delivered to a listed peer: the taint scan saw no positive case")
	}
	pub := int64(0)
	for _, typ := range []string{"TransactionList", "TransactionPayload"} {
		pub += r.Get("public_marker_hits/" + typ)
	}
	if r.Get("public_marker_hits/TransactionList") == 0 || r.Get("public_marker_hits/TransactionPayload") == 0 {
		r.Fatalf("the scanner did not find public payload markers in list/payload responses (%d hits): scanner broken", pub)
	}
	if r.Get("list_entries_with_pal") == 0 {
		r.Fatalf("no TransactionList entry with a participant list was inspected")
	}
	if r.Get("payloads_stored_for_transaction_already_in_dag") == 0 {
		r.Fatalf("no inbound payload was stored: the payload-store comparison saw no positive case")
	}
	if r.Get("redelivery_range_conversations") == 0 || r.Get("redelivery_known_absent_with_mismatching_payload") == 0 {
		r.Fatalf("no known transaction without payload was re-delivered with a mismatching payload (range conversations: %d)", r.Get("redelivery_range_conversations"))
	}
	if r.Get("alias_admitted") == 0 {
		r.Fatalf("no transaction re-using the payload hash of a private transaction was admitted: the same-payload-hash strategy was not exercised")
	}
	if r.Get("stream_setup/inconclusive") == 0 && (r.Get("stream_setup_positive_control") == 0 || r.Get("stream_setup_identity/no-connection") == 0) {
		r.Fatalf("stream set-up: %d streams of the listed participant with its own certificate were authenticated and served, %d streams refused: the terminator cases were not exercised",
			r.Get("stream_setup_positive_control"), r.Get("stream_setup_identity/no-connection"))
	}
	if r.Get("shared_situations") == 0 || r.Get("shared_participant_served_on_own_connection") == 0 {
		r.Fatalf("connections sharing a peer ID / node DID: %d situations, %d private payloads served to the participant on its own connection: the shared-identity phase saw no positive case",
			r.Get("shared_situations"), r.Get("shared_participant_served_on_own_connection"))
	}
	if r.Get("create/created") == 0 || r.Get("create/refused") == 0 {
		r.Fatalf("CreateTransaction: %d created, %d refused: the participant situations were not exercised", r.Get("create/created"), r.Get("create/refused"))
	}
}

var sampled = map[string]bool{}

var peerKinds = []struct {
	kind string
	who  string // identity name, "" anonymous, "self" the node's own DID
	auth bool
}{
	{"anonymous", "", false},
	{"unauthenticated-claims-P1", "P1", false},
	{"unauthenticated-claims-self", "self", false},
	{"authenticated-P1", "P1", true},
	{"authenticated-P2", "P2", true},
	{"authenticated-outsider-P4", "P4", true},
	{"authenticated-lookalike-of-P1-other-letter-case", "P1~case", true}, // did:nuts ids are base58, case-sensitive: another identity
	{"authenticated-self", "self", true},
}

func (w *world) setupNode(name string) *node {
	n := w.newNode(name)
	for _, k := range peerKinds {
		var id did.DID
		switch k.who {
		case "":
		case "self":
			if n.id.Empty() {
				continue
			}
			id = n.id
		case "P1~case":
			id = otherLetterCase(w.ids["P1"])
		default:
			id = w.ids[k.who]
		}
		n.connect(k.kind, id, k.auth)
	}
	n.cur = "set-up (adding the initial DAG)"
	for _, ti := range w.txs {
		var p []byte
		if !ti.absent {
			p = ti.payload
		}
		if err := n.st.Add(context.Background(), ti.tx, p); err != nil {
			w.r.Fatalf("set-up add (%s): %v", ti.class, err)
		}
	}
	return n
}

func (n *node) holdsPrivate() bool {
	for _, ti := range n.w.txs {
		if ti.private && !ti.absent {
			return true
		}
	}
	return false
}

// classify the response to a payload query on this connection
func payloadOutcome(c *pconn) string {
	for _, e := range c.sent {
		if tp := e.GetTransactionPayload(); tp != nil {
			if len(tp.Data) > 0 {
				return "payload"
			}
			return "empty"
		}
	}
	return "none"
}

// ---- phase: every query type for every transaction from every peer kind -------------------------------------------------------

func queries(n *node, phase string) {
	rnd := n.r.Rand(fmt.Sprintf("queries-%d-%s-%s", n.w.n, n.name, phase))
	type item func()
	var items []item
	nt := n.holdsPrivate()
	known := n.knownTxs()
	for _, c := range n.peers {
		c := c
		for _, ti := range known {
			ti := ti
			items = append(items, func() {
				_, _ = n.deliver(c, payloadQuery(ti.tx.Ref()), ti.class)
				out := payloadOutcome(c)
				n.r.Count("payload_query/"+n.situation(ti)+"/"+relation(c, ti)+"/"+out, 1)
				if ti.private && (out == "payload" || relation(c, ti) == "unauthenticated" && n.situation(ti) == "listed") && !sampled[out+relation(c, ti)] {
					sampled[out+relation(c, ti)] = true
					n.r.Sample(map[string]any{"scenario": "payload query", "node": n.name, "node_situation": n.situation(ti), "peer": c.kind, "peer_relation": relation(c, ti),
						"transaction_class": ti.class, "response": out, "envelopes_captured": len(c.sent)})
				}
				n.r.Case(strings.Join([]string{"TransactionPayloadQuery", n.situation(ti), relation(c, ti), classOf(ti), out}, "|"), nt)
			})
			// in the quick tier the per-transaction list and range queries are sampled after the first phase
			if phase == "initial" || n.r.Thorough() || rnd.Intn(3) == 0 {
				items = append(items, func() {
					refs := []hash.SHA256Hash{ti.tx.Ref()}
					if rnd.Intn(2) == 0 {
						refs = append(refs, known[rnd.Intn(len(known))].tx.Ref(), randHash(rnd))
					}
					_, _ = n.deliver(c, listQuery("c15-list", refs...), ti.class)
					n.r.Case(strings.Join([]string{"TransactionListQuery", n.situation(ti), relation(c, ti), classOf(ti), fmt.Sprint(len(c.sent))}, "|"), nt)
				}, func() {
					lc := ti.tx.Clock()
					_, _ = n.deliver(c, rangeQuery("c15-range", lc, lc+1+uint32(rnd.Intn(3))), ti.class)
					n.r.Case(strings.Join([]string{"TransactionRangeQuery", n.situation(ti), relation(c, ti), classOf(ti), fmt.Sprint(len(c.sent))}, "|"), nt)
				})
			}
		}
		// whole-DAG and degenerate queries, state, gossip, set, diagnostics
		items = append(items,
			func() {
				var refs []hash.SHA256Hash
				for _, ti := range known {
					refs = append(refs, ti.tx.Ref())
				}
				_, _ = n.deliver(c, listQuery("c15-all", refs...), "all transactions")
				n.r.Case("TransactionListQuery|all|"+c.kind, nt)
			},
			func() {
				_, _ = n.deliver(c, rangeQuery("c15-full", 0, dag.MaxLamportClock), "full range")
				n.r.Case("TransactionRangeQuery|full|"+c.kind, nt)
			},
			func() {
				_, _ = n.deliver(c, rangeQuery("c15-inv", 5, 5), "empty range")
				_, _ = n.deliver(c, listQuery("c15-none"), "no refs")
				n.r.Case("queries|degenerate|"+c.kind, nt)
			},
			func() {
				for _, lc := range []uint32{0, uint32(rnd.Intn(20)), dag.MaxLamportClock} {
					_, _ = n.deliver(c, stateMsg("c15-state", randHash(rnd), lc), fmt.Sprintf("state lc=%d", lc))
				}
				xor, lc := n.st.XOR(dag.MaxLamportClock)
				_, _ = n.deliver(c, stateMsg("c15-state", xor, lc), "state with equal xor")
				n.r.Case("State|"+c.kind, nt)
			},
			func() {
				xor, lc := n.st.XOR(dag.MaxLamportClock)
				// equal xor; different xor without refs (node answers with State); known refs; an unknown ref (node asks for it)
				_, _ = n.deliver(c, gossipMsg(xor, lc), "gossip equal")
				_, _ = n.deliver(c, gossipMsg(randHash(rnd), lc), "gossip different xor, same clock")
				v2.VerifExpireConversations(n.p)
				_, _ = n.deliver(c, gossipMsg(randHash(rnd), lc+5, known[rnd.Intn(len(known))].tx.Ref()), "gossip known ref")
				v2.VerifExpireConversations(n.p)
				u := randHash(rnd)
				_, _ = n.deliver(c, gossipMsg(xor.Xor(u), lc+1, u), "gossip unknown ref")
				v2.VerifExpireConversations(n.p)
				v2.VerifEvictConversations(n.p)
				n.r.Case("Gossip|"+c.kind, nt)
			},
			func() {
				_, _ = n.deliver(c, &v2.Envelope{Message: &v2.Envelope_TransactionSet{TransactionSet: &v2.TransactionSet{ConversationID: []byte("nope"), LCReq: 1, LC: 2, IBLT: []byte{1, 2, 3}}}}, "unsolicited set")
				_, _ = n.deliver(c, &v2.Envelope{Message: &v2.Envelope_DiagnosticsBroadcast{DiagnosticsBroadcast: &v2.Diagnostics{Uptime: 1, PeerID: "x", Peers: []string{"a"}}}}, "diagnostics")
				n.r.Case("TransactionSet+Diagnostics|"+c.kind, nt)
			},
		)
	}
	// the node's own gossip (production: ticker)
	items = append(items, func() { n.tick("tick") }, func() { n.tick("tick") })
	rnd.Shuffle(len(items), func(i, j int) { items[i], items[j] = items[j], items[i] })
	for _, it := range items {
		it()
	}
	n.tick("final tick")
}

func classOf(ti *txInfo) string {
	if strings.HasPrefix(ti.class, "pal{") {
		if ti.absent {
			return "honest/payload-absent"
		}
		return "honest"
	}
	return ti.class
}

func (n *node) knownTxs() []*txInfo {
	n.snapshot()
	var out []*txInfo
	for _, ti := range n.w.all {
		if ti.tx != nil && n.dagRefs[ti.tx.Ref()] {
			out = append(out, ti)
		}
	}
	return out
}

func (n *node) tick(label string) {
	n.cur = "gossip " + label
	n.drain()
	var peers []transport.Peer
	for _, c := range n.peers {
		peers = append(peers, c.conn.Peer())
	}
	ticked := gossip.VerifTick(v2.VerifGossipManager(n.p), peers...)
	n.r.Count("gossip_ticks", ticked)
	sent := 0
	for _, c := range n.peers {
		sent += len(c.sent)
	}
	n.r.Case(fmt.Sprintf("gossip-tick|%s|%v", n.name, sent > 0), n.holdsPrivate())
}

// ---- phase: inbound TransactionPayload messages ------------------------------------------------------------------------------------

func inboundPayloads(n *node) {
	rnd := n.r.Rand(fmt.Sprintf("inbound-%d-%s", n.w.n, n.name))
	var absent, present, public []*txInfo
	for _, ti := range n.w.txs {
		switch {
		case ti.absent:
			absent = append(absent, ti)
		case ti.private:
			present = append(present, ti)
		default:
			public = append(public, ti)
		}
	}
	nt := n.holdsPrivate()
	ai := 0
	for _, c := range n.peers {
		if c.kind == "unauthenticated-claims-self" || c.kind == "authenticated-P2" {
			continue
		}
		target := absent[ai%len(absent)] // one withheld payload per peer kind: delivered correctly at the end
		ai++
		other := absent[ai%len(absent)]
		pres := present[rnd.Intn(len(present))]
		pub := public[rnd.Intn(len(public))]
		junk := func(k int) []byte { b := make([]byte, k); rnd.Read(b); return b }
		type variant struct {
			name string
			ref  []byte
			data []byte
		}
		variants := []variant{
			{"unknown-ref", randHash(rnd).Slice(), junk(24)},
			{"empty-ref", nil, junk(24)},
			{"short-ref", target.tx.Ref().Slice()[:7], target.payload},
			{"empty-data", target.tx.Ref().Slice(), nil},
			{"mismatching-random-bytes", target.tx.Ref().Slice(), junk(24)},
			{"mismatching-truncated", target.tx.Ref().Slice(), target.payload[:23]},
			{"mismatching-extended", target.tx.Ref().Slice(), append(append([]byte{}, target.payload...), 0)},
			{"payload-of-another-present-transaction", target.tx.Ref().Slice(), pres.payload},
			{"payload-of-another-absent-transaction", target.tx.Ref().Slice(), other.payload},
			{"ref-is-payload-hash", target.tx.PayloadHash().Slice(), target.payload},
			{"public-mismatching", pub.tx.Ref().Slice(), junk(24)},
			{"public-matching-already-present", pub.tx.Ref().Slice(), pub.payload},
			{"present-private-mismatching", pres.tx.Ref().Slice(), junk(24)},
			{"present-private-matching", pres.tx.Ref().Slice(), pres.payload},
			{"absent-private-matching", target.tx.Ref().Slice(), target.payload},
			{"absent-private-matching-again", target.tx.Ref().Slice(), target.payload},
		}
		// hostile ones in seeded order, the correct delivery last
		head := variants[:len(variants)-2]
		rnd.Shuffle(len(head), func(i, j int) { head[i], head[j] = head[j], head[i] })
		for _, v := range variants {
			had, _ := n.st.IsPayloadPresent(context.Background(), target.tx.PayloadHash())
			herr, panicked := n.deliver(c, payloadMsg(v.ref, v.data), "inbound payload "+v.name)
			out := "rejected"
			if panicked {
				out = "panic"
			} else if herr == nil {
				out = "accepted"
			}
			n.r.Count("inbound_payload/"+v.name+"/"+out, 1)
			nodeKind := "node-did"
			if n.id.Empty() {
				nodeKind = "no-node-did"
			}
			n.r.Case(strings.Join([]string{"TransactionPayload", nodeKind, c.kind, v.name, out, fmt.Sprint(had)}, "|"), nt)
		}
		// the payload that arrived is now served under the same rules
		for _, q := range n.peers {
			_, _ = n.deliver(q, payloadQuery(target.tx.Ref()), "query after delivery: "+target.class)
			n.r.Case(strings.Join([]string{"TransactionPayloadQuery-after-delivery", n.situation(target), relation(q, target), payloadOutcome(q)}, "|"), true)
		}
	}
}

// ---- phase: gossip -> TransactionListQuery -> TransactionList (payloads arriving with their transactions) --------------------------

func (n *node) tip() dag.Transaction {
	head, err := n.st.Head(context.Background())
	if err != nil {
		n.r.Fatalf("head: %v", err)
	}
	tx, err := n.st.GetTransaction(context.Background(), head)
	if err != nil {
		n.r.Fatalf("head tx: %v", err)
	}
	return tx
}

// solicit makes the node ask peer c for the given transaction (gossip with an unknown ref) and returns the conversation id.
func (n *node) solicit(c *pconn, ti *txInfo) []byte {
	v2.VerifExpireConversations(n.p)
	v2.VerifEvictConversations(n.p)
	xor, lc := n.st.XOR(dag.MaxLamportClock)
	_, _ = n.deliver(c, gossipMsg(xor.Xor(ti.tx.Ref()), max(lc, ti.tx.Clock()), ti.tx.Ref()), "gossip announcing "+ti.class)
	for _, e := range c.sent {
		if q := e.GetTransactionListQuery(); q != nil {
			return q.ConversationID
		}
	}
	return nil
}

func listFlows(n *node) {
	rnd := n.r.Rand(fmt.Sprintf("flows-%d-%s", n.w.n, n.name))
	w := n.w
	nt := n.holdsPrivate()
	junk := func(k int) []byte { b := make([]byte, k); rnd.Read(b); return b }
	for _, c := range n.peers {
		if c.kind != "anonymous" && c.kind != "authenticated-P1" && c.kind != "authenticated-outsider-P4" && !(n.r.Thorough() && c.kind == "unauthenticated-claims-P1") {
			continue
		}
		inDag := func(ti *txInfo) bool {
			ok, _ := n.st.IsPresent(context.Background(), ti.tx.Ref())
			return ok
		}
		stored := func(ti *txInfo) bool {
			ok, _ := n.st.IsPayloadPresent(context.Background(), ti.tx.PayloadHash())
			return ok
		}
		flow := func(name string, ti *txInfo, steps func(cid []byte)) {
			cid := n.solicit(c, ti)
			if cid == nil {
				n.r.Inconclusive("node did not ask for the announced transaction (" + name + ")")
				return
			}
			steps(cid)
			n.r.Case(strings.Join([]string{"TransactionList", n.name, c.kind, name, fmt.Sprint(inDag(ti)), fmt.Sprint(stored(ti))}, "|"), nt)
			n.r.Count(fmt.Sprintf("list_flow/%s/in_dag=%v/payload_stored=%v", name, inDag(ti), stored(ti)), 1)
		}
		entry := func(ti *txInfo, payload []byte) *v2.Transaction {
			return &v2.Transaction{Data: ti.tx.Data(), Payload: payload}
		}
		members := []string{"n1", "n2", "n4", "P1"}

		// unsolicited list with a valid public transaction
		up := w.newPublic(n.tip())
		_, _ = n.deliver(c, listMsg([]byte("unsolicited-"+c.kind), []*v2.Transaction{entry(up, up.payload)}), "unsolicited TransactionList")
		n.r.Case(strings.Join([]string{"TransactionList", n.name, c.kind, "unsolicited", fmt.Sprint(inDag(up))}, "|"), nt)

		// private transaction arriving with a payload that does not match, then (same conversation) with the right one
		a := w.newHonest(members, n.tip())
		flow("private-with-mismatching-then-matching-payload", a, func(cid []byte) {
			_, _ = n.deliver(c, listMsg(cid, []*v2.Transaction{entry(a, junk(24))}), "TransactionList private tx, mismatching payload")
			if inDag(a) || stored(a) {
				n.r.Count("list_flow_mismatch_admitted", 1)
			}
			_, _ = n.deliver(c, listMsg(cid, []*v2.Transaction{entry(a, a.payload)}), "TransactionList private tx, matching payload")
		})
		// public transaction with mismatching payload, with the payload of another transaction, then not at all
		b := w.newPublic(n.tip())
		flow("public-with-mismatching-payload", b, func(cid []byte) {
			_, _ = n.deliver(c, listMsg(cid, []*v2.Transaction{entry(b, junk(24))}), "TransactionList public tx, mismatching payload")
			_, _ = n.deliver(c, listMsg(cid, []*v2.Transaction{entry(b, a.payload)}), "TransactionList public tx, payload of another transaction")
			_, _ = n.deliver(c, listMsg(cid, []*v2.Transaction{entry(b, nil)}), "TransactionList public tx, no payload")
		})
		// answer carries a transaction that was not asked for (with its matching payload)
		d := w.newPublic(n.tip())
		x := w.newHonest(members, n.tip())
		flow("response-with-unrequested-transaction", d, func(cid []byte) {
			_, _ = n.deliver(c, listMsg(cid, []*v2.Transaction{entry(x, x.payload)}), "TransactionList with unrequested private tx")
			if inDag(x) || stored(x) {
				n.r.Count("list_flow_unrequested_admitted", 1)
			}
		})
		// private transaction arriving without payload: the node asks the participants it is connected to; answers follow
		e := w.newHonest(members, n.tip())
		flow("private-without-payload-then-payload-messages", e, func(cid []byte) {
			_, _ = n.deliver(c, listMsg(cid, []*v2.Transaction{entry(e, nil)}), "TransactionList private tx, no payload")
			asked := 0
			for _, q := range n.peers {
				for _, s := range q.sent {
					if pq := s.GetTransactionPayloadQuery(); pq != nil {
						asked++
						n.r.Count("payload_queries_sent_by_node/"+relation(q, e), 1)
					}
				}
			}
			n.r.Count("payload_queries_sent_by_node", asked)
			_, _ = n.deliver(c, payloadMsg(e.tx.Ref().Slice(), junk(24)), "answer with mismatching payload")
			_, _ = n.deliver(c, payloadMsg(e.tx.Ref().Slice(), x.payload), "answer with the payload of a transaction that is not in the DAG")
			_, _ = n.deliver(c, payloadMsg(x.tx.Ref().Slice(), x.payload), "payload for a transaction that is not in the DAG")
			_, _ = n.deliver(c, payloadMsg(e.tx.Ref().Slice(), e.payload), "answer with matching payload")
		})
		// everything that arrived is queried by every peer kind
		for _, ti := range []*txInfo{a, b, x, e} {
			for _, q := range n.peers {
				_, _ = n.deliver(q, payloadQuery(ti.tx.Ref()), "query after list flow: "+ti.class)
				_, _ = n.deliver(q, listQuery("c15-after", ti.tx.Ref()), "list query after list flow: "+ti.class)
				n.r.Case(strings.Join([]string{"after-list-flow", n.situation(ti), relation(q, ti), classOf(ti), payloadOutcome(q)}, "|"), true)
			}
		}
		n.tick("after list flow")
	}
}

// ---- phase: the real tlsAuthenticator -------------------------------------------------------------------------------------------------

type certCase struct {
	name     string
	class    string // match | mismatch | unspecified
	dns      []string
	ips      []string
	cn       string
	endpoint any  // NutsComm endpoint of the claimed DID (nil: no NutsComm service)
	noDoc    bool // the claimed DID does not resolve
	noCert   bool
	ref      string // "ok": endpoint is a reference to another document's NutsComm; "missing": reference to an unknown DID; "loop"
}

func mkCert(r *ev.Run, cn string, dns []string, ips []string) *x509.Certificate {
	key := genKey()
	tmpl := &x509.Certificate{SerialNumber: big.NewInt(time.Now().UnixNano()), Subject: pkix.Name{CommonName: cn}, NotBefore: time.Now().Add(-time.Hour), NotAfter: time.Now().Add(24 * time.Hour),
		KeyUsage: x509.KeyUsageDigitalSignature, ExtKeyUsage: []x509.ExtKeyUsage{x509.ExtKeyUsageClientAuth, x509.ExtKeyUsageServerAuth}, DNSNames: dns}
	for _, ip := range ips {
		tmpl.IPAddresses = append(tmpl.IPAddresses, net.ParseIP(ip))
	}
	der, err := x509.CreateCertificate(crand.Reader, tmpl, tmpl, &key.PublicKey, key)
	if err != nil {
		r.Fatalf("certificate: %v", err)
	}
	cert, err := x509.ParseCertificate(der)
	if err != nil {
		r.Fatalf("certificate: %v", err)
	}
	return cert
}

func authenticator(w *world, n1 *node) {
	r := w.r
	rnd := r.Rand(fmt.Sprintf("auth-%d", w.n))
	auth := grpc.NewTLSAuthenticator(resolver.DIDServiceResolver{Resolver: w.docs})
	label := func() string {
		const abc = "abcdefghijklmnopqrstuvwxyz"
		b := make([]byte, 4+rnd.Intn(6))
		for i := range b {
			b[i] = abc[rnd.Intn(len(abc))]
		}
		return string(b)
	}
	rounds := r.Pick(1, 6)
	var claimed []did.DID
	type prepared struct {
		cc   certCase
		id   did.DID
		cert *x509.Certificate
	}
	var prep []prepared
	for round := 0; round < rounds; round++ {
		dom := label() + ".example"
		host := label() + "." + dom
		ip := fmt.Sprintf("10.%d.%d.%d", 1+rnd.Intn(200), rnd.Intn(250), 1+rnd.Intn(250))
		ip2 := fmt.Sprintf("10.%d.%d.%d", 201+rnd.Intn(50), rnd.Intn(250), 1+rnd.Intn(250))
		ep := func(h string) string { return "grpc://" + h + ":5555" }
		cases := []certCase{
			{name: "dns-exact", class: "match", dns: []string{host}, endpoint: ep(host)},
			{name: "dns-case-insensitive", class: "match", dns: []string{host}, endpoint: ep(strings.ToUpper(host))},
			{name: "dns-one-of-several", class: "match", dns: []string{"other." + dom, host, "third.example"}, endpoint: ep(host)},
			{name: "wildcard", class: "match", dns: []string{"*." + dom}, endpoint: ep(host)},
			{name: "ip", class: "match", ips: []string{ip}, endpoint: ep(ip)},
			{name: "ipv6", class: "match", ips: []string{"2001:db8::1"}, endpoint: "grpc://[2001:db8::1]:5555"},
			{name: "by-service-reference", class: "match", dns: []string{host}, ref: "ok", endpoint: ep(host)},
			{name: "other-host", class: "mismatch", dns: []string{label() + ".evil.example"}, endpoint: ep(host)},
			{name: "certificate-for-subdomain", class: "mismatch", dns: []string{"a." + host}, endpoint: ep(host)},
			{name: "certificate-for-parent-domain", class: "mismatch", dns: []string{dom}, endpoint: ep(host)},
			{name: "wildcard-two-labels", class: "mismatch", dns: []string{"*." + dom}, endpoint: ep("a." + host)},
			{name: "wildcard-apex", class: "mismatch", dns: []string{"*." + dom}, endpoint: ep(dom)},
			{name: "host-as-prefix-of-other-domain", class: "mismatch", dns: []string{host + ".evil.example"}, endpoint: ep(host)},
			{name: "host-with-prefix", class: "mismatch", dns: []string{"evil" + host}, endpoint: ep(host)},
			{name: "ip-other", class: "mismatch", ips: []string{ip2}, endpoint: ep(ip)},
			{name: "dns-certificate-ip-endpoint", class: "mismatch", dns: []string{host}, endpoint: ep(ip)},
			{name: "ip-certificate-dns-endpoint", class: "mismatch", ips: []string{ip}, endpoint: ep(host)},
			{name: "no-nutscomm-service", class: "mismatch", dns: []string{host}},
			{name: "did-does-not-resolve", class: "mismatch", dns: []string{host}, noDoc: true},
			{name: "no-certificate", class: "mismatch", noCert: true, endpoint: ep(host)},
			{name: "endpoint-not-a-string", class: "mismatch", dns: []string{host}, endpoint: map[string]any{"url": ep(host)}},
			{name: "endpoint-unparsable", class: "mismatch", dns: []string{host}, endpoint: "::::" + host},
			{name: "endpoint-empty", class: "mismatch", dns: []string{host}, endpoint: ""},
			{name: "endpoint-without-host", class: "mismatch", dns: []string{host}, endpoint: "grpc://:5555"},
			{name: "endpoint-userinfo-trick", class: "mismatch", dns: []string{host}, endpoint: "grpc://" + host + "@" + label() + ".evil.example:5555"},
			{name: "reference-to-unknown-did", class: "mismatch", dns: []string{host}, ref: "missing"},
			{name: "reference-loop", class: "mismatch", dns: []string{host}, ref: "loop"},
			{name: "certificate-of-attacker-own-did", class: "mismatch", dns: []string{label() + ".attacker.example"}, endpoint: ep(host)},
			{name: "common-name-only", class: "unspecified", cn: host, endpoint: ep(host)},
			{name: "trailing-dot", class: "unspecified", dns: []string{host}, endpoint: ep(host + ".")},
			{name: "partial-wildcard", class: "unspecified", dns: []string{"n*." + dom}, endpoint: ep("node." + dom)},
			{name: "literal-wildcard-endpoint", class: "unspecified", dns: []string{"*." + dom}, endpoint: ep("*." + dom)},
		}
		for _, cc := range cases {
			id := newDID(rnd, "auth")
			var services []did.Service
			switch cc.ref {
			case "ok":
				target := newDID(rnd, "vendor")
				w.docs.put(mkDoc(target, nil, nutsComm(target, cc.endpoint)))
				services = append(services, nutsComm(id, target.String()+"/serviceEndpoint?type=NutsComm"))
			case "missing":
				services = append(services, nutsComm(id, newDID(rnd, "gone").String()+"/serviceEndpoint?type=NutsComm"))
			case "loop":
				services = append(services, nutsComm(id, id.String()+"/serviceEndpoint?type=NutsComm"))
			default:
				if cc.endpoint != nil {
					services = append(services, nutsComm(id, cc.endpoint))
				}
			}
			services = append(services, did.Service{ID: ssi.MustParseURI(id.String() + "#other"), Type: "other-service", ServiceEndpoint: "https://" + host})
			if !cc.noDoc {
				w.docs.put(mkDoc(id, []kaKey{{"ka-0", &genKey().PublicKey}}, services...))
			}
			if cc.name == "certificate-of-attacker-own-did" {
				// the attacker's own document matches its certificate; it claims the victim's DID
				att := newDID(rnd, "attacker")
				w.docs.put(mkDoc(att, nil, nutsComm(att, "grpc://"+cc.dns[0]+":5555")))
			}
			var cert *x509.Certificate
			if !cc.noCert {
				cert = mkCert(r, cc.cn, cc.dns, cc.ips)
			}
			claimed = append(claimed, id)
			prep = append(prep, prepared{cc, id, cert})
		}
	}
	// one private transaction addressed to n1 and every claimed DID; n1 holds the payload
	plain := append([]did.DID{w.ids["n1"]}, claimed...)
	ti := w.newRaw("pal{n1 + claimed DIDs of the certificate cases}", encryptFor(plain, w.pubs["n1"]), plain, n1.tip())
	n1.cur = "set-up (authenticator transaction)"
	if err := n1.st.Add(context.Background(), ti.tx, ti.payload); err != nil {
		r.Fatalf("add: %v", err)
	}
	for i, pc := range prep {
		in := transport.Peer{ID: transport.PeerID(fmt.Sprintf("tls-%d", i)), Address: fmt.Sprintf("10.8.%d.%d:4711", i/250, i%250), Certificate: pc.cert}
		var out transport.Peer
		var err error
		panicked := false
		func() {
			defer func() {
				if rec := recover(); rec != nil {
					panicked = true
					r.Violation("C15/panic/Authenticate", fmt.Sprintf("tlsAuthenticator panicked on case %s: %v", pc.cc.name, rec), map[string]any{"case": pc.cc.name})
				}
			}()
			out, err = auth.Authenticate(pc.id, in)
		}()
		if panicked {
			continue
		}
		res := "refused"
		if out.Authenticated {
			res = "authenticated"
		}
		r.Count("authenticator/"+pc.cc.class+"/"+res, 1)
		r.Case("tlsAuthenticator|"+pc.cc.name+"|"+res, true)
		witness := map[string]any{"case": pc.cc.name, "claimed_did": pc.id.String(), "certificate_dns": pc.cc.dns, "certificate_ips": pc.cc.ips, "certificate_cn": pc.cc.cn,
			"nutscomm_endpoint": fmt.Sprint(pc.cc.endpoint), "reference": pc.cc.ref, "error": fmt.Sprint(err)}
		truth := out.Authenticated
		switch pc.cc.class {
		case "mismatch":
			truth = false
			if out.Authenticated || err == nil {
				r.Violation("C15/authenticator/"+pc.cc.name, fmt.Sprintf("tlsAuthenticator accepted a certificate that does not match the NutsComm endpoint of the claimed DID (case %s, authenticated=%v, err=%v)", pc.cc.name, out.Authenticated, err), witness)
			}
		case "match":
			truth = true
			if !out.Authenticated {
				r.Unspecified("authenticator refused a matching certificate: " + pc.cc.name)
			} else if !out.NodeDID.Equals(pc.id) {
				r.Violation("C15/authenticator/wrong-did", fmt.Sprintf("authenticated peer carries DID %s, claimed %s", out.NodeDID, pc.id), witness)
			}
		default:
			r.Unspecified("certificate case outside the property text: " + pc.cc.name + " -> " + res)
		}
		if out.Authenticated != (err == nil) {
			r.Unspecified("Authenticate: Authenticated flag and error disagree")
		}
		// whatever the authenticator returned becomes the peer of a connection (a refused peer keeps the DID it claimed:
		// more than production admits, which closes the stream); the taint scan judges it by the certificate class
		if err != nil {
			out.NodeDID = pc.id
		}
		c := n1.connectPeer("tls/"+pc.cc.class+"/"+res, out, truth)
		_, _ = n1.deliver(c, payloadQuery(ti.tx.Ref()), "payload query after tlsAuthenticator case "+pc.cc.name)
		o := payloadOutcome(c)
		r.Count("authenticator_payload_query/"+pc.cc.class+"/"+res+"/"+o, 1)
		r.Case("tls-payload-query|"+pc.cc.name+"|"+res+"|"+o, true)
		if i < 2 {
			r.Sample(map[string]any{"scenario": "tlsAuthenticator", "case": pc.cc.name, "class": pc.cc.class, "result": res, "error": fmt.Sprint(err), "payload_query": o})
		}
	}
	if r.Get("authenticator/match/authenticated") == 0 {
		r.Fatalf("tlsAuthenticator never authenticated a matching certificate: the certificate cases are broken")
	}
}

// otherLetterCase returns the DID that differs from id only in the letter case of its method-specific id.
func otherLetterCase(id did.DID) did.DID {
	str := id.String()
	i := strings.LastIndex(str, ":") + 1
	b := []byte(str)
	for k := i; k < len(b); k++ {
		switch {
		case b[k] >= 'a' && b[k] <= 'z':
			b[k] -= 32
		case b[k] >= 'A' && b[k] <= 'Z':
			b[k] += 32
		}
	}
	out, err := did.ParseDID(string(b))
	if err != nil || out.String() == str {
		panic("cannot build a letter-case variant of " + str)
	}
	return *out
}
