// Check C15, third part: how the identity of a connection is ESTABLISHED at stream set-up on a node that runs behind a TLS
// terminator (tls.offload=incoming), and what such a connection then receives.
//
// The real grpcConnectionManager (real gRPC server on a loopback socket, the real interceptor chain with the TLS-offloading
// interceptor, handleInboundStream, readMetadata, the real tlsAuthenticator) serves the real v2 protocol of a node that holds
// a private payload addressed to itself and to a victim participant V. The harness plays the TLS terminator and the client
// behind it in one: it knows which certificate was verified in the TLS handshake (ground truth, never taken from the code
// under test) and builds the request metadata the node sees for terminator styles (overwrite / append / prepend the
// certificate header, pass the presented chain, fold several values into one) x what the client itself put into the
// certificate header x the node DID header(s) it sends. Over every stream that the node accepts the client sends a real
// TransactionPayloadQuery and reads envelopes off the wire until the answer arrives; every envelope read is judged by the
// same taint scan as the captured Connection.Send envelopes of the other phases (node.onSend), with
//
//	peer verified  :=  the certificate of the TLS handshake is the one issued for the NutsComm host of the DID the connection carries.
package c15

import (
	"bytes"
	"context"
	"crypto/tls"
	"crypto/x509"
	"encoding/base64"
	"encoding/pem"
	"fmt"
	"net"
	"net/url"
	"strings"
	"time"

	"github.com/nuts-foundation/go-did/did"
	"github.com/nuts-foundation/nuts-node/core"
	"github.com/nuts-foundation/nuts-node/network/transport"
	"github.com/nuts-foundation/nuts-node/network/transport/grpc"
	v2 "github.com/nuts-foundation/nuts-node/network/transport/v2"
	"github.com/nuts-foundation/nuts-node/vdr/resolver"
	ggrpc "google.golang.org/grpc"
	"google.golang.org/grpc/codes"
	"google.golang.org/grpc/credentials/insecure"
	"google.golang.org/grpc/metadata"
	"google.golang.org/grpc/status"
)

// noRevocations is the environment's PKI: no certificate is revoked or denied.
type noRevocations struct{}

func (noRevocations) CheckCRL([]*x509.Certificate) error             { return nil }
func (noRevocations) CheckCRLStrict([]*x509.Certificate) error       { return nil }
func (noRevocations) SetVerifyPeerCertificateFunc(*tls.Config) error { return nil }
func (noRevocations) AddTruststore([]*x509.Certificate) error        { return nil }
func (noRevocations) SubscribeDenied(func())                         {}

const offloadHeaderConfigured = "X-Ssl-Client-Cert" // as an operator writes it; gRPC metadata keys are lower case on the wire
const offloadHeaderWire = "x-ssl-client-cert"

// streamCase: one connection attempt through the TLS terminator.
type streamCase struct {
	name      string
	handshake string   // whose certificate (and private key) the client used in the TLS handshake with the terminator: "V" | "A" | "" (none)
	termEnc   string   // how the terminator encodes the verified certificate: "pem" (url-escaped PEM) | "der" (base64 DER) | "chain:<X>" (PEM of the leaf followed by certificate X that the client added to its chain)
	mode      string   // overwrite | append | prepend | fold-append (several values folded into one, comma separated)
	client    []string // values the client itself sends in the certificate header: "pem:V" "der:V" "pem:A" "empty" "garbage" "pem:V+A"
	dids      []string // node DID header values: "V" | "A" (none: anonymous)
}

var streamCases = []streamCase{
	// ordinary deployments (single value written by the terminator)
	{name: "listed-participant-pem", handshake: "V", termEnc: "pem", mode: "overwrite", dids: []string{"V"}},
	{name: "listed-participant-der", handshake: "V", termEnc: "der", mode: "overwrite", dids: []string{"V"}},
	{name: "listed-participant-client-value-overwritten", handshake: "V", termEnc: "pem", mode: "overwrite", client: []string{"pem:A"}, dids: []string{"V"}},
	{name: "unlisted-node-own-identity", handshake: "A", termEnc: "pem", mode: "overwrite", dids: []string{"A"}},
	{name: "own-certificate-claims-listed-did", handshake: "A", termEnc: "pem", mode: "overwrite", dids: []string{"V"}},
	{name: "own-certificate-spoofed-value-overwritten", handshake: "A", termEnc: "der", mode: "overwrite", client: []string{"pem:V"}, dids: []string{"V"}},
	{name: "anonymous", handshake: "A", termEnc: "pem", mode: "overwrite"},
	{name: "no-client-certificate-header-stripped", mode: "overwrite", client: []string{"pem:V"}, dids: []string{"V"}},
	{name: "no-client-certificate-anonymous", mode: "overwrite"},
	// the terminator adds its value to whatever the client sent
	{name: "append/spoofed-pem", handshake: "A", termEnc: "pem", mode: "append", client: []string{"pem:V"}, dids: []string{"V"}},
	{name: "append/spoofed-der", handshake: "A", termEnc: "der", mode: "append", client: []string{"der:V"}, dids: []string{"V"}},
	{name: "append/spoofed-pem-terminator-der", handshake: "A", termEnc: "der", mode: "append", client: []string{"pem:V"}, dids: []string{"V"}},
	{name: "append/spoofed-twice", handshake: "A", termEnc: "pem", mode: "append", client: []string{"pem:V", "der:V"}, dids: []string{"V"}},
	{name: "append/spoofed-after-empty", handshake: "A", termEnc: "pem", mode: "append", client: []string{"empty", "pem:V"}, dids: []string{"V"}},
	{name: "append/spoofed-after-garbage", handshake: "A", termEnc: "pem", mode: "append", client: []string{"garbage", "pem:V"}, dids: []string{"V"}},
	{name: "append/spoofed-own-did", handshake: "A", termEnc: "pem", mode: "append", client: []string{"pem:V"}, dids: []string{"A"}},
	{name: "append/spoofed-anonymous", handshake: "A", termEnc: "pem", mode: "append", client: []string{"pem:V"}},
	{name: "append/listed-participant-behind-chained-proxies", handshake: "V", termEnc: "pem", mode: "append", client: []string{"pem:A"}, dids: []string{"V"}},
	{name: "prepend/spoofed-pem", handshake: "A", termEnc: "pem", mode: "prepend", client: []string{"pem:V"}, dids: []string{"V"}},
	{name: "prepend/spoofed-der", handshake: "A", termEnc: "pem", mode: "prepend", client: []string{"der:V"}, dids: []string{"V"}},
	{name: "prepend/own-then-spoofed-twice", handshake: "A", termEnc: "der", mode: "prepend", client: []string{"pem:V", "pem:V"}, dids: []string{"V"}},
	// several certificates inside one value
	{name: "one-value/client-sends-two-certificates-appended", handshake: "A", termEnc: "pem", mode: "append", client: []string{"pem:V+A"}, dids: []string{"V"}},
	{name: "one-value/chain-leaf-then-foreign-certificate", handshake: "A", termEnc: "chain:V", mode: "overwrite", dids: []string{"V"}},
	{name: "one-value/folded-spoofed-pem-then-terminator-der", handshake: "A", termEnc: "der", mode: "fold-append", client: []string{"pem:V"}, dids: []string{"V"}},
	{name: "one-value/folded-spoofed-der-then-terminator-der", handshake: "A", termEnc: "der", mode: "fold-append", client: []string{"der:V"}, dids: []string{"V"}},
	{name: "one-value/folded-spoofed-pem-then-terminator-pem", handshake: "A", termEnc: "pem", mode: "fold-append", client: []string{"pem:V"}, dids: []string{"V"}},
	// several node DID headers
	{name: "node-did-twice/listed-first", handshake: "A", termEnc: "pem", mode: "overwrite", dids: []string{"V", "A"}},
	{name: "node-did-twice/own-first", handshake: "A", termEnc: "pem", mode: "overwrite", dids: []string{"A", "V"}},
	{name: "node-did-twice/spoofed-certificate-appended", handshake: "A", termEnc: "pem", mode: "append", client: []string{"pem:V"}, dids: []string{"V", "A"}},
}

func certPEMValue(certs ...*x509.Certificate) string {
	var b []byte
	for _, c := range certs {
		b = append(b, pem.EncodeToMemory(&pem.Block{Type: "CERTIFICATE", Bytes: c.Raw})...)
	}
	return url.QueryEscape(string(b))
}

func certDERValue(c *x509.Certificate) string {
	return base64.StdEncoding.EncodeToString(c.Raw)
}

// streamSetup runs the stream set-up cases against a fresh node with the identity of n1.
func streamSetup(w *world) {
	r := w.r
	rnd := r.Rand(fmt.Sprintf("stream-%d", w.n))
	label := func() string {
		const abc = "abcdefghijklmnopqrstuvwxyz"
		b := make([]byte, 5+rnd.Intn(5))
		for i := range b {
			b[i] = abc[rnd.Intn(len(abc))]
		}
		return string(b)
	}
	// identities: V is a participant of the private transaction, A is an ordinary network member with a valid certificate
	hosts := map[string]string{"V": label() + ".care.example", "A": label() + ".other.example"}
	ids := map[string]did.DID{"V": newDID(rnd, "victim"), "A": newDID(rnd, "attacker")}
	certs := map[string]*x509.Certificate{}
	for _, who := range []string{"V", "A"} {
		w.docs.put(mkDoc(ids[who], []kaKey{{"ka-0", &genKey().PublicKey}}, nutsComm(ids[who], "grpc://"+hosts[who]+":5555")))
		certs[who] = mkCert(r, "", []string{hosts[who]}, nil)
	}
	// ground truth: a certificate vouches for exactly the DID whose NutsComm host it was issued for
	covers := func(handshake string, id did.DID) bool {
		return handshake != "" && !id.Empty() && ids[handshake].Equals(id)
	}

	n := w.newNode("n1")
	defer n.close()
	root := w.newPublic()
	plain := []did.DID{w.ids["n1"], ids["V"]}
	ti := w.newRaw("pal{n1 + participant V of the stream set-up cases}", encryptFor(plain, w.pubs["n1"]), plain, root.tx)
	n.cur = "set-up (stream set-up transactions)"
	for _, t := range []*txInfo{root, ti} {
		if err := n.st.Add(context.Background(), t.tx, t.payload); err != nil {
			r.Fatalf("add: %v", err)
		}
	}

	// the node's network side as production wires it: Configure + Start of the protocol happened in newNode, now the connection manager
	var cm transport.ConnectionManager
	var addr string
	for attempt := 0; ; attempt++ {
		l, err := net.Listen("tcp", "127.0.0.1:0")
		if err != nil {
			r.Fatalf("listen: %v", err)
		}
		addr = l.Addr().String()
		_ = l.Close()
		cfg, err := grpc.NewConfig(addr, transport.PeerID("c15-offloaded-node"),
			grpc.WithTLS(tls.Certificate{}, &core.TrustStore{CertPool: x509.NewCertPool()}, noRevocations{}),
			grpc.WithTLSOffloading(offloadHeaderConfigured))
		if err != nil {
			r.Fatalf("grpc config: %v", err)
		}
		m, err := grpc.NewGRPCConnectionManager(cfg, n.db, n.id, grpc.NewTLSAuthenticator(resolver.DIDServiceResolver{Resolver: w.docs}), n.p)
		if err != nil {
			r.Fatalf("connection manager: %v", err)
		}
		if err = m.Start(); err == nil {
			cm = m
			break
		}
		m.Stop()
		if attempt == 20 {
			r.Fatalf("connection manager does not start: %v", err)
		}
	}
	defer cm.Stop()

	value := func(tok string) string {
		switch tok {
		case "empty":
			return ""
		case "garbage":
			return "not-a-certificate"
		case "pem:V+A":
			return certPEMValue(certs["V"], certs["A"])
		}
		enc, who, _ := strings.Cut(tok, ":")
		if enc == "der" {
			return certDERValue(certs[who])
		}
		return certPEMValue(certs[who])
	}

	for i, sc := range streamCases {
		// what the terminator hands to the node
		var own []string
		if sc.handshake != "" {
			switch {
			case sc.termEnc == "der":
				own = []string{certDERValue(certs[sc.handshake])}
			case strings.HasPrefix(sc.termEnc, "chain:"):
				own = []string{certPEMValue(certs[sc.handshake], certs[strings.TrimPrefix(sc.termEnc, "chain:")])}
			default:
				own = []string{certPEMValue(certs[sc.handshake])}
			}
		}
		var fromClient []string
		for _, tok := range sc.client {
			fromClient = append(fromClient, value(tok))
		}
		var header []string
		switch sc.mode {
		case "overwrite":
			header = own
		case "append":
			header = append(append(header, fromClient...), own...)
		case "prepend":
			header = append(append(header, own...), fromClient...)
		case "fold-append":
			header = []string{strings.Join(append(append([]string{}, fromClient...), own...), ",")}
		default:
			r.Fatalf("stream case %s: unknown terminator mode %q", sc.name, sc.mode)
		}
		peerID := fmt.Sprintf("stream-peer-%d-%d", w.n, i)
		md := metadata.MD{}
		md.Append("peerid", peerID)
		var claimed []string
		for _, who := range sc.dids {
			md.Append("nodedid", ids[who].String())
			claimed = append(claimed, who+"="+ids[who].String())
		}
		if len(header) > 0 {
			md.Append(offloadHeaderWire, header...)
		}

		res, observed, envelopes := n.openStream(addr, cm, md, peerID, ti)
		if res == "inconclusive" {
			r.Count("stream_setup/inconclusive", 1)
			continue
		}

		// the identity the connection carries, judged against the certificate of the TLS handshake
		presented := did.DID{}
		if len(sc.dids) > 0 {
			presented = ids[sc.dids[0]]
		}
		identity := "no-connection"
		if observed != nil {
			identity = "unauthenticated"
			if !observed.NodeDID.Empty() {
				presented = observed.NodeDID
			}
			if observed.Authenticated {
				identity = "authenticated-as-other"
				for who, id := range ids {
					if id.Equals(observed.NodeDID) {
						identity = "authenticated-as-" + who
					}
				}
			}
		}
		truth := covers(sc.handshake, presented)
		witness := map[string]any{"case": sc.name, "tls_handshake_certificate_of": sc.handshake, "terminator": sc.mode + "/" + sc.termEnc, "client_sent_certificate_header": sc.client,
			"certificate_header_values_seen_by_node": len(header), "node_did_headers": claimed, "result": res, "connection_identity": identity}
		if observed != nil {
			witness["connection_peer"] = observed.String()
			if observed.Certificate != nil {
				witness["connection_certificate_dns"] = observed.Certificate.DNSNames
			}
			if observed.Authenticated && !covers(sc.handshake, observed.NodeDID) {
				r.Violation("C15/stream-setup/"+sc.name, fmt.Sprintf("connection authenticated with node DID %s although the certificate verified in the TLS handshake (%s) was not issued for that DID's NutsComm host (case %s)",
					observed.NodeDID, hosts[sc.handshake], sc.name), witness)
			}
		}
		kind := "stream/" + sc.name
		peer := transport.Peer{ID: transport.PeerID(peerID), NodeDID: presented}
		if observed != nil {
			peer = *observed
		}
		c := &pconn{kind: kind, truthAuth: truth, truthDID: presented, n: n}
		c.conn = grpc.NewVerifConnection(peer, nil)
		n.cur = "payload query over the stream of case " + sc.name
		for _, env := range envelopes {
			_ = n.onSend(c, env) // same oracle as for captured Connection.Send envelopes; these were read off the wire
		}
		o := payloadOutcome(c)
		r.Count("stream_setup/"+res, 1)
		r.Count("stream_setup_identity/"+identity, 1)
		r.Count("stream_setup_payload_query/"+relation(c, ti)+"/"+o, 1)
		r.Case("stream-setup|"+sc.name+"|"+res+"|"+identity+"|"+o, true)
		if i < 2 || strings.HasPrefix(sc.name, "append/spoofed-pem") {
			r.Sample(map[string]any{"scenario": "stream set-up behind TLS terminator", "case": sc.name, "result": res, "identity": identity, "payload_query": o})
		}
		// an accepted single-valued stream of the listed participant is the positive control of this phase (TestCheck requires it)
		if strings.HasPrefix(sc.name, "listed-participant-") && identity == "authenticated-as-V" && o == "payload" {
			r.Count("stream_setup_positive_control", 1)
		}
	}
}

// openStream opens a v2 stream with the given request metadata to the node's gRPC server, asks for the payload of ti and reads
// until the answer (or the end of the stream). It returns "accepted" | "refused:<code>" | "inconclusive", the peer information
// the connection manager holds for the connection while it is open, and the envelopes read.
func (n *node) openStream(addr string, cm transport.ConnectionManager, md metadata.MD, peerID string, ti *txInfo) (string, *transport.Peer, []*v2.Envelope) {
	r := n.r
	cc, err := ggrpc.NewClient(addr, ggrpc.WithTransportCredentials(insecure.NewCredentials()))
	if err != nil {
		r.Fatalf("grpc client: %v", err)
	}
	defer cc.Close()
	ctx, cancel := context.WithTimeout(context.Background(), 2*time.Minute) // watchdog only
	defer cancel()
	ended := func(err error) string {
		switch status.Code(err) {
		case codes.DeadlineExceeded, codes.Canceled, codes.Unavailable:
			r.Inconclusive("stream set-up: transport error/watchdog: " + status.Code(err).String())
			return "inconclusive"
		}
		return "refused:" + status.Code(err).String()
	}
	stream, err := v2.NewProtocolClient(cc).Stream(metadata.NewOutgoingContext(ctx, md), ggrpc.WaitForReady(true))
	if err != nil {
		return ended(err), nil, nil
	}
	ref := ti.tx.Ref()
	_ = stream.SendMsg(payloadQuery(ref)) // an error shows up in RecvMsg
	var envelopes []*v2.Envelope
	for {
		env := &v2.Envelope{}
		if err := stream.RecvMsg(env); err != nil {
			if len(envelopes) > 0 {
				r.Unspecified("stream closed by the node after messages but before the payload answer")
			}
			return ended(err), nil, envelopes
		}
		envelopes = append(envelopes, env)
		if tp := env.GetTransactionPayload(); tp != nil && bytes.Equal(tp.TransactionRef, ref.Slice()) {
			break
		}
	}
	var observed *transport.Peer
	for _, p := range cm.Peers() {
		if string(p.ID) == peerID {
			p := p
			observed = &p
		}
	}
	if observed == nil {
		r.Unspecified("answered stream without a registered connection")
	}
	return "accepted", observed, envelopes
}
