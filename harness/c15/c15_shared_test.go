// C15 widening (round 6): connection-list situations in which several live connections share a (self-asserted) peer ID
// and/or a node DID. Up to here every connection of a node under test had a peer ID, node DID and address of its own, so
// every way of finding "the connection of this peer" (by peer ID, by node DID, by peer key, first match, last match)
// led to the connection the query arrived on. Peer IDs are chosen by the peer and broadcast in diagnostics; inbound
// connections are registered per (peer ID, node DID), outbound ones per node DID / address: an anonymous connection, a
// connection of another identity and the authenticated connection of a participant can all carry the same peer ID, a
// cluster / an inbound+outbound pair shares the node DID. This phase builds such connection lists (twin registered
// before / after / around the participant's connection, with the node's ordinary peers as neighbours, participant
// reconnecting after the twin arrived) and sends every query type over every connection of the situation.
// The oracle is unchanged: onSend scans every envelope handed to ANY connection and judges it by the ground truth of the
// connection it was handed to.
package c15

import (
	"fmt"
	"math/rand"
	"strings"

	"github.com/nuts-foundation/go-did/did"
	"github.com/nuts-foundation/nuts-node/crypto/hash"
	"github.com/nuts-foundation/nuts-node/network/dag"
	"github.com/nuts-foundation/nuts-node/network/transport"
	"github.com/nuts-foundation/nuts-node/network/transport/grpc"
	v2 "github.com/nuts-foundation/nuts-node/network/transport/v2"
)

// sharedTwin describes the other connection, relative to the participant's authenticated connection ("legit").
type sharedTwin struct {
	name       string
	who        string // "" anonymous | "same" the participant's DID | "other" another participant | "P4" outsider | "lookalike" | "self" the node's own DID
	auth       bool
	samePeerID bool
	sameAddr   bool
}

var sharedTwins = []sharedTwin{
	{"anonymous-same-peerid", "", false, true, false},
	{"anonymous-same-peerid-same-address", "", false, true, true},
	{"unauthenticated-claims-same-did-same-peerid", "same", false, true, false},
	{"unauthenticated-claims-same-did-same-peerid-same-address", "same", false, true, true}, // equal transport.Peer.Key()
	{"unauthenticated-claims-same-did-other-peerid", "same", false, false, false},
	{"unauthenticated-claims-node-did-same-peerid", "self", false, true, false},
	{"authenticated-outsider-P4-same-peerid", "P4", true, true, false},
	{"authenticated-other-participant-same-peerid", "other", true, true, false},
	{"authenticated-lookalike-did-same-peerid", "lookalike", true, true, false},
	{"anonymous-other-peerid-same-address", "", false, false, true}, // behind the same NAT / proxy address
	{"authenticated-outsider-P4-other-peerid-same-address", "P4", true, false, true},
	{"authenticated-same-did-other-peerid", "same", true, false, false},             // cluster sibling of the participant
	{"authenticated-same-did-same-peerid-other-address", "same", true, true, false}, // inbound + outbound connection of the participant
}

// registration orders / histories of the connection list
var sharedOrders = []string{"twin-first", "twin-last", "twins-around", "reconnect-stale-kept", "reconnect-removed"}

// newConn builds a connection without registering it anywhere.
func (n *node) newConn(kind string, peer transport.Peer, truthAuth bool) *pconn {
	c := &pconn{kind: kind, truthAuth: truthAuth, truthDID: peer.NodeDID, n: n}
	c.conn = grpc.NewVerifConnection(peer, func(_ grpc.Protocol, envelope interface{}, _ bool) error { return n.onSend(c, envelope) })
	return c
}

// register appends the connection to the node's current connection list (registration order = list order, as in
// connectionList.getOrRegister) and reports its v2 stream as connected.
func (n *node) register(c *pconn) {
	n.list.Add(c.conn)
	n.peers = append(n.peers, c)
	v2.VerifPeerConnected(n.p, c.conn.Peer())
}

func (n *node) twinPeer(tw sharedTwin, legit transport.Peer, other did.DID, seq int) (transport.Peer, bool) {
	p := transport.Peer{ID: legit.ID, Address: fmt.Sprintf("10.77.%d.%d:%d", n.w.n, seq%250, 40000+seq), Authenticated: tw.auth}
	if !tw.samePeerID {
		p.ID = transport.PeerID(fmt.Sprintf("%s-sibling-%d", legit.ID, seq))
	}
	if tw.sameAddr {
		p.Address = legit.Address
	}
	switch tw.who {
	case "":
	case "same":
		p.NodeDID = legit.NodeDID
	case "other":
		p.NodeDID = other
	case "P4":
		p.NodeDID = n.w.ids["P4"]
	case "lookalike":
		p.NodeDID = otherLetterCase(legit.NodeDID)
	case "self":
		if n.id.Empty() {
			return p, false
		}
		p.NodeDID = n.id
	}
	return p, true
}

// sharedTxs selects the transactions a situation is queried for: private transactions the node serves (participant
// listed without / with the other participant; participant not listed), and some of every other kind it knows.
func (n *node) sharedTxs(rnd *rand.Rand, legit, other did.DID) []*txInfo {
	var onlyLegit, both, notLegit, rest []*txInfo
	for _, ti := range n.knownTxs() {
		switch {
		case ti.private && ti.aliasOf == nil && n.storedAs(ti) == "genuine" && (n.situation(ti) == "listed" || n.situation(ti) == "listed-invalid-entry"):
			switch {
			case ti.isListed(legit) && !ti.isListed(other):
				onlyLegit = append(onlyLegit, ti)
			case ti.isListed(legit):
				both = append(both, ti)
			default:
				notLegit = append(notLegit, ti)
			}
		default:
			rest = append(rest, ti)
		}
	}
	take := func(from []*txInfo, k int) []*txInfo {
		rnd.Shuffle(len(from), func(i, j int) { from[i], from[j] = from[j], from[i] })
		return from[:min(k, len(from))]
	}
	var out []*txInfo
	out = append(out, take(onlyLegit, n.r.Pick(2, 4))...)
	out = append(out, take(both, n.r.Pick(1, 3))...)
	out = append(out, take(notLegit, n.r.Pick(1, 2))...)
	out = append(out, take(rest, n.r.Pick(2, 5))...)
	return out
}

// sharedRound sends every query type over each of the given connections and classifies where the answers went.
func (n *node) sharedRound(rnd *rand.Rand, twin, order, step string, queriers []*pconn, roles map[*pconn]string, txs []*txInfo) {
	nt := n.holdsPrivate()
	for _, q := range queriers {
		if !q.conn.IsConnected() {
			continue
		}
		role := roles[q]
		for _, ti := range txs {
			_, _ = n.deliver(q, payloadQuery(ti.tx.Ref()), fmt.Sprintf("shared identity (%s, %s, %s): payload query by %s for %s", twin, order, step, role, ti.class))
			out := payloadOutcome(q)
			// where did payload responses go?
			where := "nowhere"
			for _, c := range n.peers {
				for _, e := range c.sent {
					if tp := e.GetTransactionPayload(); tp != nil && len(tp.Data) > 0 {
						if c == q {
							where = "own-connection"
						} else if where == "nowhere" {
							where = "other-connection:" + roles[c]
						}
					}
				}
			}
			n.r.Count("shared_payload_query/"+role+"/"+relation(q, ti)+"/"+out, 1)
			if ti.private && role == "participant" && where == "own-connection" && relation(q, ti) == "authenticated-listed" {
				n.r.Count("shared_participant_served_on_own_connection", 1)
				if !sampled["shared"+twin] {
					sampled["shared"+twin] = true
					var listing []string
					for _, c := range n.list.All() {
						listing = append(listing, fmt.Sprintf("%s connected=%v authenticated=%v", c.Peer().String(), c.IsConnected(), c.IsAuthenticated()))
					}
					n.r.Sample(map[string]any{"scenario": "shared identity", "node": n.name, "twin": twin, "order": order, "step": step, "connection_list": listing,
						"transaction_class": ti.class, "querier": role, "response": out, "payload_went_to": where})
				}
			}
			n.r.Case(strings.Join([]string{"shared", twin, order, step, role, "TransactionPayloadQuery", n.situation(ti), relation(q, ti), classOf(ti), out, where}, "|"), nt)
		}
		// list / range / state / gossip over the same connection
		var refs []hash.SHA256Hash
		for _, ti := range txs {
			refs = append(refs, ti.tx.Ref())
		}
		refs = append(refs, randHash(rnd))
		label := fmt.Sprintf("shared identity (%s, %s, %s) by %s", twin, order, step, role)
		_, _ = n.deliver(q, listQuery("c15-shared-list", refs...), label)
		nl := len(q.sent)
		_, _ = n.deliver(q, rangeQuery("c15-shared-range", 0, dag.MaxLamportClock), label)
		nr := len(q.sent)
		n.r.Case(strings.Join([]string{"shared", twin, order, step, role, "list+range", fmt.Sprint(nl > 0), fmt.Sprint(nr > 0)}, "|"), nt)
		xor, lc := n.st.XOR(dag.MaxLamportClock)
		_, _ = n.deliver(q, stateMsg("c15-shared-state", randHash(rnd), lc), label+": state, other xor")
		ns := len(q.sent)
		_, _ = n.deliver(q, stateMsg("c15-shared-state2", xor, lc), label+": state, equal xor")
		v2.VerifExpireConversations(n.p)
		_, _ = n.deliver(q, gossipMsg(randHash(rnd), lc, txs[rnd.Intn(len(txs))].tx.Ref()), label+": gossip, other xor, known ref")
		ng := len(q.sent)
		v2.VerifExpireConversations(n.p)
		u := randHash(rnd)
		_, _ = n.deliver(q, gossipMsg(xor.Xor(u), lc+1, u), label+": gossip, unknown ref")
		v2.VerifExpireConversations(n.p)
		v2.VerifEvictConversations(n.p)
		n.r.Case(strings.Join([]string{"shared", twin, order, step, role, "state+gossip", fmt.Sprint(ns > 0), fmt.Sprint(ng > 0)}, "|"), nt)
	}
	n.tick(fmt.Sprintf("tick, shared identity (%s, %s, %s)", twin, order, step))
}

// ---- phase: connections sharing a peer ID / node DID ------------------------------------------------------------------------

func sharedIdentity(n *node) {
	rnd := n.r.Rand(fmt.Sprintf("shared-%d-%s", n.w.n, n.name))
	origList, origPeers := n.list, n.peers
	defer func() {
		n.list, n.peers = origList, origPeers
		v2.VerifAttach(n.p, origList)
	}()
	offset := rnd.Intn(len(sharedOrders))
	seq := 0
	for twi, tw := range sharedTwins {
		var orders []string
		if n.r.Thorough() {
			// thorough: three of the five histories per twin and node; nodes and worlds rotate through all of them
			for k := 0; k < 3; k++ {
				orders = append(orders, sharedOrders[(twi+offset+k)%len(sharedOrders)])
			}
		} else {
			// quick: every twin under two histories, one of which registers the twin before the participant's (re)connection
			orders = []string{sharedOrders[(twi+offset)%len(sharedOrders)], sharedOrders[(twi+offset+2)%len(sharedOrders)]}
		}
		for _, order := range orders {
			seq++
			legitName, otherName := "P1", "P2"
			if rnd.Intn(3) == 0 {
				legitName, otherName = "P2", "P1"
			}
			legitDID, otherDID := n.w.ids[legitName], n.w.ids[otherName]
			legitPeer := transport.Peer{ID: transport.PeerID(fmt.Sprintf("c15-shared-%s-%d", legitName, seq)), Address: fmt.Sprintf("10.66.%d.%d:5555", n.w.n, seq%250), NodeDID: legitDID, Authenticated: true}
			twinPeer, ok := n.twinPeer(tw, legitPeer, otherDID, seq)
			if !ok {
				continue
			}
			// a fresh connection list: the node's ordinary peers (all with identities of their own) around the situation
			neighbours := append([]*pconn{}, origPeers...)
			rnd.Shuffle(len(neighbours), func(i, j int) { neighbours[i], neighbours[j] = neighbours[j], neighbours[i] })
			split := rnd.Intn(len(neighbours) + 1)
			n.list = grpc.NewVerifConnectionList()
			v2.VerifAttach(n.p, n.list)
			n.peers = nil
			for _, c := range neighbours[:split] {
				n.list.Add(c.conn)
				n.peers = append(n.peers, c)
			}
			between := func() { // sometimes an unrelated connection registers in between
				if split < len(neighbours) && rnd.Intn(2) == 0 {
					n.list.Add(neighbours[split].conn)
					n.peers = append(n.peers, neighbours[split])
					split++
				}
			}
			roles := map[*pconn]string{}
			for _, c := range neighbours {
				roles[c] = "neighbour"
			}
			legit := n.newConn("shared/participant-"+legitName, legitPeer, true)
			twin := n.newConn("shared/"+tw.name, twinPeer, tw.auth)
			roles[legit], roles[twin] = "participant", "twin"
			txs := n.sharedTxs(rnd, legitDID, otherDID)
			if len(txs) == 0 {
				n.r.Fatalf("node %s: nothing to query in the shared-identity phase", n.name)
			}
			scenario := []*pconn{legit, twin}
			witness := neighbours[rnd.Intn(len(neighbours))]
			switch order {
			case "twin-first":
				n.register(twin)
				between()
				n.register(legit)
			case "twin-last":
				n.register(legit)
				between()
				n.register(twin)
			case "twins-around":
				// a second twin of another kind on the other side of the participant's connection
				second := sharedTwins[0]
				if tw.who == "" {
					second = sharedTwins[6]
				}
				p2, _ := n.twinPeer(second, legitPeer, otherDID, seq+500)
				twin2 := n.newConn("shared/"+second.name, p2, second.auth)
				roles[twin2] = "twin"
				n.register(twin)
				between()
				n.register(legit)
				between()
				n.register(twin2)
				scenario = append(scenario, twin2)
			case "reconnect-stale-kept", "reconnect-removed":
				// the participant is connected and served, loses the connection, the twin arrives, the participant reconnects
				n.register(legit)
				n.sharedRound(rnd, tw.name, order, "before-disconnect", []*pconn{legit}, roles, txs[:min(2, len(txs))])
				v2.VerifPeerDisconnected(n.p, legit.conn.Peer())
				legit.conn.SetConnected(false)
				again := legitPeer
				if order == "reconnect-removed" {
					n.list.Remove(legit.conn)
					again.Address = fmt.Sprintf("10.66.%d.%d:%d", n.w.n, seq%250, 50000+seq) // inbound: another source port
				} else if rnd.Intn(2) == 0 {
					// production resets the peer information of a disconnected (outbound) connection that stays in the list
					legit.conn.SetPeer(transport.Peer{Address: legitPeer.Address})
				}
				n.register(twin)
				between()
				legit2 := n.newConn("shared/participant-"+legitName+"-reconnected", again, true)
				roles[legit2] = "participant"
				n.register(legit2)
				scenario = []*pconn{legit2, twin, legit}
			}
			for _, c := range neighbours[split:] {
				n.list.Add(c.conn)
				n.peers = append(n.peers, c)
			}
			n.r.Count("shared_situations", 1)
			n.r.Count("shared_situations/"+order, 1)
			n.sharedRound(rnd, tw.name, order, "all-connected", append(scenario, witness), roles, txs)
			if rnd.Intn(2) == 0 {
				// the twin leaves: the participant keeps being served
				v2.VerifPeerDisconnected(n.p, twin.conn.Peer())
				twin.conn.SetConnected(false)
				n.sharedRound(rnd, tw.name, order, "twin-disconnected", scenario[:1], roles, txs[:min(3, len(txs))])
			}
			for _, c := range n.peers {
				if roles[c] != "neighbour" && c.conn.IsConnected() {
					v2.VerifPeerDisconnected(n.p, c.conn.Peer())
				}
			}
		}
	}
}
