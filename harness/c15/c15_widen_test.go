// Check C15, second part: sequences and key situations beyond single query/response pairs.
//
//   - redelivery: transactions the node ALREADY has (without payload / with payload / public) arrive again inside
//     TransactionList messages of open conversations (range answer, multi-message list answer, twice in one message) with
//     absent, matching and mismatching payloads; the payload store comparison of deliver() is the oracle.
//   - aliasAttack: an authenticated peer that is not a participant of private transaction T publishes transactions of its
//     own that copy T's payload hash under participant lists of its own choosing and asks for "their" payload.
//   - creation: the node's real Network.CreateTransaction is asked (as the application does) for transactions addressed to
//     participant lists over resolution/key situations of the participants (deactivated, unknown, no keyAgreement key, ...);
//     whatever it creates is then queried by every peer kind; ground truth = the list the application asked for.
//   - servingSituations: the serving node's own DID document is deactivated / unresolvable / without keyAgreement key.
package c15

import (
	"context"
	"crypto/ecdsa"
	"crypto/ed25519"
	"crypto/elliptic"
	crand "crypto/rand"
	"fmt"
	"math/rand"
	"strings"

	"github.com/nuts-foundation/go-did/did"
	"github.com/nuts-foundation/nuts-node/audit"
	nutscrypto "github.com/nuts-foundation/nuts-node/crypto"
	"github.com/nuts-foundation/nuts-node/crypto/hash"
	"github.com/nuts-foundation/nuts-node/network"
	"github.com/nuts-foundation/nuts-node/network/dag"
	"github.com/nuts-foundation/nuts-node/network/dag/tree"
	v2 "github.com/nuts-foundation/nuts-node/network/transport/v2"
	"github.com/nuts-foundation/nuts-node/vdr/resolver"
	"verif/lib/dagx"
)

// ---- helpers ---------------------------------------------------------------------------------------------------------

func listMsgPart(cid []byte, number, total uint32, entries ...*v2.Transaction) *v2.Envelope {
	return &v2.Envelope{Message: &v2.Envelope_TransactionList{TransactionList: &v2.TransactionList{ConversationID: cid, Transactions: entries, TotalMessages: total, MessageNumber: number}}}
}

func entryOf(ti *txInfo, payload []byte) *v2.Transaction {
	return &v2.Transaction{Data: ti.tx.Data(), Payload: payload}
}

func (n *node) inDag(ti *txInfo) bool {
	ok, err := n.st.IsPresent(context.Background(), ti.tx.Ref())
	if err != nil {
		n.r.Fatalf("IsPresent: %v", err)
	}
	return ok
}

// storedAs tells what the payload store holds under the payload hash of ti: "none", "genuine" (bytes hash to the key) or "forged".
func (n *node) storedAs(ti *txInfo) string {
	data, err := n.st.ReadPayload(context.Background(), ti.tx.PayloadHash())
	switch {
	case err != nil || len(data) == 0:
		return "none"
	case hash.SHA256Sum(data).Equals(ti.tx.PayloadHash()):
		return "genuine"
	}
	return "forged"
}

func outcome(herr error, panicked bool) string {
	switch {
	case panicked:
		return "panic"
	case herr != nil:
		return "rejected"
	}
	return "accepted"
}

// admit: peer c announces ti by gossip, the node asks for it, c answers with one TransactionList carrying ti with the given payload.
func (n *node) admit(c *pconn, ti *txInfo, payload []byte, what string) bool {
	cid := n.solicit(c, ti)
	if cid == nil {
		n.r.Inconclusive("node did not ask for the announced transaction (" + what + ")")
		return false
	}
	_, _ = n.deliver(c, listMsg(cid, []*v2.Transaction{entryOf(ti, payload)}), "TransactionList: "+what)
	return n.inDag(ti)
}

// solicitRange makes the node send a TransactionRangeQuery to peer c, the way production gets there: the peer gossips another
// XOR without new refs, the node answers with State, the peer's TransactionSet cannot be decoded, the node asks for the first page.
func (n *node) solicitRange(c *pconn, rnd *rand.Rand) (cid []byte, start, end uint32) {
	v2.VerifExpireConversations(n.p)
	v2.VerifEvictConversations(n.p)
	_, lc := n.st.XOR(dag.MaxLamportClock)
	_, _ = n.deliver(c, gossipMsg(randHash(rnd), lc+1), "gossip: other xor, no new refs, peer ahead")
	var st *v2.State
	for _, e := range c.sent {
		if s := e.GetState(); s != nil {
			st = s
		}
	}
	if st == nil {
		return nil, 0, 0
	}
	size, err := tree.NewIblt(dag.IbltNumBuckets).MarshalBinary()
	if err != nil {
		n.r.Fatalf("iblt: %v", err)
	}
	iblt := make([]byte, len(size))
	rnd.Read(iblt)
	_, _ = n.deliver(c, &v2.Envelope{Message: &v2.Envelope_TransactionSet{TransactionSet: &v2.TransactionSet{ConversationID: st.ConversationID, LCReq: st.LC, LC: st.LC, IBLT: iblt}}},
		"TransactionSet whose IBLT cannot be decoded")
	for _, e := range c.sent {
		if q := e.GetTransactionRangeQuery(); q != nil {
			return q.ConversationID, q.Start, q.End
		}
	}
	return nil, 0, 0
}

// pick returns known honest private transactions whose payload the node holds, and a public one.
func (n *node) pickKnown(rnd *rand.Rand) (pres, other, pub *txInfo) {
	var priv, pubs []*txInfo
	for _, ti := range n.knownTxs() {
		switch {
		case ti.aliasOf != nil || n.storedAs(ti) != "genuine":
		case !ti.private:
			pubs = append(pubs, ti)
		case strings.HasPrefix(ti.class, "pal{"):
			priv = append(priv, ti)
		}
	}
	if len(priv) < 2 || len(pubs) == 0 {
		n.r.Fatalf("node %s: not enough stored payloads to pick from (%d private, %d public)", n.name, len(priv), len(pubs))
	}
	i := rnd.Intn(len(priv))
	j := (i + 1 + rnd.Intn(len(priv)-1)) % len(priv)
	return priv[i], priv[j], pubs[rnd.Intn(len(pubs))]
}

// ---- phase: transactions the node already has arrive again in TransactionList messages -----------------------------------

func redelivery(n *node) {
	rnd := n.r.Rand(fmt.Sprintf("redelivery-%d-%s", n.w.n, n.name))
	w := n.w
	nt := n.holdsPrivate()
	junk := func(k int) []byte { b := make([]byte, k); rnd.Read(b); return b }
	members := []string{"n1", "n2", "n4", "P1"}
	for _, c := range n.peers {
		switch c.kind {
		case "anonymous", "authenticated-P1", "authenticated-outsider-P4":
		case "unauthenticated-claims-P1", "authenticated-self":
			if !n.r.Thorough() {
				continue
			}
		default:
			continue
		}
		// a private transaction admitted without its payload: its normal state on every node until a payload query is answered
		z := w.newHonest(members, n.tip())
		if !n.admit(c, z, nil, "private tx, no payload") {
			n.r.Inconclusive("private transaction without payload was not admitted")
			continue
		}
		pres, other, pub := n.pickKnown(rnd)
		fresh := w.newHonest(members, n.tip())  // unknown so far; arrives twice in one message
		fresh2 := w.newHonest(members, n.tip()) // unknown so far; arrives with a mismatching payload
		type variant struct {
			name    string
			target  *txInfo
			entries []*v2.Transaction
		}
		one := func(name string, ti *txInfo, payload []byte) variant {
			return variant{name, ti, []*v2.Transaction{entryOf(ti, payload)}}
		}
		variants := []variant{
			one("absent-private/mismatching-random", z, junk(24)),
			one("absent-private/payload-of-another-private-transaction", z, other.payload),
			one("absent-private/payload-of-a-public-transaction", z, pub.payload),
			one("absent-private/truncated", z, z.payload[:23]),
			one("absent-private/extended", z, append(append([]byte{}, z.payload...), 0)),
			one("absent-private/no-payload", z, nil),
			{"absent-private/twice-in-one-message-second-mismatching", z, []*v2.Transaction{entryOf(z, nil), entryOf(z, junk(24))}},
			one("present-private/mismatching-random", pres, junk(24)),
			one("present-private/payload-of-another-private-transaction", pres, other.payload),
			one("present-private/no-payload", pres, nil),
			one("present-private/matching", pres, pres.payload),
			one("public/mismatching-random", pub, junk(24)),
			one("public/payload-of-a-private-transaction", pub, pres.payload),
			one("public/no-payload", pub, nil),
			one("public/matching", pub, pub.payload),
			one("new-private/mismatching-random", fresh2, junk(24)),
			{"new-private/twice-in-one-message-second-mismatching", fresh, []*v2.Transaction{entryOf(fresh, nil), entryOf(fresh, junk(24))}},
		}
		rnd.Shuffle(len(variants), func(i, j int) { variants[i], variants[j] = variants[j], variants[i] })
		// the genuine payload comes last (the text allows storing it: the transaction is in the DAG)
		variants = append(variants, one("absent-private/matching", z, z.payload))

		// (a) all of them as parts of one answer to a range query of the node (the conversation only checks the clock range)
		cid, start, end := n.solicitRange(c, rnd)
		if cid == nil {
			n.r.Inconclusive("node did not send a TransactionRangeQuery")
		} else {
			n.r.Count("redelivery_range_conversations", 1)
			if z.tx.Clock() < start || z.tx.Clock() >= end {
				n.r.Fatalf("requested range [%d,%d) does not cover the known transactions", start, end)
			}
			total := uint32(len(variants))
			for i, v := range variants {
				before := n.storedAs(v.target)
				herr, panicked := n.deliver(c, listMsgPart(cid, uint32(i+1), total, v.entries...), "range answer re-delivering "+v.name)
				after := n.storedAs(v.target)
				n.r.Count("redelivery/range/"+v.name+"/"+outcome(herr, panicked)+"/stored:"+before+"->"+after, 1)
				if strings.HasPrefix(v.name, "absent-private/mismatching") && before == "none" {
					n.r.Count("redelivery_known_absent_with_mismatching_payload", 1)
				}
				n.r.Case(strings.Join([]string{"TransactionList-redelivery", "range", n.name, c.kind, v.name, outcome(herr, panicked), before, after}, "|"), nt)
			}
		}

		// (b) the answer to a list query in several messages: the same (requested) transaction in each of them
		z3 := w.newHonest(members, n.tip())
		if cid := n.solicit(c, z3); cid == nil {
			n.r.Inconclusive("node did not ask for the announced transaction (multi-message answer)")
		} else {
			steps := []struct {
				name    string
				payload []byte
			}{{"first-no-payload", nil}, {"again-mismatching-random", junk(24)}, {"again-payload-of-another-private-transaction", other.payload},
				{"again-no-payload", nil}, {"again-matching", z3.payload}}
			for i, s := range steps {
				before := n.storedAs(z3)
				herr, panicked := n.deliver(c, listMsgPart(cid, uint32(i+1), uint32(len(steps)), entryOf(z3, s.payload)), "list answer part: "+s.name)
				after := n.storedAs(z3)
				n.r.Count("redelivery/list/"+s.name+"/"+outcome(herr, panicked)+"/stored:"+before+"->"+after, 1)
				if s.name == "again-mismatching-random" && before == "none" && n.inDag(z3) {
					n.r.Count("redelivery_known_absent_with_mismatching_payload", 1)
				}
				n.r.Case(strings.Join([]string{"TransactionList-redelivery", "list-parts", n.name, c.kind, s.name, outcome(herr, panicked), before, after}, "|"), nt)
			}
		}

		// what is stored now is served under the same rules
		for _, ti := range []*txInfo{z, fresh, fresh2, z3} {
			for _, q := range n.peers {
				_, _ = n.deliver(q, payloadQuery(ti.tx.Ref()), "query after re-delivery: "+ti.class)
				n.r.Case(strings.Join([]string{"after-redelivery", n.situation(ti), relation(q, ti), fmt.Sprint(n.inDag(ti)), n.storedAs(ti), payloadOutcome(q)}, "|"), true)
			}
		}
	}
}

// ---- phase: an unlisted authenticated peer re-uses the payload hash of a private transaction ---------------------------------

func (w *world) newAlias(class string, of *txInfo, key *dagx.Key, pal [][]byte, listed []did.DID, prevs ...dag.Transaction) *txInfo {
	l := map[string]bool{}
	for _, d := range listed {
		l[d.String()] = true
	}
	// the attacker knows the payload HASH only (it is the signed content of every transaction); NewTx derives it from the bytes
	return w.register(&txInfo{tx: dagx.NewTx(key, true, of.payload, payloadType, sigTime, pal, prevs...), payload: of.payload, private: len(pal) > 0,
		class: class, listed: l, aliasOf: of})
}

func aliasAttack(n *node) {
	rnd := n.r.Rand(fmt.Sprintf("alias-%d-%s", n.w.n, n.name))
	w := n.w
	attackerKey := dagx.NewKey("")
	for _, m := range n.peers {
		var attKey *ecdsa.PublicKey
		switch m.kind {
		case "authenticated-outsider-P4":
			attKey = w.pubs["P4"]
		case "authenticated-P2":
			if !n.r.Thorough() {
				continue
			}
			attKey = w.pubs["P2"]
		default:
			continue
		}
		att := m.truthDID
		// victim transaction: honest participant list without the attacker; the node holds the payload and (where it has a
		// DID) is a participant that can read the list
		var cands []*txInfo
		for _, ti := range n.knownTxs() {
			if !ti.private || ti.aliasOf != nil || !strings.HasPrefix(ti.class, "pal{") || ti.isListed(att) || n.storedAs(ti) != "genuine" {
				continue
			}
			switch n.situation(ti) {
			case "listed", "listed-key-missing", "no-node-did":
				cands = append(cands, ti)
			}
		}
		if len(cands) == 0 {
			n.r.Fatalf("node %s holds no private payload addressed to it that %s is not a participant of", n.name, m.kind)
		}
		T := cands[rnd.Intn(len(cands))]
		victimKey := w.pubs[n.name] // the node's current keyAgreement key, public in its DID document
		if victimKey == nil {
			victimKey = w.pubs["n1"] // n3 has no DID: nothing it could decrypt
		}
		both := []did.DID{att}
		if !n.id.Empty() {
			both = append(both, n.id)
		}
		type variant struct {
			name    string
			pal     [][]byte
			listed  []did.DID
			payload []byte // what the attacker can attach (never the genuine bytes)
		}
		variants := []variant{
			{"pal{attacker,victim}", encryptFor(both, victimKey, attKey), both, nil},
			{"pal{attacker}", encryptFor([]did.DID{att}, victimKey), []did.DID{att}, nil},
			{"pal{attacker,victim}-encrypted-for-attacker-only", encryptFor(both, attKey), both, nil},
			{"pal{attacker,victim}-with-junk-payload", encryptFor(both, victimKey, attKey), both, w.marker()},
			{"public-without-payload", nil, nil, nil},
			{"public-with-junk-payload", nil, nil, w.marker()},
			// a "pal" header that is present but lists nobody
			{"empty-pal-header-without-payload", [][]byte{}, nil, nil},
			{"empty-pal-header-with-junk-payload", [][]byte{}, nil, w.marker()},
		}
		for _, v := range variants {
			alias := w.newAlias("same-payload-hash/"+v.name, T, attackerKey, v.pal, v.listed, n.tip())
			admitted := n.admit(m, alias, v.payload, "transaction re-using the payload hash of "+T.class+" ("+v.name+")")
			n.r.Count(fmt.Sprintf("alias/%s/admitted=%v", v.name, admitted), 1)
			if admitted {
				n.r.Count("alias_admitted", 1)
			}
			for _, q := range n.peers {
				_, _ = n.deliver(q, payloadQuery(alias.tx.Ref()), "payload query for "+alias.class+" by "+q.kind)
				out := payloadOutcome(q)
				n.r.Count("alias_payload_query/"+v.name+"/"+relation(q, T)+"/"+out, 1)
				n.r.Case(strings.Join([]string{"same-payload-hash", n.situation(T), m.kind, v.name, fmt.Sprint(admitted), q.kind, out}, "|"), true)
			}
			_, _ = n.deliver(m, listQuery("c15-alias", alias.tx.Ref(), T.tx.Ref()), "list query for "+alias.class)
			_, _ = n.deliver(m, rangeQuery("c15-alias", min(alias.tx.Clock(), T.tx.Clock()), max(alias.tx.Clock(), T.tx.Clock())+1), "range query over "+alias.class)
		}
	}
}

// ---- phase: the node creates transactions addressed to participant lists ----------------------------------------------------------

// creationIdentities adds DIDs in the resolution/key situations a participant can be in when a transaction is created.
func (w *world) creationIdentities() {
	rnd := w.r.Rand(fmt.Sprintf("creation-ids-%d", w.n))
	ec := func() any { return &genKey().PublicKey }
	add := func(name string, keys []kaKey, doc bool) did.DID {
		id := newDID(rnd, name)
		w.ids[name] = id
		if doc {
			w.docs.put(mkDoc(id, keys, nutsComm(id, "grpc://"+strings.ToLower(name)+".nodes.example:5555")))
		}
		return id
	}
	for _, name := range []string{"D1", "D2"} { // deactivated after having had a key
		w.docs.setDeactivated(add(name, []kaKey{{"ka-0", ec()}}, true), true)
	}
	// all controllers deactivated
	w.docs.setFail(add("NC", []kaKey{{"ka-0", ec()}}, true), resolver.ErrNoActiveController)
	// never published
	add("U", nil, false)
	// no keyAgreement key
	add("K0", nil, true)
	edPub, _, err := ed25519.GenerateKey(crand.Reader)
	if err != nil {
		panic(err)
	}
	add("KED", []kaKey{{"ka-0", edPub}}, true) // keyAgreement key is not an EC key
	p384, err := ecdsa.GenerateKey(elliptic.P384(), crand.Reader)
	if err != nil {
		panic(err)
	}
	add("K384", []kaKey{{"ka-0", &p384.PublicKey}}, true)
	add("K2", []kaKey{{"ka-0", ec()}, {"ka-1", ec()}}, true)
	w.ids["E"] = did.DID{} // empty DID
}

func identityKind(name string, n *node) string {
	switch {
	case name == n.name:
		return "self"
	case strings.HasPrefix(name, "D"):
		return "deactivated"
	case name == "NC":
		return "no-active-controller"
	case name == "U":
		return "unknown"
	case name == "K0":
		return "no-keyagreement-key"
	case name == "KED":
		return "ed25519-keyagreement-key"
	case name == "K384":
		return "p384-keyagreement-key"
	case name == "K2":
		return "two-keyagreement-keys"
	case name == "E":
		return "empty-did"
	}
	return "active"
}

// creationLists: participant lists as the application would hand them to CreateTransaction ("self" = the creating node's DID).
var creationLists = [][]string{
	{"D1"}, {"D1", "D2"}, {"D2", "D1", "D1"}, {"P1"}, {"self", "P1"}, {"P1", "D1"}, {"D1", "P1"}, {"self", "D1"}, {"self"},
	{"U"}, {"P1", "U"}, {"D1", "U"}, {"K0"}, {"P1", "K0"}, {"D1", "K0"}, {"KED"}, {"D1", "KED"}, {"K384"}, {"K2", "P1"},
	{"E"}, {"P1", "E"}, {"D1", "E"}, {"P1", "P1"}, {"P2", "D1", "D2"}, {"NC"}, {"NC", "D1"}, {"P1", "NC"},
}

var creationPool = []string{"self", "P1", "P2", "P3", "D1", "D2", "NC", "U", "K0", "KED", "K384", "K2", "E"}

func creation(w *world, nodes []*node) {
	w.creationIdentities()
	rnd := w.r.Rand(fmt.Sprintf("creation-%d", w.n))
	for _, n := range nodes {
		ref, pub, err := w.ks[n.name].New(audit.TestContext(), nutscrypto.StringNamingFunc("c15-signer-"+n.name))
		if err != nil {
			w.r.Fatalf("signing key: %v", err)
		}
		creator := network.VerifNewTransactionCreator(n.st, w.ks[n.name], resolver.DIDKeyResolver{Resolver: w.docs}, n.id)
		lists := append([][]string{}, creationLists...)
		if n.name != "n1" && !w.r.Thorough() {
			// the other nodes take the all-deactivated list and a seeded sample of the rest
			rnd.Shuffle(len(lists), func(i, j int) { lists[i], lists[j] = lists[j], lists[i] })
			lists = append([][]string{{"D1", "D2"}}, lists[:w.r.Pick(5, 0)]...)
		}
		for i := 0; i < w.r.Pick(2, 16); i++ {
			var l []string
			for _, p := range creationPool {
				if rnd.Intn(4) == 0 {
					l = append(l, p)
				}
			}
			if len(l) == 0 {
				l = []string{creationPool[rnd.Intn(len(creationPool))]}
			}
			rnd.Shuffle(len(l), func(i, j int) { l[i], l[j] = l[j], l[i] })
			lists = append(lists, l)
		}
		for _, names := range lists {
			n.create(creator, ref.KID, pub, names)
		}
	}
}

func (n *node) create(creator *network.Network, kid string, pub any, names []string) {
	w := n.w
	var pal []did.DID
	var kinds []string
	listed := map[string]bool{}
	for _, name := range names {
		if name == "self" {
			if n.id.Empty() {
				continue
			}
			name = n.name
		}
		id := w.ids[name]
		pal = append(pal, id)
		kinds = append(kinds, identityKind(name, n))
		if !id.Empty() {
			listed[id.String()] = true
		}
	}
	if len(pal) == 0 {
		return
	}
	shape := strings.Join(kinds, ",")
	payload := w.marker()
	tmpl := network.TransactionTemplate(payloadType, payload, kid).WithAttachKey(pub).WithTimestamp(sigTime).WithPrivate(pal)
	n.cur = "CreateTransaction with participants {" + shape + "}"
	n.drain()
	// the marker is a private payload from the moment the application hands it over
	ti := &txInfo{payload: payload, private: true, class: "created{" + shape + "}", listed: listed}
	w.track(ti)
	var tx dag.Transaction
	var err error
	panicked := false
	func() {
		defer func() {
			if rec := recover(); rec != nil {
				panicked = true
				n.r.Violation("C15/panic/CreateTransaction", fmt.Sprintf("CreateTransaction panicked for participants {%s} on node %s: %v", shape, n.name, rec), map[string]any{"node": n.name, "participants": shape})
			}
		}()
		tx, err = creator.CreateTransaction(audit.TestContext(), tmpl)
	}()
	nodeKind := "node-did"
	if n.id.Empty() {
		nodeKind = "no-node-did"
	}
	switch {
	case panicked:
		n.r.Case("CreateTransaction|"+nodeKind+"|"+shape+"|panic", true)
		return
	case err != nil:
		n.r.Count("create/refused", 1)
		n.r.Case("CreateTransaction|"+nodeKind+"|"+shape+"|refused", true)
		if stored, _ := n.st.IsPayloadPresent(context.Background(), hash.SHA256Sum(payload)); stored {
			n.r.Unspecified("CreateTransaction failed but the payload was stored")
		}
		return
	}
	ti.tx = tx
	w.byH[tx.Ref()] = ti
	header := "with-participant-list-header"
	if len(tx.PAL()) == 0 {
		header = "WITHOUT-participant-list-header"
	}
	n.r.Count("create/created/"+header, 1)
	n.r.Count("create/created", 1)
	n.r.Case("CreateTransaction|"+nodeKind+"|"+shape+"|created|"+header, true)
	if !sampled["create"+header] {
		sampled["create"+header] = true
		n.r.Sample(map[string]any{"scenario": "CreateTransaction", "node": n.name, "participants": shape, "result": header, "transaction": tx.Ref().String()})
	}
	// every peer kind asks for it right away (it is also part of every later query phase of this node)
	for _, q := range n.peers {
		_, _ = n.deliver(q, payloadQuery(tx.Ref()), "payload query for "+ti.class)
		out := payloadOutcome(q)
		n.r.Count("created_payload_query/"+relation(q, ti)+"/"+out, 1)
		n.r.Case(strings.Join([]string{"created", n.situation(ti), shape, header, "TransactionPayloadQuery", relation(q, ti), out}, "|"), true)
		switch q.kind {
		case "anonymous", "authenticated-outsider-P4", "authenticated-P1":
			_, _ = n.deliver(q, listQuery("c15-created", tx.Ref()), "list query for "+ti.class)
			_, _ = n.deliver(q, rangeQuery("c15-created", tx.Clock(), tx.Clock()+1), "range query for "+ti.class)
			n.r.Case(strings.Join([]string{"created", n.situation(ti), shape, header, "list+range", relation(q, ti)}, "|"), true)
		}
	}
	n.tick("after CreateTransaction")
}

// ---- phase: the serving node's own DID document ---------------------------------------------------------------------------------------

func servingSituations(n *node) {
	if n.id.Empty() {
		return
	}
	rnd := n.r.Rand(fmt.Sprintf("serving-%d-%s", n.w.n, n.name))
	w := n.w
	var cands []*txInfo
	for _, ti := range n.knownTxs() {
		if ti.private && ti.aliasOf == nil && n.situation(ti) == "listed" && n.storedAs(ti) == "genuine" {
			cands = append(cands, ti)
		}
	}
	if len(cands) == 0 {
		n.r.Fatalf("node %s: no private transaction it is a readable participant of", n.name)
	}
	orig := w.docs.remove(n.id)
	w.docs.put(orig)
	situations := []struct {
		name  string
		apply func()
		undo  func()
	}{
		{"node-did-deactivated", func() { w.docs.setDeactivated(n.id, true) }, func() { w.docs.setDeactivated(n.id, false) }},
		{"node-did-unresolvable", func() { w.docs.remove(n.id) }, func() { w.docs.put(orig) }},
		{"node-did-without-keyagreement-key", func() { w.docs.put(mkDoc(n.id, nil, orig.Service...)) }, func() { w.docs.put(orig) }},
	}
	for _, s := range situations {
		s.apply()
		for i := 0; i < n.r.Pick(2, 6); i++ {
			ti := cands[rnd.Intn(len(cands))]
			for _, q := range n.peers {
				_, _ = n.deliver(q, payloadQuery(ti.tx.Ref()), "payload query while "+s.name)
				out := payloadOutcome(q)
				n.r.Count("serving/"+s.name+"/"+relation(q, ti)+"/"+out, 1)
				n.r.Case(strings.Join([]string{"serving-situation", s.name, classOf(ti), relation(q, ti), out}, "|"), true)
			}
		}
		s.undo()
	}
}
