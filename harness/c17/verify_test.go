package c17

// Independent re-verification (standard library only): is this byte string exactly a compact JWS with one
// signature by an allowed asymmetric algorithm that fits the mandated key and verifies over the received bytes?

import (
	"crypto"
	"crypto/ecdsa"
	"crypto/ed25519"
	"crypto/rsa"
	"encoding/base64"
	"encoding/json"
	"errors"
	"fmt"
	"math/big"
	"strings"
)

var strictB64 = base64.RawURLEncoding.Strict()

func canonicalSeg(seg string) ([]byte, error) {
	raw, err := strictB64.DecodeString(seg)
	if err != nil {
		return nil, err
	}
	if strictB64.EncodeToString(raw) != seg {
		return nil, errors.New("non-canonical base64url")
	}
	return raw, nil
}

// algForKey is the single JOSE algorithm that fits an ECDSA key.
func algForKey(pub *ecdsa.PublicKey) string {
	switch pub.Curve.Params().BitSize {
	case 256:
		return "ES256"
	case 384:
		return "ES384"
	case 521:
		return "ES512"
	}
	return ""
}

func strictVerify(s *seed, tok string) error { return strictVerifyKey(s, s.pub, tok) }

// strictVerifyKey: the same decision with an explicit mandated key (own-key tokens of another key holder).
func strictVerifyKey(s *seed, mandated crypto.PublicKey, tok string) error {
	parts := strings.Split(tok, ".")
	if len(parts) != 3 {
		return fmt.Errorf("%d segments", len(parts))
	}
	hdrJSON, err := canonicalSeg(parts[0])
	if err != nil {
		return fmt.Errorf("header: %w", err)
	}
	if !s.detached {
		if _, err := canonicalSeg(parts[1]); err != nil {
			return fmt.Errorf("payload: %w", err)
		}
	} else if parts[1] != "" {
		return errors.New("payload present in detached JWS")
	}
	sig, err := canonicalSeg(parts[2])
	if err != nil {
		return fmt.Errorf("signature: %w", err)
	}
	var hdr map[string]json.RawMessage
	if err := json.Unmarshal(hdrJSON, &hdr); err != nil {
		return fmt.Errorf("header json: %w", err)
	}
	var alg string
	if err := json.Unmarshal(hdr["alg"], &alg); err != nil {
		return fmt.Errorf("alg: %w", err)
	}
	if j, ok := hdr["jwk"]; ok {
		var m map[string]any
		if json.Unmarshal(j, &m) == nil {
			if jwkIsPrivate(m) {
				return errors.New("jwk header carries private key material")
			}
		}
	}
	if k, ok := hdr["kid"]; ok {
		// a key embedded in the key id (did:jwk) is held to the same rule as one embedded in the jwk header
		var kid string
		if json.Unmarshal(k, &kid) == nil && strings.HasPrefix(kid, "did:jwk:") {
			enc := strings.SplitN(strings.TrimPrefix(kid, "did:jwk:"), "#", 2)[0]
			var m map[string]any
			if raw, err := base64.RawURLEncoding.DecodeString(enc); err == nil && json.Unmarshal(raw, &m) == nil && jwkIsPrivate(m) {
				return errors.New("kid is a did:jwk that carries private key material")
			}
		}
	}
	input := s.input(parts[0], parts[1])
	switch pub := mandated.(type) {
	case ed25519.PublicKey:
		if alg != "EdDSA" {
			return fmt.Errorf("alg %q does not fit an Ed25519 key", alg)
		}
		if len(sig) != ed25519.SignatureSize || !ed25519.Verify(pub, input, sig) {
			return errors.New("signature does not verify with the mandated key over the received bytes")
		}
	case *ecdsa.PublicKey:
		if alg != algForKey(pub) {
			return fmt.Errorf("alg %q does not fit a %s key", alg, pub.Curve.Params().Name)
		}
		size := (pub.Curve.Params().BitSize + 7) / 8
		if len(sig) != 2*size {
			return fmt.Errorf("signature length %d", len(sig))
		}
		r, sv := new(big.Int).SetBytes(sig[:size]), new(big.Int).SetBytes(sig[size:])
		if !ecdsa.Verify(pub, digest(alg, input), r, sv) {
			return errors.New("signature does not verify with the mandated key over the received bytes")
		}
	case *rsa.PublicKey:
		for _, na := range s.notAllowed {
			if alg == na {
				return fmt.Errorf("alg %q is not allowed by this consumer", alg)
			}
		}
		switch {
		case strings.HasPrefix(alg, "PS"):
			if rsa.VerifyPSS(pub, cryptoHash(alg), digest(alg, input), sig, nil) != nil {
				return errors.New("signature does not verify with the mandated key over the received bytes")
			}
		case strings.HasPrefix(alg, "RS"):
			if rsa.VerifyPKCS1v15(pub, cryptoHash(alg), digest(alg, input), sig) != nil {
				return errors.New("signature does not verify with the mandated key over the received bytes")
			}
		default:
			return fmt.Errorf("alg %q does not fit an RSA key", alg)
		}
	default:
		return fmt.Errorf("harness cannot verify with %T", mandated)
	}
	return nil
}
