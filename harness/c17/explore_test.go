package c17

import (
	"fmt"
	"testing"

	"verif/lib/node"
)

func TestExplore(t *testing.T) {
	n := node.Start(t, node.Options{})
	dids, err := n.CreateSubject("issuer")
	if err != nil {
		t.Fatal(err)
	}
	did := dids[0]
	req := map[string]any{
		"type": "NutsOrganizationCredential", "issuer": did, "format": "jwt_vc",
		"credentialSubject":            map[string]any{"id": did, "organization": map[string]any{"name": "n", "city": "c"}},
		"withStatusList2021Revocation": false,
	}
	r := node.MustDo("POST", n.Internal+"/internal/vcr/v2/issuer/vc", req, nil)
	fmt.Println("ISSUE", r)
	var vcjwt string
	_ = r.JSON(&vcjwt)
	r = node.MustDo("POST", n.Internal+"/internal/vcr/v2/verifier/vc", map[string]any{"verifiableCredential": vcjwt}, nil)
	fmt.Println("VERIFY", r)
	r = node.MustDo("POST", n.Internal+"/internal/vcr/v2/holder/vp", map[string]any{"verifiableCredentials": []any{vcjwt}, "signerDID": did, "format": "jwt_vp"}, nil)
	fmt.Println("VP", r)
	var vpjwt string
	_ = r.JSON(&vpjwt)
	r = node.MustDo("POST", n.Internal+"/internal/vcr/v2/verifier/vp", map[string]any{"verifiablePresentation": vpjwt}, nil)
	fmt.Println("VERIFYVP", r)
	r = node.MustDo("GET", n.Internal+"/internal/vdr/v2/did/"+did, nil, nil)
	fmt.Println("DID", r)
	req["format"] = "ldp_vc"
	r = node.MustDo("POST", n.Internal+"/internal/vcr/v2/issuer/vc", req, nil)
	fmt.Println("ISSUE LD", r)
}
