package c17

// Consumer 8: the access token of the legacy (v1) OAuth flow, the internal bearer token a resource server hands to its node for
// verification (HEAD /internal/auth/v1/accesstoken/verify) or introspection (POST /internal/auth/v1/accesstoken/introspect).
// The protocol-mandated source of the verification key is the node's OWN key store: "a valid access token issued by this server".
//
// Plus the key-store fault dimension: a decorator between the real authorization server of the running node and the node's real
// key store (seam: oauth.VerifDecorateKeyStore) lets Exists/Resolve fail the way a remote key store backend fails. While the
// key store fails, the membership question cannot be answered: every hostile variant must still be refused.

import (
	"context"
	"crypto"
	"crypto/ecdsa"
	"crypto/ed25519"
	"crypto/elliptic"
	"encoding/binary"
	"encoding/json"
	"errors"
	"fmt"
	"net/url"
	"os"
	"strings"
	"sync"
	"time"

	"github.com/mr-tron/base58"
	"github.com/nuts-foundation/nuts-node/audit"
	"github.com/nuts-foundation/nuts-node/auth"
	"github.com/nuts-foundation/nuts-node/auth/services"
	"github.com/nuts-foundation/nuts-node/auth/services/oauth"
	nutsCrypto "github.com/nuts-foundation/nuts-node/crypto"
	"github.com/nuts-foundation/nuts-node/vdr"
	"github.com/nuts-foundation/nuts-node/vdr/resolver"
	"verif/lib/ev"
	"verif/lib/iamflow"
	"verif/lib/node"
)

// ksFault decorates the key store of the authorization server. Armed, the next `left` lookups (Exists, Resolve) fail with err
// instead of reaching the store (left < 0: until disarmed).
type ksFault struct {
	nutsCrypto.KeyStore
	mu       sync.Mutex
	err      error
	left     int
	lookups  int // Exists/Resolve calls seen (armed or not)
	injected int // of those, answered with the injected error since the last arm()
}

func (k *ksFault) fail() error {
	k.mu.Lock()
	defer k.mu.Unlock()
	k.lookups++
	if k.err == nil || k.left == 0 {
		return nil
	}
	if k.left > 0 {
		k.left--
	}
	k.injected++
	return k.err
}

func (k *ksFault) Exists(ctx context.Context, kid string) (bool, error) {
	if err := k.fail(); err != nil {
		return false, err
	}
	return k.KeyStore.Exists(ctx, kid)
}

func (k *ksFault) Resolve(ctx context.Context, kid string) (crypto.PublicKey, error) {
	if err := k.fail(); err != nil {
		return nil, err
	}
	return k.KeyStore.Resolve(ctx, kid)
}

func (k *ksFault) arm(m ksMode) {
	k.mu.Lock()
	k.err, k.left, k.injected = m.err, m.n, 0
	k.mu.Unlock()
}

// disarm returns how many lookups were answered with the injected error since arm().
func (k *ksFault) disarm() int {
	k.mu.Lock()
	defer k.mu.Unlock()
	k.err, k.left = nil, 0
	return k.injected
}

// ksMode: which error the failing key store reports and for how many lookups (n < 0: as long as it is armed).
type ksMode struct {
	name string
	err  error
	n    int
}

func ksModes() []ksMode {
	return []ksMode{
		{"backend-unreachable", errors.New("unable to read key from vault: dial tcp 10.1.2.3:8200: i/o timeout"), -1},
		{"deadline-exceeded/first-lookup-only", context.DeadlineExceeded, 1},
		{"context-canceled/first-lookup-only", context.Canceled, 1},
		{"not-found-reported-as-error", fmt.Errorf("could not find key reference in DB: %w", nutsCrypto.ErrPrivateKeyNotFound), -1},
	}
}

func didKey(pub crypto.PublicKey) string {
	var code uint64
	var raw []byte
	switch k := pub.(type) {
	case *ecdsa.PublicKey:
		code, raw = 0x1200, elliptic.MarshalCompressed(k.Curve, k.X, k.Y) // p256-pub
	case ed25519.PublicKey:
		code, raw = 0xed, k
	default:
		return ""
	}
	buf := binary.AppendUvarint(nil, code)
	id := "z" + base58.EncodeAlphabet(append(buf, raw...), base58.BTCAlphabet)
	return "did:key:" + id + "#" + id
}

// v1AccessToken builds the consumers of the v1 access token on the node of the VCR world. issuerKid is the assertion key of w.issuer.
func (w *vcrWorld) v1AccessToken(host *iamflow.DIDHost, issuerKid string) ([]*consumer, error) {
	attacker()
	a := node.Engine[auth.AuthenticationServices](w.n)
	if a == nil {
		return nil, errors.New("auth engine not found")
	}
	var ks *ksFault
	if !oauth.VerifDecorateKeyStore(a.AuthzServer(), func(inner nutsCrypto.KeyStore) nutsCrypto.KeyStore {
		ks = &ksFault{KeyStore: inner}
		return ks
	}) {
		return nil, errors.New("the node's v1 authorization server is not the oauth package's")
	}
	// the valid instance: the claims buildAccessToken puts into an access token, signed by the node's key store with the authorizer's key
	mint := func(iss, kid string) (string, error) {
		now := time.Now()
		at := services.NutsAccessToken{Service: "c17-service", IssuedAt: now.Unix(), Expiration: now.Add(2 * time.Hour).Unix(),
			Issuer: iss, Subject: "did:nuts:C17requester"}
		data, _ := json.Marshal(at)
		var claims map[string]any
		if err := json.Unmarshal(data, &claims); err != nil {
			return "", err
		}
		return ks.SignJWT(audit.Context(context.Background(), "c17", "Auth", "CreateAccessToken"), claims, nil, kid)
	}
	tok, err := mint(w.issuer, issuerKid)
	if err != nil {
		return nil, fmt.Errorf("sign v1 access token with the node's key store: %w", err)
	}
	pub, err := nodeKey(w.n, issuerKid)
	if err != nil {
		return nil, err
	}
	// the second subject of the same node
	secondKid := ""
	{
		r, err := node.Do("GET", w.n.Internal+"/internal/vdr/v2/did/"+w.second, nil, nil)
		var out struct {
			Document struct {
				AssertionMethod []any `json:"assertionMethod"`
			} `json:"document"`
		}
		if err != nil || r.Status != 200 || r.JSON(&out) != nil || len(out.Document.AssertionMethod) == 0 {
			return nil, fmt.Errorf("resolve second subject: %v %s", err, r)
		}
		switch v := out.Document.AssertionMethod[0].(type) {
		case string:
			secondKid = v
		case map[string]any:
			secondKid, _ = v["id"].(string)
		}
	}
	secondPub, err := nodeKey(w.n, secondKid)
	if err != nil {
		return nil, err
	}
	t, err := parseCompact(tok)
	if err != nil {
		return nil, err
	}
	var extra []variant
	if secondTok, err := mint(w.second, secondKid); err == nil {
		extra = append(extra, variant{class: "control", name: "token-of-second-subject-of-this-node", token: secondTok, verdict: vValid, pub: secondPub})
	} else {
		return nil, err
	}
	if mixed, err := mint(w.issuer, secondKid); err == nil {
		// signed by a key of this node, but not by the key of the party named as issuer: the property does not say which of the node's keys
		extra = append(extra, variant{class: "signed-by-other-key-of-this-node", name: "iss=first-subject/kid+signature=second-subject", token: mixed, verdict: vSilent, pub: secondPub})
	}
	// tokens of FOREIGN authorization servers: genuinely signed by a key that every node can resolve through its DID document, but that is
	// not in this node's key store. (a) claims of the valid token kept, (b) self-consistent: iss names the foreign DID.
	raw, _ := b64.DecodeString(t.paySeg)
	var claims map[string]any
	_ = json.Unmarshal(raw, &claims)
	// calibration with the node's real DID key resolver: which of the foreign keys could the node find at all (were it to look there)
	keyRes := resolver.DIDKeyResolver{Resolver: node.Engine[vdr.VDR](w.n).Resolver()}
	w.v1Foreign = map[string]string{}
	foreign := func(how, kid, alg string, signer any, vpub crypto.PublicKey) {
		if kid == "" {
			return
		}
		did := strings.SplitN(kid, "#", 2)[0]
		if k, err := keyRes.ResolveKeyByID(kid, nil, resolver.NutsSigningKeyType); err != nil {
			w.v1Foreign[how] = "not resolvable by the node: " + short(err.Error())
		} else if eq, ok := k.(interface{ Equal(crypto.PublicKey) bool }); !ok || !eq.Equal(vpub) {
			w.v1Foreign[how] = fmt.Sprintf("resolves to another key (%T)", k)
		} else {
			w.v1Foreign[how] = "resolvable"
		}
		for _, rebind := range []bool{false, true} {
			c := map[string]any{}
			for k, v := range claims {
				c[k] = v
			}
			name := how + "/claims-kept"
			if rebind {
				c["iss"] = did
				name = how + "/iss-names-the-foreign-did"
			}
			data, _ := json.Marshal(c)
			hs, ps := encHdr(map[string]any{"alg": alg, "typ": "JWT", "kid": kid}), b64.EncodeToString(data)
			extra = append(extra, variant{class: "foreign-signer", name: name, verdict: vHostile, pub: vpub,
				token: hs + "." + ps + "." + b64.EncodeToString(signRaw(alg, signer, []byte(hs+"."+ps)))})
		}
	}
	for _, f := range families() {
		if f.alg == "" {
			continue
		}
		foreign("did:jwk-"+f.name, didJWKOf(f.pubJWK)+"#0", f.alg, f.signer, f.pub)
		if f.name == "EC-P-256" || f.name == "OKP-Ed25519" {
			foreign("did:key-"+f.name, didKey(f.pub), f.alg, f.signer, f.pub)
		}
	}
	hosted := host.Identity("did:web:c17-v1.example:foreign-node")
	foreign("did:web-hosted", hosted.KID, "ES256", hosted.Key, &hosted.Key.PublicKey)

	mk := func(kind string, present func(v variant) (outcome, error)) *consumer {
		k := newP256()
		s := &seed{compact: tok, pub: pub, keyBound: true, other: &party{kid: didJWK(&k.PublicKey) + "#0", priv: k}, attKid: didJWK(&att.p256.PublicKey) + "#0"}
		return &consumer{name: "access-token-v1", kind: kind, seed: s, present: present, extra: extra, keyStore: ks}
	}
	introspect := mk("v1 access token signed by the node's key store (claims as buildAccessToken); POST /internal/auth/v1/accesstoken/introspect",
		func(v variant) (outcome, error) {
			r, err := node.Do("POST", w.n.Internal+"/internal/auth/v1/accesstoken/introspect", url.Values{"token": {v.token}}.Encode(),
				map[string]string{"Content-Type": "application/x-www-form-urlencoded"})
			if err != nil {
				return outcome{}, err
			}
			var m struct {
				Active bool `json:"active"`
			}
			_ = r.JSON(&m)
			return outcome{accepted: r.Status == 200 && m.Active, detail: short(r.String()), status: r.Status}, nil
		})
	verify := mk("v1 access token signed by the node's key store; HEAD /internal/auth/v1/accesstoken/verify (Authorization: Bearer)",
		func(v variant) (outcome, error) {
			if strings.ContainsAny(v.token, "\r\n") {
				return outcome{}, errors.New("not a legal HTTP header value")
			}
			r, err := node.Do("HEAD", w.n.Internal+"/internal/auth/v1/accesstoken/verify", nil, map[string]string{"Authorization": "Bearer " + v.token})
			if err != nil {
				return outcome{}, err
			}
			return outcome{accepted: r.Status == 200, detail: fmt.Sprintf("%d", r.Status), status: r.Status}, nil
		})
	verify.bulkDiv = 4
	verify.faultStride = 3
	return []*consumer{introspect, verify}, nil
}

// foreignSigned: the variant carries a genuine signature of a key that is NOT the mandated one but that the consumer may be able to find
// somewhere else (DID document of another party, injected header). Under a key store fault these are the decisive cases.
func foreignSigned(v variant) bool {
	switch v.class {
	case "foreign-signer", "key-swapped", "kid-other-party", "key-injected", "embedded-private-jwk":
		return v.verdict == vHostile
	}
	return false
}

// faultMatrix presents the variant list of a key-store-consulting consumer again while the key store fails (every mode of ksModes).
// Refutation: a hostile variant is accepted. A token that is accepted although the node could not ask its key store is, for the untouched
// token, not decided by the property text (unspecified).
func faultMatrix(r *ev.Run, c *consumer, inst string, vs []variant, dbg *os.File) {
	ks := c.keyStore
	decisive := 0
	for _, m := range ksModes() {
		idx := 0
		for _, v := range vs {
			if !foreignSigned(v) && v.verdict != vValid {
				idx++
				if c.faultStride > 1 && idx%c.faultStride != 0 {
					continue
				}
			}
			ks.arm(m)
			o, err := c.present(v)
			injected := ks.disarm()
			if err != nil {
				if strings.HasPrefix(err.Error(), "HARNESS:") {
					r.Fatalf("%s: %v", c.name, err)
				}
				r.Count("undeliverable", 1)
				continue
			}
			if dbg != nil {
				fmt.Fprintf(dbg, "%s\tkeystore-fault:%s\t%s\t%s\t%s\tinjected=%d\taccepted=%v\t%s\n", inst, m.name, v.class, v.name, v.verdict, injected, o.accepted, o.detail)
			}
			r.Case(inst+"/keystore-fault:"+m.name+"/"+v.class+"/"+v.name, true)
			r.Distinct("consumer_class_pairs", c.name+"/keystore-fault/"+v.class)
			r.Distinct("keystore_fault_modes", c.name+"/"+m.name)
			r.Count("variants_presented_while_key_store_fails", 1)
			if injected > 0 {
				r.Count("key_store_lookups_failed_by_injection", injected)
				if foreignSigned(v) {
					decisive++
				}
			} else {
				r.Count("variants_refused_before_the_key_store_was_asked", 1)
			}
			if strings.HasPrefix(o.detail, "PANIC") {
				r.Violation("C17/"+c.name+"/panic/keystore-fault", o.detail, map[string]any{"consumer": c.name, "mode": m.name, "class": v.class, "variant": v.name, "token": v.token})
			}
			if !o.accepted {
				r.Count("refused_while_key_store_fails", 1)
				continue
			}
			switch v.verdict {
			case vHostile:
				var indep string
				if v.pub != nil {
					if err := strictVerifyKey(c.seed, v.pub, v.token); err != nil {
						indep = err.Error()
					} else {
						indep = "the signature is a genuine one of the foreign key the token names"
					}
				}
				r.Violation("C17/"+c.name+"/"+v.class+"/keystore-fault",
					fmt.Sprintf("%s accepted a hostile variant (%s: %s) of a valid token [%s] while its key store lookup failed (%s: %v, %d lookups failed): the verification key "+
						"was taken from somewhere else than this node's key store; %s; answer: %s", c.name, v.class, v.name, c.kind, m.name, m.err, injected, indep, o.detail),
					map[string]any{"consumer": c.name, "instance": c.kind, "fault_mode": m.name, "fault_error": fmt.Sprint(m.err), "lookups_failed": injected,
						"class": v.class, "variant": v.name, "token": v.token, "valid_token": c.seed.compact, "answer": o.detail})
			case vValid:
				if injected > 0 {
					r.Unspecified(c.name + "/untouched-token-accepted-while-key-store-fails")
				}
			default:
				r.Unspecified(c.name + "/" + v.class + "/keystore-fault")
			}
		}
	}
	r.Count("foreign_signed_variants_that_reached_the_failing_key_store", decisive)
	// calibration, judged after the matrix: the faults were really injected where they matter, and the store recovers
	if decisive == 0 {
		r.Fatalf("%s: no foreign-signed variant reached the failing key store: the fault dimension would prove nothing", inst)
	}
	if o, err := c.present(variant{class: "control", name: "unchanged", token: c.seed.compact, verdict: vValid}); err != nil || !o.accepted {
		r.Fatalf("%s: the valid token is not accepted any more after the key store recovered: %v %s", inst, err, o.detail)
	}
}
