package c17

// Key families: every kind of key the JOSE library can parse from a JWK (EC P-256/P-384/P-521, RSA, OKP Ed25519, OKP X25519, oct),
// each with a key the attacker legitimately holds, the public and the private JWK forms of that key, its RFC 7638 thumbprint and its
// did:jwk identifiers. All of it is written with the standard library only (no JOSE library), so that what the harness calls
// "a private JWK" is decided by RFC 7517/7518 member names and not by the code under test.

import (
	"bytes"
	"crypto"
	"crypto/ecdsa"
	"crypto/ed25519"
	"crypto/rsa"
	"crypto/sha256"
	"encoding/json"
	"fmt"
	"math/big"
	"sort"
	"strings"
)

// privateMembers are the JWK members that carry private or secret key material (RFC 7518 6.2.2, 6.3.2, 6.4.1; RFC 8037 2).
var privateMembers = []string{"d", "p", "q", "dp", "dq", "qi", "oth", "k"}

// jwkIsPrivate is the harness' reference decision "this JWK carries private key material".
func jwkIsPrivate(j map[string]any) bool {
	for _, m := range privateMembers {
		if _, has := j[m]; has {
			return true
		}
	}
	return false
}

type jwkForm struct {
	name string // which private members are present
	jwk  map[string]any
}

type keyFam struct {
	name string // stable name, part of variant names
	// alg is the allowed JOSE algorithm that fits the key; "" when no signature the node may accept can be made with it (X25519: key agreement
	// only; oct: MAC only). Such families only appear with a signature that cannot count (by another key / a MAC).
	alg     string
	signer  any              // handed to signRaw
	pub     crypto.PublicKey // for the independent verification of own-key tokens
	pubJWK  map[string]any
	private []jwkForm
	// bogus: the PUBLIC members of the key plus a private member whose value does not belong to the key. Where the JOSE library does not
	// check consistency the signature still verifies with the public members, so only a private-key rule refuses it.
	bogus map[string]any
	thumb string // base64url RFC 7638 SHA-256 thumbprint
}

func copyJWK(j map[string]any, kv ...any) map[string]any {
	c := make(map[string]any, len(j)+len(kv)/2)
	for k, v := range j {
		c[k] = v
	}
	for i := 0; i+1 < len(kv); i += 2 {
		c[kv[i].(string)] = kv[i+1]
	}
	return c
}

func rsaJWK(k *rsa.PrivateKey, form string) map[string]any {
	m := map[string]any{"kty": "RSA", "n": b64.EncodeToString(k.N.Bytes()), "e": b64.EncodeToString(big.NewInt(int64(k.E)).Bytes())}
	if form == "" {
		return m
	}
	m["d"] = b64.EncodeToString(k.D.Bytes())
	if form == "d" {
		return m
	}
	m["p"] = b64.EncodeToString(k.Primes[0].Bytes())
	m["q"] = b64.EncodeToString(k.Primes[1].Bytes())
	if form == "d+p+q" {
		return m
	}
	k.Precompute()
	m["dp"] = b64.EncodeToString(k.Precomputed.Dp.Bytes())
	m["dq"] = b64.EncodeToString(k.Precomputed.Dq.Bytes())
	m["qi"] = b64.EncodeToString(k.Precomputed.Qinv.Bytes())
	return m
}

func okpJWK(crv string, x, d []byte) map[string]any {
	m := map[string]any{"kty": "OKP", "crv": crv, "x": b64.EncodeToString(x)}
	if d != nil {
		m["d"] = b64.EncodeToString(d)
	}
	return m
}

// thumbprintOf is the RFC 7638 SHA-256 thumbprint of a JWK (required members of its kty only, lexicographic order, no whitespace).
func thumbprintOf(j map[string]any) string {
	var members []string
	switch j["kty"] {
	case "EC":
		members = []string{"crv", "kty", "x", "y"}
	case "RSA":
		members = []string{"e", "kty", "n"}
	case "OKP":
		members = []string{"crv", "kty", "x"}
	case "oct":
		members = []string{"k", "kty"}
	default:
		return ""
	}
	var parts []string
	for _, m := range members {
		parts = append(parts, fmt.Sprintf(`"%s":"%s"`, m, j[m]))
	}
	h := sha256.Sum256([]byte("{" + strings.Join(parts, ",") + "}"))
	return b64.EncodeToString(h[:])
}

// didJWKOf is the did:jwk whose method-specific id is the given JWK (members in lexicographic order).
func didJWKOf(j map[string]any) string {
	keys := make([]string, 0, len(j))
	for k := range j {
		keys = append(keys, k)
	}
	sort.Strings(keys)
	var buf bytes.Buffer
	buf.WriteByte('{')
	for i, k := range keys {
		if i > 0 {
			buf.WriteByte(',')
		}
		v, _ := json.Marshal(j[k])
		fmt.Fprintf(&buf, `"%s":%s`, k, v)
	}
	buf.WriteByte('}')
	return "did:jwk:" + b64.EncodeToString(buf.Bytes())
}

// families returns the key families with the attacker's key of each (generated once per process).
func families() []keyFam {
	attacker()
	return att.fams
}

func buildFamilies() []keyFam {
	var out []keyFam
	for _, k := range []*ecdsa.PrivateKey{att.p256, att.p384, att.p521} {
		pub := ecJWK(&k.PublicKey, nil)
		size := (k.Curve.Params().BitSize + 7) / 8
		out = append(out, keyFam{name: "EC-" + k.Curve.Params().Name, alg: algForKey(&k.PublicKey), signer: k, pub: &k.PublicKey, pubJWK: pub,
			private: []jwkForm{{"d", ecJWK(&k.PublicKey, k)}},
			bogus:   copyJWK(pub, "d", b64.EncodeToString(bytes.Repeat([]byte{7}, size)))})
	}
	{
		k := att.rsa
		pub := rsaJWK(k, "")
		out = append(out, keyFam{name: "RSA-2048", alg: "PS256", signer: k, pub: &k.PublicKey, pubJWK: pub,
			private: []jwkForm{{"d", rsaJWK(k, "d")}, {"d+p+q", rsaJWK(k, "d+p+q")}, {"d+p+q+dp+dq+qi", rsaJWK(k, "full")}},
			bogus:   copyJWK(pub, "d", b64.EncodeToString(bytes.Repeat([]byte{7}, 255)))})
	}
	{
		k := att.ed
		x := []byte(k.Public().(ed25519.PublicKey))
		out = append(out, keyFam{name: "OKP-Ed25519", alg: "EdDSA", signer: k, pub: k.Public(), pubJWK: okpJWK("Ed25519", x, nil),
			private: []jwkForm{{"d", okpJWK("Ed25519", x, k.Seed())}},
			bogus:   okpJWK("Ed25519", x, bytes.Repeat([]byte{7}, 32))})
	}
	{
		k := att.x25519
		x := k.PublicKey().Bytes()
		out = append(out, keyFam{name: "OKP-X25519", pubJWK: okpJWK("X25519", x, nil), private: []jwkForm{{"d", okpJWK("X25519", x, k.Bytes())}}})
	}
	out = append(out, keyFam{name: "oct", private: []jwkForm{{"k", map[string]any{"kty": "oct", "k": b64.EncodeToString(att.oct)}}}})
	for i := range out {
		j := out[i].pubJWK
		if j == nil {
			j = out[i].private[0].jwk
		}
		out[i].thumb = thumbprintOf(j)
		for _, f := range out[i].private {
			if !jwkIsPrivate(f.jwk) {
				panic("harness: private form without private members: " + out[i].name + "/" + f.name)
			}
		}
		if out[i].pubJWK != nil && jwkIsPrivate(out[i].pubJWK) {
			panic("harness: public form with private members: " + out[i].name)
		}
	}
	return out
}

// dupMember returns the header JSON of h with an additional member `name` (value first) placed BEFORE all members of h, so that a member
// of the same name in h is the lexically last one.
func dupMember(h map[string]any, name string, first any) []byte {
	rest, err := json.Marshal(h)
	if err != nil {
		panic(err)
	}
	fv, err := json.Marshal(first)
	if err != nil {
		panic(err)
	}
	return append([]byte(fmt.Sprintf(`{"%s":%s,`, name, fv)), rest[1:]...)
}

// signRawHdr signs a token whose protected header is the given JSON text.
func signRawHdr(s *seed, hdrJSON []byte, alg, paySeg string, key any) string {
	hs := b64.EncodeToString(hdrJSON)
	return hs + "." + paySeg + "." + b64.EncodeToString(signRaw(alg, key, s.input(hs, paySeg)))
}

// rebound returns the payload segment of t with the signer claim set to did (credential JWT: another issuer's own credential).
func (s *seed) rebound(t *token, did string) (string, bool) {
	if s.signerClaim == "" || s.detached {
		return "", false
	}
	raw, err := b64.DecodeString(t.paySeg)
	if err != nil {
		return "", false
	}
	dec := json.NewDecoder(bytes.NewReader(raw))
	dec.UseNumber()
	var claims map[string]any
	if dec.Decode(&claims) != nil || claims[s.signerClaim] == nil {
		return "", false
	}
	claims[s.signerClaim] = did
	if _, has := claims["jti"]; has {
		claims["jti"] = did + "#c17"
	}
	data, err := json.Marshal(claims)
	if err != nil {
		return "", false
	}
	return b64.EncodeToString(data), true
}

// familyVariants: the embedded-key variants over every key family. For each family the token is REALLY signed by the family's key with the
// algorithm that fits it, so that the private members of the embedded key are the only thing a consumer can object to:
//   - jwk header = the key's public JWK (where the protocol mandates an embedded key: the paired control; elsewhere: injected key material)
//   - jwk header = each private form of the same key (EC/OKP: d; RSA: d, d+p+q, d+p+q+dp+dq+qi), and the public members plus a foreign d
//   - kid = did:jwk of the public / of each private form (the key embedded in the key id), with the issuer claim rewritten where any DID may issue
//   - the jwk member twice in the protected header (public then private, private then public)
//   - the families that cannot sign (X25519, oct) embedded next to a signature by another key / a MAC keyed with the embedded secret
func familyVariants(s *seed, t *token, with func(kv ...any) map[string]any, emit func(v variant)) {
	keyHostile := s.keyBound || !s.embedsJWK
	sign := func(h map[string]any, paySeg string, key any) string {
		hs := encHdr(h)
		alg, _ := h["alg"].(string)
		return hs + "." + paySeg + "." + b64.EncodeToString(signRaw(alg, key, s.input(hs, paySeg)))
	}
	_, hasKid := t.hdr["kid"].(string)
	for _, f := range families() {
		if f.alg == "" {
			// keys that cannot make an acceptable signature: embedded next to a signature that cannot count
			for _, form := range f.private {
				j := form.jwk
				switch f.name {
				case "oct":
					emit(variant{class: "embedded-private-jwk", family: f.name, name: "oct-key-with-k/HS256-mac-keyed-with-it", verdict: vHostile, jkt: f.thumb,
						token: sign(with("jwk", j, "alg", "HS256"), t.paySeg, att.oct)})
					if s.embedsJWK {
						emit(variant{class: "embedded-private-jwk", family: f.name, name: "oct-key-with-k/ES256-signed-attacker", verdict: vHostile, jkt: f.thumb,
							token: sign(with("jwk", j, "alg", "ES256"), t.paySeg, att.p256)})
					}
				default:
					emit(variant{class: "embedded-private-jwk", family: f.name, name: f.name + "-key-with-" + form.name + "/EdDSA-signed-by-ed25519-key", verdict: vHostile, jkt: f.thumb,
						token: sign(with("jwk", j, "alg", "EdDSA"), t.paySeg, att.ed)})
				}
			}
			if f.pubJWK != nil && s.embedsJWK {
				emit(variant{class: "key-swapped", family: f.name, name: "jwk-" + f.name + "-public/EdDSA-signed-by-ed25519-key", verdict: vHostile, jkt: f.thumb,
					token: sign(with("jwk", f.pubJWK, "alg", "EdDSA"), t.paySeg, att.ed)})
			}
			continue
		}
		if s.embedsJWK {
			// the paired control: the family's PUBLIC key embedded, signed by it
			pubTok := sign(with("jwk", f.pubJWK, "alg", f.alg), t.paySeg, f.signer)
			if keyHostile && !s.callerBinds {
				emit(variant{class: "key-swapped", family: f.name, name: "jwk-attacker-" + f.name + "/resigned-attacker", verdict: vHostile, pub: f.pub, token: pubTok})
			} else {
				emit(variant{class: "own-key-own-token", family: f.name, name: "jwk-" + f.name + "-public/signed-by-that-key", verdict: vOwn, pub: f.pub, jkt: f.thumb, token: pubTok})
			}
			for _, form := range f.private {
				emit(variant{class: "embedded-private-jwk", family: f.name, name: f.name + "-key-with-" + form.name + "/signed-by-that-key", verdict: vHostile, pub: f.pub, jkt: f.thumb,
					token: sign(with("jwk", form.jwk, "alg", f.alg), t.paySeg, f.signer)})
			}
			emit(variant{class: "embedded-private-jwk", family: f.name, name: f.name + "-public-plus-foreign-d/signed-by-that-key", verdict: vHostile, pub: f.pub, jkt: f.thumb,
				token: sign(with("jwk", f.bogus, "alg", f.alg), t.paySeg, f.signer)})
			// the private JWK additionally declares itself public-use (non-key members must not change the decision)
			emit(variant{class: "embedded-private-jwk", family: f.name, name: f.name + "-key-with-" + f.private[0].name + "+use+key_ops+alg/signed-by-that-key", verdict: vHostile, pub: f.pub, jkt: f.thumb,
				token: sign(with("jwk", copyJWK(f.private[0].jwk, "use", "sig", "key_ops", []string{"verify"}, "alg", f.alg), "alg", f.alg), t.paySeg, f.signer)})
			// the jwk member twice in the protected header. RFC 7515 section 4: a parser either rejects duplicate names or uses the lexically LAST one.
			// public-then-private: the effective key is the private one; private-then-public: the private key is shadowed (not decided by the text)
			hdr := with("jwk", f.private[0].jwk, "alg", f.alg)
			emit(variant{class: "embedded-private-jwk", family: f.name, name: f.name + "-jwk-member-twice/public-then-private/signed-by-that-key", verdict: vHostile, pub: f.pub, jkt: f.thumb,
				token: signRawHdr(s, dupMember(hdr, "jwk", f.pubJWK), f.alg, t.paySeg, f.signer)})
			if (f.name == "EC-P-256" || f.name == "OKP-Ed25519") && (!keyHostile || s.callerBinds) {
				hdr = with("jwk", f.pubJWK, "alg", f.alg)
				emit(variant{class: "embedded-private-jwk-in-shadowed-duplicate-member", family: f.name, name: f.name + "-jwk-member-twice/private-then-public/signed-by-that-key", verdict: vSilent, pub: f.pub, jkt: f.thumb,
					token: signRawHdr(s, dupMember(hdr, "jwk", f.private[0].jwk), f.alg, t.paySeg, f.signer)})
			}
		} else if keyHostile {
			// no embedded key in this protocol: injected key material, signed by the injected key
			// (the public P-256 key is "jwk/resigned-attacker" of the structured list; smallest and fullest private form only)
			for i, form := range f.private {
				if i != 0 && i != len(f.private)-1 {
					continue
				}
				emit(variant{class: "key-injected", family: f.name, name: "jwk-private-" + f.name + "-" + form.name + "/resigned-by-that-key", verdict: vHostile, pub: f.pub,
					token: sign(with("jwk", form.jwk, "alg", f.alg), t.paySeg, f.signer)})
			}
		}
		if hasKid && strings.HasPrefix(t.hdr["kid"].(string), "did:") {
			// the key embedded in the key id: did:jwk of the private key. Hostile everywhere: a pinned signer is someone else, and a private did:jwk must not resolve.
			for i, form := range f.private {
				d := didJWKOf(form.jwk)
				if pay, ok := s.rebound(t, d); ok {
					// any DID may issue: the signer claim names the private did:jwk itself, only the private members can be objected to
					emit(variant{class: "embedded-private-jwk", family: f.name, name: "issuer+kid=did:jwk-of-private-" + f.name + "-" + form.name + "/signed-by-that-key", verdict: vHostile, pub: f.pub,
						token: sign(with("kid", d+"#0", "alg", f.alg), pay, f.signer)})
				}
				if i == 0 || i == len(f.private)-1 && s.signerClaim == "" { // signer claim untouched (smallest and fullest private form only)
					emit(variant{class: "embedded-private-jwk", family: f.name, name: "kid=did:jwk-of-private-" + f.name + "-" + form.name + "/resigned-by-that-key", verdict: vHostile, pub: f.pub,
						token: sign(with("kid", d+"#0", "alg", f.alg), t.paySeg, f.signer)})
				}
			}
			d := didJWKOf(f.pubJWK)
			if pay, ok := s.rebound(t, d); ok {
				emit(variant{class: "own-key-own-token", family: f.name, name: "issuer+kid=did:jwk-of-public-" + f.name + "/signed-by-that-key", verdict: vOwn, pub: f.pub,
					token: sign(with("kid", d+"#0", "alg", f.alg), pay, f.signer)})
			}
		}
	}
	// the legitimate signer's own private key in a jwk header the protocol does not use (kid kept, genuinely signed): the key is not TAKEN from
	// the header, so the text does not decide whether the token must be refused
	if !s.embedsJWK && s.priv != nil {
		var j map[string]any
		switch k := s.priv.(type) {
		case *ecdsa.PrivateKey:
			j = ecJWK(&k.PublicKey, k)
		case *rsa.PrivateKey:
			j = rsaJWK(k, "full")
		}
		if alg, _ := t.hdr["alg"].(string); j != nil {
			emit(variant{class: "embedded-private-jwk-in-unused-header", name: "legit-key-with-d/kid-kept/signed-by-legit-key", verdict: vSilent,
				token: sign(with("jwk", j, "alg", alg), t.paySeg, s.priv)})
		}
	}
}
