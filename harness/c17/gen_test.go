package c17

// The ONE generator of hostile token variants. It knows nothing about consumers: it takes a valid
// compact JWS plus what the harness knows about its keys and produces the same list of
// variant classes for every consumer. JWS construction (header JSON, base64url, ES*/RS*/PS*/EdDSA/HS*
// signing) is done here with the standard library only, independent of the JOSE library under test.

import (
	"bytes"
	"crypto"
	"crypto/ecdh"
	"crypto/ecdsa"
	"crypto/ed25519"
	"crypto/elliptic"
	"crypto/hmac"
	crand "crypto/rand"
	"crypto/rsa"
	"crypto/sha256"
	"crypto/sha512"
	"crypto/x509"
	"crypto/x509/pkix"
	"encoding/asn1"
	"encoding/base64"
	"encoding/json"
	"encoding/pem"
	"fmt"
	"hash"
	"math/big"
	"math/rand"
	"sort"
	"strings"
	"sync"
	"time"
)

type verdict int

const (
	vValid   verdict = iota // the untouched token: must be accepted, otherwise the harness is blind
	vBenign                 // same signed content, other encoding (or a genuine signature in another encoding): accept => unspecified
	vHostile                // must be rejected by every consumer
	// vOwn: a genuinely valid token of ANOTHER key holder (its own public key embedded where the protocol mandates an embedded key, or its own
	// did:jwk as issuer), presented where the consumer does not pin the signer: accepting it is correct, refusing it is no violation either
	// (a consumer need not support every key family). It is the paired control of the embedded-private-key variants: same key, same algorithm,
	// same genuine signature, only the private members are absent.
	vOwn
	// vSilent: the property text does not decide the case (accept => unspecified)
	vSilent
)

func (v verdict) String() string {
	return [...]string{"valid", "benign", "hostile", "own-valid", "unspecified"}[v]
}

type variant struct {
	class   string // stable class name (part of violation keys)
	name    string // what exactly was done
	token   string
	body    any // consumer-specific complete message (JSON-LD document) used instead of token when non-nil
	verdict verdict
	// family: key family of the key this variant embeds ("" for variants that are not about a family)
	family string
	// pub: the key that made the signature when the variant is its author's own token (vOwn), for the independent verification
	pub crypto.PublicKey
	// jkt: RFC 7638 thumbprint of the embedded key. A consumer whose caller pins the signer by thumbprint (seed.callerBinds) pins THIS key
	// for the variant, so that nothing but the rule under test can refuse it.
	jkt string
}

// party is a key pair with the key id under which a consumer may know it.
type party struct {
	kid  string
	priv *ecdsa.PrivateKey
}

// seed is a valid token plus what the harness knows about it.
type seed struct {
	compact string
	pub     crypto.PublicKey // the key the protocol mandates for this token
	priv    crypto.Signer    // the matching private key when the harness owns it (nil: the key lives in the node)
	// notAllowed: algorithms of the key's own family that the consumer does not allow (e.g. RS256 where only PS* is allowed)
	notAllowed []string
	// embedsJWK: the protocol carries the verification key in the `jwk` header (DPoP, DAG transaction with jwk).
	embedsJWK bool
	// keyBound: the token's signer is pinned from outside the token (issuer claim, thumbprint, authorised user, client key set), so a
	// token re-signed by any other key - known to the consumer or not - is hostile. False for DAG transactions and the DPoP header
	// at the token endpoint, where any key holder is a legitimate signer of its own token.
	keyBound bool
	other    *party // another party whose key the consumer can find (by kid), owned by the harness
	attKid   string // key id the attacker uses for its own key ("with matching kid")
	// detached payload (JSON-LD proofs): the compact form has an empty payload segment and the signing input is
	// b64(header) "." rawPayload with rawPayload known to the harness
	detached   bool
	rawPayload []byte
	// callerBinds: the signer is pinned by a JWK thumbprint that the caller of the consumer supplies per call (DPoP validate endpoint with
	// the harness in the role of the resource server): own-key variants carry the thumbprint to pin (variant.jkt)
	callerBinds bool
	// signerClaim: name of the payload claim that names the signer's DID (credential JWT: "iss") when ANY resolvable DID is a legitimate
	// signer of its own token; the generator then also produces tokens whose signer is a did:jwk of each key family
	signerClaim string
}

// ---- keys owned by the attacker (generated once per process; key values never influence verdicts) ----

var att struct {
	once sync.Once
	p256 *ecdsa.PrivateKey
	p384 *ecdsa.PrivateKey
	rsa  *rsa.PrivateKey
	ed   ed25519.PrivateKey
	cert []byte // self-signed certificate for p256 (DER)
	// further key families the JOSE library can parse
	p521   *ecdsa.PrivateKey
	x25519 *ecdh.PrivateKey
	oct    []byte
	fams   []keyFam
}

func attacker() {
	att.once.Do(func() {
		att.p256, _ = ecdsa.GenerateKey(elliptic.P256(), crand.Reader)
		att.p384, _ = ecdsa.GenerateKey(elliptic.P384(), crand.Reader)
		att.p521, _ = ecdsa.GenerateKey(elliptic.P521(), crand.Reader)
		att.x25519, _ = ecdh.X25519().GenerateKey(crand.Reader)
		att.oct = make([]byte, 32)
		_, _ = crand.Read(att.oct)
		att.rsa, _ = rsa.GenerateKey(crand.Reader, 2048)
		_, att.ed, _ = ed25519.GenerateKey(crand.Reader)
		tpl := &x509.Certificate{SerialNumber: big.NewInt(1), Subject: pkix.Name{CommonName: "attacker"}, NotBefore: time.Now().Add(-time.Hour), NotAfter: time.Now().Add(24 * time.Hour)}
		att.cert, _ = x509.CreateCertificate(crand.Reader, tpl, tpl, &att.p256.PublicKey, att.p256)
		att.fams = buildFamilies()
	})
}

// ---- minimal JOSE building blocks ---------------------------------------------------------------

var b64 = base64.RawURLEncoding

func ecJWK(pub *ecdsa.PublicKey, priv *ecdsa.PrivateKey) map[string]any {
	size := (pub.Curve.Params().BitSize + 7) / 8
	m := map[string]any{"kty": "EC", "crv": pub.Curve.Params().Name,
		"x": b64.EncodeToString(pub.X.FillBytes(make([]byte, size))), "y": b64.EncodeToString(pub.Y.FillBytes(make([]byte, size)))}
	if priv != nil {
		m["d"] = b64.EncodeToString(priv.D.FillBytes(make([]byte, size)))
	}
	return m
}

// jwkThumbprint is the RFC 7638 SHA-256 thumbprint of an EC public key.
func jwkThumbprint(pub *ecdsa.PublicKey) []byte {
	j := ecJWK(pub, nil)
	s := fmt.Sprintf(`{"crv":"%s","kty":"EC","x":"%s","y":"%s"}`, j["crv"], j["x"], j["y"])
	h := sha256.Sum256([]byte(s))
	return h[:]
}

// didJWKRSA is the did:jwk of an RSA public key.
func didJWKRSA(pub *rsa.PublicKey) string {
	e := big.NewInt(int64(pub.E)).Bytes()
	return "did:jwk:" + b64.EncodeToString([]byte(fmt.Sprintf(`{"e":"%s","kty":"RSA","n":"%s"}`, b64.EncodeToString(e), b64.EncodeToString(pub.N.Bytes()))))
}

func didJWK(pub *ecdsa.PublicKey) string {
	j := ecJWK(pub, nil)
	s := fmt.Sprintf(`{"crv":"%s","kty":"EC","x":"%s","y":"%s"}`, j["crv"], j["x"], j["y"])
	return "did:jwk:" + b64.EncodeToString([]byte(s))
}

func hashFor(alg string) func() hash.Hash {
	switch alg[len(alg)-3:] {
	case "384":
		return sha512.New384
	case "512":
		return sha512.New
	}
	return sha256.New
}

func cryptoHash(alg string) crypto.Hash {
	switch alg[len(alg)-3:] {
	case "384":
		return crypto.SHA384
	case "512":
		return crypto.SHA512
	}
	return crypto.SHA256
}

func digest(alg string, input []byte) []byte {
	h := hashFor(alg)()
	h.Write(input)
	return h.Sum(nil)
}

// signRaw produces the JWS signature bytes for alg over input with key.
func signRaw(alg string, key any, input []byte) []byte {
	switch {
	case strings.HasPrefix(alg, "ES"):
		k := key.(*ecdsa.PrivateKey)
		r, s, err := ecdsa.Sign(crand.Reader, k, digest(alg, input))
		if err != nil {
			panic(err)
		}
		size := (k.Curve.Params().BitSize + 7) / 8
		return append(r.FillBytes(make([]byte, size)), s.FillBytes(make([]byte, size))...)
	case strings.HasPrefix(alg, "RS"):
		sig, err := rsa.SignPKCS1v15(crand.Reader, key.(*rsa.PrivateKey), cryptoHash(alg), digest(alg, input))
		if err != nil {
			panic(err)
		}
		return sig
	case strings.HasPrefix(alg, "PS"):
		sig, err := rsa.SignPSS(crand.Reader, key.(*rsa.PrivateKey), cryptoHash(alg), digest(alg, input), &rsa.PSSOptions{SaltLength: rsa.PSSSaltLengthEqualsHash})
		if err != nil {
			panic(err)
		}
		return sig
	case alg == "EdDSA":
		return ed25519.Sign(key.(ed25519.PrivateKey), input)
	case strings.HasPrefix(alg, "HS"):
		m := hmac.New(hashFor(alg), key.([]byte))
		m.Write(input)
		return m.Sum(nil)
	}
	return nil
}

// token is a JWS taken apart.
type token struct {
	hdrSeg, paySeg, sigSeg string
	hdr                    map[string]any // decoded protected header (numbers kept as json.Number)
	hdrJSON                []byte
	sig                    []byte
}

func parseCompact(c string) (*token, error) {
	parts := strings.Split(c, ".")
	if len(parts) != 3 {
		return nil, fmt.Errorf("not a compact JWS (%d segments)", len(parts))
	}
	t := &token{hdrSeg: parts[0], paySeg: parts[1], sigSeg: parts[2]}
	var err error
	if t.hdrJSON, err = b64.DecodeString(parts[0]); err != nil {
		return nil, err
	}
	dec := json.NewDecoder(bytes.NewReader(t.hdrJSON))
	dec.UseNumber()
	if err = dec.Decode(&t.hdr); err != nil {
		return nil, err
	}
	if t.sig, err = b64.DecodeString(parts[2]); err != nil {
		return nil, err
	}
	return t, nil
}

func cloneHdr(h map[string]any) map[string]any {
	c := make(map[string]any, len(h))
	for k, v := range h {
		c[k] = v
	}
	return c
}

func encHdr(h map[string]any) string {
	data, err := json.Marshal(h)
	if err != nil {
		panic(err)
	}
	return b64.EncodeToString(data)
}

// input returns the JWS signing input for a header segment of this seed.
func (s *seed) input(hdrSeg, paySeg string) []byte {
	if s.detached {
		return append([]byte(hdrSeg+"."), s.rawPayload...)
	}
	return []byte(hdrSeg + "." + paySeg)
}

// build signs header h (alg taken from it) and returns the compact form.
func (s *seed) build(t *token, h map[string]any, key any) string {
	hs := encHdr(h)
	alg, _ := h["alg"].(string)
	sig := signRaw(alg, key, s.input(hs, t.paySeg))
	return hs + "." + t.paySeg + "." + b64.EncodeToString(sig)
}

func pubBytesEncodings(pub crypto.PublicKey) map[string][]byte {
	out := map[string][]byte{"empty": {}, "zero32": make([]byte, 32)}
	der, err := x509.MarshalPKIXPublicKey(pub)
	if err == nil {
		out["pkix-der"] = der
		out["pkix-pem"] = pem.EncodeToMemory(&pem.Block{Type: "PUBLIC KEY", Bytes: der})
		out["pkix-pem-nonl"] = bytes.TrimSpace(out["pkix-pem"])
		out["pkix-b64"] = []byte(base64.StdEncoding.EncodeToString(der))
	}
	if e, ok := pub.(*ecdsa.PublicKey); ok {
		size := (e.Curve.Params().BitSize + 7) / 8
		x, y := e.X.FillBytes(make([]byte, size)), e.Y.FillBytes(make([]byte, size))
		out["raw-xy"] = append(append([]byte{}, x...), y...)
		out["uncompressed-point"] = append([]byte{4}, out["raw-xy"]...)
		out["x"] = x
		j := ecJWK(e, nil)
		out["jwk-json"] = []byte(fmt.Sprintf(`{"crv":"%s","kty":"EC","x":"%s","y":"%s"}`, j["crv"], j["x"], j["y"]))
		out["jwk-x-b64"] = []byte(j["x"].(string))
		out["thumbprint"] = jwkThumbprint(e)
	}
	return out
}

func derSig(sig []byte) []byte {
	n := len(sig) / 2
	der, _ := asn1.Marshal(struct{ R, S *big.Int }{new(big.Int).SetBytes(sig[:n]), new(big.Int).SetBytes(sig[n:])})
	return der
}

// ---- JSON serialisation ---------------------------------------------------------------------------

type jsig struct {
	protected string
	header    map[string]any // unprotected
	signature *string        // nil: member absent
}

func jsonGeneral(payload string, sigs []jsig) string {
	var arr []any
	for _, s := range sigs {
		arr = append(arr, sigObj(s))
	}
	if arr == nil {
		arr = []any{}
	}
	d, _ := json.Marshal(map[string]any{"payload": payload, "signatures": arr})
	return string(d)
}

func sigObj(s jsig) map[string]any {
	m := map[string]any{}
	if s.protected != "" {
		m["protected"] = s.protected
	}
	if s.header != nil {
		m["header"] = s.header
	}
	if s.signature != nil {
		m["signature"] = *s.signature
	}
	return m
}

func jsonFlat(payload string, s jsig) string {
	m := sigObj(s)
	m["payload"] = payload
	d, _ := json.Marshal(m)
	return string(d)
}

// ---- the generator -----------------------------------------------------------------------------------

// variants returns the structured variant list (identical classes for every consumer) followed by `bulk` seeded ones
// (single protected-character alterations at seeded positions and seeded pairs of structured mutations).
func variants(s *seed, rnd *rand.Rand, bulk int) []variant {
	attacker()
	t, err := parseCompact(s.compact)
	if err != nil {
		panic("seed token does not parse: " + err.Error())
	}
	var out []variant
	emit := func(v variant) {
		if v.token == s.compact && v.verdict != vValid {
			return // the mutation was a no-op on this token
		}
		out = append(out, v)
	}
	add := func(class, name, tok string, v verdict) {
		emit(variant{class: class, name: name, token: tok, verdict: v})
	}
	keep := func(h map[string]any) string { return encHdr(h) + "." + t.paySeg + "." + t.sigSeg } // header replaced, signature kept
	origAlg, _ := t.hdr["alg"].(string)
	with := func(kv ...any) map[string]any {
		h := cloneHdr(t.hdr)
		for i := 0; i < len(kv); i += 2 {
			if kv[i+1] == nil {
				delete(h, kv[i].(string))
			} else {
				h[kv[i].(string)] = kv[i+1]
			}
		}
		return h
	}
	attJWK := ecJWK(&att.p256.PublicKey, nil)
	sigStr := func(x string) *string { return &x }

	add("control", "unchanged", s.compact, vValid)

	// A. alg none
	for _, a := range []string{"none", "None", "NONE", "nOnE"} {
		h := with("alg", a)
		add("alg-none", a+"/sig-kept", keep(h), vHostile)
		add("alg-none", a+"/sig-empty", encHdr(h)+"."+t.paySeg+".", vHostile)
		add("alg-none", a+"/two-segments", encHdr(h)+"."+t.paySeg, vHostile)
	}
	add("alg-none", "alg-absent/sig-kept", keep(with("alg", nil)), vHostile)
	add("alg-none", "alg-absent/sig-empty", encHdr(with("alg", nil))+"."+t.paySeg+".", vHostile)
	add("alg-none", "alg-empty-string", encHdr(with("alg", ""))+"."+t.paySeg+".", vHostile)
	add("alg-none", "alg-null", encHdr(with("alg", json.RawMessage("null")))+"."+t.paySeg+".", vHostile)

	// B. MAC keyed with the public key
	encs := pubBytesEncodings(s.pub)
	encNames := make([]string, 0, len(encs))
	for k := range encs {
		encNames = append(encNames, k)
	}
	sort.Strings(encNames)
	for _, a := range []string{"HS256", "HS384", "HS512"} {
		for _, en := range encNames {
			if a != "HS256" && en != "pkix-pem" && en != "pkix-der" && en != "raw-xy" && en != "jwk-json" {
				continue
			}
			add("alg-hmac", a+"/key="+en, s.build(t, with("alg", a), encs[en]), vHostile)
		}
		add("alg-hmac", a+"/sig-kept", keep(with("alg", a)), vHostile)
	}

	// C. other family
	for _, a := range []string{"RS256", "RS512", "PS256", "PS512", "EdDSA"} {
		add("alg-other-family", a+"/sig-kept", keep(with("alg", a)), vHostile)
		var k any = att.rsa
		if a == "EdDSA" {
			k = att.ed
		}
		add("alg-other-family", a+"/resigned-attacker", s.build(t, with("alg", a), k), vHostile)
	}

	// D. other curve / hash
	for _, a := range []string{"ES384", "ES512", "ES256K", "ES256"} {
		if a == origAlg {
			continue
		}
		add("alg-other-curve", a+"/sig-kept", keep(with("alg", a)), vHostile)
	}
	add("alg-other-curve", "ES384/resigned-attacker-p384", s.build(t, with("alg", "ES384"), att.p384), vHostile)
	add("alg-other-curve", "ES256K/resigned-attacker-p256", encHdr(with("alg", "ES256K"))+"."+t.paySeg+"."+
		b64.EncodeToString(signRaw("ES256", att.p256, s.input(encHdr(with("alg", "ES256K")), t.paySeg))), vHostile)
	if ec, ok := s.priv.(*ecdsa.PrivateKey); ok {
		// the right key, but an algorithm that does not fit it (P-256 key, SHA-384/512 digest, 64-byte signature)
		for _, a := range []string{"ES384", "ES512"} {
			if a != origAlg {
				add("alg-unfit-for-key", a+"/signed-by-legit-p256-key", s.build(t, with("alg", a), ec), vHostile)
				// the embedded jwk itself declares the unfit algorithm (RFC 7517 4.4 "alg" member): a declaration by the token's
				// author must not make the algorithm fit the key
				if o, ok := t.hdr["jwk"].(map[string]any); ok && s.embedsJWK {
					j := map[string]any{}
					for k, v := range o {
						j[k] = v
					}
					j["alg"] = a
					add("alg-unfit-for-key", a+"/signed-by-legit-p256-key/jwk-declares-alg", s.build(t, with("alg", a, "jwk", j), ec), vHostile)
				}
			}
		}
	}
	if s.priv != nil {
		// the right key and an algorithm of its family, but not one the consumer allows
		for _, a := range s.notAllowed {
			add("alg-not-allowed", a+"/signed-by-legit-key", s.build(t, with("alg", a), s.priv), vHostile)
		}
	}

	// E. signature
	add("sig-removed", "empty-third-segment", t.hdrSeg+"."+t.paySeg+".", vHostile)
	add("sig-removed", "two-segments", t.hdrSeg+"."+t.paySeg, vHostile)
	if len(t.sig) > 8 {
		add("sig-truncated", "last-byte-dropped", t.hdrSeg+"."+t.paySeg+"."+b64.EncodeToString(t.sig[:len(t.sig)-1]), vHostile)
		add("sig-truncated", "first-half", t.hdrSeg+"."+t.paySeg+"."+b64.EncodeToString(t.sig[:len(t.sig)/2]), vHostile)
		add("sig-truncated", "one-byte", t.hdrSeg+"."+t.paySeg+"."+b64.EncodeToString(t.sig[:1]), vHostile)
		add("sig-truncated", "last-b64-char-dropped", t.hdrSeg+"."+t.paySeg+"."+t.sigSeg[:len(t.sigSeg)-1], vHostile)
		flipped := append([]byte{}, t.sig...)
		flipped[len(flipped)/3] ^= 0x10
		add("sig-altered", "bit-flipped", t.hdrSeg+"."+t.paySeg+"."+b64.EncodeToString(flipped), vHostile)
		add("sig-altered", "all-zero", t.hdrSeg+"."+t.paySeg+"."+b64.EncodeToString(make([]byte, len(t.sig))), vHostile)
		add("sig-altered", "r-and-s-swapped", t.hdrSeg+"."+t.paySeg+"."+b64.EncodeToString(append(append([]byte{}, t.sig[len(t.sig)/2:]...), t.sig[:len(t.sig)/2]...)), vHostile)
		add("sig-altered", "of-other-token", t.hdrSeg+"."+t.paySeg+"."+b64.EncodeToString(signRaw("ES256", att.p256, []byte("x.y"))), vHostile)
		// genuine (r,s) of the right key in another encoding: not JOSE, but the same signature
		if e, ok := s.pub.(*ecdsa.PublicKey); ok && len(t.sig)%2 == 0 {
			add("sig-der-encoded", "asn1-der", t.hdrSeg+"."+t.paySeg+"."+b64.EncodeToString(derSig(t.sig)), vBenign)
			n := len(t.sig) / 2
			sNeg := new(big.Int).Sub(e.Curve.Params().N, new(big.Int).SetBytes(t.sig[n:]))
			add("sig-reencoded", "s-negated", t.hdrSeg+"."+t.paySeg+"."+b64.EncodeToString(append(append([]byte{}, t.sig[:n]...), sNeg.FillBytes(make([]byte, n))...)), vBenign)
			pad := append(append(append([]byte{0}, t.sig[:n]...), 0), t.sig[n:]...)
			add("sig-reencoded", "zero-padded-r-s", t.hdrSeg+"."+t.paySeg+"."+b64.EncodeToString(pad), vBenign)
		}
	}

	// F. JSON serialisation
	jsonPayload := t.paySeg
	attHdr := encHdr(with("kid", s.attKid))
	if s.embedsJWK {
		attHdr = encHdr(with("jwk", attJWK))
	}
	attSig := b64.EncodeToString(signRaw("ES256", att.p256, s.input(attHdr, t.paySeg)))
	noneHdr := encHdr(with("alg", "none"))
	orig := jsig{protected: t.hdrSeg, signature: &t.sigSeg}
	add("json-one-signature", "flattened", jsonFlat(jsonPayload, orig), vBenign)
	add("json-one-signature", "general", jsonGeneral(jsonPayload, []jsig{orig}), vBenign)
	add("json-no-signature", "general-empty-array", jsonGeneral(jsonPayload, nil), vHostile)
	add("json-no-signature", "flattened-signature-absent", jsonFlat(jsonPayload, jsig{protected: t.hdrSeg}), vHostile)
	add("json-no-signature", "flattened-signature-empty", jsonFlat(jsonPayload, jsig{protected: t.hdrSeg, signature: sigStr("")}), vHostile)
	add("json-no-signature", "general-one-empty-signature", jsonGeneral(jsonPayload, []jsig{{protected: t.hdrSeg, signature: sigStr("")}}), vHostile)
	add("json-two-signatures", "valid+same-again", jsonGeneral(jsonPayload, []jsig{orig, orig}), vHostile)
	add("json-two-signatures", "valid+attacker", jsonGeneral(jsonPayload, []jsig{orig, {protected: attHdr, signature: &attSig}}), vHostile)
	add("json-two-signatures", "attacker+valid", jsonGeneral(jsonPayload, []jsig{{protected: attHdr, signature: &attSig}, orig}), vHostile)
	add("json-two-signatures", "valid+none", jsonGeneral(jsonPayload, []jsig{orig, {protected: noneHdr, signature: sigStr("")}}), vHostile)
	add("json-two-signatures", "none+valid", jsonGeneral(jsonPayload, []jsig{{protected: noneHdr, signature: sigStr("")}, orig}), vHostile)
	add("json-two-signatures", "valid+garbage", jsonGeneral(jsonPayload, []jsig{orig, {protected: t.hdrSeg, signature: sigStr("AAAA")}}), vHostile)
	add("json-two-signatures", "garbage+valid", jsonGeneral(jsonPayload, []jsig{{protected: t.hdrSeg, signature: sigStr("AAAA")}, orig}), vHostile)
	add("json-two-signatures", "attacker+attacker", jsonGeneral(jsonPayload, []jsig{{protected: attHdr, signature: &attSig}, {protected: attHdr, signature: &attSig}}), vHostile)
	// the signed part untouched, extra header members outside the signature
	for _, u := range []struct {
		n string
		h map[string]any
	}{{"x", map[string]any{"x": "y"}}, {"kid-other", map[string]any{"kid": s.attKid}}, {"jwk-attacker", map[string]any{"jwk": attJWK}},
		{"jku", map[string]any{"jku": "https://attacker.invalid/keys.json"}}} {
		add("json-unprotected-header", "flattened/"+u.n, jsonFlat(jsonPayload, jsig{protected: t.hdrSeg, header: u.h, signature: &t.sigSeg}), vBenign)
	}
	// security parameters moved out of the protected header (signature can not be valid any more)
	add("json-unprotected-header", "alg-only-unprotected/sig-kept", jsonFlat(jsonPayload, jsig{protected: encHdr(with("alg", nil)), header: map[string]any{"alg": origAlg}, signature: &t.sigSeg}), vHostile)
	add("json-unprotected-header", "alg-none-unprotected/no-protected", jsonFlat(jsonPayload, jsig{header: map[string]any{"alg": "none"}, signature: sigStr("")}), vHostile)
	{
		h := with("alg", nil, "kid", nil, "jwk", nil)
		un := map[string]any{"alg": "ES256", "kid": s.attKid, "jwk": attJWK}
		hs := encHdr(h)
		sg := b64.EncodeToString(signRaw("ES256", att.p256, s.input(hs, t.paySeg)))
		add("json-unprotected-header", "alg+kid+jwk-unprotected/resigned-attacker", jsonFlat(jsonPayload, jsig{protected: hs, header: un, signature: &sg}), vHostile)
	}

	// G. key material injected through other headers, token re-signed by the attacker's key
	keyHostile := s.keyBound || !s.embedsJWK // re-signing with a foreign key is hostile unless the embedded key IS the identity
	inj := map[string]any{
		"jwk": attJWK,
		"jku": "https://attacker.invalid/keys.json",
		"x5u": "https://attacker.invalid/cert.pem",
		"x5c": []string{base64.StdEncoding.EncodeToString(att.cert)},
	}
	for _, name := range []string{"jwk", "jku", "x5c", "x5u"} {
		if name == "jwk" && s.embedsJWK {
			continue // covered by key-swapped below
		}
		h := with(name, inj[name], "alg", "ES256")
		if keyHostile {
			add("key-injected", name+"/resigned-attacker", s.build(t, h, att.p256), vHostile)
		}
		add("key-injected", name+"/sig-kept", keep(with(name, inj[name])), vHostile)
	}
	if !s.embedsJWK && keyHostile {
		add("key-injected", "jwk-private/resigned-attacker", s.build(t, with("jwk", ecJWK(&att.p256.PublicKey, att.p256), "alg", "ES256"), att.p256), vHostile)
		add("key-injected", "jwk+jku+x5c/resigned-attacker", s.build(t, with("jwk", attJWK, "jku", inj["jku"], "x5c", inj["x5c"], "alg", "ES256"), att.p256), vHostile)
		if s.keyBound { // where any key holder may sign (DAG), replacing `kid` by one's own `jwk` is simply that party's own valid token
			add("key-injected", "jwk-no-kid/resigned-attacker", s.build(t, with("jwk", attJWK, "kid", nil, "alg", "ES256"), att.p256), vHostile)
		}
	}

	// H. kid of another party
	if t.hdr["kid"] != nil {
		if s.other != nil {
			add("kid-other-party", "known-party/sig-kept", keep(with("kid", s.other.kid)), vHostile)
			add("kid-other-party", "known-party/resigned-attacker", s.build(t, with("kid", s.other.kid, "alg", "ES256"), att.p256), vHostile)
			if s.keyBound {
				add("kid-other-party", "known-party/resigned-by-that-party", s.build(t, with("kid", s.other.kid, "alg", "ES256"), s.other.priv), vHostile)
			}
		}
		add("kid-other-party", "kid-removed/sig-kept", keep(with("kid", nil)), vHostile)
		add("kid-other-party", "kid-empty/sig-kept", keep(with("kid", "")), vHostile)
	}

	// I. key swapped to the attacker's key
	if keyHostile {
		if s.embedsJWK {
			add("key-swapped", "jwk-attacker/resigned-attacker", s.build(t, with("jwk", attJWK, "alg", "ES256"), att.p256), vHostile)
			add("key-swapped", "jwk-attacker-p384/resigned-attacker", s.build(t, with("jwk", ecJWK(&att.p384.PublicKey, nil), "alg", "ES384"), att.p384), vHostile)
		} else {
			add("key-swapped", "kid-unchanged/resigned-attacker", s.build(t, with("alg", "ES256"), att.p256), vHostile)
			add("key-swapped", "kid-of-attacker/resigned-attacker", s.build(t, with("kid", s.attKid, "alg", "ES256"), att.p256), vHostile)
			add("key-swapped", "kid-removed/resigned-attacker", s.build(t, with("kid", nil, "alg", "ES256"), att.p256), vHostile)
		}
	}
	if s.embedsJWK {
		add("key-swapped", "jwk-attacker/sig-kept", keep(with("jwk", attJWK)), vHostile)
		add("key-swapped", "jwk-removed/sig-kept", keep(with("jwk", nil)), vHostile)
	}

	// J. embedded private key
	if s.embedsJWK {
		if ec, ok := s.priv.(*ecdsa.PrivateKey); ok {
			add("embedded-private-jwk", "legit-key-with-d/signed-by-legit-key", s.build(t, with("jwk", legitJWK(t, ec)), ec), vHostile)
		}
		add("embedded-private-jwk", "attacker-key-with-d/resigned-attacker", s.build(t, with("jwk", ecJWK(&att.p256.PublicKey, att.p256), "alg", "ES256"), att.p256), vHostile)
		add("embedded-private-jwk", "legit-public-plus-bogus-d/sig-kept", keep(with("jwk", addD(t.hdr["jwk"]))), vHostile)
	}

	// J2. the embedded-key variants over every key family the JOSE library can parse (families_test.go)
	familyVariants(s, t, with, emit)

	// K. protected bytes altered (signature kept)
	alterations(s, t, rnd, 6, add)

	// L. re-encodings of the compact form
	reencodings(s, t, add)

	// bulk: seeded single alterations + seeded pairs of structured hostile mutations
	if bulk > 0 {
		alterations(s, t, rnd, bulk*3/4, add)
		hostile := make([]variant, 0, len(out))
		for _, v := range out {
			if v.verdict == vHostile && strings.Count(v.token, ".") == 2 && !strings.HasPrefix(v.token, "{") {
				hostile = append(hostile, v)
			}
		}
		for i := 0; i < bulk/4 && len(hostile) > 0; i++ {
			// a hostile token whose compact form is additionally re-encoded (padding, alphabet, extra segment ...): still hostile
			base := hostile[rnd.Intn(len(hostile))]
			bt, err := parseCompactLoose(base.token)
			if err != nil {
				continue
			}
			var res []variant
			reencodings(s, bt, func(class, name, tok string, _ verdict) {
				res = append(res, variant{class: class, name: name, token: tok, verdict: vHostile})
			})
			if len(res) == 0 {
				continue
			}
			p := res[rnd.Intn(len(res))]
			emit(variant{class: base.class, name: base.name + "+" + p.class + ":" + p.name, token: p.token, verdict: vHostile, family: base.family, jkt: base.jkt})
		}
	}
	return out
}

func legitJWK(t *token, k *ecdsa.PrivateKey) map[string]any {
	j := ecJWK(&k.PublicKey, k)
	// keep non-key members of the original jwk (e.g. alg)
	if o, ok := t.hdr["jwk"].(map[string]any); ok {
		for k, v := range o {
			if _, has := j[k]; !has {
				j[k] = v
			}
		}
	}
	return j
}

func addD(j any) any {
	o, ok := j.(map[string]any)
	if !ok {
		return j
	}
	c := map[string]any{}
	for k, v := range o {
		c[k] = v
	}
	c["d"] = b64.EncodeToString(bytes.Repeat([]byte{7}, 32))
	return c
}

func parseCompactLoose(c string) (*token, error) {
	parts := strings.Split(c, ".")
	if len(parts) != 3 {
		return nil, fmt.Errorf("segments")
	}
	return &token{hdrSeg: parts[0], paySeg: parts[1], sigSeg: parts[2]}, nil
}

const b64alphabet = "ABCDEFGHIJKLMNOPQRSTUVWXYZabcdefghijklmnopqrstuvwxyz0123456789-_"

// alterations changes single protected characters/bytes and keeps the signature. A change that only touches the unused trailing
// bits of a base64 segment decodes to the same bytes and is a (benign) non-canonical encoding, everything else is hostile.
func alterations(s *seed, t *token, rnd *rand.Rand, n int, add func(class, name, tok string, v verdict)) {
	segs := []string{t.hdrSeg, t.paySeg}
	names := []string{"header", "payload"}
	for i := 0; i < n; i++ {
		which := i % 2
		if segs[which] == "" {
			which = 0
		}
		seg := segs[which]
		mode := (i / 2) % 3
		var mutated, what string
		switch mode {
		case 0: // replace one base64 character
			p := rnd.Intn(len(seg))
			c := b64alphabet[rnd.Intn(64)]
			if c == seg[p] {
				c = b64alphabet[(strings.IndexByte(b64alphabet, c)+1)%64]
			}
			mutated = seg[:p] + string(c) + seg[p+1:]
			what = fmt.Sprintf("b64-char-replaced@%d=%c", p, c)
		case 1: // flip one bit of the decoded bytes and re-encode canonically
			raw, err := b64.DecodeString(seg)
			if err != nil || len(raw) == 0 {
				continue
			}
			p, bit := rnd.Intn(len(raw)), rnd.Intn(8)
			raw[p] ^= 1 << uint(bit)
			mutated = b64.EncodeToString(raw)
			what = fmt.Sprintf("decoded-bit-flipped@%d.%d", p, bit)
		default: // semantically neutral JSON change (inserted space) re-encoded: other bytes, same meaning
			raw, err := b64.DecodeString(seg)
			if err != nil || len(raw) < 2 || raw[0] != '{' {
				continue
			}
			idx := []int{}
			for k, c := range raw {
				if c == ',' || c == ':' && k > 0 && raw[k-1] == '"' {
					idx = append(idx, k)
				}
			}
			if len(idx) == 0 {
				continue
			}
			p := idx[rnd.Intn(len(idx))]
			nr := append(append(append([]byte{}, raw[:p+1]...), ' '), raw[p+1:]...)
			mutated = b64.EncodeToString(nr)
			what = fmt.Sprintf("json-space-inserted@%d", p)
		}
		v := vHostile
		class := "protected-byte-altered"
		if o, err1 := b64.DecodeString(seg); err1 == nil {
			if m, err2 := b64.DecodeString(mutated); err2 == nil && bytes.Equal(o, m) {
				v, class = vBenign, "noncanonical-base64"
			}
		}
		tok := t.hdrSeg + "." + mutated + "." + t.sigSeg
		if which == 0 {
			tok = mutated + "." + t.paySeg + "." + t.sigSeg
		}
		add(class, names[which]+"/"+what, tok, v)
	}
}

func toStd(s string) string { return strings.NewReplacer("-", "+", "_", "/").Replace(s) }

func pad(s string) string {
	for len(s)%4 != 0 {
		s += "="
	}
	return s
}

// trailingBits returns seg with non-zero unused trailing bits in its last character (same decoded bytes), or "" if the segment has none.
func trailingBits(seg string) string {
	if len(seg)%4 == 0 || len(seg) == 0 {
		return ""
	}
	i := strings.IndexByte(b64alphabet, seg[len(seg)-1])
	if i < 0 {
		return ""
	}
	return seg[:len(seg)-1] + string(b64alphabet[i|1])
}

// reencodings produces other byte strings for the same (header, payload, signature) triple.
func reencodings(s *seed, t *token, add func(class, name, tok string, v verdict)) {
	c := t.hdrSeg + "." + t.paySeg + "." + t.sigSeg
	add("reencoded-compact", "trailing-dot", c+".", vBenign)
	add("reencoded-compact", "two-trailing-dots", c+"..", vBenign)
	add("reencoded-compact", "extra-segment", c+".AAAA", vBenign)
	add("reencoded-compact", "extra-segment-json", c+"."+b64.EncodeToString([]byte(`{"alg":"none"}`)), vBenign)
	add("reencoded-compact", "leading-dot", "."+c, vHostile) // shifts the segments: header becomes empty
	add("reencoded-compact", "leading-space", " "+c, vBenign)
	add("reencoded-compact", "trailing-space", c+" ", vBenign)
	add("reencoded-compact", "trailing-newline", c+"\n", vBenign)
	add("reencoded-compact", "leading-tab", "\t"+c, vBenign)
	add("reencoded-compact", "space-after-first-dot", t.hdrSeg+". "+t.paySeg+"."+t.sigSeg, vBenign)
	add("reencoded-compact", "newline-inside-signature", t.hdrSeg+"."+t.paySeg+"."+t.sigSeg[:len(t.sigSeg)/2]+"\n"+t.sigSeg[len(t.sigSeg)/2:], vBenign)
	add("reencoded-compact", "newline-inside-header", t.hdrSeg[:len(t.hdrSeg)/2]+"\n"+t.hdrSeg[len(t.hdrSeg)/2:]+"."+t.paySeg+"."+t.sigSeg, vBenign)
	add("reencoded-compact", "quoted", `"`+c+`"`, vBenign)
	add("noncanonical-base64", "signature-padded", t.hdrSeg+"."+t.paySeg+"."+pad(t.sigSeg), vBenign)
	add("noncanonical-base64", "header-padded", pad(t.hdrSeg)+"."+t.paySeg+"."+t.sigSeg, vBenign)
	add("noncanonical-base64", "payload-padded", t.hdrSeg+"."+pad(t.paySeg)+"."+t.sigSeg, vBenign)
	add("noncanonical-base64", "signature-std-alphabet", t.hdrSeg+"."+t.paySeg+"."+toStd(t.sigSeg), vBenign)
	add("noncanonical-base64", "all-std-alphabet-padded", pad(toStd(t.hdrSeg))+"."+pad(toStd(t.paySeg))+"."+pad(toStd(t.sigSeg)), vBenign)
	if x := trailingBits(t.sigSeg); x != "" {
		add("noncanonical-base64", "signature-trailing-bits", t.hdrSeg+"."+t.paySeg+"."+x, vBenign)
	}
	if x := trailingBits(t.hdrSeg); x != "" {
		add("noncanonical-base64", "header-trailing-bits", x+"."+t.paySeg+"."+t.sigSeg, vBenign)
	}
	if x := trailingBits(t.paySeg); x != "" {
		add("noncanonical-base64", "payload-trailing-bits", t.hdrSeg+"."+x+"."+t.sigSeg, vBenign)
	}
}
