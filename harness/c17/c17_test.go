// Check C17: every signed token the node consumes is accepted only with exactly one signature by an allowed
// asymmetric algorithm that fits the key, verified over the received bytes with the key from the protocol-mandated source.
// ONE generator of hostile variants (gen_test.go) is applied uniformly to a valid token of each consumer; the real
// consumers (full in-process nodes over HTTP, the real DAG parser/verifier/state) answer accept or reject.
package c17

import (
	"fmt"
	"os"
	"sort"
	"strings"
	"sync"
	"testing"
	"time"

	"verif/lib/ev"
	"verif/lib/iamflow"
)

func TestCheck(t *testing.T) {
	r := ev.Start(t, "C17", "exploration")
	defer r.Finish()
	r.SetRule("case = (consumer, valid instance, variant): the variant list is produced by one generator from the consumer's valid token " +
		"(alg none/HS*/other family/other curve, signature removed/truncated/altered/DER, JSON serialisation with 0/1/2 signatures or unprotected headers, " +
		"jwk/jku/x5c/x5u injected and re-signed, kid of another party, key swapped with/without matching kid, " +
		"embedded keys over every key family the JOSE library parses (EC P-256/384/521, RSA, OKP Ed25519/X25519, oct): jwk header / did:jwk key id carrying the public key (paired control) " +
		"and each private form of the same key, genuinely signed by that key with the fitting algorithm, protected bytes altered at seeded positions, " +
		"re-encodings of the compact form; thorough adds seeded alterations and seeded pairs). Each is handed to the real consumer and accept/reject is observed. " +
		"The v1 access token additionally gets tokens of foreign authorization servers (genuinely signed by did:jwk / did:key / hosted did:web keys of every key family), and its " +
		"whole list is presented again under each key store fault mode (lookup answers with an error: backend unreachable, deadline, cancellation, not-found as error; persistent or first lookup only). " +
		"Non-trivial: every variant other than the untouched control; distinct by (consumer, instance, class, variant name).")
	r.Require(300, 200)
	r.Assume("the full variant list is applied to ES256/P-256 valid tokens (what the node itself produces) plus one PS256/RSA credential; P-384/P-521/RSA/Ed25519 keyed tokens " +
		"are driven as own-key tokens of another key holder (embedded-key classes only), not as seeds of the full list")
	r.Assume("of the legacy v1 flow (auth/services/oauth) the access token is driven (verify and introspect endpoints, valid instance signed by the node's key store " +
		"with the claims buildAccessToken produces); the did:nuts JWT bearer grant and contract VPs are not driven")
	r.Assume("key store faults are injected by a decorator between the node's real v1 authorization server and the node's real key store (Exists/Resolve answer with an error); " +
		"the other consumers do not consult a key store while choosing the verification key")
	attacker()

	var consumers []*consumer
	must := func(c *consumer, err error) *consumer {
		if err != nil {
			r.Fatalf("cannot set up consumer: %v", err)
		}
		consumers = append(consumers, c)
		return c
	}
	didHost, restoreTransport := iamflow.InstallDIDHost() // hosted did:web parties for the DID-text-prefix cases (before any node starts)
	defer restoreTransport()
	vw := newVCRWorld(t)
	vcNode := must(vw.vcJWTNodeIssued())
	must(vw.vcJWTHarnessIssued(vcNode.seed.compact))
	must(vw.vcJWTHarnessIssuedRSA(vcNode.seed.compact))
	must(vw.vpJWT(vcNode.seed.compact))
	{
		hdr, _ := jwtParts(vcNode.seed.compact)
		kid, _ := hdr["kid"].(string)
		v1, err := vw.v1AccessToken(didHost, kid)
		if err != nil {
			r.Fatalf("cannot set up consumer access-token-v1: %v", err)
		}
		consumers = append(consumers, v1...)
		nres := 0
		for _, v := range vw.v1Foreign {
			if v == "resolvable" {
				nres++
			}
		}
		r.Extra("access_token_v1_foreign_signers", vw.v1Foreign)
		r.Count("access_token_v1_foreign_signers_resolvable_by_the_node", nres)
		if nres < 6 {
			r.Fatalf("only %d of the foreign signers of the v1 access token variants are resolvable by the node's key resolver: their refusal would prove nothing: %v", nres, vw.v1Foreign)
		}
	}
	iw := &iamWorld{w: iamflow.NewWorld(t, iamflow.Options{CredFmt: "jwt_vc"})}
	must(iw.requestObject())
	must(iw.dpopValidateNode())
	must(iw.dpopValidateHarness())
	must(iw.dpopTokenEndpoint())
	must(bearer(t))
	dw, err := newDAGWorld(t)
	if err != nil {
		r.Fatalf("dag world: %v", err)
	}
	must(dw.consumer(true))
	must(dw.consumer(false))
	must(vw.ldpVC())

	bulk := r.Pick(0, 520)
	var dbg *os.File
	if p := os.Getenv("VERIF_C17_LOG"); p != "" { // iteration aid only: one line per presented variant
		dbg, _ = os.Create(p)
		defer dbg.Close()
	}
	type row struct{ tried, accepted, rejected, unspecified, undeliverable int }
	table := map[string]*row{}
	classTable := map[string]map[string]*row{}
	reenc := map[string]bool{}
	// per (consumer, key family): the paired control (public key of the family embedded, accepted or not) and the private forms of the same key
	type famRow struct{ ownAccepted, ownRejected, privAccepted, privRejected int }
	famTable := map[string]*famRow{}
	sampled := map[string]bool{}
	// the variant lists are a pure function of (valid token, seeded stream): generated for all consumers side by side (signing is the
	// harness' own cost), presented strictly one after the other
	lists := make([][]variant, len(consumers))
	genErr := make([]any, len(consumers))
	var wg sync.WaitGroup
	for ci, c := range consumers {
		b := bulk
		if c.bulkDiv > 0 {
			b /= c.bulkDiv
		}
		rnd := r.Rand(fmt.Sprintf("variants/%s#%d", c.name, ci))
		wg.Add(1)
		go func(ci int, c *consumer, b int) {
			defer wg.Done()
			defer func() { genErr[ci] = recover() }()
			lists[ci] = variants(c.seed, rnd, b)
		}(ci, c, b)
	}
	wg.Wait()
	for ci, c := range consumers {
		inst := fmt.Sprintf("%s#%d", c.name, ci)
		if genErr[ci] != nil {
			r.Fatalf("%s: variant generator: %v", inst, genErr[ci])
		}
		vs := append(lists[ci], c.extra...)
		if err := strictVerify(c.seed, c.seed.compact); err != nil {
			r.Fatalf("%s (%s): the harness' independent verifier rejects the valid token: %v", c.name, c.kind, err)
		}
		rw := table[c.name]
		if rw == nil {
			rw = &row{}
			table[c.name] = rw
			classTable[c.name] = map[string]*row{}
		}
		for _, v := range vs {
			o, err := c.present(v)
			cr := classTable[c.name][v.class]
			if cr == nil {
				cr = &row{}
				classTable[c.name][v.class] = cr
			}
			if err != nil {
				if strings.HasPrefix(err.Error(), "HARNESS:") {
					r.Fatalf("%s: %v", c.name, err)
				}
				rw.undeliverable++
				cr.undeliverable++
				r.Count("undeliverable", 1)
				continue
			}
			rw.tried++
			cr.tried++
			if dbg != nil {
				fmt.Fprintf(dbg, "%s\t%s\t%s\t%s\taccepted=%v\t%s\n", inst, v.class, v.name, v.verdict, o.accepted, o.detail)
			}
			r.Case(inst+"/"+v.class+"/"+v.name, v.verdict != vValid)
			r.Distinct("consumer_class_pairs", c.name+"/"+v.class)
			r.Count("variants_presented", 1)
			if o.status == 500 {
				r.Count("http_500_answers", 1)
			}
			if strings.HasPrefix(o.detail, "PANIC") {
				r.Violation("C17/"+c.name+"/panic/"+strings.Fields(o.detail)[2], o.detail, map[string]any{"consumer": c.name, "class": v.class, "variant": v.name, "token": v.token})
			}
			if v.class == "embedded-private-jwk" && v.family == "OKP-Ed25519" && !sampled[c.name+"/priv"] {
				sampled[c.name+"/priv"] = true
				r.Sample(map[string]any{"consumer": c.name, "instance": c.kind, "class": v.class, "variant": v.name, "classified": v.verdict.String(),
					"token": short(v.token), "accepted": o.accepted, "answer": o.detail})
			}
			if v.class == "key-injected" && !sampled[c.name] {
				sampled[c.name] = true
				r.Sample(map[string]any{"consumer": c.name, "instance": c.kind, "class": v.class, "variant": v.name, "classified": v.verdict.String(),
					"token": short(v.token), "accepted": o.accepted, "answer": o.detail})
			}
			if v.family != "" {
				r.Distinct("consumer_family_pairs", c.name+"/"+v.family)
				fr := famTable[c.name+"/"+v.family]
				if fr == nil {
					fr = &famRow{}
					famTable[c.name+"/"+v.family] = fr
				}
				switch {
				case v.verdict == vOwn && o.accepted:
					fr.ownAccepted++
				case v.verdict == vOwn:
					fr.ownRejected++
				case v.class == "embedded-private-jwk" && o.accepted:
					fr.privAccepted++
				case v.class == "embedded-private-jwk":
					fr.privRejected++
				}
			}
			if !o.accepted {
				rw.rejected++
				cr.rejected++
				if v.verdict == vValid {
					r.Fatalf("%s (%s): the valid token is rejected, the harness would be blind: %s", c.name, c.kind, o.detail)
				}
				if v.verdict == vOwn {
					r.Count("own_key_tokens_rejected", 1)
				}
				continue
			}
			rw.accepted++
			cr.accepted++
			var indep string
			if v.body == nil {
				mandated := c.seed.pub
				if v.pub != nil {
					mandated = v.pub // the variant is signed by the key it embeds: the independent check is made with THAT key
				}
				if err := strictVerifyKey(c.seed, mandated, v.token); err != nil {
					indep = err.Error()
				}
			}
			w := map[string]any{"consumer": c.name, "instance": c.kind, "class": v.class, "variant": v.name, "token": v.token, "body": v.body,
				"valid_token": c.seed.compact, "answer": o.detail, "independent_verification": indep}
			switch v.verdict {
			case vValid:
				if indep != "" {
					r.Fatalf("%s: control accepted but independent verification fails: %s", c.name, indep)
				}
			case vHostile:
				r.Violation("C17/"+c.name+"/"+v.class, fmt.Sprintf("%s accepted a hostile variant (%s: %s) of a valid token [%s]; independent check: %s; answer: %s",
					c.name, v.class, v.name, c.kind, orOK(indep), o.detail), w)
			case vOwn:
				// another key holder's own token where the signer is not pinned (or pinned to exactly that key): acceptance is correct
				// provided the signature really is that key's, over the received bytes, with the algorithm that fits it
				r.Count("own_key_tokens_accepted", 1)
				if err := strictVerifyKey(c.seed, v.pub, v.token); err != nil {
					w["independent_verification"] = err.Error()
					r.Violation("C17/"+c.name+"/"+v.class, fmt.Sprintf("%s accepted a token (%s: %s) that does not verify with the key it names: %v; answer: %s",
						c.name, v.class, v.name, err, o.detail), w)
				}
			case vBenign, vSilent:
				rw.unspecified++
				cr.unspecified++
				r.Unspecified(c.name + "/" + v.class)
				r.Distinct("accepted_reencodings", c.name+"/"+v.class+"/"+v.name)
				if v.class != "noncanonical-base64" || !strings.Contains(v.name, "/") {
					reenc[c.name+": "+v.class+"/"+v.name] = true
				}
			}
		}
		if c.keyStore != nil {
			faultMatrix(r, c, inst, vs, dbg)
		}
	}
	// kid of ANOTHER party whose DID text merely starts with the claimed issuer's DID (did:web sub-path and text-extension DIDs):
	// credential JWTs presented to the verifier API of the node, all parties hosted by the harness
	{
		rootID := didHost.Identity("did:web:c17.example")
		sub := didHost.Identity("did:web:c17.example:users:mallory")
		ext := didHost.Identity("did:web:c17.example:users:mallory2")
		holder := iamflow.NewHolder()
		mk := func(iss string, signer *iamflow.Holder) string {
			claims := map[string]any{"iss": iss, "sub": holder.DID, "nbf": time.Now().Add(-time.Minute).Unix(), "jti": iss + "#c17-" + signer.DID[len(signer.DID)-4:],
				"vc": map[string]any{"@context": []string{"https://www.w3.org/2018/credentials/v1", "https://nuts.nl/credentials/v1"},
					"type":              []string{"VerifiableCredential", "NutsOrganizationCredential"},
					"credentialSubject": map[string]any{"id": holder.DID, "organization": map[string]any{"name": "C17", "city": "C17"}}}}
			return signer.SignJWT(map[string]any{"alg": "ES256", "typ": "JWT", "kid": signer.KID}, claims)
		}
		for _, c := range []struct {
			name    string
			iss     string
			signer  *iamflow.Holder
			hostile bool
		}{
			{"control/root", rootID.DID, rootID, false},
			{"control/sub-path", sub.DID, sub, false},
			{"kid-of-sub-path-did-of-issuer", rootID.DID, sub, true},
			{"kid-of-did-extending-issuer-text", sub.DID, ext, true},
			{"kid-of-parent-did", sub.DID, rootID, true},
		} {
			o, err := vw.verifyVC(mk(c.iss, c.signer))
			if err != nil {
				r.Fatalf("hosted did:web case %s: %v", c.name, err)
			}
			r.Case("credential-jwt#hosted-didweb/kid-other-party/"+c.name, c.hostile)
			r.Distinct("consumer_class_pairs", "credential-jwt/kid-other-party-did-text-prefix")
			r.Count("variants_presented", 1)
			if !c.hostile && !o.accepted {
				r.Fatalf("credential of a hosted did:web issuer is rejected (%s), the harness would be blind: %s", c.name, o.detail)
			}
			if c.hostile && o.accepted {
				r.Violation("C17/credential-jwt/kid-other-party", "credential JWT claiming issuer "+c.iss+" accepted with the key of another party ("+c.name+", kid "+c.signer.KID+")",
					map[string]any{"case": c.name, "iss": c.iss, "kid": c.signer.KID, "answer": o.detail})
			}
		}
		r.Extra("hosted_did_documents_served", didHost.Served())
	}

	// evidence: per consumer and per (consumer, class)
	per := map[string]any{}
	for name, rw := range table {
		cls := map[string]string{}
		for cn, cr := range classTable[name] {
			cls[cn] = fmt.Sprintf("tried=%d rejected=%d accepted=%d (unspecified=%d)", cr.tried, cr.rejected, cr.accepted, cr.unspecified)
		}
		per[name] = map[string]any{"tried": rw.tried, "rejected": rw.rejected, "accepted": rw.accepted, "accepted_unspecified": rw.unspecified,
			"undeliverable": rw.undeliverable, "classes": cls}
	}
	r.Extra("per_consumer", per)
	{
		fams := map[string]string{}
		decisive, controls := 0, 0
		for k, fr := range famTable {
			if fr.ownAccepted+fr.ownRejected+fr.privAccepted+fr.privRejected == 0 {
				continue
			}
			fams[k] = fmt.Sprintf("public-key-token accepted=%d rejected=%d; private-key-token rejected=%d accepted=%d", fr.ownAccepted, fr.ownRejected, fr.privRejected, fr.privAccepted)
			if fr.ownAccepted > 0 && fr.privRejected+fr.privAccepted > 0 {
				controls++
				if fr.privAccepted == 0 {
					decisive++ // same key, same algorithm, same genuine signature: accepted with the public JWK, refused with the private one
					r.Distinct("private_key_rule_decisive", k)
				}
			}
		}
		r.Extra("per_consumer_and_key_family", fams)
		r.Count("consumer_family_pairs_with_accepted_public_key_control", controls)
		r.Count("consumer_family_pairs_where_only_the_private_members_decide", decisive)
		if controls < 8 {
			r.Fatalf("the public-key control of the embedded-private-key variants was accepted for only %d (consumer, key family) pairs: refusals of the private forms would prove nothing", controls)
		}
	}
	var rl []string
	for k := range reenc {
		rl = append(rl, k)
	}
	sort.Strings(rl)
	r.Extra("accepted_same_signature_other_encoding", rl)
	names := make([]string, 0, len(table))
	for n := range table {
		names = append(names, n)
	}
	sort.Strings(names)
	r.Extra("consumers", names)
	if len(names) < 8 {
		r.Fatalf("only %d consumers were driven", len(names))
	}
}

func orOK(s string) string {
	if s == "" {
		return "passes (the signature itself is genuine)"
	}
	return s
}
