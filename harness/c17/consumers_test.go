package c17

// The consumers: for each, how a valid token is obtained from the real code and how a token is handed to it.

import (
	"context"
	"crypto"
	"crypto/ecdsa"
	"crypto/elliptic"
	crand "crypto/rand"
	"crypto/rsa"
	"crypto/sha256"
	"encoding/json"
	"errors"
	"fmt"
	"math/big"
	"net/url"
	"os"
	"path/filepath"
	"regexp"
	"strings"
	"testing"
	"time"

	"github.com/google/uuid"
	"github.com/lestrrat-go/jwx/v2/jwa"
	"github.com/nuts-foundation/nuts-node/crypto/hash"
	"github.com/nuts-foundation/nuts-node/jsonld"
	"github.com/nuts-foundation/nuts-node/network/dag"
	"github.com/nuts-foundation/nuts-node/vcr/signature"
	"github.com/nuts-foundation/nuts-node/vcr/signature/proof"
	"github.com/nuts-foundation/nuts-node/vdr/resolver"
	"golang.org/x/crypto/ssh"
	"verif/lib/dagx"
	"verif/lib/iamflow"
	"verif/lib/node"
)

type outcome struct {
	accepted bool
	detail   string
	status   int
}

type consumer struct {
	name string // consumer name used in keys: C17/<name>/<class>
	kind string // which valid instance (node-issued / harness-issued ...), evidence only
	seed *seed
	// present hands a token to the real consumer. err != nil: the token could not be delivered at all (transport refuses it).
	present func(v variant) (outcome, error)
	// extra consumer-specific variants (same classes where possible)
	extra   []variant
	bulkDiv int // divide the bulk count (expensive consumers)
	// keyStore: the consumer consults the node's key store while choosing the verification key; the decorator through which the harness
	// lets that key store fail (v1_test.go). The structured variant list is presented again under every fault mode.
	keyStore *ksFault
	// faultStride > 1: under faults only every n-th variant of the classes not signed by a foreign key is presented (second endpoint of the same code)
	faultStride int
}

func newP256() *ecdsa.PrivateKey {
	k, err := ecdsa.GenerateKey(elliptic.P256(), crand.Reader)
	if err != nil {
		panic(err)
	}
	return k
}

var tagRe = regexp.MustCompile(`(?s)<style.*?</style>|<[^>]*>|\s+`)

// stripTags reduces an HTML error page to its text.
func stripTags(s string) string { return strings.TrimSpace(tagRe.ReplaceAllString(s, " ")) }

func short(s string) string {
	if len(s) > 160 {
		return s[:160] + "…"
	}
	return s
}

// nodeKey resolves a verification method of a DID managed by (or resolvable through) the node and returns its public key.
func nodeKey(n *node.Node, kid string) (*ecdsa.PublicKey, error) {
	did := strings.SplitN(kid, "#", 2)[0]
	r, err := node.Do("GET", n.Internal+"/internal/vdr/v2/did/"+did, nil, nil)
	if err != nil {
		return nil, err
	}
	var out struct {
		Document struct {
			VerificationMethod []struct {
				ID           string         `json:"id"`
				PublicKeyJwk map[string]any `json:"publicKeyJwk"`
			} `json:"verificationMethod"`
		} `json:"document"`
	}
	if r.Status != 200 || r.JSON(&out) != nil {
		return nil, fmt.Errorf("resolve %s: %s", did, r)
	}
	for _, vm := range out.Document.VerificationMethod {
		if vm.ID == kid {
			return jwkToECDSA(vm.PublicKeyJwk)
		}
	}
	return nil, fmt.Errorf("verification method %s not in document: %s", kid, r)
}

func jwkToECDSA(j map[string]any) (*ecdsa.PublicKey, error) {
	xs, _ := j["x"].(string)
	ys, _ := j["y"].(string)
	x, err1 := b64.DecodeString(xs)
	y, err2 := b64.DecodeString(ys)
	if err1 != nil || err2 != nil || j["crv"] != "P-256" {
		return nil, fmt.Errorf("not a P-256 jwk: %v", j)
	}
	return &ecdsa.PublicKey{Curve: elliptic.P256(), X: new(big.Int).SetBytes(x), Y: new(big.Int).SetBytes(y)}, nil
}

func jwtParts(tok string) (hdr map[string]any, claims map[string]any) {
	p := strings.Split(tok, ".")
	if len(p) < 2 {
		return nil, nil
	}
	h, _ := b64.DecodeString(p[0])
	c, _ := b64.DecodeString(p[1])
	_ = json.Unmarshal(h, &hdr)
	_ = json.Unmarshal(c, &claims)
	return
}

// signJWT builds a compact JWS with the harness' own JOSE writer.
func signJWT(hdr map[string]any, claims any, key *ecdsa.PrivateKey) string {
	data, err := json.Marshal(claims)
	if err != nil {
		panic(err)
	}
	hs, ps := encHdr(hdr), b64.EncodeToString(data)
	return hs + "." + ps + "." + b64.EncodeToString(signRaw(hdr["alg"].(string), key, []byte(hs+"."+ps)))
}

// ---- 1+2+7: verifier API of a full node --------------------------------------------------------------

type vcrWorld struct {
	n      *node.Node
	issuer string // DID of a subject on the node
	second string // DID of another subject on the node
	other  *party // did:jwk party (resolvable by every node, key owned by the harness)
	// v1Foreign: per foreign signer of the v1 access token variants, whether the node's own key resolver finds that key (v1_test.go)
	v1Foreign map[string]string
}

func newVCRWorld(t *testing.T) *vcrWorld {
	n := node.Start(t, node.Options{})
	a, err := n.CreateSubject("issuer")
	if err != nil {
		t.Fatal(err)
	}
	b, err := n.CreateSubject("second")
	if err != nil {
		t.Fatal(err)
	}
	k := newP256()
	return &vcrWorld{n: n, issuer: a[0], second: b[0], other: &party{kid: didJWK(&k.PublicKey) + "#0", priv: k}}
}

func (w *vcrWorld) issue(format string) (json.RawMessage, error) {
	req := map[string]any{
		"type": "NutsOrganizationCredential", "issuer": w.issuer, "format": format,
		"credentialSubject":            map[string]any{"id": w.issuer, "organization": map[string]any{"name": "Caresoft", "city": "Caretown"}},
		"withStatusList2021Revocation": false,
	}
	r, err := node.Do("POST", w.n.Internal+"/internal/vcr/v2/issuer/vc", req, nil)
	if err != nil {
		return nil, err
	}
	if r.Status != 200 {
		return nil, fmt.Errorf("issue %s: %s", format, r)
	}
	return json.RawMessage(strings.TrimSpace(string(r.Body))), nil
}

func validity(r node.Resp, err error) (outcome, error) {
	if err != nil {
		return outcome{}, err
	}
	var v struct {
		Validity bool   `json:"validity"`
		Message  string `json:"message"`
	}
	_ = r.JSON(&v)
	return outcome{accepted: r.Status == 200 && v.Validity, detail: short(r.String()), status: r.Status}, nil
}

func (w *vcrWorld) verifyVC(body any) (outcome, error) {
	return validity(node.Do("POST", w.n.Internal+"/internal/vcr/v2/verifier/vc", map[string]any{"verifiableCredential": body}, nil))
}

func (w *vcrWorld) vcJWTNodeIssued() (*consumer, error) {
	raw, err := w.issue("jwt_vc")
	if err != nil {
		return nil, err
	}
	var tok string
	if err := json.Unmarshal(raw, &tok); err != nil {
		return nil, err
	}
	hdr, _ := jwtParts(tok)
	kid, _ := hdr["kid"].(string)
	pub, err := nodeKey(w.n, kid)
	if err != nil {
		return nil, err
	}
	attacker()
	s := &seed{compact: tok, pub: pub, keyBound: true, other: w.other, attKid: didJWK(&att.p256.PublicKey) + "#0"}
	return &consumer{name: "credential-jwt", kind: "issued by the node (key in the node's key store)", seed: s,
		present: func(v variant) (outcome, error) { return w.verifyVC(v.token) }}, nil
}

// vcJWTHarnessIssued: the same credential issued by a did:jwk issuer whose key the harness owns (so that variants signed by the RIGHT key exist).
func (w *vcrWorld) vcJWTHarnessIssued(nodeIssued string) (*consumer, error) {
	k := newP256()
	did := didJWK(&k.PublicKey)
	_, claims := jwtParts(nodeIssued)
	if claims == nil {
		return nil, errors.New("cannot read claims of node-issued credential")
	}
	claims["iss"] = did
	claims["jti"] = did + "#" + uuid.NewString()
	tok := signJWT(map[string]any{"alg": "ES256", "kid": did + "#0", "typ": "JWT"}, claims, k)
	s := &seed{compact: tok, pub: &k.PublicKey, priv: k, keyBound: true, other: w.other, attKid: didJWK(&att.p256.PublicKey) + "#0", signerClaim: "iss"}
	return &consumer{name: "credential-jwt", kind: "issued by a did:jwk issuer (key owned by the harness)", seed: s,
		present: func(v variant) (outcome, error) { return w.verifyVC(v.token) }}, nil
}

// vcJWTHarnessIssuedRSA: issuer is a did:jwk with an RSA key owned by the harness; valid token signed PS256 (allowed),
// variants signed by the same key with RS256/384/512 (asymmetric, fits the key, but not on the node's allow-list).
func (w *vcrWorld) vcJWTHarnessIssuedRSA(nodeIssued string) (*consumer, error) {
	k, err := rsa.GenerateKey(crand.Reader, 2048)
	if err != nil {
		return nil, err
	}
	did := didJWKRSA(&k.PublicKey)
	_, claims := jwtParts(nodeIssued)
	if claims == nil {
		return nil, errors.New("cannot read claims of node-issued credential")
	}
	claims["iss"] = did
	claims["jti"] = did + "#" + uuid.NewString()
	data, _ := json.Marshal(claims)
	hs, ps := encHdr(map[string]any{"alg": "PS256", "kid": did + "#0", "typ": "JWT"}), b64.EncodeToString(data)
	tok := hs + "." + ps + "." + b64.EncodeToString(signRaw("PS256", k, []byte(hs+"."+ps)))
	s := &seed{compact: tok, pub: &k.PublicKey, priv: k, keyBound: true, other: w.other, attKid: didJWK(&att.p256.PublicKey) + "#0",
		notAllowed: []string{"RS256", "RS384", "RS512"}}
	return &consumer{name: "credential-jwt", kind: "issued by a did:jwk issuer with an RSA key owned by the harness (PS256)", seed: s,
		present: func(v variant) (outcome, error) { return w.verifyVC(v.token) }}, nil
}

func (w *vcrWorld) vpJWT(vcTok string) (*consumer, error) {
	r, err := node.Do("POST", w.n.Internal+"/internal/vcr/v2/holder/vp", map[string]any{"verifiableCredentials": []any{vcTok}, "signerDID": w.issuer, "format": "jwt_vp"}, nil)
	if err != nil {
		return nil, err
	}
	var tok string
	if r.Status != 200 || r.JSON(&tok) != nil {
		return nil, fmt.Errorf("create vp: %s", r)
	}
	hdr, _ := jwtParts(tok)
	kid, _ := hdr["kid"].(string)
	pub, err := nodeKey(w.n, kid)
	if err != nil {
		return nil, err
	}
	s := &seed{compact: tok, pub: pub, keyBound: true, other: w.other, attKid: didJWK(&att.p256.PublicKey) + "#0"}
	return &consumer{name: "presentation-jwt", kind: "created by the node (holder key in the node's key store)", seed: s,
		present: func(v variant) (outcome, error) {
			return validity(node.Do("POST", w.n.Internal+"/internal/vcr/v2/verifier/vp", map[string]any{"verifiablePresentation": v.token}, nil))
		}}, nil
}

// ---- 7: JSON-LD proof -----------------------------------------------------------------------------------

// ldTBV computes the bytes a JsonWebSignature2020 proof signs (digest of the canonical proof options followed by the digest of the canonical document),
// using the node's own JSON-LD contexts. Used only to CONSTRUCT re-signed hostile variants and to cross-check the control.
func ldTBV(n *node.Node, doc map[string]any) ([]byte, error) {
	loader := node.Engine[jsonld.JSONLD](n).DocumentLoader()
	suite := signature.JSONWebSignature2020{ContextLoader: loader}
	sd, err := proof.NewSignedDocument(doc)
	if err != nil {
		return nil, err
	}
	var p proof.LDProof
	if err := sd.UnmarshalProofValue(&p); err != nil {
		return nil, err
	}
	pb, _ := json.Marshal(p)
	pm := map[string]any{}
	_ = json.Unmarshal(pb, &pm)
	delete(pm, "jws")
	delete(pm, "proofValue")
	delete(pm, "signature")
	pm["@context"] = jsonld.AddContext(nil, signature.JSONWebSignature2020Context)
	pm["@type"] = pm["type"]
	cp, err := suite.CanonicalizeDocument(pm)
	if err != nil {
		return nil, err
	}
	cd, err := suite.CanonicalizeDocument(sd.DocumentWithoutProof())
	if err != nil {
		return nil, err
	}
	return append(suite.CalculateDigest(cp), suite.CalculateDigest(cd)...), nil
}

func (w *vcrWorld) ldpVC() (*consumer, error) {
	raw, err := w.issue("ldp_vc")
	if err != nil {
		return nil, err
	}
	var doc map[string]any
	if err := json.Unmarshal(raw, &doc); err != nil {
		return nil, err
	}
	pr, ok := doc["proof"].(map[string]any)
	if !ok {
		return nil, fmt.Errorf("unexpected proof shape: %s", raw)
	}
	jws, _ := pr["jws"].(string)
	vm, _ := pr["verificationMethod"].(string)
	pub, err := nodeKey(w.n, vm)
	if err != nil {
		return nil, err
	}
	tbv, err := ldTBV(w.n, doc)
	if err != nil {
		return nil, err
	}
	s := &seed{compact: jws, pub: pub, keyBound: true, other: w.other, attKid: didJWK(&att.p256.PublicKey) + "#0", detached: true, rawPayload: tbv}
	withProof := func(p any) any {
		c := map[string]any{}
		for k, v := range doc {
			c[k] = v
		}
		if p == nil {
			delete(c, "proof")
		} else {
			c["proof"] = p
		}
		return c
	}
	proofWith := func(kv ...any) map[string]any {
		c := map[string]any{}
		for k, v := range pr {
			c[k] = v
		}
		for i := 0; i < len(kv); i += 2 {
			if kv[i+1] == nil {
				delete(c, kv[i].(string))
			} else {
				c[kv[i].(string)] = kv[i+1]
			}
		}
		return c
	}
	c := &consumer{name: "jsonld-proof", kind: "ldp_vc issued by the node", seed: s}
	c.present = func(v variant) (outcome, error) {
		if v.body != nil {
			return w.verifyVC(v.body)
		}
		return w.verifyVC(withProof(proofWith("jws", v.token)))
	}
	// proof-level variants (the envelope of the detached JWS)
	resign := func(doc2 map[string]any, hdr map[string]any, key *ecdsa.PrivateKey) string {
		tbv2, err := ldTBV(w.n, doc2)
		if err != nil {
			return "tbv-error..AAAA"
		}
		hs := encHdr(hdr)
		return hs + ".." + b64.EncodeToString(signRaw("ES256", key, append([]byte(hs+"."), tbv2...)))
	}
	t, _ := parseCompact(jws)
	ex := func(class, name string, body any, v verdict) {
		c.extra = append(c.extra, variant{class: class, name: name, body: body, verdict: v})
	}
	for _, ty := range []string{"EcdsaSecp256k1Signature2019", "RsaSignature2018", "Ed25519Signature2018", "DataIntegrityProof", "JsonWebSignature2021", ""} {
		ex("proof-type-changed", "type="+ty+"/jws-kept", withProof(proofWith("type", ty)), vHostile)
	}
	ex("proof-type-changed", "type-absent/jws-kept", withProof(proofWith("type", nil)), vHostile)
	ex("sig-removed", "jws-absent", withProof(proofWith("jws", nil)), vHostile)
	ex("sig-removed", "jws-empty", withProof(proofWith("jws", "")), vHostile)
	ex("sig-removed", "proof-absent", withProof(nil), vHostile)
	ex("sig-removed", "jws-moved-to-proofValue", withProof(proofWith("jws", nil, "proofValue", jws)), vHostile)
	ex("sig-removed", "jws-moved-to-signature", withProof(proofWith("jws", nil, "signature", jws)), vHostile)
	attProofVM := proofWith("verificationMethod", s.attKid)
	d2 := withProof(attProofVM).(map[string]any)
	attProofVM = proofWith("verificationMethod", s.attKid, "jws", resign(d2, map[string]any{"alg": "ES256", "b64": false, "crit": []string{"b64"}, "kid": s.attKid}, att.p256))
	ex("key-swapped", "verificationMethod-of-attacker/resigned-attacker", withProof(attProofVM), vHostile)
	ex("key-swapped", "verificationMethod-unchanged/resigned-attacker", withProof(proofWith("jws", resign(doc, cloneHdr(t.hdr), att.p256))), vHostile)
	ex("kid-other-party", "verificationMethod-of-other-subject/jws-kept", withProof(proofWith("verificationMethod", w.second+"#0")), vHostile)
	ex("json-two-signatures", "proofs=[valid,attacker]", withProof([]any{pr, attProofVM}), vHostile)
	ex("json-two-signatures", "proofs=[attacker,valid]", withProof([]any{attProofVM, pr}), vHostile)
	ex("json-two-signatures", "proofs=[valid,valid]", withProof([]any{pr, pr}), vHostile)
	ex("json-one-signature", "proofs=[valid]", withProof([]any{pr}), vBenign)
	ex("json-no-signature", "proofs=[]", withProof([]any{}), vHostile)
	// non-detached payload tricks
	ex("detached-payload", "payload-inlined-b64", withProof(proofWith("jws", t.hdrSeg+"."+b64.EncodeToString(tbv)+"."+t.sigSeg)), vBenign)
	ex("detached-payload", "payload-inlined-garbage", withProof(proofWith("jws", t.hdrSeg+".AAAA."+t.sigSeg)), vHostile)
	ex("detached-payload", "three-dots", withProof(proofWith("jws", t.hdrSeg+"..."+t.sigSeg)), vBenign)
	{
		// attacker supplies its own payload inside the jws and signs that (not the document)
		hs := encHdr(map[string]any{"alg": "ES256", "kid": vm})
		ps := b64.EncodeToString([]byte("attacker chosen payload"))
		ex("detached-payload", "own-payload-signed-by-attacker", withProof(proofWith("jws", hs+"."+ps+"."+b64.EncodeToString(signRaw("ES256", att.p256, []byte(hs+"."+ps))))), vHostile)
		// b64 header dropped (signature kept)
		ex("detached-payload", "b64-header-dropped/sig-kept", withProof(proofWith("jws", encHdr(map[string]any{"alg": "ES256", "kid": vm})+".."+t.sigSeg)), vHostile)
	}
	return c, nil
}

// ---- 3+4: IAM world (request object, DPoP) ------------------------------------------------------------------

type iamWorld struct {
	w *iamflow.World
}

func (iw *iamWorld) requestObject() (*consumer, error) {
	w := iw.w
	before := w.Proxy.Len()
	_, _, _, err := w.RunUserFlow("c17-ro", nil)
	var ro string
	var clientID string
	for _, c := range w.Proxy.Since(before) {
		if w.IsClientRequestObject(c) && c.Status == 200 {
			ro = strings.TrimSpace(string(c.RespBody))
		}
		if c.Method == "GET" && c.Path == "/oauth2/"+w.Verifier.Name+"/authorize" && c.Query.Get("request_uri") != "" {
			clientID = c.Query.Get("client_id")
		}
	}
	if ro == "" || clientID == "" {
		return nil, fmt.Errorf("request object / client_id not observed in user flow (flow err: %v)", err)
	}
	hdr, _ := jwtParts(ro)
	kid, _ := hdr["kid"].(string)
	pub, err := nodeKey(w.N, kid)
	if err != nil {
		return nil, err
	}
	k := newP256()
	s := &seed{compact: ro, pub: pub, keyBound: true, other: &party{kid: didJWK(&k.PublicKey) + "#0", priv: k}, attKid: didJWK(&att.p256.PublicKey) + "#0"}
	return &consumer{name: "request-object", kind: "client's request object captured from a real OpenID4VP flow, presented as `request` parameter to the verifier's /authorize", seed: s,
		present: func(v variant) (outcome, error) {
			u := w.N.Public + "/oauth2/" + w.Verifier.Name + "/authorize?client_id=" + url.QueryEscape(clientID) + "&request=" + url.QueryEscape(v.token)
			r, err := node.Do("GET", u, nil, nil)
			if err != nil {
				return outcome{}, err
			}
			loc := r.Header.Get("Location")
			ok := r.Status == 302 && strings.Contains(loc, "request_uri=") && !strings.Contains(loc, "error=")
			return outcome{accepted: ok, detail: short(fmt.Sprintf("%d %s %s", r.Status, loc, stripTags(string(r.Body)))), status: r.Status}, nil
		}}, nil
}

func dpopOutcome(r node.Resp, err error) (outcome, error) {
	if err != nil {
		return outcome{}, err
	}
	var v struct {
		Valid  bool   `json:"valid"`
		Reason string `json:"reason"`
	}
	_ = r.JSON(&v)
	// the jti is burnt by the first accepted proof; a later variant that passes every signature check is answered "jti already used"
	ok := r.Status == 200 && (v.Valid || v.Reason == "jti already used")
	return outcome{accepted: ok, detail: short(r.String()), status: r.Status}, nil
}

func (iw *iamWorld) dpopValidateNode() (*consumer, error) {
	w := iw.w
	resp, err := w.RequestServiceAccessToken("DPoP")
	if err != nil || resp.Status != 200 {
		return nil, fmt.Errorf("DPoP token: %v %s", err, resp)
	}
	var m map[string]any
	_ = resp.JSON(&m)
	at, _ := m["access_token"].(string)
	kid, _ := m["dpop_kid"].(string)
	intro, err := w.Introspect(at)
	if err != nil {
		return nil, err
	}
	jkt := ""
	if cnf, ok := intro["cnf"].(map[string]any); ok {
		jkt, _ = cnf["jkt"].(string)
	}
	if jkt == "" || kid == "" {
		return nil, fmt.Errorf("no cnf.jkt/dpop_kid: %v %v", intro, m)
	}
	htu := "https://resource.example/c17"
	pr, err := node.Do("POST", w.N.Internal+"/internal/auth/v2/dpop/"+url.QueryEscape(kid), map[string]any{"htm": "GET", "htu": htu, "token": at}, nil)
	if err != nil || pr.Status != 200 {
		return nil, fmt.Errorf("create DPoP proof: %v %s", err, pr)
	}
	var out struct {
		Dpop string `json:"dpop"`
	}
	_ = pr.JSON(&out)
	pub, err := nodeKey(w.N, kid)
	if err != nil {
		return nil, err
	}
	s := &seed{compact: out.Dpop, pub: pub, embedsJWK: true, keyBound: true, attKid: "attacker-key"}
	return &consumer{name: "dpop-proof", kind: "validate endpoint; proof created by the node, bound to a real access token's cnf.jkt", seed: s,
		present: func(v variant) (outcome, error) {
			return dpopOutcome(node.Do("POST", w.N.Internal+"/internal/auth/v2/dpop/validate", map[string]any{
				"dpop_proof": v.token, "method": "GET", "url": htu, "thumbprint": jkt, "token": at}, nil))
		}}, nil
}

func harnessDPoP(k *ecdsa.PrivateKey, htm, htu, accessToken string) string {
	ath := sha256.Sum256([]byte(accessToken))
	jwk := ecJWK(&k.PublicKey, nil)
	jwk["alg"] = "ES256"
	return signJWT(map[string]any{"alg": "ES256", "typ": "dpop+jwt", "jwk": jwk},
		map[string]any{"htm": htm, "htu": htu, "jti": uuid.NewString(), "iat": time.Now().Unix(), "ath": b64.EncodeToString(ath[:])}, k)
}

func (iw *iamWorld) dpopValidateHarness() (*consumer, error) {
	w := iw.w
	k := newP256()
	htu, at := "https://resource.example/c17h", "opaque-access-token"
	tok := harnessDPoP(k, "GET", htu, at)
	jkt := b64.EncodeToString(jwkThumbprint(&k.PublicKey))
	s := &seed{compact: tok, pub: &k.PublicKey, priv: k, embedsJWK: true, keyBound: true, callerBinds: true, attKid: "attacker-key"}
	return &consumer{name: "dpop-proof", kind: "validate endpoint; proof made with a key the harness owns, thumbprint given by the caller", seed: s,
		present: func(v variant) (outcome, error) {
			pin := jkt
			if v.jkt != "" {
				pin = v.jkt // the access token is bound to the key this variant embeds (the harness is the resource server that says so)
			}
			return dpopOutcome(node.Do("POST", w.N.Internal+"/internal/auth/v2/dpop/validate", map[string]any{
				"dpop_proof": v.token, "method": "GET", "url": htu, "thumbprint": pin, "token": at}, nil))
		}}, nil
}

func (iw *iamWorld) dpopTokenEndpoint() (*consumer, error) {
	w := iw.w
	k := newP256()
	tok := harnessDPoP(k, "POST", w.Verifier.URL+"/token", "")
	s := &seed{compact: tok, pub: &k.PublicKey, priv: k, embedsJWK: true, keyBound: false, attKid: "attacker-key"}
	return &consumer{name: "dpop-proof", kind: "DPoP header of the token endpoint (fresh RFC021 token request per variant); any key holder may bind its own key", seed: s, bulkDiv: 4,
		present: func(v variant) (outcome, error) {
			if strings.ContainsAny(v.token, "\r\n") {
				return outcome{}, errors.New("not a legal HTTP header value")
			}
			c, err := w.CaptureS2STokenRequest()
			if err != nil {
				return outcome{}, fmt.Errorf("HARNESS: %w", err)
			}
			c2 := *c
			c2.Header = c.Header.Clone()
			c2.Header.Set("DPoP", v.token)
			r, err := w.Replay(&c2)
			if err != nil {
				return outcome{}, err
			}
			var m map[string]any
			_ = r.JSON(&m)
			tt, _ := m["token_type"].(string)
			return outcome{accepted: r.Status == 200 && tt == "DPoP", detail: short(r.String()), status: r.Status}, nil
		}}, nil
}

// ---- 5: internal API bearer token ---------------------------------------------------------------------------

const audience = "c17-node"

func sshLine(k *ecdsa.PrivateKey, user string) (line string, fingerprint string) {
	p, err := ssh.NewPublicKey(&k.PublicKey)
	if err != nil {
		panic(err)
	}
	return strings.TrimSpace(string(ssh.MarshalAuthorizedKey(p))) + " " + user, ssh.FingerprintSHA256(p)
}

func bearer(t *testing.T) (*consumer, error) {
	dir, err := os.MkdirTemp("", "c17-ak-")
	if err != nil {
		return nil, err
	}
	t.Cleanup(func() { os.RemoveAll(dir) })
	alice, bob := newP256(), newP256()
	la, fa := sshLine(alice, "alice")
	lb, fb := sshLine(bob, "bob")
	akf := filepath.Join(dir, "authorized_keys")
	if err := os.WriteFile(akf, []byte(la+"\n"+lb+"\n"), 0o600); err != nil {
		return nil, err
	}
	n := node.Start(t, node.Options{Env: map[string]string{
		"NUTS_HTTP_INTERNAL_AUTH_TYPE":               "token_v2",
		"NUTS_HTTP_INTERNAL_AUTH_AUTHORIZEDKEYSPATH": akf,
		"NUTS_HTTP_INTERNAL_AUTH_AUDIENCE":           audience,
	}})
	now := time.Now()
	tok := signJWT(map[string]any{"alg": "ES256", "kid": fa, "typ": "JWT"}, map[string]any{
		"jti": uuid.NewString(), "iat": now.Add(-time.Minute).Unix(), "nbf": now.Add(-time.Minute).Unix(), "exp": now.Add(12 * time.Hour).Unix(),
		"aud": audience, "iss": "alice", "sub": "alice"}, alice)
	attacker()
	_, fatt := sshLine(att.p256, "x")
	s := &seed{compact: tok, pub: &alice.PublicKey, priv: alice, keyBound: true, other: &party{kid: fb, priv: bob}, attKid: fatt}
	probe := n.Internal + "/internal/vdr/v2/subject"
	if r, err := node.Do("GET", probe, nil, nil); err != nil || r.Status != 401 {
		return nil, fmt.Errorf("token auth not active: %v %s", err, r)
	}
	return &consumer{name: "api-bearer-token", kind: "node with http.internal.auth.type=token_v2, two authorised users (alice = signer of the valid token, bob = other party)", seed: s,
		present: func(v variant) (outcome, error) {
			if strings.ContainsAny(v.token, "\r\n") {
				return outcome{}, errors.New("not a legal HTTP header value")
			}
			r, err := node.Do("GET", probe, nil, map[string]string{"Authorization": "Bearer " + v.token})
			if err != nil {
				return outcome{}, err
			}
			return outcome{accepted: r.Status == 200, detail: short(r.String()), status: r.Status}, nil
		}}, nil
}

// ---- 6: DAG transaction ------------------------------------------------------------------------------------

type mapResolver map[string]crypto.PublicKey

func (m mapResolver) ResolvePublicKey(kid string, _ []hash.SHA256Hash) (crypto.PublicKey, error) {
	if k, ok := m[kid]; ok {
		return k, nil
	}
	return nil, resolver.ErrKeyNotFound
}

type dagWorld struct {
	st   dag.State
	root dag.Transaction
	res  mapResolver
}

func newDAGWorld(t *testing.T) (*dagWorld, error) {
	dir, err := os.MkdirTemp("", "c17-dag-")
	if err != nil {
		return nil, err
	}
	db, err := dagx.OpenStore(dir, false)
	if err != nil {
		return nil, err
	}
	res := mapResolver{}
	st := dagx.NewState(db, dag.NewPrevTransactionsVerifier(), dag.NewTransactionSignatureVerifier(res))
	t.Cleanup(func() { _ = st.Shutdown(); _ = db.Close(context.Background()); os.RemoveAll(dir) })
	rootKey := dagx.NewKey("")
	root := dagx.NewTx(rootKey, true, []byte("c17 root"), "application/x-verif", time.Unix(1700000000, 0), nil)
	if err := st.Add(context.Background(), root, nil); err != nil {
		return nil, fmt.Errorf("root: %w", err)
	}
	return &dagWorld{st: st, root: root, res: res}, nil
}

func (d *dagWorld) present(v variant) (o outcome, err error) {
	stage := "ParseTransaction"
	defer func() {
		if p := recover(); p != nil {
			o = outcome{accepted: false, detail: fmt.Sprintf("PANIC in %s: %v", stage, p), status: 500}
		}
	}()
	tx, perr := dag.ParseTransaction([]byte(v.token))
	if perr != nil {
		return outcome{detail: short("parse: " + perr.Error())}, nil
	}
	stage = "State.Add"
	if aerr := d.st.Add(context.Background(), tx, nil); aerr != nil {
		return outcome{detail: short("add: " + aerr.Error())}, nil
	}
	present, _ := d.st.IsPresent(context.Background(), tx.Ref())
	return outcome{accepted: present, detail: "admitted ref=" + tx.Ref().String()[:12]}, nil
}

func (d *dagWorld) consumer(withJWK bool) (*consumer, error) {
	k := newP256()
	h := dagx.Headers("application/x-verif", []hash.SHA256Hash{d.root.Ref()}, 1, time.Unix(1700000100, 0), nil)
	kind := "transaction with embedded jwk"
	s := &seed{pub: &k.PublicKey, priv: k, embedsJWK: withJWK, keyBound: false, attKid: "did:nuts:attacker#k1"}
	if withJWK {
		pub := dagx.NewKey("")
		_ = pub
		j := ecJWK(&k.PublicKey, nil)
		h["jwk"] = j
	} else {
		kid := "did:nuts:c17signer#k1"
		d.res[kid] = &k.PublicKey
		o := newP256()
		d.res["did:nuts:c17other#k1"] = &o.PublicKey
		s.other = &party{kid: "did:nuts:c17other#k1", priv: o}
		h["kid"] = kid
		kind = "transaction with kid (key from the key resolver)"
	}
	payload := []byte(hash.SHA256Sum([]byte("c17 payload " + kind)).String())
	var data []byte
	var err error
	if withJWK {
		// the library signer needs a jwk.Key for the header; build the token with the harness' writer instead and let the real parser judge it
		h["alg"] = "ES256"
		hs := encHdr(h)
		ps := b64.EncodeToString(payload)
		data = []byte(hs + "." + ps + "." + b64.EncodeToString(signRaw("ES256", k, []byte(hs+"."+ps))))
	} else {
		data, err = dagx.SignRaw(h, payload, jwa.ES256, k)
		if err != nil {
			return nil, err
		}
	}
	s.compact = string(data)
	return &consumer{name: "dag-transaction", kind: kind + "; dag.ParseTransaction + signature verifier + State.Add on a bbolt state", seed: s, present: d.present}, nil
}
