module verif

go 1.23


require (
	github.com/Azure/azure-sdk-for-go/sdk/azcore v1.16.0
	github.com/Azure/azure-sdk-for-go/sdk/azidentity v1.8.0
	github.com/PaesslerAG/jsonpath v0.1.2-0.20230323094847-3484786d6f97
	github.com/alicebob/miniredis/v2 v2.33.0
	github.com/avast/retry-go/v4 v4.6.0
	github.com/cbroglie/mustache v1.4.0
	github.com/chromedp/chromedp v0.11.2
	github.com/dlclark/regexp2 v1.11.4
	github.com/go-redis/redismock/v9 v9.2.0
	github.com/goodsign/monday v1.0.2
	github.com/google/uuid v1.6.0
	github.com/hashicorp/vault/api v1.15.0
	github.com/knadh/koanf/parsers/yaml v0.1.0
	github.com/knadh/koanf/providers/env v1.0.0
	github.com/knadh/koanf/providers/file v1.1.2
	github.com/knadh/koanf/providers/posflag v0.1.0
	github.com/knadh/koanf/providers/structs v0.1.0
	github.com/knadh/koanf/v2 v2.1.2
	github.com/labstack/echo/v4 v4.13.0
	github.com/lestrrat-go/jwx/v2 v2.1.3
	github.com/magiconair/properties v1.8.7
	github.com/mdp/qrterminal/v3 v3.2.0
	github.com/mr-tron/base58 v1.2.0
	github.com/multiformats/go-multicodec v0.9.0
	github.com/nats-io/nats-server/v2 v2.10.22
	github.com/nats-io/nats.go v1.37.0
	github.com/nuts-foundation/crypto-ecies v0.0.0-20211207143025-5b84f9efce2b
	github.com/nuts-foundation/go-did v0.15.0
	github.com/nuts-foundation/go-leia/v4 v4.1.0
	github.com/nuts-foundation/go-stoabs v1.10.0
	github.com/nuts-foundation/sqlite v1.0.0
	// check the oapi-codegen tool version in the makefile when upgrading the runtime
	github.com/oapi-codegen/runtime v1.1.1
	github.com/piprate/json-gold v0.5.1-0.20230111113000-6ddbe6e6f19f
	github.com/pressly/goose/v3 v3.23.0
	github.com/privacybydesign/irmago v0.16.0
	github.com/prometheus/client_golang v1.20.5
	github.com/prometheus/client_model v0.6.1
	github.com/redis/go-redis/v9 v9.7.0
	github.com/santhosh-tekuri/jsonschema v1.2.4
	github.com/sirupsen/logrus v1.9.3
	github.com/spf13/cobra v1.8.1
	github.com/spf13/pflag v1.0.5
	github.com/stretchr/testify v1.10.0
	github.com/twmb/murmur3 v1.1.8
	go.etcd.io/bbolt v1.3.11
	go.uber.org/atomic v1.11.0
	go.uber.org/goleak v1.3.0
	go.uber.org/mock v0.5.0
	golang.org/x/crypto v0.30.0
	golang.org/x/time v0.8.0
	google.golang.org/grpc v1.68.1
	google.golang.org/protobuf v1.35.2
	gopkg.in/Regis24GmbH/go-phonetics.v2 v2.0.3
	gopkg.in/yaml.v3 v3.0.1
	gorm.io/driver/mysql v1.5.7
	gorm.io/driver/postgres v1.5.11
	gorm.io/driver/sqlserver v1.5.4
	schneider.vip/problem v1.9.1
)

require (
	filippo.io/edwards25519 v1.1.0 // indirect
	github.com/Azure/azure-sdk-for-go/sdk/internal v1.10.0 // indirect
	github.com/Azure/azure-sdk-for-go/sdk/security/keyvault/azkeys v1.3.0
	github.com/Azure/azure-sdk-for-go/sdk/security/keyvault/internal v1.1.0 // indirect
	github.com/AzureAD/microsoft-authentication-library-for-go v1.3.1 // indirect
	github.com/PaesslerAG/gval v1.2.2 // indirect
	github.com/alexandrevicenzi/go-sse v1.6.0 // indirect
	github.com/alicebob/gopher-json v0.0.0-20230218143504-906a9b012302 // indirect
	github.com/apapsch/go-jsonmerge/v2 v2.0.0 // indirect
	github.com/beorn7/perks v1.0.1 // indirect
	github.com/bwesterb/byteswriter v1.0.0 // indirect
	github.com/bwesterb/go-atum v1.1.5 // indirect
	github.com/bwesterb/go-exptable v1.0.0 // indirect
	github.com/bwesterb/go-pow v1.0.0 // indirect
	github.com/bwesterb/go-xmssmt v1.5.2 // indirect
	github.com/cenkalti/backoff/v4 v4.3.0 // indirect
	github.com/cespare/xxhash v1.1.0 // indirect
	github.com/cespare/xxhash/v2 v2.3.0 // indirect
	github.com/chromedp/cdproto v0.0.0-20241022234722-4d5d5faf59fb // indirect
	github.com/chromedp/sysutil v1.1.0 // indirect
	github.com/davecgh/go-spew v1.1.1 // indirect
	github.com/decred/dcrd/dcrec/secp256k1/v4 v4.3.0 // indirect
	github.com/dgryski/go-rendezvous v0.0.0-20200823014737-9f7001d12a5f // indirect
	github.com/dustin/go-humanize v1.0.1 // indirect
	github.com/edsrzf/mmap-go v1.1.0 // indirect
	github.com/eknkc/basex v1.0.1 // indirect
	github.com/fatih/structs v1.1.0 // indirect
	github.com/fsnotify/fsnotify v1.7.0 // indirect
	github.com/fxamacker/cbor v1.5.1 // indirect
	github.com/go-chi/chi/v5 v5.0.10 // indirect
	github.com/go-co-op/gocron v1.28.3 // indirect
	github.com/go-errors/errors v1.4.2 // indirect
	github.com/go-jose/go-jose/v4 v4.0.1 // indirect
	github.com/go-redis/redis/v8 v8.11.5 // indirect
	github.com/go-redsync/redsync/v4 v4.13.0 // indirect
	github.com/go-sql-driver/mysql v1.8.1 // indirect
	github.com/go-viper/mapstructure/v2 v2.2.1 // indirect
	github.com/gobwas/httphead v0.1.0 // indirect
	github.com/gobwas/pool v0.2.1 // indirect
	github.com/gobwas/ws v1.4.0 // indirect
	github.com/goccy/go-json v0.10.3 // indirect
	github.com/golang-jwt/jwt/v4 v4.5.1 // indirect
	github.com/golang-jwt/jwt/v5 v5.2.1 // indirect
	github.com/golang-sql/civil v0.0.0-20220223132316-b832511892a9 // indirect
	github.com/golang-sql/sqlexp v0.1.0 // indirect
	github.com/hashicorp/errwrap v1.1.0 // indirect
	github.com/hashicorp/go-cleanhttp v0.5.2 // indirect
	github.com/hashicorp/go-multierror v1.1.1 // indirect
	github.com/hashicorp/go-retryablehttp v0.7.7 // indirect
	github.com/hashicorp/go-rootcerts v1.0.2 // indirect
	github.com/hashicorp/go-secure-stdlib/parseutil v0.1.6 // indirect
	github.com/hashicorp/go-secure-stdlib/strutil v0.1.2 // indirect
	github.com/hashicorp/go-sockaddr v1.0.2 // indirect
	github.com/hashicorp/hcl v1.0.0 // indirect
	github.com/inconshreveable/mousetrap v1.1.0 // indirect
	github.com/jackc/pgpassfile v1.0.0 // indirect
	github.com/jackc/pgservicefile v0.0.0-20240606120523-5a60cdf6a761 // indirect
	github.com/jackc/pgx/v5 v5.7.1 // indirect
	github.com/jackc/puddle/v2 v2.2.2 // indirect
	github.com/jinzhu/inflection v1.0.0 // indirect
	github.com/jinzhu/now v1.1.5 // indirect
	github.com/josharian/intern v1.0.0 // indirect
	github.com/klauspost/compress v1.17.11 // indirect
	github.com/knadh/koanf/maps v0.1.1 // indirect
	github.com/kylelemons/godebug v1.1.0 // indirect
	github.com/labstack/gommon v0.4.2 // indirect
	github.com/lestrrat-go/blackmagic v1.0.2 // indirect
	github.com/lestrrat-go/httpcc v1.0.1 // indirect
	github.com/lestrrat-go/httprc v1.0.6 // indirect
	github.com/lestrrat-go/iter v1.0.2 // indirect
	github.com/lestrrat-go/option v1.0.1 // indirect
	github.com/mailru/easyjson v0.7.7 // indirect
	github.com/mattn/go-colorable v0.1.13 // indirect
	github.com/mattn/go-isatty v0.0.20 // indirect
	github.com/mfridman/interpolate v0.0.2 // indirect
	github.com/mgutz/ansi v0.0.0-20200706080929-d51e80ef957d // indirect
	github.com/microsoft/go-mssqldb v1.8.0
	github.com/minio/blake2b-simd v0.0.0-20160723061019-3f5f724cb5b1 // indirect
	github.com/minio/highwayhash v1.0.3 // indirect
	github.com/minio/sha256-simd v1.0.1
	github.com/mitchellh/copystructure v1.2.0 // indirect
	github.com/mitchellh/go-homedir v1.1.0 // indirect
	github.com/mitchellh/mapstructure v1.5.0 // indirect
	github.com/mitchellh/reflectwalk v1.0.2 // indirect
	github.com/multiformats/go-base32 v0.0.3 // indirect
	github.com/multiformats/go-base36 v0.1.0 // indirect
	github.com/multiformats/go-multibase v0.2.0 // indirect
	github.com/multiformats/go-multihash v0.0.11 // indirect
	github.com/munnerz/goautoneg v0.0.0-20191010083416-a7dc8b61c822 // indirect
	github.com/nats-io/jwt/v2 v2.5.8 // indirect
	github.com/nats-io/nkeys v0.4.7 // indirect
	github.com/nats-io/nuid v1.0.1 // indirect
	github.com/ncruces/go-strftime v0.1.9 // indirect
	github.com/nightlyone/lockfile v1.0.0 // indirect
	github.com/pkg/browser v0.0.0-20240102092130-5ac0b6a4141c // indirect
	github.com/pmezard/go-difflib v1.0.0 // indirect
	github.com/pquerna/cachecontrol v0.2.0
	github.com/privacybydesign/gabi v0.0.0-20221212095008-68a086907750 // indirect
	github.com/prometheus/common v0.55.0 // indirect
	github.com/prometheus/procfs v0.15.1 // indirect
	github.com/remyoudompheng/bigfft v0.0.0-20230129092748-24d4a6f8daec // indirect
	github.com/robfig/cron/v3 v3.0.1 // indirect
	github.com/ryanuber/go-glob v1.0.0 // indirect
	github.com/segmentio/asm v1.2.0 // indirect
	github.com/sethvargo/go-retry v0.3.0 // indirect
	github.com/shengdoushi/base58 v1.0.0 // indirect
	github.com/shopspring/decimal v1.4.0 // indirect
	github.com/sietseringers/go-sse v0.0.0-20200801161811-e2cf2c63ca50 // indirect
	github.com/spaolacci/murmur3 v1.1.0 // indirect
	github.com/templexxx/cpu v0.0.9 // indirect
	github.com/templexxx/xorsimd v0.4.1 // indirect
	github.com/tidwall/gjson v1.17.0 // indirect
	github.com/tidwall/match v1.1.1 // indirect
	github.com/tidwall/pretty v1.2.0 // indirect
	github.com/timshannon/bolthold v0.0.0-20210913165410-232392fc8a6a // indirect
	github.com/valyala/bytebufferpool v1.0.0 // indirect
	github.com/valyala/fasttemplate v1.2.2 // indirect
	github.com/x-cray/logrus-prefixed-formatter v0.5.2 // indirect
	github.com/x448/float16 v0.8.4 // indirect
	github.com/yuin/gopher-lua v1.1.1 // indirect
	go.uber.org/multierr v1.11.0 // indirect
	golang.org/x/net v0.30.0 // indirect
	golang.org/x/sync v0.10.0 // indirect
	golang.org/x/sys v0.28.0 // indirect
	golang.org/x/term v0.27.0 // indirect
	golang.org/x/text v0.21.0 // indirect
	google.golang.org/genproto/googleapis/rpc v0.0.0-20240903143218-8af14fe29dc1 // indirect
	gopkg.in/Regis24GmbH/go-diacritics.v2 v2.0.3 // indirect
	gorm.io/gorm v1.25.12
	modernc.org/mathutil v1.6.0 // indirect
	modernc.org/memory v1.8.0 // indirect
	modernc.org/sqlite v1.34.2
	rsc.io/qr v0.2.0 // indirect
)

require (
	github.com/bradfitz/gomemcache v0.0.0-20230905024940-24af94b03874
	github.com/daangn/minimemcached v1.2.0
	github.com/eko/gocache/lib/v4 v4.1.6
	github.com/eko/gocache/store/go_cache/v4 v4.2.2
	github.com/eko/gocache/store/memcache/v4 v4.2.2
	github.com/eko/gocache/store/redis/v4 v4.2.2
	github.com/patrickmn/go-cache v2.1.0+incompatible
)

require (
	github.com/benbjohnson/clock v1.3.0 // indirect
	github.com/golang/mock v1.6.0 // indirect
	github.com/hashicorp/golang-lru/v2 v2.0.7 // indirect
	github.com/klauspost/cpuid/v2 v2.2.5 // indirect
	github.com/rs/zerolog v1.26.1 // indirect
	golang.org/x/exp v0.0.0-20240416160154-fe59bbe5cc7f // indirect
	modernc.org/gc/v3 v3.0.0-20240107210532-573471604cb6 // indirect
	modernc.org/libc v1.55.3 // indirect
	modernc.org/strutil v1.2.0 // indirect
	modernc.org/token v1.1.0 // indirect
)

require github.com/nuts-foundation/nuts-node v0.0.0
require github.com/anishathalye/porcupine v1.3.0

replace github.com/nuts-foundation/nuts-node => /repo
