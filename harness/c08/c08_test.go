// Check C08: DAG digests, indexes, head and counters always equal what the stored set implies.
// Real dag.State on bbolt; the oracle is an independent fold (XOR, RFC017 IBLT, listing, head,
// counters) over the harness' own ledger of admitted transactions, compared at quiescent points:
// after valid histories, rejected adds, every single failed write op, refused commits, cancelled
// contexts, rollback-reload windows, steered concurrent adds, SIGKILL crash points + reopen, and
// XOR-leaf corruption + repair.
package c08

import (
	"context"
	"errors"
	"fmt"
	"os"
	"path/filepath"
	"strconv"
	"strings"
	"sync"
	"testing"
	"time"

	"github.com/nuts-foundation/go-stoabs"
	"github.com/nuts-foundation/nuts-node/crypto/hash"
	"github.com/nuts-foundation/nuts-node/network/dag"
	"verif/lib/dagx"
	"verif/lib/ev"
	"verif/lib/faultstore"
	"verif/lib/sched"
	"verif/lib/worker"
)

func TestMain(m *testing.M) {
	worker.Register("c08crash", crashWorker)
	worker.Main(m)
}

type env struct {
	dir string
	db  stoabs.KVStore
	fs  *faultstore.Store
	st  dag.State
	led *dagx.Ledger
}

func openEnv(dir string, syncWrites bool) *env {
	db, err := dagx.OpenStore(dir, syncWrites)
	if err != nil {
		panic(err)
	}
	fs := faultstore.New(db)
	st, err := dag.NewState(fs, dag.NewPrevTransactionsVerifier(), dag.NewTransactionSignatureVerifier(nil))
	if err != nil {
		panic(err)
	}
	// a persistent subscriber, as production has, so that event writes are part of every write transaction
	if _, err := st.Notifier("verif", func(dag.Event) (bool, error) { return true, nil }, dag.WithPersistency(fs)); err != nil {
		panic(err)
	}
	dag.VerifLoadState(st)
	return &env{dir: dir, db: db, fs: fs, st: st, led: dagx.NewLedger()}
}

func (e *env) close() {
	_ = e.st.Shutdown()
	_ = e.db.Close(context.Background())
}

// reopen closes and reopens the store from disk, keeping the ledger.
func (e *env) reopen() {
	led := e.led
	e.close()
	n := openEnv(e.dir, false)
	*e = *n
	e.led = led
}

func (e *env) add(tx dag.Transaction, payload []byte) error {
	err := e.st.Add(context.Background(), tx, payload)
	if err == nil {
		e.led.Add(tx.Ref(), tx.Clock())
	}
	return err
}

func tmp(t *testing.T, name string) string {
	d, err := os.MkdirTemp("", "c08-"+name+"-")
	if err != nil {
		t.Fatal(err)
	}
	t.Cleanup(func() { os.RemoveAll(d) })
	return d
}

var chainOnce sync.Once
var chain []dag.Transaction
var key = dagx.NewKey("")

func longChain(r *ev.Run) []dag.Transaction {
	chainOnce.Do(func() {
		chain = dagx.Gen(r.Rand("chain"), key, r.Seed(), dagx.Chain, 1100, nil)
	})
	return chain
}

func TestCheck(t *testing.T) {
	r := ev.Start(t, "C08", "fault_enumeration")
	defer r.Finish()
	r.SetRule("cases = (scenario, history position, fault site / interleaving / crash point); each case ends in a comparison of the real dag.State " +
		"(XOR and IBLT at 0, page boundaries±1, highest clock±1, Max and seeded clocks; listing; head; counters) with an independent fold over the harness ledger. " +
		"A case is non-trivial when the DAG holds >=1 transaction and the comparison ran after a mutation attempt; distinct by (scenario, position class, fault site or interleaving string).")
	r.Require(50, 20)
	r.Assume("bbolt file store; page-cache durability (SIGKILL, not power loss)")
	r.Assume("write-op fault sites are those of the go-stoabs Writer interface (Put/Delete) plus refusal at commit; I/O errors inside bbolt's commit are represented by the commit refusal")

	histories(t, r)
	faultEnumeration(t, r)
	rollbackWindow(t, r)
	concurrent(t, r)
	crashes(t, r)
	repair(t, r)
}

func compare(r *ev.Run, e *env, scenario, pos, site string, full bool, witness any) bool {
	bad := dagx.Compare(e.st, e.led, r.Rand("probe"+scenario+pos+site), full)
	r.Case(scenario+"/"+pos+"/"+site, e.led.Len() > 0)
	r.Count("comparisons", 1)
	if len(bad) > 0 {
		r.Violation("C08/"+scenario+"/"+site, fmt.Sprintf("state differs from the fold over the stored set after %s at %s: %s", site, pos, strings.Join(bad, "; ")),
			map[string]any{"scenario": scenario, "position": pos, "site": site, "mismatches": bad, "detail": witness, "transactions": e.led.Len()})
		return false
	}
	return true
}

// ---- 1. valid histories with rejected and duplicate adds -----------------------------------

func histories(t *testing.T, r *ev.Run) {
	rnd := r.Rand("hist")
	type spec struct {
		shape dagx.Shape
		n     int
	}
	specs := []spec{{dagx.Chain, 1100}, {dagx.Fan, 260}, {dagx.Diamond, 180}, {dagx.Random, 300}}
	if r.Thorough() {
		specs = append(specs, spec{dagx.Fan, 1800}, spec{dagx.Random, 2300}, spec{dagx.Diamond, 1700}, spec{dagx.Random, 700}, spec{dagx.Fan, 600})
	}
	for si, sp := range specs {
		var txs []dag.Transaction
		if sp.shape == dagx.Chain {
			txs = longChain(r)
		} else {
			txs = dagx.Gen(rnd, key, r.Seed()+int64(si), sp.shape, sp.n, nil)
		}
		e := openEnv(tmp(t, "hist"), false)
		name := fmt.Sprintf("history-%s-%d", sp.shape, len(txs))
		rejected, dups := 0, 0
		for i, tx := range txs {
			// rejected add: a transaction further on whose prevs are not all present yet
			if i+3 < len(txs) && rnd.Intn(6) == 0 {
				future := txs[i+1+rnd.Intn(min(len(txs)-i-1, 20))]
				missing := false
				for _, p := range future.Previous() {
					if !e.led.Has(p) {
						missing = true
					}
				}
				if missing {
					if err := e.st.Add(context.Background(), future, nil); err == nil {
						r.Violation("C08/history/admitted-with-missing-prev", "transaction with missing prev admitted", map[string]any{"tx": string(future.Data())})
						e.led.Add(future.Ref(), future.Clock())
					} else {
						rejected++
						compare(r, e, "history", fmt.Sprintf("%s@%d", name, i), "rejected-add", false, nil)
					}
				}
			}
			if err := e.add(tx, nil); err != nil {
				r.Fatalf("valid transaction %d of %s rejected: %v", i, name, err)
			}
			if rnd.Intn(8) == 0 {
				dup := txs[rnd.Intn(i+1)]
				if err := e.st.Add(context.Background(), dup, nil); err != nil {
					r.Violation("C08/history/duplicate-add-error", "re-adding a present transaction failed: "+err.Error(), nil)
				}
				dups++
			}
			hi := e.led.High()
			boundary := hi%512 <= 1 || hi%512 == 511
			if i%97 == 0 || boundary {
				compare(r, e, "history", fmt.Sprintf("%s@%d", name, i), "add", boundary, nil)
			}
		}
		compare(r, e, "history", name+"@end", "add", true, nil)
		e.reopen()
		compare(r, e, "history", name+"@end", "reopen", true, nil)
		r.Count("history_transactions", len(txs))
		r.Count("history_rejected_adds", rejected)
		r.Count("history_duplicate_adds", dups)
		if si == 0 {
			r.Sample(map[string]any{"scenario": "history", "shape": sp.shape, "transactions": len(txs), "rejected_adds": rejected, "duplicate_adds": dups, "highest_clock": e.led.High()})
		}
		e.close()
	}
}

// ---- 2. every failed write op / refused commit / cancelled context -------------------------------

func posClass(p int) string {
	switch {
	case p == 0:
		return "root"
	case p == 512:
		return "page-boundary"
	case p == 1024:
		return "tree-growth"
	}
	return "later"
}

func faultEnumeration(t *testing.T, r *ev.Run) {
	txs := longChain(r)
	positions := []int{0, 1, 7, 512, 1024}
	if r.Thorough() {
		positions = []int{0, 1, 2, 7, 100, 511, 512, 513, 1023, 1024, 1025, 1090}
	}
	e := openEnv(tmp(t, "fault"), false)
	defer func() { e.close() }()
	next := 0
	exhaustive := true
	for _, p := range positions {
		for ; next < p; next++ {
			if err := e.add(txs[next], dagx.Payload(r.Seed(), next)); err != nil {
				r.Fatalf("setup add %d: %v", next, err)
			}
		}
		tx := txs[p]
		payload := dagx.Payload(r.Seed(), p)
		pos := fmt.Sprintf("%s(%d)", posClass(p), p)
		// discover the op trace of this write on a scratch copy of the state: add on the real one without faults
		// is done last, so use the trace of the previous fault-free write when available, else probe by failing op 1.. until no fault fires.
		for n := 1; n <= 64; n++ {
			fired := e.fs.Faults
			e.fs.Arm(&faultstore.Plan{FailOp: n, Once: true})
			err := e.st.Add(context.Background(), tx, payload)
			e.fs.Arm(nil)
			if e.fs.Faults == fired {
				// fewer than n ops: the write went through without fault
				if err != nil {
					r.Fatalf("fault-free add at %s failed: %v", pos, err)
				}
				e.led.Add(tx.Ref(), tx.Clock())
				ops := e.fs.LastOps()
				r.Extra("write_ops_per_add", len(ops))
				if p == 1 {
					r.Sample(map[string]any{"scenario": "fault-enumeration", "position": pos, "write_ops": ops, "faults_injected": n - 1})
				}
				if n-1 != len(ops) {
					exhaustive = false
				}
				break
			}
			if err == nil {
				r.Violation("C08/failed-write/no-error", fmt.Sprintf("Add returned nil although op %d failed at %s", n, pos), nil)
			}
			ops := e.fs.LastOps()
			site := "put-failed:" + ops[len(ops)-1]
			r.Count("fault_sites_injected", 1)
			if !compare(r, e, "failed-write", pos, site+"/"+posClass(p), true, map[string]any{"op_index": n, "ops": ops}) {
				e.reopen()
				if !compare(r, e, "failed-write", pos, site+"/"+posClass(p)+"/after-reopen", true, nil) {
					r.Fatalf("state stays corrupt after reopen; cannot continue enumeration")
				}
			}
		}
		// the transaction is in now; use the next one for commit refusal / cancellation
		next = p + 1
		tx = txs[next]
		payload = dagx.Payload(r.Seed(), next)
		// commit refused
		e.fs.Arm(&faultstore.Plan{FailAtEnd: true, Once: true})
		err := e.st.Add(context.Background(), tx, payload)
		e.fs.Arm(nil)
		if err == nil {
			r.Violation("C08/failed-write/no-error", "Add returned nil although commit was refused at "+pos, nil)
		}
		r.Count("fault_sites_injected", 1)
		if !compare(r, e, "failed-write", pos, "commit-refused/"+posClass(next), true, nil) {
			e.reopen()
		}
		// context cancelled after the closure completed (commit is then refused by the store itself)
		ctx, cancel := context.WithCancel(context.Background())
		e.fs.Arm(&faultstore.Plan{AtEnd: cancel, Once: true})
		err = e.st.Add(ctx, tx, payload)
		e.fs.Arm(nil)
		cancel()
		if err == nil {
			r.Violation("C08/failed-write/no-error", "Add returned nil although its context was cancelled before commit at "+pos, nil)
		}
		r.Count("fault_sites_injected", 1)
		ok := compare(r, e, "failed-write", pos, "ctx-cancelled/"+posClass(next), true, nil)
		// the next successful add must leave a correct state as well (a stale in-memory leaf would be persisted now)
		if err := e.add(tx, payload); err != nil {
			r.Fatalf("add after faults at %s: %v", pos, err)
		}
		next++
		if ok {
			compare(r, e, "failed-write", pos, "add-after-faults/"+posClass(next-1), true, nil)
			e.reopen()
			compare(r, e, "failed-write", pos, "add-after-faults-reopen/"+posClass(next-1), true, nil)
		} else {
			// already reported; resynchronise by rebuilding a clean store up to here
			e.close()
			e = openEnv(tmp(t, "fault"), false)
			for i := 0; i < next; i++ {
				if err := e.add(txs[i], dagx.Payload(r.Seed(), i)); err != nil {
					r.Fatalf("resync add %d: %v", i, err)
				}
			}
		}
	}
	r.Exhaustive(exhaustive)
}

// ---- 3. rollback reload racing another Add ------------------------------------------------------

// The store releases its write lock before the rollback callback reloads the in-memory trees; an Add that
// gets the lock in that window computes its leaf from trees that still contain the rolled-back transaction.
func rollbackWindow(t *testing.T, r *ev.Run) {
	rounds := r.Pick(6, 40)
	rnd := r.Rand("rbw")
	for i := 0; i < rounds; i++ {
		e := openEnv(tmp(t, "rbw"), false)
		base := dagx.Gen(rnd, key, r.Seed()+1000+int64(i), dagx.Chain, 3+rnd.Intn(20), nil)
		for _, tx := range base {
			if err := e.add(tx, nil); err != nil {
				r.Fatalf("setup: %v", err)
			}
		}
		tip := base[len(base)-1]
		a := dagx.NewTx(key, true, []byte("A"+strconv.Itoa(i)), "application/x-verif", time.Unix(1700000000, 0), nil, tip)
		b := dagx.NewTx(key, true, []byte("B"+strconv.Itoa(i)), "application/x-verif", time.Unix(1700000000, 0), nil, tip)
		bDone := make(chan error, 1)
		rec := &sched.Recorder{}
		rec.OnHook = func(name string, args []any) error {
			if name == "dag.add.rollback" && args[0].(hash.SHA256Hash).Equals(a.Ref()) {
				// the rolled-back writer is between lock release and reload: let a complete Add(b) run now
				go func() { bDone <- e.st.Add(context.Background(), b, nil) }()
				select {
				case err := <-bDone:
					bDone <- err
				case <-time.After(300 * time.Millisecond):
					// the other Add is kept out until the reload is done (serialized): carry on
				}
			}
			return nil
		}
		un := rec.Install()
		e.fs.Arm(&faultstore.Plan{FailAtEnd: true, Once: true})
		errA := e.st.Add(context.Background(), a, nil)
		e.fs.Arm(nil)
		var errB error
		select {
		case errB = <-bDone:
		case <-time.After(20 * time.Second):
			errB = errors.New("timeout")
		}
		un()
		if rec.Count("dag.add.rollback") == 0 {
			r.Inconclusive("rollback hook not reached")
			e.close()
			continue
		}
		if errA == nil || errB != nil {
			r.Inconclusive(fmt.Sprintf("unexpected results in rollback-window scenario: A=%v B=%v", errA, errB))
			e.close()
			continue
		}
		e.led.Add(b.Ref(), b.Clock())
		r.Count("rollback_window_interleavings", 1)
		if compare(r, e, "rollback-window", fmt.Sprintf("n=%d", len(base)), "concurrent-add-during-reload", true, nil) {
			e.reopen()
			compare(r, e, "rollback-window", fmt.Sprintf("n=%d", len(base)), "concurrent-add-during-reload/reopen", true, nil)
		}
		e.close()
	}
}

// ---- 4. concurrent adds, steered between verification and write ----------------------------------

func concurrent(t *testing.T, r *ev.Run) {
	rnd := r.Rand("conc")
	episodes := r.Pick(40, 600)
	for epi := 0; epi < episodes; epi++ {
		e := openEnv(tmp(t, "conc"), false)
		base := dagx.Gen(rnd, key, r.Seed()+5000+int64(epi), dagx.Random, 2+rnd.Intn(10), nil)
		for _, tx := range base {
			if err := e.add(tx, nil); err != nil {
				r.Fatalf("setup: %v", err)
			}
		}
		tip := base[len(base)-1]
		// batch: siblings on the tip, some submitted twice (same tx from two goroutines), optionally one failing write
		nSib := 2 + rnd.Intn(2)
		var batch []dag.Transaction
		for i := 0; i < nSib; i++ {
			tx := dagx.NewTx(key, true, []byte(fmt.Sprintf("c%d-%d", epi, i)), "application/x-verif", time.Unix(1700000000, 0), nil, tip)
			batch = append(batch, tx)
		}
		batch = append(batch, batch[rnd.Intn(nSib)]) // duplicate submission
		withFault := epi%3 == 2
		steered := epi%4 != 3
		var ep *sched.Episode
		if steered {
			ep = sched.Begin(sched.Options{Actors: len(batch), Rand: r.Rand(fmt.Sprintf("sched%d", epi)),
				Watch: func(p string, _ []any) bool {
					return p == "dag.add.verified" || p == "dag.add.rollback" || p == "dag.add.committed"
				}})
		}
		if withFault {
			e.fs.Arm(&faultstore.Plan{FailOp: 1 + rnd.Intn(6), Once: true})
		}
		errs := make([]error, len(batch))
		var wg sync.WaitGroup
		for i := range batch {
			wg.Add(1)
			go func(i int) {
				defer wg.Done()
				errs[i] = e.st.Add(context.Background(), batch[i], nil)
				if ep != nil {
					ep.ActorDone()
				}
			}(i)
		}
		wg.Wait()
		inter := "unsteered"
		if ep != nil {
			inter = ep.End()
			r.Count("scheduler_stalls", ep.Stalls)
		}
		e.fs.Arm(nil)
		r.Distinct("interleavings", inter)
		failed := 0
		for i, err := range errs {
			if err == nil {
				e.led.Add(batch[i].Ref(), batch[i].Clock())
			} else {
				failed++
			}
		}
		// a failed Add of a tx that another goroutine added successfully is in the ledger through the other one; a tx
		// all of whose submissions failed must be absent: verify presence agrees with the ledger
		for _, tx := range batch {
			present, _ := e.st.IsPresent(context.Background(), tx.Ref())
			if present != e.led.Has(tx.Ref()) {
				r.Violation("C08/concurrent/presence", fmt.Sprintf("presence of %s is %v but Add results say %v", tx.Ref(), present, e.led.Has(tx.Ref())), map[string]any{"interleaving": inter})
				if present {
					e.led.Add(tx.Ref(), tx.Clock())
				}
			}
		}
		site := "concurrent-add"
		if withFault {
			site = "concurrent-add-with-failed-write"
		}
		w := map[string]any{"interleaving": inter, "failed_adds": failed, "batch": len(batch)}
		if compare(r, e, "concurrent", inter, site, true, w) {
			// retry the failed ones: must succeed and still agree
			for i, err := range errs {
				if err != nil {
					if err2 := e.add(batch[i], nil); err2 != nil {
						r.Violation("C08/concurrent/retry-failed", "retry after failed write rejected: "+err2.Error(), w)
					}
				}
			}
			compare(r, e, "concurrent", inter, site+"/retried", true, w)
			e.reopen()
			compare(r, e, "concurrent", inter, site+"/reopen", true, w)
		}
		if epi == 0 {
			r.Sample(map[string]any{"scenario": "concurrent", "interleaving": inter, "batch": len(batch), "failed_adds": failed})
		}
		e.close()
	}
	r.Extra("distinct_interleavings_observed", r.DistinctN("interleavings"))
}

// ---- 5. crash points: SIGKILL in a worker process, reopen here -----------------------------------

func writeTxFile(path string, txs []dag.Transaction) {
	var sb strings.Builder
	for _, tx := range txs {
		sb.Write(tx.Data())
		sb.WriteByte('\n')
	}
	if err := os.WriteFile(path, []byte(sb.String()), 0o644); err != nil {
		panic(err)
	}
}

func readTxFile(path string) []dag.Transaction {
	data, err := os.ReadFile(path)
	if err != nil {
		panic(err)
	}
	var out []dag.Transaction
	for _, ln := range strings.Split(strings.TrimSpace(string(data)), "\n") {
		tx, err := dag.ParseTransaction([]byte(ln))
		if err != nil {
			panic(err)
		}
		out = append(out, tx)
	}
	return out
}

// crashWorker args: dir, txfile, killIndex, point ("dag.add.inwrite" | "dag.add.committed" | "between")
func crashWorker(args []string) int {
	dir, txfile, point := args[0], args[1], args[3]
	killAt, _ := strconv.Atoi(args[2])
	txs := readTxFile(txfile)
	e := openEnv(dir, true)
	led := worker.OpenLedger(filepath.Join(dir, "ledger"))
	target := txs[killAt].Ref()
	rec := &sched.Recorder{OnHook: func(name string, a []any) error {
		if name == point && a[0].(hash.SHA256Hash).Equals(target) {
			led.Log("kill %d %s", killAt, point)
			worker.KillSelf()
		}
		return nil
	}}
	rec.Install()
	for i, tx := range txs {
		present, _ := e.st.IsPresent(context.Background(), tx.Ref())
		if present {
			continue
		}
		if point == "between" && i == killAt {
			led.Log("kill %d between", i)
			worker.KillSelf()
		}
		led.Log("begin %d", i)
		if err := e.st.Add(context.Background(), tx, dagx.Payload(7, i)); err != nil {
			led.Log("err %d %v", i, err)
			return 3
		}
		led.Log("ok %d", i)
	}
	e.close()
	return 0
}

func crashes(t *testing.T, r *ev.Run) {
	rnd := r.Rand("crash")
	scen := r.Pick(6, 48)
	points := []string{"dag.add.inwrite", "dag.add.committed", "between"}
	for i := 0; i < scen; i++ {
		dir := tmp(t, "crash")
		shape := []dagx.Shape{dagx.Random, dagx.Fan, dagx.Chain}[i%3]
		n := 20 + rnd.Intn(60)
		if i%6 == 5 {
			n = 520 + rnd.Intn(30) // crash around the page boundary
		}
		// payload must hash to the tx payload hash: build txs over dagx.Payload(7,i)
		txs := genWithPayload(rnd, shape, n)
		txfile := filepath.Join(dir, "txs")
		writeTxFile(txfile, txs)
		killAt := 1 + rnd.Intn(len(txs)-1)
		if n > 500 {
			killAt = 505 + rnd.Intn(len(txs)-505)
		}
		point := points[i%3]
		res := worker.Run("c08crash", []string{dir, txfile, strconv.Itoa(killAt), point}, 5*time.Minute)
		if !res.Signaled {
			r.Inconclusive(fmt.Sprintf("crash worker was not killed (exit=%d timedout=%v): %s", res.ExitCode, res.TimedOut, tail(res.Output)))
			continue
		}
		lines := worker.ReadLedger(filepath.Join(dir, "ledger"))
		okSet := map[int]bool{}
		for _, ln := range lines {
			if strings.HasPrefix(ln, "ok ") {
				k, _ := strconv.Atoi(ln[3:])
				okSet[k] = true
			}
		}
		e := openEnv(dir, false)
		for k, tx := range txs {
			present, _ := e.st.IsPresent(context.Background(), tx.Ref())
			if present {
				e.led.Add(tx.Ref(), tx.Clock())
			}
			if okSet[k] && !present {
				r.Violation("C08/crash/acknowledged-lost", fmt.Sprintf("transaction %d was acknowledged before the crash but is absent after restart (crash at %s)", k, point), map[string]any{"ledger": lines})
			}
			if !okSet[k] && present && !(k == killAt && point == "dag.add.committed") {
				r.Violation("C08/crash/unexpected-present", fmt.Sprintf("transaction %d present after crash at %s of %d", k, point, killAt), map[string]any{"ledger": lines})
			}
		}
		if point == "dag.add.committed" && !e.led.Has(txs[killAt].Ref()) {
			r.Violation("C08/crash/committed-lost", "transaction whose commit completed before the crash is absent after restart", map[string]any{"ledger": lines})
		}
		r.Count("crash_points_exercised", 1)
		pos := fmt.Sprintf("kill@%d/%d", killAt, len(txs))
		compare(r, e, "crash", pos, "restart-after-"+point, true, map[string]any{"ledger_tail": lines[max(0, len(lines)-4):]})
		// carry on after the restart
		for k, tx := range txs {
			if !e.led.Has(tx.Ref()) {
				if err := e.add(tx, dagx.Payload(7, k)); err != nil {
					r.Violation("C08/crash/add-after-restart", fmt.Sprintf("add of %d after restart failed: %v", k, err), nil)
					break
				}
			}
		}
		compare(r, e, "crash", pos, "continue-after-"+point, true, nil)
		if i == 0 {
			r.Sample(map[string]any{"scenario": "crash", "point": point, "kill_at": killAt, "transactions": len(txs), "present_after_restart": e.led.Len(), "worker_signal": res.Signal.String()})
		}
		e.close()
	}
}

func genWithPayload(rnd interface{ Intn(int) int }, shape dagx.Shape, n int) []dag.Transaction {
	var out []dag.Transaction
	now := time.Unix(1700000000, 0)
	for i := 0; i < n; i++ {
		var prevs []dag.Transaction
		if i > 0 {
			switch shape {
			case dagx.Chain:
				prevs = []dag.Transaction{out[i-1]}
			case dagx.Fan:
				// siblings in groups of 3
				base := (i - 1) / 3 * 3
				if base == 0 {
					prevs = []dag.Transaction{out[0]}
				} else {
					prevs = []dag.Transaction{out[base], out[base-1]}
				}
			default:
				prevs = []dag.Transaction{out[i-1-rnd.Intn(min(i, 4))]}
				if i > 2 && rnd.Intn(2) == 0 {
					p2 := out[i-1-rnd.Intn(min(i, 4))]
					if !p2.Ref().Equals(prevs[0].Ref()) {
						prevs = append(prevs, p2)
					}
				}
			}
		}
		out = append(out, dagx.NewTx(key, true, dagx.Payload(7, i), "application/x-verif", now, nil, prevs...))
	}
	return out
}

func tail(s string) string {
	if len(s) > 500 {
		return s[len(s)-500:]
	}
	return s
}

// ---- 6. corrupted XOR leaf + repair ------------------------------------------------------------------

func readShelf(db stoabs.KVStore, shelf string) map[string]string {
	out := map[string]string{}
	_ = db.ReadShelf(context.Background(), shelf, func(rd stoabs.Reader) error {
		return rd.Iterate(func(k stoabs.Key, v []byte) error {
			out[string(k.Bytes())] = string(v)
			return nil
		}, stoabs.BytesKey{})
	})
	return out
}

func repair(t *testing.T, r *ev.Run) {
	txs := longChain(r)
	rnd := r.Rand("repair")
	rounds := r.Pick(5, 15)
	for i := 0; i < rounds; i++ {
		e := openEnv(tmp(t, "repair"), false)
		// sizes 513 and 1025: the highest clock is exactly a page boundary, so the last page holds a single transaction
		n := []int{513, 1100, 1025, 700, 300}[i%5]
		for k := 0; k < n; k++ {
			if err := e.add(txs[k], nil); err != nil {
				r.Fatalf("setup: %v", err)
			}
		}
		before := readShelf(e.db, "xorBucket")
		pages := (n + 511) / 512
		page := rnd.Intn(pages)
		if n%512 == 1 {
			page = pages - 1 // corrupt that last, single-transaction page
		}
		var pk [4]byte
		leafKey := page*512 + 256 // leaves are keyed by the clock that splits their page (little endian)
		pk[0], pk[1], pk[2], pk[3] = byte(leafKey), byte(leafKey>>8), byte(leafKey>>16), byte(leafKey>>24)
		garbage := make([]byte, 32)
		rnd.Read(garbage)
		if _, ok := before[string(pk[:])]; !ok {
			r.Fatalf("xor leaf for page %d not found in shelf (keys=%d)", page, len(before))
		}
		if err := e.db.WriteShelf(context.Background(), "xorBucket", func(w stoabs.Writer) error {
			return w.Put(stoabs.BytesKey(pk[:]), garbage)
		}); err != nil {
			r.Fatalf("corrupt: %v", err)
		}
		e.reopen()
		if len(dagx.Compare(e.st, e.led, nil, true)) == 0 {
			r.Fatalf("monitor does not see a corrupted XOR leaf (page %d)", page)
		}
		e.st.IncorrectStateDetected()
		e.st.IncorrectStateDetected()
		seen := map[uint32]bool{}
		for k := 0; k < pages+2; k++ {
			seen[dag.VerifRepairTick(e.st)] = true
		}
		r.Count("repair_ticks", pages+2)
		pos := fmt.Sprintf("n=%d/page=%d", n, page)
		compare(r, e, "repair", pos, "after-repair", true, map[string]any{"pages_checked": len(seen)})
		after := readShelf(e.db, "xorBucket")
		for k, v := range before {
			if after[k] != v {
				r.Violation("C08/repair/leaf-changed", fmt.Sprintf("xor leaf %x differs from its pre-corruption value after repair of page %d", k, page), nil)
			}
		}
		if len(after) != len(before) {
			r.Violation("C08/repair/leaf-count", fmt.Sprintf("xor shelf has %d leaves after repair, had %d", len(after), len(before)), nil)
		}
		e.reopen()
		compare(r, e, "repair", pos, "after-repair-reopen", true, nil)
		// adding after repair still agrees
		if n < len(txs) {
			if err := e.add(txs[n], nil); err != nil {
				r.Fatalf("add after repair: %v", err)
			}
			compare(r, e, "repair", pos, "add-after-repair", true, nil)
		}
		if i == 0 {
			r.Sample(map[string]any{"scenario": "repair", "transactions": n, "corrupted_page": page, "pages_checked": len(seen)})
		}
		e.close()
	}
}
