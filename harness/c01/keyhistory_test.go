// Key history (C01, "signed by a key that the signer's DID document authorises for assertions AT THE VALIDATION TIME",
// quantifier "all validation times relative to key validity, all issuer DID document histories: key added, removed, deactivated").
//
// A second in-process node with did:nuts and did:web creates one subject (two DIDs, each with its own key history on the
// same time line): version 1 = key 1; version 2 = key 1 + key 2 (verification method added); version 3 = key 2 only
// (key 1 removed; did:nuts only, the node offers no removal for did:web); last version = deactivated. Between the versions the
// harness really pauses so that the recorded version timestamps (one-second granularity) differ by at least two seconds.
//
// Artefacts: credentials and presentations in both proof formats, produced by the node's own issuer/wallet with key 1, and signed by
// the harness THROUGH THE NODE'S KEY STORE with key 1 resp. key 2 and dates that lie before the DID document existed (a signer can put
// any date in a document; what counts is whether the key was authorised at the validation time).
//
// Every artefact is verified at validation times strictly inside each version's interval (taken from the version timestamps the
// resolver reports, never from the wall clock), before the creation, after the deactivation and at "now" (no validAt), through the
// presentation verification API (credentials wrapped in a presentation of a harness-owned did:jwk holder) and through the verifier's
// Go API. Reference: valid iff every signing key involved is listed as assertion method in the version in force at the validation
// time (and that version is not deactivated); the dates of the artefacts are chosen/checked so that they never decide.
package c01

import (
	"context"
	"encoding/base64"
	"encoding/json"
	"fmt"
	"net/url"
	"sort"
	"strings"
	"sync"
	"testing"
	"time"

	"github.com/nuts-foundation/go-did/did"
	"github.com/nuts-foundation/go-did/vc"
	"github.com/nuts-foundation/nuts-node/audit"
	nutsCrypto "github.com/nuts-foundation/nuts-node/crypto"
	"github.com/nuts-foundation/nuts-node/jsonld"
	"github.com/nuts-foundation/nuts-node/vcr"
	"github.com/nuts-foundation/nuts-node/vcr/signature"
	"github.com/nuts-foundation/nuts-node/vcr/signature/proof"
	"github.com/nuts-foundation/nuts-node/vdr"
	"github.com/nuts-foundation/nuts-node/vdr/resolver"
	"verif/lib/ev"
	"verif/lib/iamflow"
	"verif/lib/node"
)

// khGap: real time between a recorded version timestamp (resp. the youngest date inside an artefact) and the operation that creates
// the next version. Version timestamps have one-second granularity: three seconds leave a full second strictly inside every interval
// that is later than every artefact date. Pacing only - what is decided afterwards depends on the recorded timestamps alone.
const khGap = 3 * time.Second

// khVersion is one version of a DID document as the harness caused it (keys) and as the resolver recorded it (ts).
type khVersion struct {
	name        string
	ts          time.Time       // timestamp the resolver reports for this version (updated, or created for the first)
	keys        map[string]bool // key name (key1/key2) -> listed as assertion method
	deactivated bool
}

// khArtefact is a signed document whose signing keys are known to the harness.
type khArtefact struct {
	name      string // stable: <kind>-<format>/<how>
	kind      string // vc | vp
	format    string // jwt | ldp
	keys      []string
	node      bool            // produced by the node's own issuer/wallet (round-trip half of the property)
	doc       json.RawMessage // JSON object or JSON string (JWT)
	notBefore time.Time       // the artefact's own dates allow validation times >= notBefore
}

type khIdentity struct {
	method   string // nuts | web
	did      string
	kid      map[string]string // key1/key2 -> verification method id
	versions []khVersion
	arts     []*khArtefact
	staged   int // artefacts already verified by an earlier stageNow
}

type khTimepoint struct {
	name string
	at   *time.Time // nil = no validAt ("now")
}

type keyHistory struct {
	t       *testing.T
	r       *ev.Run
	n       *node.Node
	ks      nutsCrypto.KeyStore
	ld      jsonld.JSONLD
	vcr     vcr.VCR
	vdr     vdr.VDR
	holder  *iamflow.Holder // did:jwk subject of the credentials / wrapper of credentials for the presentation API
	ids     []*khIdentity
	back    time.Time // the date harness-signed artefacts carry: well before the DID documents existed
	done    chan struct{}
	broken  bool
	elapsed time.Duration
	mu      sync.Mutex
}

// startKeyHistory boots the second node (synchronously: nodes start one at a time) and runs the time line in the background;
// wait() joins. Everything the phase decides is a function of the recorded version timestamps.
func startKeyHistory(t *testing.T, r *ev.Run) *keyHistory {
	n := node.Start(t, node.Options{DIDMethods: []string{"nuts", "web"}, Env: map[string]string{"NUTS_INTERNALRATELIMITER": "false", "NUTS_PKI_DENYLIST_URL": ""}})
	k := &keyHistory{t: t, r: r, n: n, ks: node.Engine[nutsCrypto.KeyStore](n), ld: node.Engine[jsonld.JSONLD](n), vcr: node.Engine[vcr.VCR](n), vdr: node.Engine[vdr.VDR](n),
		holder: iamflow.NewHolder(), done: make(chan struct{}), back: time.Now().Add(-2 * time.Hour).Truncate(time.Second)}
	if k.ks == nil || k.ld == nil || k.vcr == nil || k.vdr == nil {
		r.Fatalf("key history: engines of the second node not reachable")
	}
	go func() {
		defer close(k.done)
		defer func(t0 time.Time) { k.elapsed = time.Since(t0) }(time.Now())
		defer func() {
			if p := recover(); p != nil {
				r.Inconclusive(fmt.Sprintf("key history: harness panic: %v", p))
			}
		}()
		k.run()
	}()
	return k
}

func (k *keyHistory) wait() {
	select {
	case <-k.done:
	case <-time.After(10 * time.Minute):
		k.r.Inconclusive("key history: phase did not finish (watchdog)")
	}
}

func (k *keyHistory) ctx() context.Context {
	return audit.Context(context.Background(), "verif-harness", "verif", "KeyHistory")
}

func (k *keyHistory) abort(what string) {
	k.broken = true
	k.r.Inconclusive("key history: " + what)
}

// ---- time line --------------------------------------------------------------------------------------------------------

func (k *keyHistory) run() {
	r := k.r
	// version 1: subject with one DID per method, key 1
	resp, err := node.Do("POST", k.n.Internal+"/internal/vdr/v2/subject", map[string]any{"subject": "keyhistory"}, nil)
	if err != nil || resp.Status != 200 {
		r.Fatalf("key history: create subject: %v %s", err, resp)
	}
	var created struct {
		Documents []struct {
			ID                 string `json:"id"`
			VerificationMethod []struct {
				ID string `json:"id"`
			} `json:"verificationMethod"`
		} `json:"documents"`
	}
	_ = resp.JSON(&created)
	for _, d := range created.Documents {
		if len(d.VerificationMethod) != 1 {
			r.Fatalf("key history: new DID document %s has %d verification methods", d.ID, len(d.VerificationMethod))
		}
		id := &khIdentity{did: d.ID, kid: map[string]string{"key1": d.VerificationMethod[0].ID}}
		switch {
		case strings.HasPrefix(d.ID, "did:nuts:"):
			id.method = "nuts"
		case strings.HasPrefix(d.ID, "did:web:"):
			id.method = "web"
		default:
			continue
		}
		k.ids = append(k.ids, id)
	}
	sort.Slice(k.ids, func(i, j int) bool { return k.ids[i].method < k.ids[j].method })
	if len(k.ids) != 2 {
		r.Fatalf("key history: expected a did:nuts and a did:web document, got %s", resp)
	}
	for _, id := range k.ids {
		if !k.record(id, "key1-only", map[string]bool{"key1": true}, false) {
			return
		}
		// the verifier requires trust for did:nuts holders/issuers
		_, _ = node.Do("POST", k.n.Internal+"/internal/vcr/v2/verifier/trust", map[string]any{"issuer": id.did, "credentialType": "NutsOrganizationCredential"}, nil)
		k.nodeArtefacts(id, "key1", "issued")
	}
	for _, id := range k.ids {
		k.harnessArtefacts(id, "key1")
	}
	k.stageNow("stage1")
	k.pace()

	// version 2: key 2 added
	resp, err = node.Do("POST", k.n.Internal+"/internal/vdr/v2/subject/keyhistory/verificationmethod", map[string]any{"assertionKey": true, "encryptionKey": false}, nil)
	if err != nil || resp.Status != 200 {
		r.Fatalf("key history: add verification method: %v %s", err, resp)
	}
	var added []struct {
		ID         string `json:"id"`
		Controller string `json:"controller"`
	}
	_ = resp.JSON(&added)
	for _, id := range k.ids {
		for _, a := range added {
			if strings.HasPrefix(a.ID, id.did+"#") {
				id.kid["key2"] = a.ID
			}
		}
		if id.kid["key2"] == "" || id.kid["key2"] == id.kid["key1"] {
			r.Fatalf("key history: no new verification method for %s in %s", id.did, resp)
		}
		if !k.record(id, "key1+key2", map[string]bool{"key1": true, "key2": true}, false) {
			return
		}
		k.harnessArtefacts(id, "key2")
		k.mixedArtefacts(id)
	}
	k.stageNow("stage2")
	k.pace()

	// version 3: key 1 removed (did:nuts only: the node has no removal operation for other methods)
	for _, id := range k.ids {
		if id.method != "nuts" {
			continue
		}
		resp, err := node.Do("DELETE", k.n.Internal+"/internal/vdr/v1/did/"+url.PathEscape(id.did)+"/verificationmethod/"+url.PathEscape(id.kid["key1"]), nil, nil)
		if err != nil || resp.Status/100 != 2 {
			r.Fatalf("key history: remove verification method: %v %s", err, resp)
		}
		if !k.record(id, "key2-only", map[string]bool{"key2": true}, false) {
			return
		}
	}
	// what the node's issuer produces after the rotation (whatever key it picks must be one the document authorises now)
	for _, id := range k.ids {
		k.nodeArtefacts(id, "", "issued-after-rotation")
	}
	k.grid(false)
	if k.broken {
		return
	}
	k.pace()

	// last version: deactivated
	resp, err = node.Do("DELETE", k.n.Internal+"/internal/vdr/v2/subject/keyhistory", nil, nil)
	if err != nil || resp.Status/100 != 2 {
		r.Fatalf("key history: deactivate: %v %s", err, resp)
	}
	for _, id := range k.ids {
		if !k.record(id, "deactivated", map[string]bool{}, true) {
			return
		}
	}
	k.grid(true)
	for _, id := range k.ids {
		var vs []string
		for _, v := range id.versions {
			vs = append(vs, v.name+"@"+v.ts.UTC().Format("15:04:05"))
		}
		r.Sample(map[string]any{"scenario": "key-history", "method": id.method, "versions": vs, "artefacts": len(id.arts)})
	}
}

// pace sleeps until the next version can be created: khGap after the youngest version timestamp and after the youngest date inside
// any artefact made so far (so that the time point "one second before the next version" lies inside every artefact's own window).
func (k *keyHistory) pace() {
	var youngest time.Time
	for _, id := range k.ids {
		if n := len(id.versions); n > 0 && id.versions[n-1].ts.After(youngest) {
			youngest = id.versions[n-1].ts
		}
		for _, a := range id.arts {
			if a.notBefore.After(youngest) {
				youngest = a.notBefore
			}
		}
	}
	for i := 0; time.Now().Before(youngest.Add(khGap)) && i < 600; i++ {
		time.Sleep(50 * time.Millisecond)
	}
}

// record waits until the resolver serves the version the harness just caused (synchronisation only) and notes its timestamp.
func (k *keyHistory) record(id *khIdentity, name string, keys map[string]bool, deactivated bool) bool {
	want := map[string]bool{}
	for key := range keys {
		want[id.kid[key]] = true
	}
	parsed := did.MustParseDID(id.did)
	deadline := time.Now().Add(60 * time.Second)
	for {
		doc, md, err := k.vdr.Resolver().Resolve(parsed, &resolver.ResolveMetadata{AllowDeactivated: true})
		if err == nil && md != nil && md.Deactivated == deactivated {
			got := map[string]bool{}
			for _, am := range doc.AssertionMethod {
				got[am.ID.String()] = true
			}
			if fmt.Sprint(got) == fmt.Sprint(want) {
				ts := md.Created
				if md.Updated != nil && !md.Updated.IsZero() {
					ts = *md.Updated
				}
				if n := len(id.versions); n > 0 && ts.Before(id.versions[n-1].ts) {
					k.abort(fmt.Sprintf("version %s of %s is recorded at %s, before its predecessor", name, id.method, ts))
					return false
				}
				id.versions = append(id.versions, khVersion{name: name, ts: ts, keys: keys, deactivated: deactivated})
				k.r.Count("key_history_versions", 1)
				return true
			}
		}
		if time.Now().After(deadline) {
			k.abort(fmt.Sprintf("version %s of the %s document did not become resolvable (watchdog): %v", name, id.method, err))
			return false
		}
		time.Sleep(20 * time.Millisecond)
	}
}

// ---- artefacts --------------------------------------------------------------------------------------------------------

func (k *keyHistory) add(id *khIdentity, a *khArtefact) {
	k.mu.Lock()
	id.arts = append(id.arts, a)
	k.mu.Unlock()
	k.r.Count("key_history_artefacts", 1)
}

func (k *keyHistory) issue(id *khIdentity, subject, format string) json.RawMessage {
	body := map[string]any{"type": "NutsOrganizationCredential", "issuer": id.did, "format": format,
		"credentialSubject": map[string]any{"id": subject, "organization": map[string]any{"name": "History B.V.", "city": "Keytown"}}}
	if id.method == "nuts" {
		body["publishToNetwork"] = false
	} else {
		body["expirationDate"] = time.Now().Add(72 * time.Hour).UTC().Format(time.RFC3339)
	}
	resp, err := node.Do("POST", k.n.Internal+"/internal/vcr/v2/issuer/vc", body, nil)
	if err != nil || resp.Status != 200 {
		k.r.Fatalf("key history: issue %s by %s: %v %s", format, id.method, err, resp)
	}
	return json.RawMessage(strings.TrimSpace(string(resp.Body)))
}

// signerOf returns the key name (key1/key2) of the verification method that signed doc ("" if neither).
func (id *khIdentity) signerOf(doc json.RawMessage) string {
	vm := ""
	var tok string
	if json.Unmarshal(doc, &tok) == nil {
		if parts := strings.Split(tok, "."); len(parts) == 3 {
			hb, _ := base64.RawURLEncoding.DecodeString(parts[0])
			var h struct {
				KID string `json:"kid"`
			}
			_ = json.Unmarshal(hb, &h)
			vm = h.KID
		}
	} else {
		var d struct {
			Proof json.RawMessage `json:"proof"`
		}
		_ = json.Unmarshal(doc, &d)
		var one struct {
			VM string `json:"verificationMethod"`
		}
		var many []struct {
			VM string `json:"verificationMethod"`
		}
		if json.Unmarshal(d.Proof, &one) == nil && one.VM != "" {
			vm = one.VM
		} else if json.Unmarshal(d.Proof, &many) == nil && len(many) == 1 {
			vm = many[0].VM
		}
	}
	for name, kid := range id.kid {
		if kid == vm {
			return name
		}
	}
	return ""
}

// nodeArtefacts: the node's issuer issues credentials (to the did:jwk holder and to the identity itself) and its wallet presents the latter.
// wantKey "" = whatever key the node picks (read back from the artefact).
func (k *keyHistory) nodeArtefacts(id *khIdentity, wantKey, how string) {
	for _, f := range []struct{ api, name string }{{"jwt_vc", "jwt"}, {"ldp_vc", "ldp"}} {
		c := k.issue(id, k.holder.DID, f.api)
		key := id.signerOf(c)
		if key == "" || (wantKey != "" && key != wantKey) {
			k.r.Fatalf("key history: credential issued by the node is signed by %q, expected %q: %s", key, wantKey, c)
		}
		// the issuer stamps the credential with the current time: usable at validation times from its own dates on
		k.add(id, &khArtefact{name: "vc-" + f.name + "/" + how, kind: "vc", format: f.name, keys: []string{key}, node: true, doc: c, notBefore: latestDate(c)})
		if wantKey == "" {
			continue // presentations by the identity itself: only in the first stage
		}
		own := k.issue(id, id.did, f.api)
		vpFormat := map[string]string{"jwt": "jwt_vp", "ldp": "ldp_vp"}[f.name]
		resp, err := node.Do("POST", k.n.Internal+"/internal/vcr/v2/holder/vp", map[string]any{"verifiableCredentials": []json.RawMessage{own}, "signerDID": id.did, "format": vpFormat,
			"expires": time.Now().Add(24 * time.Hour).UTC().Format(time.RFC3339)}, nil)
		if err != nil || resp.Status != 200 {
			k.r.Fatalf("key history: create %s by %s: %v %s", vpFormat, id.method, err, resp)
		}
		vp := json.RawMessage(strings.TrimSpace(string(resp.Body)))
		vkey := id.signerOf(vp)
		if vkey != wantKey {
			k.r.Fatalf("key history: presentation created by the node is signed by %q, expected %q", vkey, wantKey)
		}
		keys := []string{vkey}
		if f.name == "ldp" {
			keys = append(keys, id.signerOf(own)) // carries its own proof object: checked on its own (see mixedArtefacts)
		}
		k.add(id, &khArtefact{name: "vp-" + f.name + "/" + how, kind: "vp", format: f.name, keys: keys, node: true, doc: vp, notBefore: latestDate(vp)})
	}
}

// latestDate returns the latest of the dates a document (and the credentials it carries) says it is valid from
// (nbf, issuanceDate, proof.created), rounded up to a full second: validation times from there on are inside its window.
func latestDate(doc json.RawMessage) time.Time {
	var latest time.Time
	note := func(t time.Time) {
		if t.After(latest) {
			latest = t
		}
	}
	var visit func(v any)
	visit = func(v any) {
		switch x := v.(type) {
		case string:
			if parts := strings.Split(x, "."); len(parts) == 3 && strings.HasPrefix(x, "ey") {
				if b, err := base64.RawURLEncoding.DecodeString(parts[1]); err == nil {
					var claims any
					if json.Unmarshal(b, &claims) == nil {
						visit(claims)
					}
				}
			}
		case map[string]any:
			for key, val := range x {
				switch key {
				case "nbf", "iat":
					if f, ok := val.(float64); ok {
						note(time.Unix(int64(f), 0))
					}
				case "issuanceDate", "validFrom", "created":
					if s, ok := val.(string); ok {
						if t, err := time.Parse(time.RFC3339Nano, s); err == nil {
							note(t)
						}
					}
				default:
					visit(val)
				}
			}
		case []any:
			for _, e := range x {
				visit(e)
			}
		}
	}
	var v any
	if json.Unmarshal(doc, &v) == nil {
		visit(v)
	}
	if t := latest.Truncate(time.Second); t.Before(latest) {
		return t.Add(time.Second)
	}
	return latest
}

var khSerial int

func (k *keyHistory) credentialID(id *khIdentity) string {
	k.mu.Lock()
	khSerial++
	s := khSerial
	k.mu.Unlock()
	return fmt.Sprintf("%s#%08d-0000-4000-8000-00000000c001", id.did, s)
}

// signJWTCredential: a JWT credential by the identity, signed with the named key through the node's key store, dated k.back.
func (k *keyHistory) signJWTCredential(id *khIdentity, key, subject string) json.RawMessage {
	claims := map[string]any{"iss": id.did, "sub": subject, "jti": k.credentialID(id), "nbf": k.back.Unix(),
		"vc": map[string]any{"@context": []string{"https://www.w3.org/2018/credentials/v1", "https://nuts.nl/credentials/v1"},
			"type":              []string{"VerifiableCredential", "NutsOrganizationCredential"},
			"credentialSubject": map[string]any{"id": subject, "organization": map[string]any{"name": "History B.V.", "city": "Keytown"}}}}
	tok, err := k.ks.SignJWT(k.ctx(), claims, map[string]any{"typ": "JWT"}, id.kid[key])
	if err != nil {
		k.r.Fatalf("key history: sign JWT credential with %s of %s: %v", key, id.method, err)
	}
	b, _ := json.Marshal(tok)
	return b
}

func (k *keyHistory) signLD(id *khIdentity, key string, doc map[string]any) json.RawMessage {
	b, _ := json.Marshal(doc)
	var plain map[string]any
	_ = json.Unmarshal(b, &plain)
	signed, err := proof.NewLDProof(proof.ProofOptions{Created: k.back}).Sign(k.ctx(), plain, signature.JSONWebSignature2020{ContextLoader: k.ld.DocumentLoader(), Signer: k.ks}, id.kid[key])
	if err != nil {
		k.r.Fatalf("key history: sign JSON-LD document with %s of %s: %v", key, id.method, err)
	}
	out, _ := json.Marshal(signed)
	return out
}

func (k *keyHistory) signLDCredential(id *khIdentity, key, subject string) json.RawMessage {
	return k.signLD(id, key, map[string]any{
		"@context": []string{"https://www.w3.org/2018/credentials/v1", "https://nuts.nl/credentials/v1"},
		"id":       k.credentialID(id), "type": []string{"VerifiableCredential", "NutsOrganizationCredential"},
		"issuer": id.did, "issuanceDate": k.back.UTC().Format(time.RFC3339),
		"credentialSubject": map[string]any{"id": subject, "organization": map[string]any{"name": "History B.V.", "city": "Keytown"}}})
}

func (k *keyHistory) signJWTPresentation(id *khIdentity, key string, creds []json.RawMessage) json.RawMessage {
	vp := map[string]any{"@context": []string{"https://www.w3.org/2018/credentials/v1"}, "type": "VerifiablePresentation", "holder": id.did}
	if len(creds) > 0 {
		vp["verifiableCredential"] = creds
	}
	claims := map[string]any{"iss": id.did, "sub": id.did, "jti": k.credentialID(id), "nbf": k.back.Unix(), "exp": k.back.Add(100 * time.Hour).Unix(), "vp": vp}
	tok, err := k.ks.SignJWT(k.ctx(), claims, map[string]any{"typ": "JWT"}, id.kid[key])
	if err != nil {
		k.r.Fatalf("key history: sign JWT presentation with %s of %s: %v", key, id.method, err)
	}
	b, _ := json.Marshal(tok)
	return b
}

func (k *keyHistory) signLDPresentation(id *khIdentity, key string, creds []json.RawMessage) json.RawMessage {
	doc := map[string]any{"@context": []string{"https://www.w3.org/2018/credentials/v1"}, "type": "VerifiablePresentation", "holder": id.did}
	if len(creds) > 0 {
		doc["verifiableCredential"] = creds
	}
	return k.signLD(id, key, doc)
}

// harnessArtefacts: credentials and presentations signed with the named key of the node, carrying dates before the DID document existed.
func (k *keyHistory) harnessArtefacts(id *khIdentity, key string) {
	k.add(id, &khArtefact{name: "vc-jwt/" + key + "-backdated", kind: "vc", format: "jwt", keys: []string{key}, doc: k.signJWTCredential(id, key, k.holder.DID), notBefore: k.back})
	k.add(id, &khArtefact{name: "vc-ldp/" + key + "-backdated", kind: "vc", format: "ldp", keys: []string{key}, doc: k.signLDCredential(id, key, k.holder.DID), notBefore: k.back})
	if key != "key1" || k.r.Thorough() { // key 1 presentations: the wallet's own (nodeArtefacts)
		// a JWT credential issued by the holder itself rides on the presentation's signature (same key here); the JSON-LD one is checked on its own
		k.add(id, &khArtefact{name: "vp-jwt/" + key + "-backdated", kind: "vp", format: "jwt", keys: []string{key},
			doc: k.signJWTPresentation(id, key, []json.RawMessage{k.signJWTCredential(id, key, id.did)}), notBefore: k.back})
		k.add(id, &khArtefact{name: "vp-ldp/" + key + "-backdated", kind: "vp", format: "ldp", keys: []string{key, key},
			doc: k.signLDPresentation(id, key, []json.RawMessage{k.signLDCredential(id, key, id.did)}), notBefore: k.back})
	}
	if k.r.Thorough() {
		k.add(id, &khArtefact{name: "vp-jwt/" + key + "-no-credentials", kind: "vp", format: "jwt", keys: []string{key}, doc: k.signJWTPresentation(id, key, nil), notBefore: k.back})
		k.add(id, &khArtefact{name: "vp-ldp/" + key + "-no-credentials", kind: "vp", format: "ldp", keys: []string{key}, doc: k.signLDPresentation(id, key, nil), notBefore: k.back})
	}
}

// mixedArtefacts: presentation signed with one key over a credential signed with the other: valid only while BOTH are authorised.
// The embedded credentials are JSON-LD (they carry a proof object): a credential WITHOUT proof object whose issuer is the holder is a
// self-attested claim that the node accepts on the strength of the presentation's signature alone, so a JWT credential issued by the
// holder itself says nothing about its own signing key.
func (k *keyHistory) mixedArtefacts(id *khIdentity) {
	k.add(id, &khArtefact{name: "vp-jwt/key2-over-key1-ldp-credential", kind: "vp", format: "jwt", keys: []string{"key2", "key1"},
		doc: k.signJWTPresentation(id, "key2", []json.RawMessage{k.signLDCredential(id, "key1", id.did)}), notBefore: k.back})
	k.add(id, &khArtefact{name: "vp-ldp/key2-over-key1-ldp-credential", kind: "vp", format: "ldp", keys: []string{"key2", "key1"},
		doc: k.signLDPresentation(id, "key2", []json.RawMessage{k.signLDCredential(id, "key1", id.did)}), notBefore: k.back})
	k.add(id, &khArtefact{name: "vp-jwt/key1-over-key2-ldp-credential", kind: "vp", format: "jwt", keys: []string{"key1", "key2"},
		doc: k.signJWTPresentation(id, "key1", []json.RawMessage{k.signLDCredential(id, "key2", id.did)}), notBefore: k.back})
}

// ---- reference --------------------------------------------------------------------------------------------------------

// authorised: is the key listed as assertion method by the version in force at the validation time (nil = latest)?
func (id *khIdentity) authorised(key string, at *time.Time) bool {
	var cur *khVersion
	for i := range id.versions {
		if at == nil || !id.versions[i].ts.After(*at) {
			cur = &id.versions[i]
		}
	}
	return cur != nil && !cur.deactivated && cur.keys[key]
}

// timepoints strictly inside each version's interval, named after the key events they lie between.
func (k *keyHistory) timepoints(id *khIdentity) []khTimepoint {
	names := map[string]string{"key1-only": "before-key2-added", "key1+key2": "after-key2-added", "key2-only": "after-key1-removed", "deactivated": "after-deactivation"}
	var out []khTimepoint
	vs := id.versions
	if id.method == "nuts" {
		// the did:web resolver falls back to fetching the current document over HTTP for times before its own records start: no history to judge
		t := vs[0].ts.Add(-2 * time.Second)
		out = append(out, khTimepoint{"before-creation", &t})
	}
	for i, v := range vs {
		var t time.Time
		if i+1 < len(vs) {
			if vs[i+1].ts.Sub(v.ts) < 2*time.Second {
				k.r.Inconclusive(fmt.Sprintf("key history: versions %s and %s of the %s document are recorded less than two seconds apart", v.name, vs[i+1].name, id.method))
				continue
			}
			t = vs[i+1].ts.Add(-time.Second)
		} else {
			// open-ended interval: any time after its start; take one that also lies inside every artefact's own window
			t = v.ts.Add(time.Second)
			for _, a := range id.arts {
				if a.notBefore.After(t) {
					t = a.notBefore
				}
			}
		}
		out = append(out, khTimepoint{names[v.name], &t})
	}
	return append(out, khTimepoint{"now", nil})
}

// ---- observation ------------------------------------------------------------------------------------------------------

type khVerdict struct {
	valid bool
	msg   string
	err   error
}

// viaAPI verifies through POST /internal/vcr/v2/verifier/vp; credentials travel inside a presentation of the did:jwk holder.
func (k *keyHistory) viaAPI(a *khArtefact, at *time.Time) khVerdict {
	doc := a.doc
	if a.kind == "vc" {
		doc = wrapInPresentation(k.holder, k.back, k.back.Add(100*time.Hour), a.doc)
	}
	validAt := ""
	if at != nil {
		validAt = at.UTC().Format(time.RFC3339)
	}
	ok, msg, err := verify(k.n, "vp", doc, validAt)
	return khVerdict{ok, msg, err}
}

// wrapInPresentation: a JWT presentation of the credential by its subject, a harness-owned did:jwk holder.
func wrapInPresentation(h *iamflow.Holder, nbf, exp time.Time, cred json.RawMessage) json.RawMessage {
	wrapMu.Lock()
	wrapSerial++
	jti := fmt.Sprintf("%s#wrap-%d", h.DID, wrapSerial)
	wrapMu.Unlock()
	claims := map[string]any{"iss": h.DID, "sub": h.DID, "jti": jti, "nbf": nbf.Unix(), "exp": exp.Unix(),
		"vp": map[string]any{"@context": []string{"https://www.w3.org/2018/credentials/v1"}, "type": "VerifiablePresentation", "holder": h.DID, "verifiableCredential": []json.RawMessage{cred}}}
	b, _ := json.Marshal(h.SignJWT(map[string]any{"alg": "ES256", "typ": "JWT", "kid": h.KID}, claims))
	return b
}

var (
	wrapMu     sync.Mutex
	wrapSerial int
)

// viaGo verifies through the verifier's Go API (Verify / VerifyVP with validAt), the way the node's own flows call it.
func (k *keyHistory) viaGo(a *khArtefact, at *time.Time) (v khVerdict) {
	defer func() {
		if p := recover(); p != nil {
			v = khVerdict{false, fmt.Sprintf("panic: %v", p), fmt.Errorf("panic: %v", p)}
		}
	}()
	raw := string(a.doc)
	var str string
	if json.Unmarshal(a.doc, &str) == nil {
		raw = str
	}
	if a.kind == "vc" {
		cred, err := vc.ParseVerifiableCredential(raw)
		if err != nil {
			return khVerdict{false, "", fmt.Errorf("harness credential does not parse: %w", err)}
		}
		if err := k.vcr.Verifier().Verify(*cred, true, true, at); err != nil {
			return khVerdict{false, err.Error(), nil}
		}
		return khVerdict{true, "", nil}
	}
	pres, err := vc.ParseVerifiablePresentation(raw)
	if err != nil {
		return khVerdict{false, "", fmt.Errorf("harness presentation does not parse: %w", err)}
	}
	if _, err := k.vcr.Verifier().VerifyVP(*pres, true, false, at); err != nil {
		return khVerdict{false, err.Error(), nil}
	}
	return khVerdict{true, "", nil}
}

type khCase struct {
	id    *khIdentity
	a     *khArtefact
	tp    khTimepoint
	route string
	stage string
}

// judge returns false when an artefact whose keys are authorised at the validation time was refused.
func (k *keyHistory) judge(c khCase, deactivated bool) (acceptedAsExpected bool) {
	acceptedAsExpected = true
	r := k.r
	var v khVerdict
	if c.route == "api" {
		v = k.viaAPI(c.a, c.tp.at)
	} else {
		v = k.viaGo(c.a, c.tp.at)
	}
	if v.err != nil {
		if strings.HasPrefix(v.err.Error(), "panic:") {
			r.Violation("C01/grid/key-history/panic/verifier", "verifier panicked: "+v.err.Error(), map[string]any{"artefact": c.a.name, "document": c.a.doc})
			return
		}
		r.Inconclusive("key history: " + v.err.Error())
		return
	}
	want := true
	for _, key := range c.a.keys {
		want = want && c.id.authorised(key, c.tp.at)
	}
	// case = (method, artefact, stage, time point, route); violation key = (method, time point, kind-format, direction)
	tp := c.tp.name
	if c.stage != "" {
		tp = c.stage + "-" + c.tp.name
	}
	name := fmt.Sprintf("key-history/%s/%s/%s/%s", c.id.method, c.a.name, tp, c.route)
	key := fmt.Sprintf("C01/grid/key-history/%s/%s/%s-%s", c.id.method, tp, c.a.kind, c.a.format)
	r.Case("grid/"+name, true)
	r.Count("grid_cases", 1)
	r.Count("key_history_cases", 1)
	r.Distinct("key_history_shapes", fmt.Sprintf("%s/%s/%s/want=%v", c.id.method, c.a.format, c.tp.name, want))
	if want {
		r.Count("key_history_reference_valid", 1)
	} else {
		r.Count("key_history_reference_invalid", 1)
	}
	witness := func() map[string]any {
		var vs []map[string]any
		for _, ver := range c.id.versions {
			vs = append(vs, map[string]any{"version": ver.name, "recorded": ver.ts.UTC().Format(time.RFC3339), "assertionKeys": ver.keys, "deactivated": ver.deactivated})
		}
		at := "none (now)"
		if c.tp.at != nil {
			at = c.tp.at.UTC().Format(time.RFC3339)
		}
		return map[string]any{"artefact": c.a.name, "did": c.id.did, "keys": c.id.kid, "versions": vs, "signedWith": c.a.keys, "validAt": at, "route": c.route, "document": c.a.doc, "message": v.msg}
	}
	switch {
	case v.valid == want:
	case v.valid:
		r.Violation(key+"/accepted-unauthorised", fmt.Sprintf("%s (signed with %v of a did:%s identity) verifies at validation time %q via %s although the DID document version in force then does not authorise the key(s)",
			c.a.name, c.a.keys, c.id.method, tp, c.route), witness())
	case deactivated && c.tp.at != nil:
		// historical validation time of a signer that has been deactivated since: the statement does not demand acceptance
		r.Unspecified("key-history/historical-time-of-deactivated-signer-refused")
	default:
		acceptedAsExpected = false
		r.Violation(key+"/refused-authorised", fmt.Sprintf("%s (signed with %v of a did:%s identity) is refused at validation time %q via %s although the DID document version in force then authorises the key(s): %s",
			c.a.name, c.a.keys, c.id.method, tp, c.route, v.msg), witness())
	}
	return
}

func (k *keyHistory) runCases(cases []khCase, deactivated bool) (refusedThoughAuthorised int) {
	var wg sync.WaitGroup
	var mu sync.Mutex
	ch := make(chan khCase)
	for i := 0; i < 4; i++ {
		wg.Add(1)
		go func() {
			defer wg.Done()
			for c := range ch {
				if !k.judge(c, deactivated) {
					mu.Lock()
					refusedThoughAuthorised++
					mu.Unlock()
				}
			}
		}()
	}
	for _, c := range cases {
		ch <- c
	}
	close(ch)
	wg.Wait()
	return
}

// stageNow: what was made in this stage (thorough: everything made so far) verifies now, its keys being authorised by the current
// version: calibration of the harness-signed artefacts, round trip of the node-produced ones, while the history is still growing.
func (k *keyHistory) stageNow(stage string) {
	var cases []khCase
	for _, id := range k.ids {
		for i, a := range id.arts {
			if i < id.staged && !k.r.Thorough() {
				continue
			}
			cases = append(cases, khCase{id: id, a: a, tp: khTimepoint{"now", nil}, route: "api", stage: stage})
		}
		id.staged = len(id.arts)
	}
	if k.runCases(cases, false) > 0 {
		// an artefact that does not even verify while its keys are current would make every "refused" below meaningless
		k.abort("artefacts do not verify while their keys are current (see violations); later stages skipped")
	}
}

// grid: every artefact x every time point x route. Quick tier: after the deactivation only the time points with a firm reference
// (after the deactivation, now); the Go API route for credentials at explicit validation times (the API route covers "now").
func (k *keyHistory) grid(deactivated bool) {
	var cases []khCase
	for _, id := range k.ids {
		tps := k.timepoints(id)
		if deactivated && !k.r.Thorough() && len(tps) > 2 {
			tps = tps[len(tps)-2:]
		}
		for _, a := range id.arts {
			for _, tp := range tps {
				if tp.at != nil && tp.at.Before(a.notBefore) {
					k.r.Count("key_history_skipped_outside_artefact_dates", 1)
					continue
				}
				routes := []string{"api"}
				if (a.kind == "vc" && !deactivated && tp.at != nil) || k.r.Thorough() {
					routes = append(routes, "go")
				}
				for _, route := range routes {
					st := ""
					if deactivated {
						st = "deactivated"
					}
					cases = append(cases, khCase{id: id, a: a, tp: tp, route: route, stage: st})
				}
			}
		}
	}
	k.runCases(cases, deactivated)
}
