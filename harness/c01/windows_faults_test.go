// Validity windows and lookup faults (C01).
//
// (A) "lies within its validity window": genuinely signed documents (harness-owned did:jwk / hosted did:web identities, and the node's own
// wallet through its Go API) whose window is [start, end] with start/end taken from an alphabet that contains the EXTREME and BOUNDARY
// instants a builder can emit (Go zero time 0001-01-01, the day after, the Unix epoch and the second after, a year ago, an hour ago, in
// an hour, 9999-12-31, absent), placed in every member that carries a window: proof.created/proof.expires of JSON-LD presentations and
// credentials, issuanceDate/expirationDate of JSON-LD credentials, nbf/exp of JWT presentations and credentials. Each document is
// verified at several validation times (none, in two hours, half an hour ago, two years ago) through the verifier API and the Go API.
// Reference: inside the window iff start <= at <= end (every distance to a bound is >= 30 minutes, the 5 s skew never decides).
// Refutation: a document reported valid at a validation time outside its window. Refusals inside the window are counted only
// (the documents are harness-signed; "valid only if").
//
// (B) "is not revoked" / "signed by a key the issuer's DID document authorises" when the LOOKUP that has to establish the clause fails:
// a third in-process node (did:nuts) issues credentials in both formats, revokes some over the network (the revocation reaches the
// verifier's revocation store), and then the revocation lookup of a revoked credential fails at the store seam (hook point
// vcr.verifier.store.GetRevocations: I/O error, deadline, database not open, transient first lookup; finally the store is really closed).
// Routes: credential API, presentation API with the revoked credential at several positions, Verifier.Verify the way Resolve/Search call
// it, VCR.Resolve of a published credential. Refutation: a credential the node itself had reported revoked is reported valid while the
// lookup fails, or after the fault is gone. On the main node the did:web document of a NEVER-BEFORE-RESOLVED issuer cannot be obtained
// (HTTP 500/404, transport error, garbage, empty, truncated, another party's document): its credentials must not be reported valid.
package c01

import (
	"context"
	"encoding/json"
	"errors"
	"fmt"
	"io"
	"net/http"
	"net/url"
	"sort"
	"strings"
	"sync"
	"testing"
	"time"

	ssi "github.com/nuts-foundation/go-did"
	"github.com/nuts-foundation/go-did/did"
	"github.com/nuts-foundation/go-did/vc"
	"github.com/nuts-foundation/nuts-node/audit"
	"github.com/nuts-foundation/nuts-node/vcr"
	vcrholder "github.com/nuts-foundation/nuts-node/vcr/holder"
	"github.com/nuts-foundation/nuts-node/vcr/signature/proof"
	"verif/lib/ev"
	"verif/lib/iamflow"
	"verif/lib/node"
	"verif/lib/sched"
)

// ---- (A) validity windows ----------------------------------------------------------------------------------------------------

type vwInstant struct {
	name   string
	t      time.Time
	absent bool
}

type vwDoc struct {
	shape  string // stable name of the member pair that carries the window
	kind   string // vc | vp
	format string // ldp | jwt
	s, e   vwInstant
	doc    json.RawMessage
}

func vwFmt(t time.Time) string { return t.UTC().Format(time.RFC3339) }

func goVerify(eng vcr.VCR, kind string, doc json.RawMessage, at *time.Time) (ok bool, msg string) {
	defer func() {
		if p := recover(); p != nil {
			ok, msg = false, fmt.Sprintf("panic: %v", p)
		}
	}()
	raw := string(doc)
	var str string
	if json.Unmarshal(doc, &str) == nil {
		raw = str
	}
	if kind == "vc" {
		cred, err := vc.ParseVerifiableCredential(raw)
		if err != nil {
			return false, "unparsable: " + err.Error()
		}
		if err := eng.Verifier().Verify(*cred, true, true, at); err != nil {
			return false, err.Error()
		}
		return true, ""
	}
	pres, err := vc.ParseVerifiablePresentation(raw)
	if err != nil {
		return false, "unparsable: " + err.Error()
	}
	if _, err := eng.Verifier().VerifyVP(*pres, true, true, at); err != nil {
		return false, err.Error()
	}
	return true, ""
}

func validityWindows(r *ev.Run, n *node.Node, hosted *didHost, walletDID string) {
	eng := node.Engine[vcr.VCR](n)
	if eng == nil {
		r.Fatalf("validity windows: VCR engine not found")
	}
	now := time.Now().Truncate(time.Second)
	hour, year := time.Hour, 8760*time.Hour
	zero := vwInstant{name: "zero-time", t: time.Time{}}
	dayTwo := vwInstant{name: "zero-time-plus-day", t: time.Time{}.Add(24 * hour)}
	epoch := vwInstant{name: "epoch", t: time.Unix(0, 0)}
	starts := []vwInstant{zero, epoch, {name: "year-ago", t: now.Add(-year)}, {name: "hour-ago", t: now.Add(-hour)}, {name: "in-an-hour", t: now.Add(hour)}}
	ends := []vwInstant{{name: "absent", absent: true}, zero, dayTwo, epoch, {name: "epoch-plus-second", t: time.Unix(1, 0)}, {name: "year-ago", t: now.Add(-year)},
		{name: "hour-ago", t: now.Add(-hour)}, {name: "in-an-hour", t: now.Add(hour)}, {name: "year-9999", t: time.Date(9999, 12, 31, 23, 59, 59, 0, time.UTC)}}
	type vwAt struct {
		name string
		at   *time.Time
	}
	tp := func(d time.Duration) *time.Time { t := now.Add(d); return &t }
	ats := []vwAt{{"now", nil}, {"in-2h", tp(2 * hour)}, {"30m-ago", tp(-30 * time.Minute)}, {"2y-ago", tp(-2 * year)}}

	holder := iamflow.NewHolder() // did:jwk: presenter and credential subject
	webIss := hosted.identity("did:web:issuer.example:window", "https://issuer.example/window/did.json")
	jwkIss := iamflow.NewHolder()
	var serial int
	var serialMu sync.Mutex
	credID := func(iss *iamflow.Holder) string {
		serialMu.Lock()
		defer serialMu.Unlock()
		serial++
		return fmt.Sprintf("%s#%08d-0000-4000-8000-0000000000f1", iss.DID, serial)
	}
	ctxs := []string{"https://www.w3.org/2018/credentials/v1", "https://nuts.nl/credentials/v1"}
	types := []string{"VerifiableCredential", "NutsOrganizationCredential"}
	subj := map[string]any{"id": holder.DID, "organization": map[string]any{"name": "Window B.V.", "city": "Timetown"}}
	always := time.Date(1971, 1, 1, 0, 0, 0, 0, time.UTC) // a start that lies before every validation time used
	ldCred := func(iss *iamflow.Holder, issuance vwInstant, expiry vwInstant, opts proof.ProofOptions) (json.RawMessage, error) {
		doc := map[string]any{"@context": ctxs, "id": credID(iss), "type": types, "issuer": iss.DID, "issuanceDate": vwFmt(issuance.t), "credentialSubject": subj}
		if !expiry.absent {
			doc["expirationDate"] = vwFmt(expiry.t)
		}
		return iss.SignLDDoc(n, doc, opts)
	}
	ldVP := func(creds []json.RawMessage, opts proof.ProofOptions) (json.RawMessage, error) {
		doc := map[string]any{"@context": []string{"https://www.w3.org/2018/credentials/v1"}, "type": "VerifiablePresentation", "holder": holder.DID}
		if len(creds) > 0 {
			doc["verifiableCredential"] = creds
		}
		return holder.SignLDDoc(n, doc, opts)
	}
	popts := func(s, e vwInstant) proof.ProofOptions {
		o := proof.ProofOptions{Created: s.t}
		if !e.absent {
			t := e.t
			o.Expires = &t
		}
		return o
	}
	jwtClaims := func(iss *iamflow.Holder, sub string, s, e vwInstant) map[string]any {
		c := map[string]any{"iss": iss.DID, "sub": sub, "jti": credID(iss), "nbf": s.t.Unix()}
		if !e.absent {
			c["exp"] = e.t.Unix()
		}
		return c
	}
	hdr := func(h *iamflow.Holder) map[string]any { return map[string]any{"alg": "ES256", "typ": "JWT", "kid": h.KID} }
	longCred, err := ldCred(webIss, vwInstant{t: always}, vwInstant{absent: true}, proof.ProofOptions{Created: always})
	if err != nil {
		r.Fatalf("validity windows: sign credential: %v", err)
	}

	// shapes: which member pair carries [start, end]; proofWindow: start goes into proof.created (a zero 'created' means "now" to the signer)
	type shape struct {
		name        string
		kind, fmt   string
		proofWindow bool
		build       func(i int, s, e vwInstant) (json.RawMessage, error)
	}
	pickIss := func(i int) *iamflow.Holder {
		if i%2 == 0 {
			return webIss
		}
		return jwkIss
	}
	shapes := []shape{
		{"vp-ldp-proof", "vp", "ldp", true, func(i int, s, e vwInstant) (json.RawMessage, error) { return ldVP(nil, popts(s, e)) }},
		{"vp-ldp-1vc-proof", "vp", "ldp", true, func(i int, s, e vwInstant) (json.RawMessage, error) {
			return ldVP([]json.RawMessage{longCred}, popts(s, e))
		}},
		{"vc-ldp-proof", "vc", "ldp", true, func(i int, s, e vwInstant) (json.RawMessage, error) {
			return ldCred(pickIss(i), vwInstant{t: always}, vwInstant{absent: true}, popts(s, e))
		}},
		{"vc-ldp-dates", "vc", "ldp", false, func(i int, s, e vwInstant) (json.RawMessage, error) {
			return ldCred(pickIss(i), s, e, proof.ProofOptions{Created: always})
		}},
		{"vp-jwt-claims", "vp", "jwt", false, func(i int, s, e vwInstant) (json.RawMessage, error) {
			c := jwtClaims(holder, holder.DID, s, e)
			c["vp"] = map[string]any{"@context": []string{"https://www.w3.org/2018/credentials/v1"}, "type": "VerifiablePresentation", "holder": holder.DID, "verifiableCredential": []json.RawMessage{longCred}}
			return json.Marshal(holder.SignJWT(hdr(holder), c))
		}},
		{"vc-jwt-claims", "vc", "jwt", false, func(i int, s, e vwInstant) (json.RawMessage, error) {
			iss := pickIss(i)
			c := jwtClaims(iss, holder.DID, s, e)
			c["vc"] = map[string]any{"@context": ctxs, "type": types, "credentialSubject": subj}
			return json.Marshal(iss.SignJWT(hdr(iss), c))
		}},
	}

	// (start, end) pairs: quick = every end with two starts (an hour ago + one seeded extreme), every start with {absent, in an hour}
	rnd := r.Rand("validity-windows")
	type pair struct{ s, e vwInstant }
	pairsFor := func(sh shape) []pair {
		ss := append([]vwInstant{}, starts...)
		if sh.proofWindow {
			ss[0] = dayTwo // proof.created = zero time is replaced by the signing time
		}
		var out []pair
		seen := map[string]bool{}
		add := func(s, e vwInstant) {
			if k := s.name + "|" + e.name; !seen[k] {
				seen[k] = true
				out = append(out, pair{s, e})
			}
		}
		if r.Thorough() {
			for _, s := range ss {
				for _, e := range ends {
					add(s, e)
				}
			}
			return out
		}
		extreme := ss[rnd.Intn(3)]
		for _, e := range ends {
			add(ss[3], e)
			add(extreme, e)
		}
		for _, s := range ss {
			add(s, ends[0])
			add(s, ends[7])
		}
		return out
	}

	type job struct {
		sh shape
		i  int
		p  pair
	}
	var jobs []job
	for _, sh := range shapes {
		for i, p := range pairsFor(sh) {
			jobs = append(jobs, job{sh, i, p})
		}
	}
	var accMu sync.Mutex
	acceptedInside := map[string]int{}
	refusedInside := map[string]string{}
	judge := func(d vwDoc, at vwAt, route string, ok bool, msg string) {
		ref := now
		if at.at != nil {
			ref = *at.at
		}
		before := ref.Before(d.s.t)
		after := !d.e.absent && ref.After(d.e.t)
		inside := !before && !after
		r.Case(fmt.Sprintf("window/%s/start=%s/end=%s/at=%s/%s", d.shape, d.s.name, d.e.name, at.name, route), true)
		r.Count("grid_cases", 1)
		r.Count("window_cases", 1)
		r.Distinct("window_shapes", d.shape+"/"+d.s.name+"/"+d.e.name)
		switch {
		case ok && !inside:
			which := "before-start"
			if after {
				which = "after-end"
			}
			r.Violation("C01/window/"+d.shape+"/"+which, fmt.Sprintf("%s %s whose window is [%s (%s), %s (%s)] is reported valid at %s (%s), route %s",
				d.format, d.kind, d.s.name, vwFmt(d.s.t), d.e.name, map[bool]string{true: "-", false: vwFmt(d.e.t)}[d.e.absent], at.name, vwFmt(ref), route),
				map[string]any{"shape": d.shape, "start": d.s.name, "end": d.e.name, "validAt": at.name, "route": route, "document": d.doc})
		case ok:
			r.Count("window_inside_accepted", 1)
			accMu.Lock()
			acceptedInside[d.shape]++
			accMu.Unlock()
		case inside:
			r.Count("window_inside_refused", 1)
			accMu.Lock()
			if len(refusedInside) < 12 {
				refusedInside[d.shape+"/"+d.s.name+"/"+d.e.name] = fmt.Sprintf("%.160s", msg)
			}
			accMu.Unlock()
		default:
			r.Count("window_outside_refused", 1)
		}
	}
	wrapFor := func(cred json.RawMessage) json.RawMessage {
		return wrapInPresentation(holder, time.Date(1980, 1, 1, 0, 0, 0, 0, time.UTC), now.Add(50*year), cred)
	}
	run := func(j job) {
		doc, err := j.sh.build(j.i, j.p.s, j.p.e)
		if err != nil {
			// the signer refuses to produce it: nothing to verify
			r.Count("window_unsignable", 1)
			return
		}
		d := vwDoc{shape: j.sh.name, kind: j.sh.kind, format: j.sh.fmt, s: j.p.s, e: j.p.e, doc: doc}
		if d.format == "ldp" && j.sh.proofWindow && !j.p.e.absent && !strings.Contains(string(doc), `"expires":"`+vwFmt(j.p.e.t)+`"`) {
			r.Fatalf("validity windows: signed %s does not carry proof.expires %s: %.300s", d.shape, vwFmt(j.p.e.t), doc)
		}
		drop := -1
		if !r.Thorough() {
			drop = 1 + (j.i+int(r.Seed()%3))%3 // quick: "now" plus two of the three explicit validation times
		}
		for ai, at := range ats {
			if ai == drop {
				continue
			}
			validAt := ""
			if at.at != nil {
				validAt = vwFmt(*at.at)
			}
			if d.kind == "vp" {
				ok, msg, err := verify(n, "vp", d.doc, validAt)
				if err != nil {
					r.Inconclusive("validity windows: verify transport error: " + err.Error())
					continue
				}
				judge(d, at, "api", ok, msg)
				if r.Thorough() || (j.i+ai)%3 == 0 {
					ok, msg := goVerify(eng, "vp", d.doc, at.at)
					judge(d, at, "go", ok, msg)
				}
				continue
			}
			ok, msg := goVerify(eng, "vc", d.doc, at.at)
			judge(d, at, "go", ok, msg)
			if at.at == nil {
				if ok, msg, err := verify(n, "vc", d.doc, ""); err == nil {
					judge(d, at, "api-vc", ok, msg)
				}
			}
			if r.Thorough() || (j.i+ai)%2 == 0 {
				if ok, msg, err := verify(n, "vp", wrapFor(d.doc), validAt); err == nil {
					judge(d, at, "api-in-vp", ok, msg)
				}
			}
		}
	}
	var wg sync.WaitGroup
	ch := make(chan job)
	for i := 0; i < 6; i++ {
		wg.Add(1)
		go func() {
			defer wg.Done()
			for j := range ch {
				run(j)
			}
		}()
	}
	for _, j := range jobs {
		ch <- j
	}
	close(ch)
	wg.Wait()

	// the node's own wallet (Go API, the way the node's flows call it) with the expiry a caller can hand it
	if signer, err := did.ParseDID(walletDID); err == nil {
		actx := audit.Context(context.Background(), "verif-harness", "verif", "ValidityWindows")
		for _, format := range []string{"ldp_vp", "jwt_vp"} {
			for _, e := range []vwInstant{zero, epoch, {name: "hour-ago", t: now.Add(-hour)}, {name: "in-an-hour", t: now.Add(hour)}} {
				exp := e.t
				pres, err := eng.Wallet().BuildPresentation(actx, nil, vcrholder.PresentationOptions{ProofOptions: proof.ProofOptions{Expires: &exp}, Format: format}, signer, false)
				if err != nil || pres == nil {
					r.Count("window_unsignable", 1)
					continue
				}
				b, _ := json.Marshal(pres)
				d := vwDoc{shape: "vp-" + strings.TrimSuffix(format, "_vp") + "-wallet", kind: "vp", format: strings.TrimSuffix(format, "_vp"), s: vwInstant{name: "signing-time", t: now.Add(-time.Minute)}, e: e, doc: b}
				for _, at := range []vwAt{ats[0], ats[1]} {
					validAt := ""
					if at.at != nil {
						validAt = vwFmt(*at.at)
					}
					if ok, msg, err := verify(n, "vp", b, validAt); err == nil {
						judge(d, at, "api", ok, msg)
					}
				}
			}
		}
	}

	// calibration (after the matrix): every shape had documents accepted inside their window, otherwise the refusals above mean nothing
	var dead []string
	for _, sh := range shapes {
		if acceptedInside[sh.name] == 0 {
			dead = append(dead, sh.name)
		}
	}
	if len(dead) > 0 {
		r.Fatalf("validity windows: no document of shape(s) %v was accepted inside its window; refusals: %v", dead, refusedInside)
	}
	r.Extra("window_inside_refused_examples", refusedInside)
	r.Sample(map[string]any{"scenario": "validity-windows", "cases": r.Get("window_cases"), "inside_accepted": r.Get("window_inside_accepted"),
		"inside_refused": r.Get("window_inside_refused"), "outside_refused": r.Get("window_outside_refused"), "shapes": r.DistinctN("window_shapes")})

	issuerDocumentFaults(r, n, hosted, holder)
}

// ---- (B1) the issuer's DID document cannot be obtained ---------------------------------------------------------------------------

func faultyResponse(req *http.Request, kind string, body, alt []byte) (*http.Response, error) {
	mk := func(status int, b []byte) (*http.Response, error) {
		return &http.Response{StatusCode: status, Status: fmt.Sprintf("%d %s", status, http.StatusText(status)), Proto: "HTTP/1.1", ProtoMajor: 1, ProtoMinor: 1,
			Header: http.Header{"Content-Type": {"application/json"}}, Body: io.NopCloser(strings.NewReader(string(b))), ContentLength: int64(len(b)), Request: req}, nil
	}
	switch kind {
	case "transport-error":
		return nil, errors.New("dial tcp: connection refused (injected by the harness)")
	case "http-500":
		return mk(500, []byte(`{"error":"internal"}`))
	case "http-404":
		return mk(404, nil)
	case "garbage-body":
		return mk(200, []byte("<html>not a DID document</html>"))
	case "empty-body":
		return mk(200, nil)
	case "truncated-body":
		return mk(200, body[:len(body)/2])
	case "other-document":
		return mk(200, alt)
	}
	return mk(200, body)
}

func (h *didHost) setFault(u, kind, altURL string) {
	h.mu.Lock()
	defer h.mu.Unlock()
	if h.faults == nil {
		h.faults, h.faultAlt = map[string]string{}, map[string]string{}
	}
	if kind == "" {
		delete(h.faults, u)
		delete(h.faultAlt, u)
		return
	}
	h.faults[u], h.faultAlt[u] = kind, altURL
}

func issuerDocumentFaults(r *ev.Run, n *node.Node, hosted *didHost, subject *iamflow.Holder) {
	now := time.Now()
	other := hosted.identity("did:web:issuer.example:bystander", "https://issuer.example/bystander/did.json")
	_ = other
	for i, kind := range []string{"transport-error", "http-500", "http-404", "garbage-body", "empty-body", "truncated-body", "other-document"} {
		// a fresh identity per fault: the node has never resolved it, so nothing it may legitimately remember can establish the key
		name := fmt.Sprintf("flaky%d", i)
		u := "https://issuer.example/" + name + "/did.json"
		iss := hosted.identity("did:web:issuer.example:"+name, u)
		subj := map[string]any{"id": subject.DID, "organization": map[string]any{"name": "Flaky B.V.", "city": "Faultville"}}
		ctxs := []string{"https://www.w3.org/2018/credentials/v1", "https://nuts.nl/credentials/v1"}
		types := []string{"VerifiableCredential", "NutsOrganizationCredential"}
		jwtCred, _ := json.Marshal(iss.SignJWT(map[string]any{"alg": "ES256", "typ": "JWT", "kid": iss.KID}, map[string]any{"iss": iss.DID, "sub": subject.DID, "jti": iss.DID + "#c-1",
			"nbf": now.Add(-time.Minute).Unix(), "vc": map[string]any{"@context": ctxs, "type": types, "credentialSubject": subj}}))
		ldCred, err := iss.SignLDDoc(n, map[string]any{"@context": ctxs, "id": iss.DID + "#c-2", "type": types, "issuer": iss.DID,
			"issuanceDate": vwFmt(now.Add(-time.Minute)), "credentialSubject": subj}, proof.ProofOptions{Created: now.Add(-time.Minute)})
		if err != nil {
			r.Fatalf("issuer document faults: sign: %v", err)
		}
		hosted.setFault(u, kind, "https://issuer.example/bystander/did.json")
		for format, cred := range map[string]json.RawMessage{"jwt": jwtCred, "ldp": ldCred} {
			for _, route := range []string{"vc", "vp"} {
				doc := cred
				if route == "vp" {
					doc = wrapInPresentation(subject, now.Add(-time.Minute), now.Add(time.Hour), cred)
				}
				ok, msg, err := verify(n, route, doc, "")
				if err != nil {
					r.Inconclusive("issuer document faults: verify transport error: " + err.Error())
					continue
				}
				r.Case("grid/fault/issuer-document-lookup/"+kind+"/"+format+"/"+route, true)
				r.Count("grid_cases", 1)
				r.Count("issuer_document_fault_cases", 1)
				if ok {
					r.Violation("C01/fault/issuer-document-lookup/"+format, fmt.Sprintf("%s credential (route %s) of an issuer whose DID document the node has never obtained (fault: %s) is reported valid: %s", format, route, kind, msg),
						map[string]any{"fault": kind, "route": route, "credential": cred})
				}
			}
		}
		hosted.setFault(u, "", "")
		// after the fault: the same credentials verify (observed; the documents are harness-signed)
		for _, cred := range []json.RawMessage{jwtCred, ldCred} {
			if ok, _, err := verify(n, "vc", cred, ""); err == nil && ok {
				r.Count("issuer_document_fault_recovered", 1)
			} else {
				r.Count("issuer_document_fault_not_recovered", 1)
			}
		}
	}
	hosted.mu.Lock()
	faulted := hosted.faulted
	hosted.mu.Unlock()
	r.Extra("issuer_document_faults_injected", faulted)
	if faulted == 0 {
		r.Fatalf("issuer document faults: no request for a DID document was answered with a fault")
	}
	if r.Get("issuer_document_fault_recovered") == 0 {
		r.Fatalf("issuer document faults: no credential verified after the fault was removed (the workload proves nothing)")
	}
}

// ---- (B2) the revocation lookup fails ----------------------------------------------------------------------------------------------

const revLookupHook = "vcr.verifier.store.GetRevocations"

type revFaults struct {
	mu        sync.Mutex
	targets   map[string]bool
	err       error
	remaining int // < 0: every lookup
	injected  int
	seen      int
}

func (f *revFaults) onHook(name string, args []any) error {
	if name != revLookupHook || len(args) == 0 {
		return nil
	}
	id, _ := args[0].(string)
	f.mu.Lock()
	defer f.mu.Unlock()
	f.seen++
	if f.err == nil || !f.targets[id] || f.remaining == 0 {
		return nil
	}
	if f.remaining > 0 {
		f.remaining--
	}
	f.injected++
	return f.err
}

func (f *revFaults) arm(err error, times int, ids ...string) {
	f.mu.Lock()
	defer f.mu.Unlock()
	f.targets = map[string]bool{}
	for _, id := range ids {
		f.targets[id] = true
	}
	f.err, f.remaining, f.injected = err, times, 0
}

func (f *revFaults) disarm() (injected int) {
	f.mu.Lock()
	defer f.mu.Unlock()
	injected = f.injected
	f.err, f.targets, f.injected = nil, nil, 0
	return
}

type lookupFaults struct {
	done chan struct{}
}

func (l *lookupFaults) wait(r *ev.Run) {
	select {
	case <-l.done:
	case <-time.After(10 * time.Minute):
		r.Inconclusive("revocation lookup faults: phase did not finish (watchdog)")
	}
}

// startLookupFaults boots the third node synchronously and runs the phase in the background.
func startLookupFaults(t *testing.T, r *ev.Run) *lookupFaults {
	n := node.Start(t, node.Options{DIDMethods: []string{"nuts"}, Env: map[string]string{"NUTS_INTERNALRATELIMITER": "false", "NUTS_PKI_DENYLIST_URL": ""}})
	l := &lookupFaults{done: make(chan struct{})}
	go func() {
		defer close(l.done)
		defer func() {
			if p := recover(); p != nil {
				r.Inconclusive(fmt.Sprintf("revocation lookup faults: harness panic: %v", p))
			}
		}()
		revocationLookupFaults(r, n)
	}()
	return l
}

func revocationLookupFaults(r *ev.Run, n *node.Node) {
	eng := node.Engine[vcr.VCR](n)
	if eng == nil {
		r.Fatalf("revocation lookup faults: VCR engine not found")
	}
	resp, err := node.Do("POST", n.Internal+"/internal/vdr/v2/subject", map[string]any{"subject": "revoker"}, nil)
	if err != nil || resp.Status != 200 {
		r.Fatalf("revocation lookup faults: create subject: %v %s", err, resp)
	}
	var created struct {
		Documents []struct {
			ID string `json:"id"`
		} `json:"documents"`
	}
	_ = resp.JSON(&created)
	if len(created.Documents) != 1 || !strings.HasPrefix(created.Documents[0].ID, "did:nuts:") {
		r.Fatalf("revocation lookup faults: expected one did:nuts document: %s", resp)
	}
	issuer := created.Documents[0].ID
	if resp, err := node.Do("POST", n.Internal+"/internal/vcr/v2/verifier/trust", map[string]any{"issuer": issuer, "credentialType": "NutsOrganizationCredential"}, nil); err != nil || resp.Status/100 != 2 {
		r.Fatalf("revocation lookup faults: trust: %v %s", err, resp)
	}
	subject := iamflow.NewHolder()
	type cred struct {
		name      string
		format    string
		published bool
		revoked   bool
		doc       json.RawMessage
		id        string
	}
	issue := func(name, format string, publish, revoke bool) *cred {
		body := map[string]any{"type": "NutsOrganizationCredential", "issuer": issuer, "format": format, "publishToNetwork": publish,
			"credentialSubject": map[string]any{"id": subject.DID, "organization": map[string]any{"name": "Revocable " + name, "city": "Lookuptown"}}}
		if publish {
			body["visibility"] = "public"
		}
		resp, err := node.Do("POST", n.Internal+"/internal/vcr/v2/issuer/vc", body, nil)
		if err != nil || resp.Status != 200 {
			r.Fatalf("revocation lookup faults: issue %s: %v %s", name, err, resp)
		}
		doc := json.RawMessage(strings.TrimSpace(string(resp.Body)))
		return &cred{name: name, format: format, published: publish, revoked: revoke, doc: doc, id: iamflow.CredentialID(doc)}
	}
	creds := []*cred{
		issue("x-ldp", "ldp_vc", false, true), issue("x-jwt", "jwt_vc", false, true), issue("x-ldp-published", "ldp_vc", true, true),
		issue("y-ldp", "ldp_vc", false, false), issue("y-jwt", "jwt_vc", false, false), issue("y-ldp-published", "ldp_vc", true, false),
	}
	byName := map[string]*cred{}
	for _, c := range creds {
		byName[c.name] = c
		if c.id == "" {
			r.Fatalf("revocation lookup faults: credential %s has no id: %.200s", c.name, c.doc)
		}
	}
	parse := func(c *cred) vc.VerifiableCredential {
		raw := string(c.doc)
		var s string
		if json.Unmarshal(c.doc, &s) == nil {
			raw = s
		}
		p, err := vc.ParseVerifiableCredential(raw)
		if err != nil {
			r.Fatalf("revocation lookup faults: parse %s: %v", c.name, err)
		}
		return *p
	}
	present := func(cs ...*cred) json.RawMessage {
		var docs []json.RawMessage
		for _, c := range cs {
			docs = append(docs, c.doc)
		}
		b, _ := json.Marshal(subject.SignVP(iamflow.VP{NotBefore: time.Now().Add(-time.Minute), Expires: time.Now().Add(time.Hour), Credentials: docs}))
		return b
	}
	type verdict struct {
		valid bool
		msg   string
	}
	// routes: how the node is asked about credential c
	routes := []struct {
		name string
		ok   func(c *cred) bool
		run  func(c *cred) (verdict, error)
	}{
		{"api-vc", func(*cred) bool { return true }, func(c *cred) (verdict, error) {
			ok, msg, err := verify(n, "vc", c.doc, "")
			return verdict{ok, msg}, err
		}},
		{"api-vp-alone", func(*cred) bool { return true }, func(c *cred) (verdict, error) {
			ok, msg, err := verify(n, "vp", present(c), "")
			return verdict{ok, msg}, err
		}},
		{"api-vp-last-of-2", func(*cred) bool { return true }, func(c *cred) (verdict, error) {
			ok, msg, err := verify(n, "vp", present(byName["y-ldp"], c), "")
			return verdict{ok, msg}, err
		}},
		{"api-vp-middle-of-3", func(*cred) bool { return true }, func(c *cred) (verdict, error) {
			ok, msg, err := verify(n, "vp", present(byName["y-jwt"], c, byName["y-ldp"]), "")
			return verdict{ok, msg}, err
		}},
		{"go-verify-no-signature", func(*cred) bool { return true }, func(c *cred) (v verdict, err error) {
			defer func() {
				if p := recover(); p != nil {
					err = fmt.Errorf("panic: %v", p)
				}
			}()
			if e := eng.Verifier().Verify(parse(c), false, false, nil); e != nil {
				return verdict{false, e.Error()}, nil
			}
			return verdict{true, ""}, nil
		}},
		{"go-resolve", func(c *cred) bool { return c.published }, func(c *cred) (v verdict, err error) {
			defer func() {
				if p := recover(); p != nil {
					err = fmt.Errorf("panic: %v", p)
				}
			}()
			got, e := eng.Resolve(ssi.MustParseURI(c.id), nil)
			if e != nil {
				return verdict{false, e.Error()}, nil
			}
			return verdict{got != nil, ""}, nil
		}},
	}

	// calibration 1: everything verifies on every route (published credentials have to arrive in the node's store first)
	deadline := time.Now().Add(30 * time.Second)
	for _, c := range creds {
		for _, rt := range routes {
			if !rt.ok(c) {
				continue
			}
			for {
				v, err := rt.run(c)
				if err == nil && v.valid {
					break
				}
				if time.Now().After(deadline) {
					r.Inconclusive(fmt.Sprintf("revocation lookup faults: fresh credential %s does not verify on route %s: %v %s", c.name, rt.name, err, v.msg))
					return
				}
				time.Sleep(100 * time.Millisecond)
			}
		}
	}
	// revoke the x credentials; the revocation travels over the network layer into the verifier's store
	for _, c := range creds {
		if !c.revoked {
			continue
		}
		if resp, err := node.Do("DELETE", n.Internal+"/internal/vcr/v2/issuer/vc/"+url.QueryEscape(c.id), nil, nil); err != nil || resp.Status/100 != 2 {
			r.Fatalf("revocation lookup faults: revoke %s: %v %s", c.name, err, resp)
		}
	}
	// calibration 2: the node itself reports every x credential revoked (this is the harness' reference for "revoked")
	deadline = time.Now().Add(30 * time.Second)
	for _, c := range creds {
		if !c.revoked {
			continue
		}
		for {
			v, err := routes[0].run(c)
			if err == nil && !v.valid && strings.Contains(v.msg, "revoked") {
				break
			}
			if time.Now().After(deadline) {
				r.Inconclusive(fmt.Sprintf("revocation lookup faults: revocation of %s did not reach the verifier: %v %+v", c.name, err, v))
				return
			}
			time.Sleep(100 * time.Millisecond)
		}
	}

	faults := &revFaults{}
	rec := &sched.Recorder{OnHook: faults.onHook}
	uninstall := rec.Install()
	defer uninstall()

	ioErr := errors.New("read verifier-store.db: input/output error (injected by the harness)")
	kinds := []struct {
		name  string
		err   error
		times int
	}{
		{"io-error", ioErr, -1},
		{"deadline-exceeded", fmt.Errorf("error while getting revocation by id: %w", context.DeadlineExceeded), -1},
		{"database-not-open", fmt.Errorf("error while getting revocation by id: %w", errors.New("database not open")), -1},
		{"transient-first-lookup", ioErr, 1},
	}
	observe := func(fault string, c *cred, rtName string, run func(c *cred) (verdict, error), injected func() int) {
		v, err := run(c)
		inj := injected()
		if err != nil {
			r.Inconclusive(fmt.Sprintf("revocation lookup faults: %s/%s/%s: %v", fault, c.name, rtName, err))
			return
		}
		r.Case("grid/fault/revocation-lookup/"+fault+"/"+c.name+"/"+rtName, true)
		r.Count("grid_cases", 1)
		r.Count("revocation_lookup_fault_cases", 1)
		r.Distinct("revocation_lookup_fault_shapes", fault+"/"+c.format+"/"+rtName)
		if inj == 0 {
			r.Inconclusive(fmt.Sprintf("revocation lookup faults: %s/%s/%s: the lookup was not reached, no fault injected", fault, c.name, rtName))
			return
		}
		r.Count("revocation_lookup_faults_injected", inj)
		switch {
		case c.revoked && v.valid:
			r.Violation("C01/fault/revocation-lookup/"+rtName, fmt.Sprintf("revoked %s credential (the node reported it revoked before) is reported valid on route %s while its revocation lookup fails (%s)", c.format, rtName, fault),
				map[string]any{"fault": fault, "route": rtName, "credential": c.id, "format": c.format, "faults_injected": inj})
		case c.revoked:
			r.Count("revocation_lookup_fault_revoked_refused", 1)
		case v.valid:
			r.Count("revocation_lookup_fault_unrevoked_accepted", 1)
		default:
			r.Count("revocation_lookup_fault_unrevoked_refused", 1) // revocation state unknown: refusing is the strict side
		}
	}
	healthy := func(stage string) {
		for _, c := range creds {
			for _, rt := range routes {
				if !rt.ok(c) {
					continue
				}
				v, err := rt.run(c)
				if err != nil {
					r.Inconclusive(fmt.Sprintf("revocation lookup faults: %s/%s/%s: %v", stage, c.name, rt.name, err))
					continue
				}
				r.Case("grid/fault/revocation-lookup/"+stage+"/"+c.name+"/"+rt.name, true)
				r.Count("grid_cases", 1)
				if c.revoked && v.valid {
					r.Violation("C01/fault/revocation-lookup/"+stage+"-revoked-accepted", fmt.Sprintf("revoked %s credential is reported valid on route %s %s", c.format, rt.name, stage),
						map[string]any{"route": rt.name, "credential": c.id})
				}
				if !c.revoked && !v.valid {
					r.Violation("C01/fault/revocation-lookup/"+stage+"-unrevoked-refused", fmt.Sprintf("%s credential issued by the node and never revoked is refused on route %s %s: %s", c.format, rt.name, stage, v.msg),
						map[string]any{"route": rt.name, "credential": c.id, "message": v.msg})
				}
			}
		}
	}
	for _, k := range kinds {
		for _, c := range creds {
			for _, rt := range routes {
				if !rt.ok(c) {
					continue
				}
				if !c.revoked && !(rt.name == "api-vc" || rt.name == "api-vp-alone") {
					continue // unrevoked credentials under fault are observed on two routes only
				}
				faults.arm(k.err, k.times, c.id)
				observe(k.name, c, rt.name, rt.run, faults.disarm)
			}
		}
		healthy("after-" + k.name)
	}

	// the real thing: the revocation database is closed under the running node (shutdown race, lost volume)
	store := vcr.VerifVerifierStore(eng)
	if store == nil {
		r.Inconclusive("revocation lookup faults: verifier store not reachable")
		return
	}
	if err := store.Close(); err != nil {
		r.Inconclusive("revocation lookup faults: closing the revocation store: " + err.Error())
		return
	}
	for _, c := range creds {
		for _, rt := range routes {
			if !rt.ok(c) || (!c.revoked && rt.name != "api-vc") {
				continue
			}
			before := rec.Count(revLookupHook)
			observe("store-closed", c, rt.name, rt.run, func() int { return rec.Count(revLookupHook) - before })
		}
	}
	shapes := r.DistinctN("revocation_lookup_fault_shapes")
	r.Extra("revocation_lookup_fault_shapes", shapes)
	r.Sample(map[string]any{"scenario": "revocation-lookup-faults", "cases": r.Get("revocation_lookup_fault_cases"), "faults_injected": r.Get("revocation_lookup_faults_injected"),
		"revoked_refused": r.Get("revocation_lookup_fault_revoked_refused"), "unrevoked_accepted": r.Get("revocation_lookup_fault_unrevoked_accepted"),
		"unrevoked_refused": r.Get("revocation_lookup_fault_unrevoked_refused"), "kinds": func() []string {
			var out []string
			for _, k := range kinds {
				out = append(out, k.name)
			}
			out = append(out, "store-closed")
			sort.Strings(out)
			return out
		}()})
	if r.Get("revocation_lookup_faults_injected") < 20 {
		r.Fatalf("revocation lookup faults: only %d faults were injected at %s", r.Get("revocation_lookup_faults_injected"), revLookupHook)
	}
}
