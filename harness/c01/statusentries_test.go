// Status entries (C01, "is not revoked"): credentials of third parties whose credentialStatus carries SEVERAL entries.
//
// Issuers are harness-owned (a hosted did:web identity and a did:jwk identity); their StatusList2021 credentials (revocation lists A
// and B, a suspension list, a list with a broken signature) are signed by the harness and served at the node's HTTP client seam.
// A credential's credentialStatus is a single object or an array built from an alphabet of entries: revocation entry on list A/B with
// the bit set/clear, suspension entry (bit set/clear), StatusList2021Entry with a custom purpose, entry of an unknown type, revocation
// entries whose list cannot be used (unreachable, other purpose, bad signature, index outside the list). Curated shapes (every order of
// the pairs, three and four entries) plus seeded random sequences; both proof formats; verified as credential and inside a presentation.
//
// Reference (computed from the bits the harness put in its own lists): the credential is revoked iff ANY StatusList2021Entry with
// statusPurpose "revocation" has its bit set in its (usable) list - whatever else is listed and in whatever order. Revoked => must not
// verify. Not revoked, every list usable and no suspension bit set => verifies. Everything else (set suspension bit, unusable list
// without a confirmed revocation) is observed only.
package c01

import (
	"bytes"
	"compress/gzip"
	"encoding/base64"
	"encoding/json"
	"fmt"
	"strconv"
	"strings"
	"sync"
	"time"

	"github.com/nuts-foundation/nuts-node/vcr/signature/proof"
	"verif/lib/ev"
	"verif/lib/iamflow"
	"verif/lib/node"
)

const (
	seSetIndex   = 5
	seClearIndex = 6
)

// seTokens: the alphabet. usable = the node can obtain and check the list; revokes = a revocation entry whose bit is set.
var seTokens = map[string]struct {
	purpose string // statusPurpose of the entry ("" = entry of another type)
	list    string // which served list
	index   int
	usable  bool
	revokes bool
	suspend bool
}{
	"revA1":       {"revocation", "revA", seSetIndex, true, true, false},
	"revA0":       {"revocation", "revA", seClearIndex, true, false, false},
	"revB1":       {"revocation", "revB", seSetIndex, true, true, false},
	"revB0":       {"revocation", "revB", seClearIndex, true, false, false},
	"susp1":       {"suspension", "susp", seSetIndex, true, false, true},
	"susp0":       {"suspension", "susp", seClearIndex, true, false, false},
	"custom":      {"refresh", "revA", seSetIndex, true, false, false}, // a purpose the node does not know, pointing at a set bit
	"unknown":     {"", "", 0, true, false, false},
	"revMissing":  {"revocation", "missing", seSetIndex, false, false, false},
	"revMismatch": {"revocation", "susp", seSetIndex, false, false, false}, // entry says revocation, the list says suspension
	"revBadSig":   {"revocation", "badsig", seSetIndex, false, false, false},
	"revRange":    {"revocation", "revA", 16*1024*8 + 5, false, false, false},
}

// seClass names what precedes the first revocation entry with a set bit (the "worst" kind of entry, in the order below): the
// verdict must not depend on it. Violation keys are per class, the exact shape is in the message and the witness.
func seClass(tokens []string) string {
	if len(tokens) == 1 {
		return "revoked-single-entry"
	}
	rank, names := 0, []string{"revoked-entry-first", "revoked-after-clear-revocation-entry", "revoked-after-unknown-type-entry", "revoked-after-custom-purpose-entry", "revoked-after-suspension-entry", "revoked-after-unusable-list"}
	for _, tok := range tokens {
		t := seTokens[tok]
		k := 0
		switch {
		case t.revokes:
			return names[rank]
		case !t.usable:
			k = 5
		case t.purpose == "suspension":
			k = 4
		case t.purpose == "":
			k = 2
		case t.purpose != "revocation":
			k = 3
		default:
			k = 1
		}
		if k > rank {
			rank = k
		}
	}
	return names[rank]
}

type seIssuer struct {
	kind string // web | jwk
	id   *iamflow.Holder
	base string // URL prefix of its lists
}

func seEncodeList(set ...int) string {
	bits := make([]byte, 16*1024)
	for _, i := range set {
		bits[i/8] |= 1 << (7 - uint(i%8)) // StatusList2021: index 0 is the left-most bit
	}
	var buf bytes.Buffer
	zw := gzip.NewWriter(&buf)
	_, _ = zw.Write(bits)
	_ = zw.Close()
	return base64.RawURLEncoding.EncodeToString(buf.Bytes())
}

type seCase struct {
	shape  string // tokens joined by "+", or obj(token) for the single-object form
	tokens []string
	object bool
	format string // jwt | ldp
	route  string // vc | vp
	issuer *seIssuer
}

func seShapes(r *ev.Run) [][]string {
	curated := []string{
		"revA0", "revA1",
		"susp0+revA1", "susp0+revA0", "revA1+susp0", "revA0+susp0", "susp1+revA1", "susp1+revA0", "revA0+susp1",
		"revA0+revB1", "revA1+revB0", "revA0+revB0", "revA1+revB1", "revA0+revA1", "revA1+revA0",
		"unknown+revA1", "unknown+revA0", "revA1+unknown", "revA0+unknown",
		"custom+revA1", "custom+revA0", "revA1+custom", "revA0+custom",
		"susp0+unknown+custom+revA1", "susp0+unknown+custom+revA0", "revA1+susp0+unknown+custom", "susp0+revA1+unknown", "susp0+revB0+revA1",
		"revMissing+revA1", "revA1+revMissing", "revMissing+revA0", "revMismatch+revA1", "revBadSig+revA1", "revRange+revA1", "revA1+revRange",
	}
	var out [][]string
	seen := map[string]bool{}
	for _, c := range curated {
		seen[c] = true
		out = append(out, strings.Split(c, "+"))
	}
	// seeded random sequences over the alphabet
	alphabet := []string{"revA1", "revA0", "revB1", "revB0", "susp1", "susp0", "custom", "unknown", "revMissing", "revMismatch", "revBadSig", "revRange"}
	rnd := r.Rand("status-entries")
	for n := r.Pick(12, 150); n > 0; {
		l := 2 + rnd.Intn(4)
		var toks []string
		for i := 0; i < l; i++ {
			toks = append(toks, alphabet[rnd.Intn(len(alphabet))])
		}
		s := strings.Join(toks, "+")
		if seen[s] {
			continue
		}
		seen[s] = true
		out = append(out, toks)
		n--
	}
	return out
}

func statusEntries(r *ev.Run, n *node.Node, hosted *didHost) {
	now := time.Now()
	subject := iamflow.NewHolder()
	issuers := []*seIssuer{
		{kind: "web", id: hosted.identity("did:web:issuer.example:status", "https://issuer.example/status/did.json"), base: "https://issuer.example/lists/web/"},
		{kind: "jwk", id: iamflow.NewHolder(), base: "https://issuer.example/lists/jwk/"},
	}
	// the lists: JWT credentials for the did:jwk issuer, JSON-LD credentials for the did:web issuer
	for _, is := range issuers {
		for name, l := range map[string]struct {
			purpose string
			set     []int
		}{"revA": {"revocation", []int{seSetIndex}}, "revB": {"revocation", []int{seSetIndex}}, "susp": {"suspension", []int{seSetIndex}}, "badsig": {"revocation", []int{seSetIndex}}} {
			u := is.base + name
			var body []byte
			subjectClaims := map[string]any{"id": u, "type": "StatusList2021", "statusPurpose": l.purpose, "encodedList": seEncodeList(l.set...)}
			if is.kind == "jwk" {
				claims := map[string]any{"iss": is.id.DID, "sub": u, "jti": is.id.DID + "#list-" + name, "nbf": now.Add(-time.Minute).Unix(), "exp": now.Add(24 * time.Hour).Unix(),
					"vc": map[string]any{"@context": []string{"https://www.w3.org/2018/credentials/v1", "https://w3id.org/vc/status-list/2021/v1"},
						"type": []string{"VerifiableCredential", "StatusList2021Credential"}, "credentialSubject": subjectClaims}}
				tok := is.id.SignJWT(map[string]any{"alg": "ES256", "typ": "JWT", "kid": is.id.KID}, claims)
				if name == "badsig" {
					tok = tok[:len(tok)-8] + "AAAAAAAA"
				}
				body, _ = json.Marshal(tok)
			} else {
				doc := map[string]any{"@context": []string{"https://www.w3.org/2018/credentials/v1", "https://w3id.org/vc/status-list/2021/v1"},
					"id": u + "#credential", "type": []string{"VerifiableCredential", "StatusList2021Credential"}, "issuer": is.id.DID,
					"issuanceDate": now.Add(-time.Minute).UTC().Format(time.RFC3339), "expirationDate": now.Add(24 * time.Hour).UTC().Format(time.RFC3339),
					"credentialSubject": subjectClaims}
				signed, err := is.id.SignLDDoc(n, doc, proof.ProofOptions{Created: now.Add(-time.Minute)})
				if err != nil {
					r.Fatalf("status entries: sign list: %v", err)
				}
				body = signed
				if name == "badsig" {
					var m map[string]any
					if json.Unmarshal(signed, &m) != nil {
						r.Fatalf("status entries: signed list does not parse")
					}
					m["credentialSubject"].(map[string]any)["encodedList"] = seEncodeList(seSetIndex, seSetIndex+1) // content changed after signing
					body, _ = json.Marshal(m)
				}
			}
			hosted.serve(u, body)
		}
	}

	entry := func(is *seIssuer, tok string) map[string]any {
		t, ok := seTokens[tok]
		if !ok {
			r.Fatalf("status entries: unknown token %q", tok)
		}
		if t.purpose == "" {
			return map[string]any{"id": "https://issuer.example/other-status/1", "type": "https://issuer.example/ns#OtherStatus2099"}
		}
		u := is.base + t.list
		return map[string]any{"id": u + "#" + strconv.Itoa(t.index), "type": "StatusList2021Entry", "statusPurpose": t.purpose, "statusListIndex": strconv.Itoa(t.index), "statusListCredential": u}
	}
	var serial int
	var serialMu sync.Mutex
	mkCred := func(c seCase) (json.RawMessage, error) {
		serialMu.Lock()
		serial++
		id := fmt.Sprintf("%s#%08d-0000-4000-8000-0000000005e0", c.issuer.id.DID, serial)
		serialMu.Unlock()
		var status any
		if c.object {
			status = entry(c.issuer, c.tokens[0])
		} else {
			var arr []any
			for _, t := range c.tokens {
				arr = append(arr, entry(c.issuer, t))
			}
			status = arr
		}
		ctx := []string{"https://www.w3.org/2018/credentials/v1", "https://nuts.nl/credentials/v1", "https://w3id.org/vc/status-list/2021/v1"}
		subj := map[string]any{"id": subject.DID, "organization": map[string]any{"name": "Listed B.V.", "city": "Statusville"}}
		if c.format == "jwt" {
			claims := map[string]any{"iss": c.issuer.id.DID, "sub": subject.DID, "jti": id, "nbf": now.Add(-time.Minute).Unix(),
				"vc": map[string]any{"@context": ctx, "type": []string{"VerifiableCredential", "NutsOrganizationCredential"}, "credentialSubject": subj, "credentialStatus": status}}
			return json.Marshal(c.issuer.id.SignJWT(map[string]any{"alg": "ES256", "typ": "JWT", "kid": c.issuer.id.KID}, claims))
		}
		doc := map[string]any{"@context": ctx, "id": id, "type": []string{"VerifiableCredential", "NutsOrganizationCredential"}, "issuer": c.issuer.id.DID,
			"issuanceDate": now.Add(-time.Minute).UTC().Format(time.RFC3339), "credentialSubject": subj, "credentialStatus": status}
		return c.issuer.id.SignLDDoc(n, doc, proof.ProofOptions{Created: now.Add(-time.Minute)})
	}
	observe := func(c seCase, cred json.RawMessage) (bool, string, error) {
		if c.route == "vc" {
			return verify(n, "vc", cred, "")
		}
		return verify(n, "vp", wrapInPresentation(subject, now.Add(-time.Minute), now.Add(time.Hour), cred), "")
	}

	// calibration: without any status entry, and with a single clear revocation entry, the harness-issued credentials verify
	for _, is := range issuers {
		for _, f := range []string{"jwt", "ldp"} {
			c := seCase{shape: "obj(revA0)", tokens: []string{"revA0"}, object: true, format: f, route: "vc", issuer: is}
			cred, err := mkCred(c)
			if err != nil {
				r.Fatalf("status entries: sign credential: %v", err)
			}
			if ok, msg, err := observe(c, cred); err != nil || !ok {
				r.Fatalf("calibration: %s credential of the harness-owned did:%s issuer with one clear revocation entry does not verify: %v %s", f, is.kind, err, msg)
			}
		}
	}

	var cases []seCase
	add := func(shape string, toks []string, object bool, i int) {
		for fi, f := range []string{"jwt", "ldp"} {
			for ii, is := range issuers {
				if !r.Thorough() && (i+fi+ii)%2 != 0 {
					continue // quick: the issuer kind alternates per (shape, format)
				}
				cases = append(cases, seCase{shape: shape, tokens: toks, object: object, format: f, route: "vc", issuer: is})
				if r.Thorough() || (i+fi)%3 == int(r.Seed()%3) {
					cases = append(cases, seCase{shape: shape, tokens: toks, object: object, format: f, route: "vp", issuer: is})
				}
			}
		}
	}
	for i, toks := range seShapes(r) {
		if len(toks) == 1 {
			add("obj("+toks[0]+")", toks, true, i)
		}
		add(strings.Join(toks, "+"), toks, false, i)
	}

	judge := func(c seCase) {
		cred, err := mkCred(c)
		if err != nil {
			r.Inconclusive("status entries: credential could not be signed: " + err.Error())
			return
		}
		ok, msg, err := observe(c, cred)
		if err != nil {
			r.Inconclusive("status entries: verify transport error: " + err.Error())
			return
		}
		revoked, allUsable, suspended := false, true, false
		for _, tok := range c.tokens {
			t := seTokens[tok]
			revoked = revoked || t.revokes
			suspended = suspended || t.suspend
			allUsable = allUsable && t.usable
		}
		name := "status-entries/" + c.shape + "/" + c.route + "-" + c.format
		r.Case("grid/"+name+"/"+c.issuer.kind, len(c.tokens) > 1)
		r.Count("grid_cases", 1)
		r.Count("status_entry_cases", 1)
		r.Distinct("status_entry_shapes", c.shape)
		if revoked {
			r.Distinct("status_entry_revoked_classes", seClass(c.tokens))
		}
		witness := map[string]any{"shape": c.shape, "format": c.format, "route": c.route, "issuer": c.issuer.kind, "credential": cred, "message": msg,
			"reference": map[string]any{"revoked": revoked, "everyListUsable": allUsable, "suspensionBitSet": suspended}}
		switch {
		case revoked && ok:
			r.Violation("C01/grid/status-entries/"+seClass(c.tokens), fmt.Sprintf("credential whose credentialStatus is %s (a revocation entry has its bit set) verifies (%s, %s route, did:%s issuer)", c.shape, c.format, c.route, c.issuer.kind), witness)
		case revoked:
			r.Count("status_entry_revoked_refused", 1)
		case ok:
			r.Count("status_entry_unrevoked_accepted", 1)
		case suspended:
			r.Unspecified("status-entries/suspension-bit-set-refused")
		case !allUsable:
			r.Unspecified("status-entries/unusable-list-refused")
		default:
			r.Violation("C01/grid/status-entries/not-revoked-refused", fmt.Sprintf("credential whose credentialStatus is %s (no revocation entry has its bit set, every list usable) is refused (%s, %s route, did:%s issuer): %s", c.shape, c.format, c.route, c.issuer.kind, msg), witness)
		}
		if suspended && ok {
			r.Count("status_entry_suspension_bit_ignored", 1)
		}
	}
	var wg sync.WaitGroup
	ch := make(chan seCase)
	for i := 0; i < 4; i++ {
		wg.Add(1)
		go func() {
			defer wg.Done()
			for c := range ch {
				judge(c)
			}
		}()
	}
	for _, c := range cases {
		ch <- c
	}
	close(ch)
	wg.Wait()

	if hosted.servedPrefix("https://issuer.example/lists/") == 0 {
		r.Fatalf("status entries: the node never fetched a harness-served status list: nothing was observed")
	}
	r.Extra("status_lists_fetched", hosted.servedPrefix("https://issuer.example/lists/"))
	r.Sample(map[string]any{"scenario": "status-entries", "cases": r.Get("status_entry_cases"), "shapes": r.DistinctN("status_entry_shapes"),
		"revoked_refused": r.Get("status_entry_revoked_refused"), "unrevoked_accepted": r.Get("status_entry_unrevoked_accepted")})
}
