// Check C01: credentials/presentations verify iff authentic, untampered, current, unrevoked.
// A complete in-process node issues credentials and builds presentations (both proof formats); the
// harness applies structure-aware mutation operators at every JSON pointer (JSON-LD) resp. to every
// header/claim (JWT, re-encoded under the original signature) and submits each mutant to the node's
// verifier API. Oracle: (1) every node-produced artefact verifies; (2) a mutant that verifies must be
// equal to the original on everything the node reports or acts upon (normalised JSON-LD equality
// resp. byte-equal JWT signing input); (3) a grid of validation times, revocation, trust, issuer
// deactivation and signer/subject combinations is compared with a reference predicate.
package c01

import (
	"bytes"
	"encoding/base64"
	"encoding/json"
	"fmt"
	"io"
	"net/http"
	"net/url"
	"reflect"
	"sort"
	"strings"
	"sync"
	"testing"
	"time"

	ssi "github.com/nuts-foundation/go-did"
	"github.com/nuts-foundation/go-did/vc"
	"github.com/nuts-foundation/nuts-node/http/client"
	"github.com/nuts-foundation/nuts-node/storage"
	"github.com/nuts-foundation/nuts-node/vcr"
	"verif/lib/ev"
	"verif/lib/iamflow"
	"verif/lib/node"
)

type artefact struct {
	name   string
	kind   string // vc | vp
	format string // ldp | jwt
	doc    json.RawMessage
}

type mutant struct {
	op      string
	pointer string
	doc     json.RawMessage
}

func verify(n *node.Node, kind string, doc json.RawMessage, validAt string) (valid bool, msg string, err error) {
	var body map[string]any
	path := "/internal/vcr/v2/verifier/vc"
	if kind == "vp" {
		path = "/internal/vcr/v2/verifier/vp"
		body = map[string]any{"verifiablePresentation": doc, "verifyCredentials": true}
		if validAt != "" {
			body["validAt"] = validAt
		}
	} else {
		body = map[string]any{"verifiableCredential": doc, "verificationOptions": map[string]any{"allowUntrustedIssuer": true}}
	}
	resp, err := node.Do("POST", n.Internal+path, body, nil)
	if err != nil {
		return false, "", err
	}
	if resp.Status != 200 {
		// the API refuses documents it cannot even parse (400): not valid
		return false, fmt.Sprintf("HTTP %d %.200s", resp.Status, resp.Body), nil
	}
	var out struct {
		Validity bool   `json:"validity"`
		Message  string `json:"message"`
	}
	if err := resp.JSON(&out); err != nil {
		return false, "", fmt.Errorf("unparsable verification result: %s", resp)
	}
	return out.Validity, out.Message, nil
}

// ---- normalisation: what JSON-LD processing (and therefore the node) treats as the same document -------

func norm(v any) any {
	switch x := v.(type) {
	case map[string]any:
		if len(x) == 1 {
			if val, ok := x["@value"]; ok {
				return norm(val)
			}
		}
		out := map[string]any{}
		for k, val := range x {
			switch k {
			case "@id":
				k = "id"
			case "@type":
				k = "type"
			}
			out[k] = norm(val)
		}
		return out
	case []any:
		items := make([]string, 0, len(x))
		vals := map[string]any{}
		for _, e := range x {
			n := norm(e)
			b, _ := json.Marshal(n)
			items = append(items, string(b))
			vals[string(b)] = n
		}
		if len(items) == 1 {
			return vals[items[0]]
		}
		sort.Strings(items) // sets: order carries no meaning (no @list containers in the contexts used)
		out := make([]any, len(items))
		for i, s := range items {
			out[i] = vals[s]
		}
		return out
	}
	return v
}

func sameLD(a, b json.RawMessage) bool {
	var x, y any
	if json.Unmarshal(a, &x) != nil || json.Unmarshal(b, &y) != nil {
		return false
	}
	return reflect.DeepEqual(norm(x), norm(y))
}

func stripContext(v any) any {
	switch x := v.(type) {
	case map[string]any:
		out := map[string]any{}
		for k, val := range x {
			if k != "@context" {
				out[k] = stripContext(val)
			}
		}
		return out
	case []any:
		out := make([]any, len(x))
		for i, e := range x {
			out[i] = stripContext(e)
		}
		return out
	}
	return v
}

// sameButContext: the documents differ only in their @context members. If such a mutant verifies, the signature itself
// establishes that the canonical dataset (every claim) is unchanged; the listing of contexts is not something the node acts upon.
func sameButContext(a, b json.RawMessage) bool {
	var x, y any
	if json.Unmarshal(a, &x) != nil || json.Unmarshal(b, &y) != nil {
		return false
	}
	return reflect.DeepEqual(norm(stripContext(x)), norm(stripContext(y)))
}

// ---- JSON pointer walking / mutation --------------------------------------------------------------------

type loc struct {
	ptr    []any // path of keys/indices
	parent any
	key    any
}

func walk(v any, path []any, visit func(path []any, v any)) {
	visit(path, v)
	switch x := v.(type) {
	case map[string]any:
		keys := make([]string, 0, len(x))
		for k := range x {
			keys = append(keys, k)
		}
		sort.Strings(keys)
		for _, k := range keys {
			walk(x[k], append(append([]any{}, path...), k), visit)
		}
	case []any:
		for i, e := range x {
			walk(e, append(append([]any{}, path...), i), visit)
		}
	}
}

func ptrString(p []any) string {
	var sb strings.Builder
	for _, e := range p {
		sb.WriteString("/")
		sb.WriteString(fmt.Sprint(e))
	}
	if sb.Len() == 0 {
		return "/"
	}
	return sb.String()
}

func clone(v any) any {
	b, _ := json.Marshal(v)
	var out any
	_ = json.Unmarshal(b, &out)
	return out
}

// apply returns a deep copy of root with fn applied to the container of path (parent, key).
func apply(root any, path []any, fn func(parent any, key any) bool) (any, bool) {
	c := clone(root)
	if len(path) == 0 {
		return c, false
	}
	cur := c
	for _, e := range path[:len(path)-1] {
		switch x := cur.(type) {
		case map[string]any:
			cur = x[e.(string)]
		case []any:
			cur = x[e.(int)]
		}
	}
	ok := fn(cur, path[len(path)-1])
	return c, ok
}

func mutateValue(v any) (any, bool) {
	switch x := v.(type) {
	case string:
		if t, err := time.Parse(time.RFC3339Nano, x); err == nil {
			return t.Add(25 * time.Hour).Format(time.RFC3339Nano), true
		}
		if x == "" {
			return "x", true
		}
		// keep the shape (DIDs stay DIDs, URLs stay URLs): change the last character
		// (long values such as base64 signatures: a character in the middle, the last one may only carry padding bits)
		b := []byte(x)
		i := len(b) - 1
		if len(b) > 40 {
			i = len(b) / 2
		}
		if b[i] == 'a' {
			b[i] = 'b'
		} else {
			b[i] = 'a'
		}
		return string(b), true
	case float64:
		return x + 1, true
	case bool:
		return !x, true
	}
	return nil, false
}

func ldMutants(doc json.RawMessage) []mutant {
	var root any
	if err := json.Unmarshal(doc, &root); err != nil {
		return nil
	}
	var out []mutant
	add := func(op string, path []any, v any) {
		b, _ := json.Marshal(v)
		out = append(out, mutant{op, ptrString(path), b})
	}
	walk(root, nil, func(path []any, v any) {
		if len(path) > 0 {
			// change-value
			if nv, ok := mutateValue(v); ok {
				if m, ok := apply(root, path, func(parent, key any) bool { set(parent, key, nv); return true }); ok {
					add("change-value", path, m)
				}
				// cosmetic: wrap scalar in a single-element array / @value object
				if _, isKey := path[len(path)-1].(string); isKey {
					if m, ok := apply(root, path, func(parent, key any) bool { set(parent, key, []any{v}); return true }); ok {
						add("wrap-in-array", path, m)
					}
				}
			}
			// delete-member / rename-member (object members only)
			if k, isKey := path[len(path)-1].(string); isKey {
				if m, ok := apply(root, path, func(parent, key any) bool { delete(parent.(map[string]any), k); return true }); ok {
					add("delete-member", path, m)
				}
				if m, ok := apply(root, path, func(parent, key any) bool {
					p := parent.(map[string]any)
					p[k+"X"] = p[k]
					delete(p, k)
					return true
				}); ok {
					add("rename-member", path, m)
				}
			} else {
				// array element: delete, duplicate
				if m, ok := apply(root, path, func(parent, key any) bool { return false }); !ok {
					_ = m
				}
			}
		}
		switch x := v.(type) {
		case map[string]any:
			// add undefined member (scalar / object), add a member that the contexts define
			p := append(append([]any{}, path...), "verifExtraClaim")
			if m, ok := applyObj(root, path, func(o map[string]any) { o["verifExtraClaim"] = "admin" }); ok {
				add("add-undefined-member", p, m)
			}
			if m, ok := applyObj(root, path, func(o map[string]any) { o["verifExtraObject"] = map[string]any{"role": "admin", "level": 9.0} }); ok {
				add("add-undefined-object", append(append([]any{}, path...), "verifExtraObject"), m)
			}
			// members that the credential contexts define somewhere (whether they are defined *here* depends on the scoped context)
			for _, def := range []string{"name", "description", "expirationDate", "evidence", "holder"} {
				if _, has := x[def]; !has {
					val := any("injected")
					if def == "expirationDate" {
						val = "2999-01-01T00:00:00Z"
					}
					if m, ok := applyObj(root, path, func(o map[string]any) { o[def] = val }); ok {
						add("add-context-term-member", append(append([]any{}, path...), def), m)
					}
				}
			}
		case []any:
			if len(x) > 1 {
				if m, ok := applyArr(root, path, func(a []any) []any {
					r := append([]any{}, a...)
					r[0], r[len(r)-1] = r[len(r)-1], r[0]
					return r
				}); ok {
					add("reorder-array", path, m)
				}
			}
			if len(x) > 0 {
				if m, ok := applyArr(root, path, func(a []any) []any { return append(append([]any{}, a...), a[0]) }); ok {
					add("duplicate-element", path, m)
				}
				if m, ok := applyArr(root, path, func(a []any) []any { return append([]any{}, a[1:]...) }); ok {
					add("delete-element", path, m)
				}
			}
		}
	})
	return out
}

func set(parent, key, v any) {
	switch p := parent.(type) {
	case map[string]any:
		p[key.(string)] = v
	case []any:
		p[key.(int)] = v
	}
}

func applyObj(root any, path []any, fn func(map[string]any)) (any, bool) {
	c := clone(root)
	cur := c
	for _, e := range path {
		switch x := cur.(type) {
		case map[string]any:
			cur = x[e.(string)]
		case []any:
			cur = x[e.(int)]
		}
	}
	o, ok := cur.(map[string]any)
	if !ok {
		return nil, false
	}
	fn(o)
	return c, true
}

func applyArr(root any, path []any, fn func([]any) []any) (any, bool) {
	if len(path) == 0 {
		return nil, false
	}
	return apply(root, path, func(parent, key any) bool {
		switch p := parent.(type) {
		case map[string]any:
			a, ok := p[key.(string)].([]any)
			if !ok {
				return false
			}
			p[key.(string)] = fn(a)
		case []any:
			a, ok := p[key.(int)].([]any)
			if !ok {
				return false
			}
			p[key.(int)] = fn(a)
		}
		return true
	})
}

// jwtMutants re-encodes header/payload mutations under the ORIGINAL signature, plus signature-level changes.
func jwtMutants(doc json.RawMessage) []mutant {
	var tok string
	if json.Unmarshal(doc, &tok) != nil {
		return nil
	}
	parts := strings.Split(tok, ".")
	if len(parts) != 3 {
		return nil
	}
	var out []mutant
	emit := func(op, ptr string, p []string) {
		b, _ := json.Marshal(strings.Join(p, "."))
		out = append(out, mutant{op, ptr, b})
	}
	for seg, name := range []string{"header", "claims"} {
		raw, err := base64.RawURLEncoding.DecodeString(parts[seg])
		if err != nil {
			continue
		}
		for _, m := range ldMutants(raw) {
			np := append([]string{}, parts...)
			np[seg] = base64.RawURLEncoding.EncodeToString(m.doc)
			emit(m.op, "/"+name+m.pointer, np)
		}
	}
	// signature changes
	sig := []byte(parts[2])
	flip := append([]byte{}, sig...)
	if flip[5] == 'A' {
		flip[5] = 'B'
	} else {
		flip[5] = 'A'
	}
	emit("flip-signature-char", "/signature", []string{parts[0], parts[1], string(flip)})
	emit("strip-signature", "/signature", []string{parts[0], parts[1], ""})
	emit("truncate-signature", "/signature", []string{parts[0], parts[1], parts[2][:len(parts[2])-4]})
	return out
}

func signingInput(doc json.RawMessage) string {
	var tok string
	_ = json.Unmarshal(doc, &tok)
	i := strings.LastIndex(tok, ".")
	if i < 0 {
		return tok
	}
	return tok[:i]
}

func topMember(ptr string) string {
	p := strings.Split(strings.TrimPrefix(ptr, "/"), "/")
	if len(p) == 0 {
		return ""
	}
	if (p[0] == "header" || p[0] == "claims") && len(p) > 1 {
		return p[0] + "." + p[1]
	}
	return p[0]
}

func TestCheck(t *testing.T) {
	r := ev.Start(t, "C01", "exploration")
	defer r.Finish()
	r.SetRule("artefacts = credentials/presentations produced by the node's own issuer and wallet (ldp_vc, jwt_vc, ldp_vp, jwt_vp; with status list, with expiry). " +
		"case = (artefact, mutation operator, JSON pointer) submitted to the node's verifier API, or a grid case (validAt / revocation / trust / deactivation / signer) with a reference verdict. " +
		"key-history grid = (DID method, artefact signed with key 1/key 2/both, validation time strictly inside each document version's interval | before creation | after deactivation | now, route API/Go) on a second node whose identities get a key added, a key removed and are deactivated; reference = key listed by the version in force at the validation time. " +
		"status-entries grid = third-party credentials (both formats, as credential and inside a presentation) whose credentialStatus is an object or an array over {revocation list A/B set/clear, suspension set/clear, custom purpose, unknown type, unusable lists}: curated orders plus seeded random sequences; reference = revoked iff any revocation entry has its bit set. " +
		"validity-window grid = genuinely signed documents (harness identities; the node's wallet via its Go API) whose window [start, end] sits in proof.created/expires (JSON-LD presentation and credential), issuanceDate/expirationDate, or JWT nbf/exp, with start/end from {Go zero time, the day after, Unix epoch, epoch+1s, a year ago, an hour ago, in an hour, year 9999, absent} x validation times {none, +2h, -30m, -2y} x routes {API, Go, credential inside a presentation}; reference = start <= at <= end; refutation = reported valid outside the window. " +
		"lookup-fault grid = (a) third node (did:nuts): credentials in both formats revoked over the network, then the revocation lookup of the verifier's store fails (I/O error, deadline, database not open, transient first lookup, store really closed) x routes {credential API, presentation API with the credential alone/last of 2/middle of 3, Verifier.Verify as Resolve/Search call it, VCR.Resolve}; refutation = a credential the node had reported revoked is reported valid during or after the fault, or an unrevoked one stays refused after the fault; (b) the did:web document of a never-resolved issuer cannot be obtained (7 kinds of failure): its credentials must not be reported valid. " +
		"Non-trivial: the verifier returned a verdict for a mutant that differs from the original; distinct by (format, operator, pointer).")
	r.Require(700, 400)
	r.Assume("mutation operators and the trust/revocation/deactivation grid run on one in-process node with did:web issuers; DID document histories (key added, removed, deactivated over time) are exercised on a second in-process node with a did:nuts and a did:web identity it manages itself (documents of remote did:web parties carry no history)")
	r.Assume("version timestamps of DID documents have one-second granularity: validation times are taken at least one second away from every recorded version timestamp")
	r.Assume("JSON-LD equality up to: member order, set order, single-element arrays, @value wrapping, id/@id and type/@type aliases")

	// did:web documents of harness-owned issuers are "hosted" by a scripted transport at the node's did:web resolver seam
	// (installed before the node builds its resolvers); everything else goes to the original transport
	hosted := &didHost{docs: map[string][]byte{}, orig: client.DefaultCachingTransport}
	client.DefaultCachingTransport = hosted
	defer func() { client.DefaultCachingTransport = hosted.orig }()

	w := iamflow.NewWorld(t, iamflow.Options{})
	n := w.N
	issuer, holder := w.Verifier, w.Client // verifier subject acts as issuer; client subject is the credential subject/holder

	// key history (second node, own time line with real pauses between document versions) and multi-entry credentialStatus
	// (third-party credentials on this node) run beside the mutation phase; both only read what the main flow changes later
	phaseStart := time.Now()
	phases := map[string]float64{} // wall-clock bookkeeping of the concurrent phases (evidence only, decides nothing)
	var phasesMu sync.Mutex
	mark := func(name string) {
		phasesMu.Lock()
		phases[name] = float64(time.Since(phaseStart).Milliseconds()) / 1000
		phasesMu.Unlock()
	}
	kh := startKeyHistory(t, r)
	mark("second_node_started")
	lf := startLookupFaults(t, r)
	mark("third_node_started")
	seDone := make(chan struct{})
	go func() {
		defer close(seDone)
		defer mark("status_entries_done")
		defer func() {
			if p := recover(); p != nil {
				r.Inconclusive(fmt.Sprintf("status entries: harness panic: %v", p))
			}
		}()
		statusEntries(r, n, hosted)
	}()

	vwDone := make(chan struct{})
	go func() {
		defer close(vwDone)
		defer mark("validity_windows_done")
		defer func() {
			if p := recover(); p != nil {
				r.Inconclusive(fmt.Sprintf("validity windows: harness panic: %v", p))
			}
		}()
		validityWindows(r, n, hosted, holder.DID)
	}()

	issue := func(o iamflow.IssueOpts) json.RawMessage {
		c, err := w.IssueTo(issuer, holder.DID, o)
		if err != nil {
			r.Fatalf("issue %+v: %v", o, err)
		}
		return c
	}
	exp := time.Now().Add(48 * time.Hour).UTC().Format(time.RFC3339)
	vcLDP := issue(iamflow.IssueOpts{})
	vcJWT := issue(iamflow.IssueOpts{Format: "jwt_vc"})
	vcStatus := issue(iamflow.IssueOpts{StatusList: true})
	vcExp := issue(iamflow.IssueOpts{ExpirationDate: exp})
	vcJWTExp := issue(iamflow.IssueOpts{Format: "jwt_vc", ExpirationDate: exp, StatusList: true})
	vcOther := issue(iamflow.IssueOpts{Name: "Second Org", City: "Elsewhere"})

	mkVP := func(format string, creds []json.RawMessage, extra map[string]any) json.RawMessage {
		body := map[string]any{"verifiableCredentials": creds, "signerDID": holder.DID, "format": format}
		for k, v := range extra {
			body[k] = v
		}
		resp, err := node.Do("POST", n.Internal+"/internal/vcr/v2/holder/vp", body, nil)
		if err != nil || resp.Status != 200 {
			r.Fatalf("create %s: %v %s", format, err, resp)
		}
		return json.RawMessage(strings.TrimSpace(string(resp.Body)))
	}
	vpExpires := time.Now().Add(24 * time.Hour).UTC().Format(time.RFC3339)
	arts := []artefact{
		{"org-ldp", "vc", "ldp", vcLDP},
		{"org-jwt", "vc", "jwt", vcJWT},
		{"org-status-ldp", "vc", "ldp", vcStatus},
		{"org-exp-ldp", "vc", "ldp", vcExp},
		{"org-exp-status-jwt", "vc", "jwt", vcJWTExp},
		{"vp-ldp-1ldp", "vp", "ldp", mkVP("ldp_vp", []json.RawMessage{vcLDP}, map[string]any{"challenge": "chal-1", "domain": "https://verifier.example", "expires": vpExpires})},
		{"vp-ldp-2mixed", "vp", "ldp", mkVP("ldp_vp", []json.RawMessage{vcLDP, vcJWT}, nil)},
		{"vp-jwt-1ldp", "vp", "jwt", mkVP("jwt_vp", []json.RawMessage{vcLDP}, map[string]any{"challenge": "chal-2", "domain": "https://verifier.example", "expires": vpExpires})},
		{"vp-jwt-2mixed", "vp", "jwt", mkVP("jwt_vp", []json.RawMessage{vcJWT, vcOther}, nil)},
	}
	if r.Thorough() {
		arts = append(arts,
			artefact{"vp-ldp-3", "vp", "ldp", mkVP("ldp_vp", []json.RawMessage{vcLDP, vcOther, vcStatus}, map[string]any{"proofPurpose": "authentication"})},
			artefact{"vp-jwt-3", "vp", "jwt", mkVP("jwt_vp", []json.RawMessage{vcLDP, vcJWT, vcExp}, nil)},
			artefact{"org2-ldp", "vc", "ldp", vcOther})
	}

	// (1) everything the node produced verifies
	for _, a := range arts {
		ok, msg, err := verify(n, a.kind, a.doc, "")
		if err != nil {
			r.Fatalf("verify: %v", err)
		}
		r.Case("roundtrip/"+a.name, true)
		r.Count("roundtrip_artefacts", 1)
		if !ok {
			r.Violation("C01/roundtrip/"+a.kind+"-"+a.format, fmt.Sprintf("artefact %s produced by the node itself does not verify: %s", a.name, msg), map[string]any{"document": a.doc})
		}
	}

	// (2) mutants
	type job struct {
		a artefact
		m mutant
	}
	var jobs []job
	rnd := r.Rand("mutants")
	for _, a := range arts {
		var ms []mutant
		if a.format == "jwt" {
			ms = jwtMutants(a.doc)
		} else {
			ms = ldMutants(a.doc)
		}
		// embedded-credential swap for presentations (JSON-LD form)
		if a.kind == "vp" && a.format == "ldp" && strings.Contains(string(a.doc), "verifiableCredential") {
			var root map[string]any
			_ = json.Unmarshal(a.doc, &root)
			var other any
			_ = json.Unmarshal(vcOther, &other)
			root["verifiableCredential"] = other
			b, _ := json.Marshal(root)
			ms = append(ms, mutant{"swap-embedded-credential", "/verifiableCredential", b})
		}
		limit := r.Pick(90, 100000)
		if len(ms) > limit {
			rnd.Shuffle(len(ms), func(i, j int) { ms[i], ms[j] = ms[j], ms[i] })
			// keep every operator represented: stable partition by operator round-robin
			byOp := map[string][]mutant{}
			var ops []string
			for _, m := range ms {
				if _, ok := byOp[m.op]; !ok {
					ops = append(ops, m.op)
				}
				byOp[m.op] = append(byOp[m.op], m)
			}
			sort.Strings(ops)
			var pick []mutant
			for len(pick) < limit {
				progressed := false
				for _, op := range ops {
					if len(byOp[op]) > 0 && len(pick) < limit {
						pick = append(pick, byOp[op][0])
						byOp[op] = byOp[op][1:]
						progressed = true
					}
				}
				if !progressed {
					break
				}
			}
			ms = pick
		}
		for _, m := range ms {
			jobs = append(jobs, job{a, m})
		}
	}
	var wg sync.WaitGroup
	ch := make(chan job)
	for i := 0; i < 8; i++ {
		wg.Add(1)
		go func() {
			defer wg.Done()
			for j := range ch {
				a, m := j.a, j.m
				var unchanged bool
				if a.format == "jwt" {
					unchanged = signingInput(m.doc) == signingInput(a.doc) && string(m.doc) == string(a.doc)
				} else {
					unchanged = sameLD(m.doc, a.doc)
				}
				ok, msg, err := verify(n, a.kind, m.doc, "")
				if err != nil {
					r.Inconclusive("verify transport error: " + err.Error())
					continue
				}
				fpr := a.kind + "-" + a.format + "/" + m.op + m.pointer
				r.Case(fpr, !unchanged)
				r.Count("mutants_submitted", 1)
				r.Distinct("operators", a.kind+"-"+a.format+"/"+m.op)
				switch {
				case ok && unchanged:
					r.Count("accepted_equivalent", 1)
				case !ok && unchanged:
					// an equivalent re-serialisation that the node refuses: stricter than required, not a violation
					r.Count("refused_equivalent", 1)
				case !ok:
					r.Count("refused_altered", 1)
				default:
					where := topMember(m.pointer)
					if a.format == "ldp" && sameButContext(m.doc, a.doc) {
						r.Unspecified("context-listing-only-change")
						continue
					}
					if a.format == "ldp" && strings.HasPrefix(m.pointer, "/proof/") && (m.op == "add-undefined-member" || m.op == "add-undefined-object") {
						// members of the proof object that no component reads
						r.Unspecified("undefined-member-inside-proof")
						continue
					}
					opKey := m.op
					if strings.HasPrefix(opKey, "add-") {
						opKey = "add-unsigned-member" // the added member changes the document the node acts upon, yet is not covered by the signature
					}
					r.Violation("C01/accepted-altered/"+a.kind+"-"+a.format+"/"+opKey, fmt.Sprintf("%s %s still verifies after %s at %s (member %s): %s", a.format, a.kind, m.op, m.pointer, where, msg),
						map[string]any{"artefact": a.name, "operator": m.op, "pointer": m.pointer, "original": a.doc, "mutant": m.doc})
				}
				if r.Get("mutants_submitted") <= 4 {
					r.Sample(map[string]any{"artefact": a.name, "operator": m.op, "pointer": m.pointer, "verifies": ok, "message": msg, "equivalent": unchanged})
				}
			}
		}()
	}
	for _, j := range jobs {
		ch <- j
	}
	close(ch)
	wg.Wait()
	mark("mutants_done")
	select {
	case <-seDone:
	case <-time.After(10 * time.Minute):
		r.Inconclusive("status entries: phase did not finish (watchdog)")
	}
	select {
	case <-vwDone:
	case <-time.After(10 * time.Minute):
		r.Inconclusive("validity windows: phase did not finish (watchdog)")
	}

	// (3) grid: validation time, revocation, trust, deactivation, signer != subject
	grid := func(name string, want bool, got bool, msg string, witness any) {
		r.Case("grid/"+name, true)
		r.Count("grid_cases", 1)
		if got != want {
			r.Violation("C01/grid/"+name, fmt.Sprintf("verdict %v, reference %v (%s)", got, want, msg), witness)
		}
	}
	at := func(d time.Duration) string { return time.Now().Add(d).UTC().Format(time.RFC3339) }
	vpLong := mkVP("ldp_vp", []json.RawMessage{vcExp}, map[string]any{"expires": at(100 * time.Hour)})
	vpJWTLong := mkVP("jwt_vp", []json.RawMessage{vcExp}, map[string]any{"expires": at(100 * time.Hour)})
	for _, g := range []struct {
		name string
		doc  json.RawMessage
		at   string
		want bool
	}{
		{"vp-ldp/now", vpLong, "", true},
		{"vp-ldp/before-issuance", vpLong, at(-2 * time.Hour), false},
		{"vp-ldp/inside-window", vpLong, at(24 * time.Hour), true},
		{"vp-ldp/after-credential-expiry", vpLong, at(72 * time.Hour), false},
		{"vp-ldp/after-presentation-expiry", vpLong, at(200 * time.Hour), false},
		{"vp-jwt/now", vpJWTLong, "", true},
		{"vp-jwt/before-issuance", vpJWTLong, at(-2 * time.Hour), false},
		{"vp-jwt/inside-window", vpJWTLong, at(24 * time.Hour), true},
		{"vp-jwt/after-credential-expiry", vpJWTLong, at(72 * time.Hour), false},
		{"vp-jwt/after-presentation-expiry", vpJWTLong, at(200 * time.Hour), false},
	} {
		ok, msg, err := verify(n, "vp", g.doc, g.at)
		if err != nil {
			r.Fatalf("verify: %v", err)
		}
		grid(g.name, g.want, ok, msg, map[string]any{"validAt": g.at, "document": g.doc})
	}
	// signer is not the subject of the credential: a harness-owned did:jwk holder presents the node holder's credential
	h2 := iamflow.NewHolder()
	foreign := h2.SignVP(iamflow.VP{NotBefore: time.Now().Add(-time.Minute), Expires: time.Now().Add(time.Hour), Credentials: []json.RawMessage{vcLDP}})
	fb, _ := json.Marshal(foreign)
	ok, msg, _ := verify(n, "vp", fb, "")
	grid("vp-jwt/signer-not-subject", false, ok, msg, map[string]any{"document": foreign})
	ownCred, err := w.IssueTo(issuer, h2.DID, iamflow.IssueOpts{})
	if err != nil {
		r.Fatalf("issue: %v", err)
	}
	own := h2.SignVP(iamflow.VP{NotBefore: time.Now().Add(-time.Minute), Expires: time.Now().Add(time.Hour), Credentials: []json.RawMessage{ownCred}})
	ob, _ := json.Marshal(own)
	ok, msg, _ = verify(n, "vp", ob, "")
	grid("vp-jwt/did-jwk-holder-own-credential", true, ok, msg, map[string]any{"document": own})
	mixed := h2.SignVP(iamflow.VP{NotBefore: time.Now().Add(-time.Minute), Expires: time.Now().Add(time.Hour), Credentials: []json.RawMessage{ownCred, vcLDP}})
	mb, _ := json.Marshal(mixed)
	ok, msg, _ = verify(n, "vp", mb, "")
	grid("vp-jwt/one-foreign-credential", false, ok, msg, map[string]any{"document": mixed})

	// a JWT credential that names the node's issuer but is signed by (and points its kid at) another party's key
	forgeVC := func(kid string) json.RawMessage {
		now := time.Now()
		claims := map[string]any{"iss": issuer.DID, "sub": h2.DID, "nbf": now.Add(-time.Minute).Unix(), "jti": issuer.DID + "#forged-1",
			"vc": map[string]any{"@context": []string{"https://www.w3.org/2018/credentials/v1", "https://nuts.nl/credentials/v1"},
				"type":              []string{"VerifiableCredential", "NutsOrganizationCredential"},
				"credentialSubject": map[string]any{"id": h2.DID, "organization": map[string]any{"name": "Forged", "city": "Nowhere"}}}}
		hdr := map[string]any{"alg": "ES256", "typ": "JWT"}
		if kid != "" {
			hdr["kid"] = kid
		}
		b, _ := json.Marshal(h2.SignJWT(hdr, claims))
		return b
	}
	for name, kid := range map[string]string{"kid-of-signer": h2.KID, "no-kid": "", "kid-of-issuer": issuer.DID + "#0"} {
		ok, msg, _ := verify(n, "vc", forgeVC(kid), "")
		grid("forged-issuer-jwt/"+name, false, ok, msg, nil)
	}

	// hosted did:web issuers: the signing key must belong to the issuer's DID exactly - not to a DID whose text merely starts with it
	webRoot := hosted.identity("did:web:issuer.example", "https://issuer.example/.well-known/did.json")
	webSub := hosted.identity("did:web:issuer.example:mallory", "https://issuer.example/mallory/did.json")
	webAlice := hosted.identity("did:web:issuer.example:alice", "https://issuer.example/alice/did.json")
	webAlice2 := hosted.identity("did:web:issuer.example:alice2", "https://issuer.example/alice2/did.json")
	webVC := func(iss string, signer *iamflow.Holder) json.RawMessage {
		claims := map[string]any{"iss": iss, "sub": h2.DID, "nbf": time.Now().Add(-time.Minute).Unix(), "jti": iss + "#c-" + signer.DID[len(signer.DID)-5:],
			"vc": map[string]any{"@context": []string{"https://www.w3.org/2018/credentials/v1", "https://nuts.nl/credentials/v1"},
				"type":              []string{"VerifiableCredential", "NutsOrganizationCredential"},
				"credentialSubject": map[string]any{"id": h2.DID, "organization": map[string]any{"name": "Hosted", "city": "Web"}}}}
		b, _ := json.Marshal(signer.SignJWT(map[string]any{"alg": "ES256", "typ": "JWT", "kid": signer.KID}, claims))
		return b
	}
	for _, g := range []struct {
		name   string
		iss    string
		signer *iamflow.Holder
		want   bool
	}{
		{"genuine-root", webRoot.DID, webRoot, true},
		{"genuine-subpath", webAlice.DID, webAlice, true},
		{"kid-of-subpath-did-of-issuer", webRoot.DID, webSub, false},
		{"kid-of-did-extending-issuer-text", webAlice.DID, webAlice2, false},
		{"kid-of-parent-did", webSub.DID, webRoot, false},
	} {
		ok, msg, _ := verify(n, "vc", webVC(g.iss, g.signer), "")
		if g.want && !ok {
			r.Fatalf("calibration: credential of a hosted did:web issuer does not verify (%s): %s", g.name, msg)
		}
		grid("hosted-didweb/"+g.name, g.want, ok, msg, map[string]any{"iss": g.iss, "kid": g.signer.KID})
	}
	r.Extra("hosted_did_documents_served", hosted.served())

	// a holder-signed presentation mixing a proof-less self-attested credential with other credentials: the others are still checked
	selfAttested, _ := json.Marshal(map[string]any{"@context": []string{"https://www.w3.org/2018/credentials/v1"}, "type": []string{"VerifiableCredential"},
		"id": h2.DID + "#self-1", "issuer": h2.DID, "issuanceDate": time.Now().Add(-time.Minute).UTC().Format(time.RFC3339), "credentialSubject": map[string]any{"id": h2.DID}})
	tampered := json.RawMessage(strings.Replace(string(ownCred), "Caretown", "Tampertown", 1))
	for _, g := range []struct {
		name  string
		creds []json.RawMessage
		want  bool
	}{
		{"self-attested-then-genuine", []json.RawMessage{selfAttested, ownCred}, true},
		{"self-attested-then-tampered", []json.RawMessage{selfAttested, tampered}, false},
		{"tampered-then-self-attested", []json.RawMessage{tampered, selfAttested}, false},
		{"self-attested-then-tampered-then-genuine", []json.RawMessage{selfAttested, tampered, ownCred}, false},
	} {
		vp := h2.SignVP(iamflow.VP{NotBefore: time.Now().Add(-time.Minute), Expires: time.Now().Add(time.Hour), Credentials: g.creds})
		b, _ := json.Marshal(vp)
		ok, msg, _ := verify(n, "vp", b, "")
		if g.want != ok && g.want {
			// the permissive direction (self-attested credentials in a presentation) is not something the statement demands
			r.Unspecified("self-attested-credential-in-presentation-refused")
			fmt.Printf("NOTE: property=C01 presentation with a proof-less self-attested credential refused: %.200s\n", msg)
			continue
		}
		grid("vp-jwt/"+g.name, g.want, ok, msg, map[string]any{"document": vp})
	}

	// trust
	vcrEngine := node.Engine[vcr.VCR](n)
	if vcrEngine == nil {
		r.Fatalf("VCR engine not found")
	}
	// the HTTP verifier API never requires trust for non-did:nuts issuers (by design: trust comes from the presentation definition),
	// so "trust is required" is exercised at the verifier's Go API, the way the did:nuts paths call it
	trustVerify := func(doc json.RawMessage) (bool, string) {
		raw := string(doc)
		var str string
		if json.Unmarshal(doc, &str) == nil {
			raw = str
		}
		cred, err := vc.ParseVerifiableCredential(raw)
		if err != nil {
			r.Fatalf("parse: %v", err)
		}
		if err := vcrEngine.Verifier().Verify(*cred, false, true, nil); err != nil {
			return false, err.Error()
		}
		return true, ""
	}
	// the issuing node trusts its own issuer DID for the types it issues: use a second issuer subject that is explicitly untrusted first
	ok, msg = trustVerify(vcLDP)
	untrustBody := map[string]any{"issuer": issuer.DID, "credentialType": "NutsOrganizationCredential"}
	if ok {
		if resp, err := node.Do("DELETE", n.Internal+"/internal/vcr/v2/verifier/trust", untrustBody, nil); err != nil || resp.Status/100 != 2 {
			r.Fatalf("untrust: %v %s", err, resp)
		}
		ok, msg = trustVerify(vcLDP)
	}
	grid("trust/untrusted-issuer-trust-required", false, ok, msg, nil)
	ok2, msg2, _ := verify(n, "vc", vcLDP, "")
	grid("trust/untrusted-issuer-trust-not-required", true, ok2, msg2, nil)
	if resp, err := node.Do("POST", n.Internal+"/internal/vcr/v2/verifier/trust", untrustBody, nil); err != nil || resp.Status/100 != 2 {
		r.Fatalf("trust: %v %s", err, resp)
	}
	ok, msg = trustVerify(vcLDP)
	grid("trust/trusted-issuer-trust-required", true, ok, msg, nil)
	ok, msg = trustVerify(vcJWT)
	grid("trust/trusted-issuer-trust-required-jwt", true, ok, msg, nil)

	// revocation (status list): only the revoked credential becomes invalid, permanently
	for _, c := range []struct {
		name string
		doc  json.RawMessage
	}{{"ldp", vcStatus}, {"jwt", vcJWTExp}} {
		id := iamflow.CredentialID(c.doc)
		resp, err := node.Do("DELETE", n.Internal+"/internal/vcr/v2/issuer/vc/"+url.QueryEscape(id), nil, nil)
		if err != nil || resp.Status/100 != 2 {
			r.Fatalf("revoke %s: %v %s", id, err, resp)
		}
		for rep := 0; rep < 2; rep++ {
			ok, msg, _ := verify(n, "vc", c.doc, "")
			grid("revocation/revoked-"+c.name, false, ok, msg, map[string]any{"credential": id})
		}
		vp := mkVPNoFail(n, holder.DID, []json.RawMessage{c.doc})
		if vp != nil {
			ok, msg, _ := verify(n, "vp", vp, "")
			grid("revocation/vp-with-revoked-"+c.name, false, ok, msg, nil)
		}
	}
	ok, msg, _ = verify(n, "vc", vcLDP, "")
	grid("revocation/other-credential-unaffected", true, ok, msg, nil)
	// "not revoked" must keep meaning the same after the node re-issues its status lists: make the stored lists look close to expiry
	// (virtual time), have them served (which re-signs them) and verify again
	if eng := node.Engine[storage.Engine](n); eng != nil {
		if res := eng.GetSQLDatabase().Exec("UPDATE status_list_credential SET expires = ?", time.Now().Add(30*time.Minute).Unix()); res.Error != nil {
			r.Fatalf("ageing status lists: %v", res.Error)
		}
		for _, c := range []json.RawMessage{vcStatus, vcJWTExp} {
			if u := statusListURL(c); u != "" {
				_, _ = node.Do("GET", u, nil, nil)
			}
		}
		for name, c := range map[string]json.RawMessage{"ldp": vcStatus, "jwt": vcJWTExp} {
			ok, msg, _ := verify(n, "vc", c, "")
			grid("revocation/revoked-"+name+"-after-list-reissue", false, ok, msg, nil)
		}
	}

	// issuer deactivation
	d, err := n.CreateSubject("soon-deactivated")
	if err != nil {
		r.Fatalf("subject: %v", err)
	}
	dsub := iamflow.Subject{Name: "soon-deactivated", DID: d[0]}
	dc, err := w.IssueTo(dsub, holder.DID, iamflow.IssueOpts{})
	if err != nil {
		r.Fatalf("issue: %v", err)
	}
	dj, err := w.IssueTo(dsub, holder.DID, iamflow.IssueOpts{Format: "jwt_vc"})
	if err != nil {
		r.Fatalf("issue: %v", err)
	}
	ok, msg, _ = verify(n, "vc", dc, "")
	grid("deactivation/before-ldp", true, ok, msg, nil)
	if resp, err := node.Do("DELETE", n.Internal+"/internal/vdr/v2/subject/soon-deactivated", nil, nil); err != nil || resp.Status/100 != 2 {
		r.Fatalf("deactivate: %v %s", err, resp)
	}
	ok, msg, _ = verify(n, "vc", dc, "")
	grid("deactivation/after-ldp", false, ok, msg, nil)
	ok, msg, _ = verify(n, "vc", dj, "")
	grid("deactivation/after-jwt", false, ok, msg, nil)

	// withdrawn trust survives a restart of the node (same data directory)
	if err := vcrEngine.Untrust(ssi.MustParseURI("NutsOrganizationCredential"), ssi.MustParseURI(issuer.DID)); err != nil {
		r.Fatalf("untrust: %v", err)
	}
	ok, msg = trustVerify(vcLDP)
	grid("trust/untrusted-again-before-restart", false, ok, msg, nil)
	dataDir, pubAddr, inAddr := n.DataDir, strings.TrimPrefix(n.Public, "http://"), strings.TrimPrefix(n.Internal, "http://")
	n.Stop()
	n = node.Start(t, node.Options{DIDMethods: []string{"web"}, DataDir: dataDir, Env: map[string]string{
		"NUTS_URL": w.Proxy.URL, "NUTS_HTTP_PUBLIC_ADDRESS": pubAddr, "NUTS_HTTP_INTERNAL_ADDRESS": inAddr, "NUTS_AUTH_AUTHORIZATIONENDPOINT_ENABLED": "true"}})
	w.N = n
	vcrEngine = node.Engine[vcr.VCR](n)
	ok, msg = trustVerify(vcLDP)
	grid("trust/untrusted-after-restart", false, ok, msg, nil)
	ok, msg, _ = verify(n, "vc", vcLDP, "")
	grid("trust/after-restart-trust-not-required", true, ok, msg, nil)
	for name, c := range map[string]json.RawMessage{"ldp": vcStatus, "jwt": vcJWTExp} {
		ok, msg, _ := verify(n, "vc", c, "")
		grid("revocation/revoked-"+name+"-after-restart", false, ok, msg, nil)
	}

	mark("main_flow_done")
	lf.wait(r)
	mark("lookup_faults_joined")
	kh.wait()
	mark("key_history_joined")
	phases["key_history_own"] = kh.elapsed.Seconds()
	r.Extra("phase_wall_s", phases)
	if !kh.broken && (r.Get("key_history_reference_invalid") < 20 || r.Get("key_history_reference_valid") < 20) {
		r.Fatalf("key history: only %d cases with reference 'invalid' and %d with reference 'valid' were evaluated", r.Get("key_history_reference_invalid"), r.Get("key_history_reference_valid"))
	}
	r.Extra("key_history_shapes", r.DistinctN("key_history_shapes"))
	r.Extra("status_entry_shapes", r.DistinctN("status_entry_shapes"))
	r.Extra("artefacts", len(arts))
	r.Extra("distinct_operators_by_format", r.DistinctN("operators"))
}

// didHost serves did:web documents of harness-owned identities at the node's HTTP client seam.
type didHost struct {
	mu    sync.Mutex
	docs  map[string][]byte
	orig  http.RoundTripper
	hits  int
	byURL map[string]int
	// lookup faults (lookupfaults_test.go): URL -> fault kind; faultAlt: URL whose document is served instead ("other-document")
	faults   map[string]string
	faultAlt map[string]string
	faulted  int
}

func (h *didHost) RoundTrip(req *http.Request) (*http.Response, error) {
	h.mu.Lock()
	body, ok := h.docs[req.URL.String()]
	fault := h.faults[req.URL.String()]
	if fault != "" {
		h.faulted++
	}
	if ok && fault != "" {
		h.mu.Unlock()
		return faultyResponse(req, fault, body, h.docs[h.faultAlt[req.URL.String()]])
	}
	if ok {
		h.hits++
		if h.byURL == nil {
			h.byURL = map[string]int{}
		}
		h.byURL[req.URL.String()]++
	}
	h.mu.Unlock()
	if ok {
		return &http.Response{StatusCode: 200, Status: "200 OK", Proto: "HTTP/1.1", ProtoMajor: 1, ProtoMinor: 1, Header: http.Header{"Content-Type": {"application/json"}},
			Body: io.NopCloser(bytes.NewReader(body)), ContentLength: int64(len(body)), Request: req}, nil
	}
	if req.URL.Hostname() == "issuer.example" {
		return &http.Response{StatusCode: 404, Status: "404 Not Found", Proto: "HTTP/1.1", ProtoMajor: 1, ProtoMinor: 1, Header: http.Header{}, Body: io.NopCloser(strings.NewReader("")), Request: req}, nil
	}
	return h.orig.RoundTrip(req)
}

func (h *didHost) served() int { h.mu.Lock(); defer h.mu.Unlock(); return h.hits }

// serve makes the host answer url with body (any document of a harness-owned party, e.g. a status list).
func (h *didHost) serve(url string, body []byte) { h.mu.Lock(); h.docs[url] = body; h.mu.Unlock() }

// servedPrefix returns how many requests for URLs starting with prefix were answered.
func (h *didHost) servedPrefix(prefix string) int {
	h.mu.Lock()
	defer h.mu.Unlock()
	n := 0
	for u, c := range h.byURL {
		if strings.HasPrefix(u, prefix) {
			n += c
		}
	}
	return n
}

// identity creates a key pair whose did:web document is served at docURL.
func (h *didHost) identity(did, docURL string) *iamflow.Holder {
	id := iamflow.NewHolder()
	id.DID, id.KID = did, did+"#0"
	doc := map[string]any{
		"@context":           []string{"https://www.w3.org/ns/did/v1", "https://w3id.org/security/suites/jws-2020/v1"},
		"id":                 did,
		"verificationMethod": []any{map[string]any{"id": id.KID, "type": "JsonWebKey2020", "controller": did, "publicKeyJwk": id.JWK}},
		"assertionMethod":    []string{id.KID}, "authentication": []string{id.KID}, "capabilityInvocation": []string{id.KID},
	}
	b, _ := json.Marshal(doc)
	h.mu.Lock()
	h.docs[docURL] = b
	h.mu.Unlock()
	return id
}

// statusListURL extracts credentialStatus.statusListCredential of a credential (JSON-LD object or JWT string).
func statusListURL(c json.RawMessage) string {
	str := string(c)
	var tok string
	if json.Unmarshal(c, &tok) == nil {
		parts := strings.Split(tok, ".")
		if len(parts) == 3 {
			b, _ := base64.RawURLEncoding.DecodeString(parts[1])
			str = string(b)
		}
	}
	i := strings.Index(str, `"statusListCredential":"`)
	if i < 0 {
		return ""
	}
	rest := str[i+len(`"statusListCredential":"`):]
	return rest[:strings.IndexByte(rest, '"')]
}

func mkVPNoFail(n *node.Node, signer string, creds []json.RawMessage) json.RawMessage {
	resp, err := node.Do("POST", n.Internal+"/internal/vcr/v2/holder/vp", map[string]any{"verifiableCredentials": creds, "signerDID": signer, "format": "ldp_vp"}, nil)
	if err != nil || resp.Status != 200 {
		return nil
	}
	return json.RawMessage(strings.TrimSpace(string(resp.Body)))
}
