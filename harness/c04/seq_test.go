package c04

// Sequences of presentations of one credential (the request matrix presents every generated credential once, to a node that has
// never seen it): a token is presented while it is valid and presented AGAIN - repeatedly, on other routes and spellings, and after
// its exp has passed; in between, failing credentials derived from the accepted one (same jti / same signed bytes / same signature)
// are presented. Whatever the node remembers of an earlier successful authentication, every single request must carry a token for
// which the reference predicate holds at that moment ("bounded lifetime"): after exp the answer is 401.
//
// The node reads the wall clock, so this needs a short real wait. It is measured on a monotonic stopwatch started BEFORE the
// token's exp was computed: exp <= start + lifetime, the token is presented again only when stopwatch >= lifetime + margin.

import (
	"encoding/base64"
	"fmt"
	"strings"
	"time"
)

const (
	seqLifetime = 7 * time.Second // exp = floor(now) + 7 s
	seqMargin   = 2 * time.Second // the node validates without skew; 2 s also absorbs the truncation to whole seconds
)

type seqTok struct {
	id       string // stable: key id + kid flavour / alg
	k        *keyT
	tok      string
	claims   map[string]any
	hdr      map[string]any
	alg      string
	accepted int // number of presentations that reached a handler while valid
	used     bool
}

type seqState struct {
	start time.Time
	toks  []*seqTok
}

func (e *env) shortClaims(k *keyT, start time.Time) map[string]any {
	now := start.Unix()
	return map[string]any{"iss": k.name, "sub": "operator-7", "aud": audience, "jti": e.gen.uuid(), "iat": now - 60, "nbf": now - 60, "exp": now + int64(seqLifetime/time.Second)}
}

func seqCred(class string, v verdict, tok string) cred { return cred{class, v, bearer(tok)} }

// seqBegin mints the short-lived tokens, presents them while valid (several times) and presents the failing credentials derived from them.
func seqBegin(e *env) *seqState {
	s := &seqState{start: time.Now()}
	kr := e.kr
	mint := func(id string, k *keyT, alg, kid string, used bool) {
		h := hdrFor(k, alg)
		h["kid"] = kid
		c := e.shortClaims(k, s.start)
		s.toks = append(s.toks, &seqTok{id: id, k: k, tok: compactJWS(h, mustJSON(c), k, alg), claims: c, hdr: h, alg: alg, used: used})
	}
	for _, k := range kr.authorised() {
		mint(k.id+"-kid-ssh", k, k.alg, k.kidSSH, true)
	}
	mint("ed25519-kid-jwk", kr.alice, kr.alice.alg, kr.alice.kidJWK, true)
	mint("rsa2048-PS512", kr.erin, "PS512", kr.erin.kidSSH, true)
	// controls: never presented while valid
	mint("ed25519-unused", kr.alice, kr.alice.alg, kr.alice.kidSSH, false)
	mint("p256-unused", kr.bob, kr.bob.alg, kr.bob.kidSSH, false)

	plain := func(rt route, i int) form {
		switch i % 3 {
		case 1:
			return form{class: "query", name: "query/pair", target: rt.path + "?a=b", plain: true}
		case 2:
			return form{class: "http10", name: "http10/no-host", target: rt.path, proto: "HTTP/1.0", host: "-", plain: true}
		}
		return origin(rt)
	}
	getRoutes := []route{routes[0], routes[2], routes[3], routes[4]}
	for ti, t := range s.toks {
		if !t.used {
			continue
		}
		// the same credential string three times in a row: other route, other spelling
		for rep := 0; rep < 3; rep++ {
			rt := getRoutes[(ti+rep)%len(getRoutes)]
			res := e.internal(rt, plain(rt, rep), seqCred("seq/short-lived-valid/"+t.id, vOK, t.tok))
			e.r.Count("seq_presentations_while_valid", 1)
			if res.o.kind == "reached" {
				t.accepted++
			}
		}
		if t.accepted == 0 {
			if time.Since(s.start) < seqLifetime-seqMargin {
				e.r.Unspecified("refused:short-lived-conforming-token")
			} else {
				e.r.Inconclusive("sequence: the short-lived token " + t.id + " was presented too late to be accepted (slow machine)")
			}
			continue
		}
		e.r.Count("seq_tokens_accepted_while_valid", 1)
	}

	// failing credentials derived from a token the node has just accepted
	for _, t := range s.toks {
		if !t.used || t.accepted == 0 || (t.k != kr.alice && t.k != kr.bob) || t.hdr["kid"] != t.k.kidSSH {
			continue
		}
		parts := strings.Split(t.tok, ".")
		in := parts[0] + "." + parts[1]
		derived := func(variant, tok string) {
			rt := routes[0]
			e.internal(rt, origin(rt), seqCred("seq/after-accept/"+variant+"/"+t.k.id, vInvalid, tok))
			e.r.Count("seq_derived_failing_credentials", 1)
		}
		sig, _ := base64.RawURLEncoding.DecodeString(parts[2])
		sig[len(sig)/3] ^= 0x10
		derived("signature-bit-flipped", in+"."+b64(sig))
		derived("signature-truncated", in+"."+parts[2][:len(parts[2])-2])
		derived("signature-removed", in+".")
		if t.k == kr.alice {
			derived("same-bytes-signed-by-unauthorised-key", in+"."+b64(signRaw(kr.mallory, "EdDSA", []byte(in))))
		}
		with := func(f func(c map[string]any)) map[string]any {
			c := map[string]any{}
			for k, v := range t.claims {
				c[k] = v
			}
			f(c)
			return c
		}
		now := s.start.Unix()
		longer := with(func(c map[string]any) { c["exp"] = now + 3600 })
		derived("payload-with-later-exp-under-accepted-signature", parts[0]+"."+b64(mustJSON(longer))+"."+parts[2])
		derived("same-jti-other-audience", compactJWS(t.hdr, mustJSON(with(func(c map[string]any) { c["aud"] = "other-node.verif.example" })), t.k, t.alg))
		derived("same-jti-already-expired", compactJWS(t.hdr, mustJSON(with(func(c map[string]any) { c["iat"] = now - 7200; c["nbf"] = now - 7200; c["exp"] = now - 600 })), t.k, t.alg))
		derived("same-jti-foreign-issuer", compactJWS(t.hdr, mustJSON(with(func(c map[string]any) { c["iss"] = kr.carol.name })), t.k, t.alg))
		derived("same-jti-unauthorised-key", compactJWS(hdrFor(kr.mallory, "EdDSA"), mustJSON(t.claims), kr.mallory, "EdDSA"))
		other := kr.bob
		if t.k == kr.bob {
			other = kr.carol
		}
		derived("same-claims-signed-by-other-authorised-key", compactJWS(hdrFor(other, other.alg), mustJSON(t.claims), other, other.alg))
	}
	return s
}

// seqEnd waits until every short-lived token is certainly expired and presents all of them again.
func seqEnd(e *env, s *seqState) {
	if wait := seqLifetime + seqMargin - time.Since(s.start); wait > 0 {
		e.r.Count("seq_wait_ms", int(wait/time.Millisecond))
		time.Sleep(wait)
	}
	if time.Since(s.start) < seqLifetime+seqMargin {
		e.r.Inconclusive("sequence: monotonic stopwatch did not advance past the token lifetime")
		return
	}
	getRoutes := []route{routes[0], routes[2], routes[3], routes[4]}
	for ti, t := range s.toks {
		class := "seq/expired-after-accepted/" + t.id
		if t.accepted == 0 {
			class = "seq/expired-never-accepted/" + t.id
		}
		presentations := []struct {
			rt route
			f  form
			c  cred
		}{
			{routes[0], origin(routes[0]), seqCred(class, vInvalid, t.tok)},
			{getRoutes[(ti+1)%len(getRoutes)], origin(getRoutes[(ti+1)%len(getRoutes)]), seqCred(class, vInvalid, t.tok)},
			{routes[0], form{class: "query", name: "query/pair", target: routes[0].path + "?a=b", plain: true}, seqCred(class, vInvalid, t.tok)},
			{routes[0], origin(routes[0]), cred{class + "/lowercase-scheme", vInvalid, []string{"authorization: bearer " + t.tok}}},
			{routes[1], origin(routes[1]), seqCred(class, vInvalid, t.tok)}, // a POST that would create a subject
			{routes[0], origin(routes[0]), seqCred(class, vInvalid, t.tok)},
		}
		for _, p := range presentations {
			if !e.dispatch[e.cfg+"|"+p.rt.name+"|"+p.f.name] {
				e.internal(p.rt, p.f, e.cred("valid/ed25519/kid-ssh"))
			}
			res := e.internal(p.rt, p.f, p.c)
			e.r.Count("seq_presentations_after_expiry", 1)
			if res.o.kind == "auth-401" {
				e.r.Count("seq_refused_401_after_expiry", 1)
			}
		}
	}
	e.r.Extra(e.cfg+"_sequence", fmt.Sprintf("%d short-lived tokens (%v lifetime), re-presented %.1f s after minting", len(s.toks), seqLifetime, time.Since(s.start).Seconds()))
}
