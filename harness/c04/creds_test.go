package c04

// Credential generator: every credential carries the verdict of the reference predicate
// (signed by an authorised key AND aud = configured audience AND iss = that key's user name AND non-empty sub
// AND UUID jti AND bounded lifetime that contains "now"), fixed by construction.

import (
	"encoding/base64"
	"fmt"
	"math/rand"
	"sort"
	"strings"
	"time"

	"github.com/google/uuid"
)

const audience = "c04-node.verif.example"

type verdict int

const (
	vInvalid verdict = iota // predicate false: must never reach a handler
	vValid                  // predicate true, documented form: must be admitted on a plain request (calibration)
	vOK                     // predicate true but in a shape the docs restrict further: either outcome is fine
	vUnspec                 // the property text does not decide this credential
)

func (v verdict) String() string {
	return [...]string{"invalid", "valid", "valid-unusual", "unspecified"}[v]
}

type cred struct {
	class   string
	verdict verdict
	lines   []string // complete header lines
}

type credGen struct {
	kr  *keyring
	rnd *rand.Rand
}

func (g *credGen) uuid() string {
	u, err := uuid.NewRandomFromReader(g.rnd)
	if err != nil {
		panic(err)
	}
	return u.String()
}

// claims returns a fully conforming claim set for key k. All instants keep >= 120 s distance from "now".
func (g *credGen) claims(k *keyT) map[string]any {
	now := time.Now().Unix()
	return map[string]any{"iss": k.name, "sub": "operator-7", "aud": audience, "jti": g.uuid(), "iat": now - 300, "nbf": now - 300, "exp": now + 3600}
}

func hdrFor(k *keyT, alg string) map[string]any {
	return map[string]any{"alg": alg, "typ": "JWT", "kid": k.kidSSH}
}

func bearer(tok string) []string { return []string{"Authorization: Bearer " + tok} }

// good returns a conforming token of key k.
func (g *credGen) good(k *keyT) string {
	return compactJWS(hdrFor(k, k.alg), mustJSON(g.claims(k)), k, k.alg)
}

// all returns the complete credential list (tokens, JOSE attacks, Authorization header shapes).
func (g *credGen) all() []cred {
	kr := g.kr
	a := kr.alice
	var out []cred
	add := func(class string, v verdict, tok string) { out = append(out, cred{class, v, bearer(tok)}) }
	addLines := func(class string, v verdict, lines ...string) { out = append(out, cred{class, v, lines}) }

	// --- conforming tokens, one per authorised key / permitted algorithm / kid flavour
	for _, k := range kr.authorised() {
		add("valid/"+k.id+"/kid-ssh", vValid, g.good(k))
		h := hdrFor(k, k.alg)
		h["kid"] = k.kidJWK
		add("valid/"+k.id+"/kid-jwk", vValid, compactJWS(h, mustJSON(g.claims(k)), k, k.alg))
	}
	add("valid/rsa2048/PS512", vValid, compactJWS(hdrFor(kr.erin, "PS512"), mustJSON(g.claims(kr.erin)), kr.erin, "PS512"))
	for _, alg := range []string{"RS256", "RS384", "PS256", "PS384"} {
		// docs forbid them, the property text is silent on RSA digest sizes
		add("unspec/rsa2048/"+alg, vUnspec, compactJWS(hdrFor(kr.erin, alg), mustJSON(g.claims(kr.erin)), kr.erin, alg))
	}

	// --- single claim defects on a token properly signed by alice
	mut := func(class string, v verdict, f func(c map[string]any)) {
		c := g.claims(a)
		f(c)
		add(class, v, compactJWS(hdrFor(a, a.alg), mustJSON(c), a, a.alg))
	}
	del := func(name string) func(map[string]any) { return func(c map[string]any) { delete(c, name) } }
	set := func(name string, v any) func(map[string]any) { return func(c map[string]any) { c[name] = v } }
	mut("claim/aud-missing", vInvalid, del("aud"))
	mut("claim/aud-other", vInvalid, set("aud", "other-node.verif.example"))
	mut("claim/aud-uppercase", vInvalid, set("aud", strings.ToUpper(audience)))
	mut("claim/aud-suffix", vInvalid, set("aud", audience+".evil.example"))
	mut("claim/aud-prefix", vInvalid, set("aud", "x"+audience))
	mut("claim/aud-trailing-dot", vInvalid, set("aud", audience+"."))
	mut("claim/aud-empty", vInvalid, set("aud", ""))
	mut("claim/aud-array-without", vInvalid, set("aud", []string{"a", "b"}))
	mut("claim/aud-empty-array", vInvalid, set("aud", []string{}))
	mut("claim/aud-number", vInvalid, set("aud", 7))
	mut("claim/aud-array-with", vOK, set("aud", []string{"a", audience}))
	mut("claim/iss-missing", vInvalid, del("iss"))
	mut("claim/iss-other-authorised-user", vInvalid, set("iss", kr.bob.name))
	mut("claim/iss-unknown-user", vInvalid, set("iss", "nobody@c04.example"))
	mut("claim/iss-uppercase", vInvalid, set("iss", strings.ToUpper(a.name)))
	mut("claim/iss-trailing-space", vInvalid, set("iss", a.name+" "))
	mut("claim/iss-prefix-only", vInvalid, set("iss", strings.Split(a.name, "@")[0]))
	mut("claim/iss-empty", vInvalid, set("iss", ""))
	mut("claim/sub-missing", vInvalid, del("sub"))
	mut("claim/sub-empty", vInvalid, set("sub", ""))
	mut("claim/sub-number", vUnspec, set("sub", 12)) // a subject is present, though not a string
	mut("claim/jti-missing", vInvalid, del("jti"))
	mut("claim/jti-empty", vInvalid, set("jti", ""))
	mut("claim/jti-word", vInvalid, set("jti", "not-a-uuid"))
	mut("claim/jti-digits", vInvalid, set("jti", "1234567890"))
	mut("claim/jti-uuid-plus-garbage", vInvalid, set("jti", g.uuid()+"-x"))
	mut("claim/jti-number", vInvalid, set("jti", 42))
	mut("claim/iat-missing", vInvalid, del("iat"))
	mut("claim/exp-missing", vInvalid, del("exp"))
	mut("claim/nbf-missing", vUnspec, del("nbf")) // lifetime still bounded by iat..exp; only the docs demand nbf
	mut("claim/all-times-missing", vInvalid, func(c map[string]any) { delete(c, "iat"); delete(c, "nbf"); delete(c, "exp") })
	now := time.Now().Unix()
	mut("claim/lifetime-48h", vInvalid, set("exp", now-300+48*3600))
	mut("claim/lifetime-25h", vInvalid, set("exp", now-300+25*3600))
	mut("claim/lifetime-10y", vInvalid, set("exp", now+10*365*86400))
	mut("claim/lifetime-24h15m", vUnspec, set("exp", now-300+24*3600+900)) // docs: 24 h, code: 24.5 h
	mut("claim/iat-30d-ago", vUnspec, set("iat", now-30*86400))            // nbf..exp is short, iat..exp is not: "bounded" is ambiguous here
	mut("claim/iat-nbf-30d-ago", vInvalid, func(c map[string]any) { c["iat"] = now - 30*86400; c["nbf"] = now - 30*86400 })
	mut("claim/expired", vInvalid, func(c map[string]any) { c["iat"] = now - 7200; c["nbf"] = now - 7200; c["exp"] = now - 600 })
	mut("claim/not-yet-valid", vInvalid, func(c map[string]any) { c["nbf"] = now + 6*3600; c["exp"] = now + 7*3600 })
	mut("claim/issued-and-valid-in-future", vInvalid, func(c map[string]any) { c["iat"] = now + 6*3600; c["nbf"] = now + 6*3600; c["exp"] = now + 7*3600 })
	mut("claim/nbf-before-iat", vUnspec, func(c map[string]any) { c["iat"] = now - 300; c["nbf"] = now - 900 })
	mut("claim/exp-as-string", vUnspec, set("exp", fmt.Sprint(now+3600)))
	mut("claim/exp-fraction", vOK, set("exp", float64(now+3600)+0.5))
	mut("claim/exp-zero", vInvalid, set("exp", 0))
	mut("claim/exp-negative", vInvalid, set("exp", -1))
	mut("claim/exp-half-second-after-epoch", vInvalid, set("exp", 0.5))
	mut("claim/exp-zero-string", vInvalid, set("exp", "0"))
	mut("claim/all-times-zero", vInvalid, func(c map[string]any) { c["iat"] = 0; c["nbf"] = 0; c["exp"] = 0 })
	mut("claim/nbf-iat-zero", vInvalid, func(c map[string]any) { c["iat"] = 0; c["nbf"] = 0 }) // "valid since 1970": lifetime of decades
	mut("claim/exp-equals-nbf-in-past", vInvalid, func(c map[string]any) { c["exp"] = c["nbf"] })
	mut("claim/exp-null", vInvalid, set("exp", nil))
	// duplicate member names: which one counts is not defined
	{
		c := g.claims(a)
		js := string(mustJSON(c))
		dup := `{"aud":"other-node.verif.example",` + js[1:]
		add("unspec/duplicate-aud-member", vUnspec, compactJWS(hdrFor(a, a.alg), []byte(dup), a, a.alg))
	}
	add("claim/payload-not-json", vInvalid, compactJWS(hdrFor(a, a.alg), []byte("hello"), a, a.alg))
	add("claim/payload-array", vInvalid, compactJWS(hdrFor(a, a.alg), []byte(`["iss","sub"]`), a, a.alg))
	add("claim/payload-empty-object", vInvalid, compactJWS(hdrFor(a, a.alg), []byte(`{}`), a, a.alg))

	// --- keys that must not authorise
	for _, k := range []*keyT{kr.mallory, kr.nocomment, kr.weak, kr.commented} {
		add("key/"+k.id+"/own-kid", vInvalid, g.good(k))
		// claims of alice, kid of alice, signature of the unauthorised key
		tok := compactJWS(hdrFor(a, k.alg), mustJSON(g.claims(a)), k, k.alg)
		add("key/"+k.id+"/alice-kid-and-claims", vInvalid, tok)
	}
	// authorised key bob signs a token in alice's name (kid of bob / kid of alice)
	add("key/bob-signs-as-alice/kid-bob", vInvalid, compactJWS(hdrFor(kr.bob, "ES256"), mustJSON(g.claims(a)), kr.bob, "ES256"))
	{
		h := hdrFor(a, "ES256")
		add("key/bob-signs-as-alice/kid-alice", vInvalid, compactJWS(h, mustJSON(g.claims(a)), kr.bob, "ES256"))
	}
	{
		h := hdrFor(a, a.alg)
		delete(h, "kid")
		add("jose/no-kid", vOK, compactJWS(h, mustJSON(g.claims(a)), a, a.alg))
		h2 := hdrFor(kr.bob, a.alg) // alice's signature, bob's kid
		add("jose/kid-of-other-authorised-key", vOK, compactJWS(h2, mustJSON(g.claims(a)), a, a.alg))
	}

	// --- hostile JOSE variants
	goodTok := g.good(a)
	parts := strings.Split(goodTok, ".")
	for _, none := range []string{"none", "None", "NONE", "nOnE"} {
		h := hdrFor(a, none)
		in := b64(mustJSON(h)) + "." + b64(mustJSON(g.claims(a)))
		add("jose/alg-"+none+"/empty-signature", vInvalid, in+".")
		add("jose/alg-"+none+"/reused-signature", vInvalid, in+"."+parts[2])
	}
	add("jose/alg-none/two-segments", vInvalid, b64(mustJSON(hdrFor(a, "none")))+"."+b64(mustJSON(g.claims(a))))
	for _, k := range []*keyT{a, kr.bob, kr.erin} {
		encs := pubEncodings(k)
		for _, enc := range sortedKeys(encs) {
			secret := encs[enc]
			for _, alg := range []string{"HS256", "HS512"} {
				if alg == "HS512" && enc != "pkix-pem" {
					continue
				}
				h := hdrFor(k, alg)
				in := b64(mustJSON(h)) + "." + b64(mustJSON(g.claims(k)))
				add("jose/"+alg+"-public-key-as-secret/"+k.id+"/"+enc, vInvalid, in+"."+b64(hmacSign(alg, secret, []byte(in))))
			}
		}
	}
	{
		h := hdrFor(a, "HS256")
		in := b64(mustJSON(h)) + "." + b64(mustJSON(g.claims(a)))
		add("jose/HS256-empty-secret", vInvalid, in+"."+b64(hmacSign("HS256", nil, []byte(in))))
	}
	m := kr.mallory
	for _, inj := range []string{"jwk", "jku", "x5u", "x5c"} {
		h := hdrFor(a, m.alg)
		switch inj {
		case "jwk":
			h["jwk"] = pubJWK(m)
		case "jku", "x5u":
			h[inj] = "https://evil.example/keys.json"
		case "x5c":
			h["x5c"] = []string{base64.StdEncoding.EncodeToString([]byte("not a certificate"))}
		}
		add("jose/"+inj+"-injected/attacker-signature", vInvalid, compactJWS(h, mustJSON(g.claims(a)), m, m.alg))
		hm := hdrFor(m, m.alg)
		hm[inj] = h[inj]
		mc := g.claims(a)
		add("jose/"+inj+"-injected/attacker-kid", vInvalid, compactJWS(hm, mustJSON(mc), m, m.alg))
		// same header on a token that alice really signed: forbidden by the docs only
		add("jose/"+inj+"-injected/authorised-signature", vOK, compactJWS(h, mustJSON(g.claims(a)), a, a.alg))
	}
	{
		pl := mustJSON(g.claims(a))
		sa := sigPart{hdrFor(a, a.alg), a, a.alg}
		sm := sigPart{hdrFor(m, m.alg), m, m.alg}
		smAsA := sigPart{hdrFor(a, m.alg), m, m.alg}
		add("jose/json-general/attacker+attacker", vInvalid, jsonJWS(pl, false, sm, smAsA))
		add("jose/json-general/attacker-only", vInvalid, jsonJWS(pl, false, smAsA))
		add("jose/json-flattened/attacker", vInvalid, jsonJWS(pl, true, smAsA))
		add("jose/json-general/attacker+authorised", vOK, jsonJWS(pl, false, sm, sa))
		add("jose/json-general/authorised+attacker", vOK, jsonJWS(pl, false, sa, sm))
		add("jose/json-general/authorised-only", vOK, jsonJWS(pl, false, sa))
		add("jose/json-flattened/authorised", vOK, jsonJWS(pl, true, sa))
	}
	// signature / payload tampering
	{
		sig, _ := base64.RawURLEncoding.DecodeString(parts[2])
		sig[len(sig)/2] ^= 0x04
		add("jose/signature-bit-flipped", vInvalid, parts[0]+"."+parts[1]+"."+b64(sig))
		add("jose/signature-truncated", vInvalid, parts[0]+"."+parts[1]+"."+parts[2][:len(parts[2])-4])
		add("jose/signature-empty", vInvalid, parts[0]+"."+parts[1]+".")
		c := g.claims(a)
		c["sub"] = "root"
		add("jose/payload-swapped-under-valid-signature", vInvalid, parts[0]+"."+b64(mustJSON(c))+"."+parts[2])
		h := hdrFor(a, a.alg)
		h["x"] = 1
		add("jose/header-swapped-under-valid-signature", vInvalid, b64(mustJSON(h))+"."+parts[1]+"."+parts[2])
		add("jose/five-segments", vInvalid, goodTok+".AAAA.BBBB")
		add("jose/one-segment", vInvalid, parts[1])
		add("jose/garbage", vInvalid, "this-is-not-a-token")
		add("jose/dots-only", vInvalid, "..")
		add("jose/header-not-json", vInvalid, b64([]byte("nope"))+"."+parts[1]+"."+parts[2])
		add("jose/alg-missing", vInvalid, func() string {
			h := hdrFor(a, a.alg)
			delete(h, "alg")
			in := b64(mustJSON(h)) + "." + parts[1]
			return in + "." + b64(signRaw(a, a.alg, []byte(in)))
		}())
		// alg says ES256 but the signature is alice's EdDSA one
		hh := hdrFor(a, "ES256")
		in := b64(mustJSON(hh)) + "." + parts[1]
		add("jose/alg-mismatch-ES256-header-EdDSA-signature", vUnspec, in+"."+b64(signRaw(a, "EdDSA", []byte(in))))
		big := g.claims(a)
		big["pad"] = strings.Repeat("A", 5000)
		add("jose/oversize-but-conforming", vOK, compactJWS(hdrFor(a, a.alg), mustJSON(big), a, a.alg))
	}

	// --- Authorization header shapes
	t := g.good(a)
	bad := compactJWS(hdrFor(a, m.alg), mustJSON(g.claims(a)), m, m.alg)
	addLines("authz/none", vInvalid)
	addLines("authz/empty-value", vInvalid, "Authorization:")
	addLines("authz/bearer-without-token", vInvalid, "Authorization: Bearer")
	addLines("authz/bearer-blank-token", vInvalid, "Authorization: Bearer    ")
	addLines("authz/basic", vInvalid, "Authorization: Basic "+base64.StdEncoding.EncodeToString([]byte("alice@c04.example:secret")))
	addLines("authz/basic-admin", vInvalid, "Authorization: Basic "+base64.StdEncoding.EncodeToString([]byte("admin:admin")))
	addLines("authz/bearer-invalid+extra-field", vInvalid, "Authorization: Bearer "+bad+" "+bad)
	addLines("authz/two-headers-both-invalid", vInvalid, "Authorization: Bearer "+bad, "Authorization: Bearer x.y.z")
	addLines("authz/invalid+x-forwarded-user", vInvalid, "Authorization: Bearer "+bad, "X-Forwarded-User: "+a.name, "X-Remote-User: "+a.name)
	addLines("authz/user-headers-only", vInvalid, "X-Forwarded-User: "+a.name, "X-User: "+a.name, "User: "+a.name)
	addLines("authz/cookie-only", vInvalid, "Cookie: token="+bad+"; user="+a.name)
	addLines("authz/no-scheme-valid-token", vUnspec, "Authorization: "+t)
	addLines("authz/scheme-Token-valid-token", vUnspec, "Authorization: Token "+t)
	addLines("authz/scheme-JWT-valid-token", vUnspec, "Authorization: JWT "+t)
	addLines("authz/scheme-Basic-valid-token", vUnspec, "Authorization: Basic "+t)
	addLines("authz/proxy-authorization-valid-token", vUnspec, "Proxy-Authorization: Bearer "+t)
	addLines("authz/lowercase-name-and-scheme", vOK, "authorization: bearer "+t)
	addLines("authz/uppercase-name-and-scheme", vOK, "AUTHORIZATION: BEARER "+t)
	addLines("authz/tab-separated", vOK, "Authorization:\tBearer\t"+t)
	addLines("authz/extra-field-after-valid", vOK, "Authorization: Bearer "+t+" extra")
	addLines("authz/comma-joined", vOK, "Authorization: Bearer "+t+", Bearer "+bad)
	addLines("authz/two-headers-invalid-then-valid", vOK, "Authorization: Bearer "+bad, "Authorization: Bearer "+t)
	addLines("authz/two-headers-valid-then-invalid", vOK, "Authorization: Bearer "+t, "Authorization: Bearer "+bad)
	addLines("authz/two-headers-basic-then-valid", vOK, "Authorization: Basic YTpi", "Authorization: Bearer "+t)
	return out
}

// pick returns the credentials whose class has the given prefix.
func pick(cs []cred, prefix string) []cred {
	var out []cred
	for _, c := range cs {
		if strings.HasPrefix(c.class, prefix) {
			out = append(out, c)
		}
	}
	return out
}

func byVerdict(cs []cred, v verdict) []cred {
	var out []cred
	for _, c := range cs {
		if c.verdict == v {
			out = append(out, c)
		}
	}
	return out
}

func sortedKeys(m map[string][]byte) []string {
	var ks []string
	for k := range m {
		ks = append(ks, k)
	}
	sort.Strings(ks)
	return ks
}
