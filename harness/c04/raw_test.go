package c04

// Raw TCP exchange, response classification and the node state fingerprint.

import (
	"bufio"
	"encoding/json"
	"fmt"
	"io"
	"io/fs"
	"net"
	"net/http"
	"path/filepath"
	"sort"
	"strings"
	"time"

	"gorm.io/gorm"
)

type route struct {
	name   string
	method string
	path   string
	body   string
}

type outcome struct {
	kind   string // no-response | server-reject | server-options | auth-401 | router-404 | router-405 | router-options | reached
	status int
	ctype  string
	body   string
	err    string
}

func (o outcome) String() string {
	b := o.body
	if len(b) > 160 {
		b = b[:160] + "…"
	}
	return fmt.Sprintf("%s status=%d body=%q err=%s", o.kind, o.status, b, o.err)
}

func effectiveMethod(rt route, f form) string {
	switch f.method {
	case "":
		return rt.method
	case "~lower":
		return strings.ToLower(rt.method)
	}
	return f.method
}

// buildRequest returns the exact bytes put on the wire.
func buildRequest(rt route, f form, hp string, c cred) []byte {
	var sb strings.Builder
	if f.prelude {
		sb.WriteString("GET /status HTTP/1.1\r\nHost: " + hp + "\r\n\r\n")
	}
	sb.WriteString(effectiveMethod(rt, f) + " " + f.target)
	switch f.proto {
	case "":
		sb.WriteString(" HTTP/1.1")
	case "-":
	default:
		sb.WriteString(" " + f.proto)
	}
	sb.WriteString("\r\n")
	switch f.host {
	case "":
		sb.WriteString("Host: " + hp + "\r\n")
	case "-":
	default:
		sb.WriteString("Host: " + f.host + "\r\n")
	}
	for _, l := range c.lines {
		sb.WriteString(l + "\r\n")
	}
	if rt.body != "" {
		sb.WriteString("Content-Type: application/json\r\n")
		fmt.Fprintf(&sb, "Content-Length: %d\r\n", len(rt.body))
	}
	sb.WriteString("Connection: close\r\n\r\n")
	sb.WriteString(rt.body)
	return []byte(sb.String())
}

// exchangeRaw writes raw to hp and reads nResp responses; the last one is classified.
func exchangeRaw(hp string, raw []byte, method, target string, nResp int) (outcome, bool) {
	conn, err := net.DialTimeout("tcp", hp, 10*time.Second)
	if err != nil {
		return outcome{kind: "no-response", err: "dial: " + err.Error()}, true
	}
	defer conn.Close()
	_ = conn.SetDeadline(time.Now().Add(30 * time.Second)) // watchdog only
	if _, err := conn.Write(raw); err != nil {
		return outcome{kind: "no-response", err: "write: " + err.Error()}, false
	}
	br := bufio.NewReader(conn)
	var o outcome
	for i := 0; i < nResp; i++ {
		m := method
		if i < nResp-1 {
			m = "GET"
		}
		resp, err := http.ReadResponse(br, &http.Request{Method: m})
		if err != nil {
			timedOut := false
			if ne, ok := err.(net.Error); ok && ne.Timeout() {
				timedOut = true
			}
			return outcome{kind: "no-response", err: err.Error()}, timedOut
		}
		body, _ := io.ReadAll(io.LimitReader(resp.Body, 1<<20))
		resp.Body.Close()
		o = outcome{status: resp.StatusCode, ctype: resp.Header.Get("Content-Type"), body: string(body)}
	}
	o.kind = classify(method, target, o)
	return o, false
}

func classify(method, target string, o outcome) string {
	plain := strings.HasPrefix(o.ctype, "text/plain")
	if plain && o.status >= 400 && strings.HasPrefix(o.body, fmt.Sprintf("%d %s", o.status, http.StatusText(o.status))) {
		return "server-reject" // written by net/http before any echo code ran
	}
	if method == "OPTIONS" && target == "*" && o.status == 200 && o.body == "" {
		return "server-options" // net/http answers "OPTIONS *" itself
	}
	if o.status == 401 && (o.body == "Unauthorized" || method == "HEAD" && o.body == "") {
		return "auth-401" // (a HEAD answer has no body: decided on the status alone)
	}
	if method == "OPTIONS" && o.status == 204 && o.body == "" {
		return "router-options" // echo's router answers OPTIONS for a registered path itself (Allow header), no handler runs
	}
	if o.status == 404 || o.status == 405 {
		if method == "HEAD" && o.body == "" {
			return fmt.Sprintf("router-%d", o.status)
		}
		var p struct {
			Title  string `json:"title"`
			Detail string `json:"detail"`
		}
		// the router's own errors carry no operation id: title "Operation failed", detail = status text
		if json.Unmarshal([]byte(o.body), &p) == nil && p.Title == "Operation failed" && p.Detail == http.StatusText(o.status) {
			return fmt.Sprintf("router-%d", o.status)
		}
	}
	return "reached"
}

// ---- state fingerprint: SQL row counts of every table + files in the data directory ---------------------

type stateProbe struct {
	db     *gorm.DB
	tables []string
	dir    string
}

func newStateProbe(db *gorm.DB, dir string) (*stateProbe, error) {
	var names []string
	if err := db.Raw("SELECT name FROM sqlite_master WHERE type='table' AND name NOT LIKE 'sqlite_%'").Scan(&names).Error; err != nil {
		return nil, err
	}
	sort.Strings(names)
	return &stateProbe{db: db, tables: names, dir: dir}, nil
}

func (s *stateProbe) snap() (map[string]int64, error) {
	out := map[string]int64{}
	for _, t := range s.tables {
		var n int64
		if err := s.db.Raw("SELECT count(*) FROM \"" + t + "\"").Scan(&n).Error; err != nil {
			return nil, err
		}
		out["sql:"+t] = n
	}
	// files below <datadir>/crypto (private keys of the fs backend)
	var files int64
	_ = filepath.WalkDir(filepath.Join(s.dir, "crypto"), func(_ string, d fs.DirEntry, err error) error {
		if err == nil && !d.IsDir() {
			files++
		}
		return nil
	})
	out["files:crypto"] = files
	return out, nil
}

func diffState(a, b map[string]int64) []string {
	var out []string
	for k, v := range b {
		if a[k] != v {
			out = append(out, fmt.Sprintf("%s %d->%d", k, a[k], v))
		}
	}
	sort.Strings(out)
	return out
}
