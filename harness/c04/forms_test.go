package c04

// Request-target grammar: every way the harness knows to spell a request for one registered path.

import (
	"fmt"
	"math/rand"
	"strings"
)

type form struct {
	class   string // stable class (used in violation keys)
	name    string // unique within the list
	target  string // request-target bytes
	method  string // "" = the route's method
	proto   string // "" = HTTP/1.1, "-" = no protocol token at all (HTTP/0.9 style)
	host    string // "" = the listener's host:port, "-" = no Host header, otherwise literal
	prelude bool   // a benign complete request precedes it on the same connection
	plain   bool   // ordinary spelling: a conforming token MUST be admitted (calibration of the harness)
}

func pctAll(s string, upper bool) string {
	var sb strings.Builder
	for i := 0; i < len(s); i++ {
		if s[i] == '/' {
			sb.WriteByte('/')
			continue
		}
		if upper {
			fmt.Fprintf(&sb, "%%%02X", s[i])
		} else {
			fmt.Fprintf(&sb, "%%%02x", s[i])
		}
	}
	return sb.String()
}

func letterPositions(s string) []int {
	var out []int
	for i := 0; i < len(s); i++ {
		if s[i] >= 'a' && s[i] <= 'z' || s[i] >= 'A' && s[i] <= 'Z' {
			out = append(out, i)
		}
	}
	return out
}

func slashPositions(s string) []int {
	var out []int
	for i := 0; i < len(s); i++ {
		if s[i] == '/' {
			out = append(out, i)
		}
	}
	return out
}

func flipCase(b byte) byte {
	if b >= 'a' && b <= 'z' {
		return b - 32
	}
	if b >= 'A' && b <= 'Z' {
		return b + 32
	}
	return b
}

// forms returns the request-target variants for path p (which starts with a first segment such as /internal) on listener hp.
func forms(p, hp string, rnd *rand.Rand, nRandom int) []form {
	seg := p
	rest := ""
	if i := strings.Index(p[1:], "/"); i >= 0 {
		seg, rest = p[:i+1], p[i+1:]
	}
	first := seg[1:] // e.g. "internal"
	var out []form
	add := func(class, name, target string) *form {
		out = append(out, form{class: class, name: name, target: target})
		return &out[len(out)-1]
	}
	// origin-form
	add("origin-form", "origin", p).plain = true
	add("origin-form", "origin/pipelined-second", p).prelude = true
	add("query", "query/empty", p+"?").plain = true
	add("query", "query/pair", p+"?a=b").plain = true
	add("query", "query/dotdot", p+"?/../../status")
	add("query", "query/url", p+"?http://x/status")
	add("query", "query/question-marks", p+"??x?")
	add("fragment", "fragment/plain", p+"#frag")
	add("fragment", "fragment/after-query", p+"?a=b#/status")
	add("fragment", "fragment/encoded", p+"%23frag")
	add("query", "query/encoded-question-mark", p+"%3Fa=b")
	// absolute-form
	for _, a := range []struct{ n, pre string }{
		{"http-self", "http://" + hp}, {"http-other-host", "http://x"}, {"http-other-host-port", "http://evil.example:80"},
		{"https-self", "https://" + hp}, {"https-other", "https://x"}, {"uppercase-scheme", "HTTP://X"}, {"ftp", "ftp://x"}, {"ws", "ws://x"},
		{"unknown-scheme", "x-y.z+1://h"}, {"userinfo", "http://user:pw@x"}, {"ipv6-host", "http://[::1]"}, {"empty-authority", "http://"},
		{"scheme-no-slashes", "http:"}, {"host-named-internal", "http://internal"}, {"host-named-status", "http://status"},
		{"path-prefix-public", "http://x/.."}, {"localhost", "http://localhost"}, {"ip-loopback", "http://127.0.0.1"},
	} {
		add("absolute-form", "absolute/"+a.n, a.pre+p)
	}
	add("absolute-form", "absolute/with-query", "http://x"+p+"?a=b")
	add("absolute-form", "absolute/host-header-mismatch", "http://x"+p).host = "evil.example"
	add("absolute-form", "absolute/host-header-self-target-other", "http://other.example"+p).host = hp
	add("absolute-form", "absolute/no-host-header", "http://x"+p).host = "-"
	{
		f := add("absolute-form", "absolute/http10-no-host-header", "http://x"+p)
		f.proto, f.host = "HTTP/1.0", "-"
	}
	add("absolute-form", "absolute/pipelined-second", "http://x"+p).prelude = true
	add("absolute-form", "absolute/encoded-first-letter", "http://x/"+pctAll(first[:1], false)+first[1:]+rest)
	add("absolute-form", "absolute/double-slash-path", "http://x/"+p)
	add("absolute-form", "absolute/opaque", "http:x"+p)
	add("network-path", "network-path/host", "//x"+p)
	add("network-path", "network-path/self", "//"+hp+p)
	// authority-form / CONNECT
	add("authority-form", "connect/authority", hp).method = "CONNECT"
	add("authority-form", "connect/authority-with-path", "x"+p).method = "CONNECT"
	add("authority-form", "connect/origin-path", p).method = "CONNECT"
	add("authority-form", "connect/absolute", "http://x"+p).method = "CONNECT"
	add("authority-form", "authority-with-route-method", hp)
	add("authority-form", "authority-with-path-and-route-method", "x"+p)
	// asterisk-form
	add("asterisk-form", "asterisk/options", "*").method = "OPTIONS"
	add("asterisk-form", "asterisk/route-method", "*")
	add("asterisk-form", "asterisk/with-path", "*"+p)
	// duplicated slashes
	add("dup-slash", "dup-slash/leading", "/"+p)
	add("dup-slash", "dup-slash/leading-triple", "//"+p)
	add("dup-slash", "dup-slash/after-first-segment", seg+"/"+rest)
	add("dup-slash", "dup-slash/trailing", p+"/")
	add("dup-slash", "dup-slash/trailing-double", p+"//")
	add("dup-slash", "dup-slash/everywhere", strings.ReplaceAll(p, "/", "//"))
	// encoded slashes / backslashes
	add("encoded-slash", "encoded-slash/all-upper", "/"+strings.ReplaceAll(p[1:], "/", "%2F"))
	add("encoded-slash", "encoded-slash/all-lower", "/"+strings.ReplaceAll(p[1:], "/", "%2f"))
	add("encoded-slash", "encoded-slash/leading", "%2F"+p[1:])
	add("encoded-slash", "encoded-slash/leading-extra", "/%2F"+p[1:])
	add("encoded-slash", "encoded-slash/after-first-segment", seg+"%2F"+strings.TrimPrefix(rest, "/"))
	add("backslash", "backslash/all", strings.ReplaceAll(p, "/", "\\"))
	add("backslash", "backslash/after-first-segment", seg+"\\"+strings.TrimPrefix(rest, "/"))
	add("backslash", "backslash/encoded", seg+"%5C"+strings.TrimPrefix(rest, "/"))
	add("encoded-slash", "encoded-slash/overlong-utf8", seg+"%c0%af"+strings.TrimPrefix(rest, "/"))
	// dot segments
	add("dot-segment", "dot/leading-dot", "/."+p)
	add("dot-segment", "dot/leading-dotdot", "/.."+p)
	add("dot-segment", "dot/other-then-up", "/public/.."+p)
	add("dot-segment", "dot/self-then-up", seg+"/.."+p)
	add("dot-segment", "dot/inner-dot", seg+"/."+rest)
	add("dot-segment", "dot/trailing-dot-segment", p+"/.")
	add("dot-segment", "dot/trailing-dotdot-segment", p+"/x/..")
	add("dot-segment", "dot/encoded-dot", "/%2e"+p)
	add("dot-segment", "dot/encoded-dotdot", "/public/%2e%2e"+p)
	add("dot-segment", "dot/encoded-dotdot-slash", "/public%2f..%2f"+p[1:])
	add("dot-segment", "dot/from-status", "/status/.."+p)
	add("dot-segment", "dot/no-leading-slash", "."+p)
	add("no-leading-slash", "relative/no-leading-slash", p[1:])
	// percent-encoded letters
	add("pct-encoded-letter", "pct/first-letter", "/"+pctAll(first[:1], false)+first[1:]+rest)
	add("pct-encoded-letter", "pct/first-letter-upper-hex", "/"+pctAll(first[:1], true)+first[1:]+rest)
	add("pct-encoded-letter", "pct/first-segment", "/"+pctAll(first, false)+rest)
	add("pct-encoded-letter", "pct/everything", pctAll(p, true))
	add("pct-encoded-letter", "pct/double-encoded", "/%25"+pctAll(first[:1], false)[1:]+first[1:]+rest)
	add("pct-encoded-letter", "pct/iis-u-notation", "/%u00"+pctAll(first[:1], false)[1:]+first[1:]+rest)
	add("pct-encoded-letter", "pct/invalid-escape", seg+"%zz"+rest)
	add("pct-encoded-letter", "pct/last-segment", func() string {
		i := strings.LastIndex(p, "/")
		return p[:i+1] + pctAll(p[i+1:i+2], false) + p[i+2:]
	}())
	add("control-char", "control/nul-suffix", p+"%00")
	add("control-char", "control/nul-after-first-segment", seg+"%00"+rest)
	add("control-char", "control/raw-nul", p+"\x00")
	add("control-char", "control/encoded-crlf", p+"%0d%0aX-Injected:%201")
	add("unicode", "unicode/fullwidth-i", "/ｉ"+first[1:]+rest)
	add("unicode", "unicode/dotless-i", "/ı"+first[1:]+rest)
	add("unicode", "unicode/kelvin-k-suffix", p+"K")
	add("unicode", "unicode/fullwidth-solidus", seg+"／"+strings.TrimPrefix(rest, "/"))
	// case variants
	add("case-variant", "case/capitalised", "/"+strings.ToUpper(first[:1])+first[1:]+rest)
	add("case-variant", "case/first-segment-upper", "/"+strings.ToUpper(first)+rest)
	add("case-variant", "case/all-upper", strings.ToUpper(p))
	add("case-variant", "case/rest-upper", seg+strings.ToUpper(rest))
	// hostile values in the position of a path parameter (last segment): the router sees one encoded segment, code that looks at the
	// decoded path sees slashes, dot segments or something that looks like a URL
	if i := strings.LastIndex(p, "/"); i > len(seg) {
		base := p[:i+1]
		for _, v := range []struct{ n, val string }{
			{"url-with-encoded-slashes", "x:%2F%2Fexample.com%2Fiam"}, {"http-url-encoded-slashes", "http:%2F%2Fx%2Fstatus"},
			{"fully-encoded-url", "a%3A%2F%2Fb%2Fc"}, {"encoded-dotdot-to-status", "..%2F..%2F..%2F..%2Fstatus"},
			{"encoded-dots-and-slashes", "%2e%2e%2f%2e%2e%2fstatus"}, {"did-web-with-port", "did:web:localhost%253A8080:iam:x"},
			{"scheme-then-public-path", "https:%2F%2Fx%2Foauth2%2Fy"}, {"encoded-question-mark-url", "x%3Fy=http:%2F%2Fz%2F"},
		} {
			add("param-value", "param-value/"+v.n, base+v.val)
		}
	}
	// ;params
	add("path-params", "params/first-segment", seg+";a=b"+rest)
	add("path-params", "params/last-segment", p+";a=b")
	add("path-params", "params/jsessionid", p+";jsessionid=1")
	add("path-params", "params/leading", "/;"+p)
	add("path-params", "params/dotdot", "/public;/.."+p)
	// trailing dots / blanks
	add("trailing-dot", "trailing/first-segment-dot", seg+"."+rest)
	add("trailing-dot", "trailing/dot", p+".")
	add("trailing-dot", "trailing/dotdot", p+"..")
	add("trailing-dot", "trailing/encoded-space", p+"%20")
	add("trailing-dot", "trailing/encoded-tab", p+"%09")
	add("trailing-dot", "trailing/first-segment-encoded-space", seg+"%20"+rest)
	add("trailing-dot", "trailing/plus", p+"+")
	add("trailing-dot", "trailing/extension", p+".json")
	// protocol versions
	{
		f := add("http10", "http10/with-host", p)
		f.proto, f.plain = "HTTP/1.0", true
		f = add("http10", "http10/no-host", p)
		f.proto, f.host, f.plain = "HTTP/1.0", "-", true
		add("http-version", "version/1.1-no-host", p).host = "-"
		add("http-version", "version/1.1-empty-host", p).host = " "
		add("http-version", "version/1.1-other-host", p).host = "evil.example"
		add("http-version", "version/1.1-host-internal", p).host = "internal"
		add("http-version", "version/0.9-style", p).proto = "-"
		add("http-version", "version/1.2", p).proto = "HTTP/1.2"
		add("http-version", "version/2.0", p).proto = "HTTP/2.0"
		add("http-version", "version/3.0", p).proto = "HTTP/3.0"
		add("http-version", "version/lowercase", p).proto = "http/1.1"
		add("http-version", "version/0.9", p).proto = "HTTP/0.9"
	}
	// method spelling
	add("method-variant", "method/lowercase", p).method = "~lower"
	add("method-variant", "method/HEAD", p).method = "HEAD"
	add("method-variant", "method/OPTIONS", p).method = "OPTIONS"
	add("method-variant", "method/TRACE", p).method = "TRACE"
	add("method-variant", "method/unknown", p).method = "FOO"
	// whitespace in the request line
	add("request-line-whitespace", "ws/space-in-target", seg+" "+rest)
	add("request-line-whitespace", "ws/tab-in-target", seg+"\t"+rest)
	add("request-line-whitespace", "ws/leading-space", " "+p)
	add("request-line-whitespace", "ws/two-targets", "/status "+p)
	// seeded variants
	lp := letterPositions(p)
	sp := slashPositions(p)
	for i := 0; i < nRandom; i++ {
		b := []byte(p)
		for k, n := 0, 1+rnd.Intn(4); k < n; k++ {
			j := lp[rnd.Intn(len(lp))]
			b[j] = flipCase(b[j])
		}
		add("case-variant", fmt.Sprintf("case/seeded-%d", i), string(b))

		var sb strings.Builder
		enc := map[int]bool{}
		for k, n := 0, 1+rnd.Intn(5); k < n; k++ {
			enc[lp[rnd.Intn(len(lp))]] = true
		}
		for j := 0; j < len(p); j++ {
			if enc[j] {
				sb.WriteString(pctAll(p[j:j+1], rnd.Intn(2) == 0))
			} else {
				sb.WriteByte(p[j])
			}
		}
		add("pct-encoded-letter", fmt.Sprintf("pct/seeded-%d", i), sb.String())

		j := sp[rnd.Intn(len(sp))]
		add("dup-slash", fmt.Sprintf("dup-slash/seeded-%d", i), p[:j]+strings.Repeat("/", 1+rnd.Intn(3))+p[j:])
		j = sp[rnd.Intn(len(sp))]
		add("encoded-slash", fmt.Sprintf("encoded-slash/seeded-%d", i), p[:j]+[]string{"%2F", "%2f", "%5c", "\\"}[rnd.Intn(4)]+p[j+1:])
		j = sp[rnd.Intn(len(sp))]
		add("dot-segment", fmt.Sprintf("dot/seeded-%d", i), p[:j]+[]string{"/.", "/x/..", "/./.", "/%2e", "/x/%2e%2e", "/..;"}[rnd.Intn(6)]+p[j:])
		// absolute-form around another variant
		scheme := []string{"http", "https", "HTTP", "ftp", "ws", "file", "x"}[rnd.Intn(7)]
		auth := []string{"x", hp, "evil.example:8080", "u@x", "[::1]:1", "", "internal", "localhost"}[rnd.Intn(8)]
		inner := out[rnd.Intn(len(out))]
		if strings.HasPrefix(inner.target, "/") {
			f := add("absolute-form", fmt.Sprintf("absolute/seeded-%d(%s)", i, inner.name), scheme+"://"+auth+inner.target)
			if rnd.Intn(3) == 0 {
				f.host = []string{"evil.example", "-", hp}[rnd.Intn(3)]
			}
			if rnd.Intn(4) == 0 {
				f.proto = "HTTP/1.0"
			}
		}
	}
	return out
}
