package c04

// Listener-configuration dimension of the property ("for all listener configurations"): the node is booted through the real
// start-up path (cmd.Execute, configuration through file / environment / command line) with the internal address empty, blank,
// unset (built-in default), on an ephemeral port, ... and, whenever it comes up, its PUBLIC listener is probed over raw TCP.
// Whatever the configuration: a node that starts never serves /internal, /status, /metrics, /health on the public listener
// (as long as the configured internal address is not the public one). A refused start-up is fine.

import (
	"context"
	"fmt"
	"net"
	"os"
	"path/filepath"
	"runtime"
	"strings"
	"testing"
	"time"

	"github.com/nuts-foundation/nuts-node/audit"
	"github.com/nuts-foundation/nuts-node/cmd"
	"github.com/sirupsen/logrus"
	"verif/lib/ev"
	"verif/lib/node"
)

type listenerCfg struct {
	name     string // stable name
	channel  string // how http.internal.address reaches the node: env | file | flag | unset
	internal string // its value
	auth     bool   // token_v2 enabled
}

func listenerCfgs() []listenerCfg {
	return []listenerCfg{
		{"internal-empty/env", "env", "", true},
		{"internal-empty/file", "file", "", false},
		{"internal-empty/flag", "flag", "", true},
		{"internal-empty/file+auth", "file", "", true},
		{"internal-blank/env", "env", " ", true},
		{"internal-blank/file", "file", "  ", false},
		{"internal-unset-default", "unset", "", false},
		{"internal-unset-default+auth", "unset", "", true},
		{"internal-ephemeral-port/env", "env", "localhost:0", true},
		{"internal-ephemeral-any-interface/file", "file", ":0", false},
		{"internal-no-port/env", "env", "localhost", true},
		{"internal-root-path/env", "env", "/", false},
	}
}

const looseBaseConfig = `strictmode: false
network:
  enablediscovery: false
auth:
  contractvalidators:
    - dummy
  irma:
    autoupdateschemas: false
`

func freePort() int {
	l, err := net.Listen("tcp", "127.0.0.1:0")
	if err != nil {
		panic(err)
	}
	defer l.Close()
	return l.Addr().(*net.TCPAddr).Port
}

// startLoose boots a node with listener configuration lc. It returns nil when the node refused to start (or stopped by itself).
func startLoose(t *testing.T, r *ev.Run, lc listenerCfg, kr *keyring, cap *audit.CapturedLog) (e *env, outcome string) {
	dir, err := os.MkdirTemp("", "c04-lc-")
	if err != nil {
		t.Fatal(err)
	}
	t.Cleanup(func() { os.RemoveAll(dir) })
	akf := filepath.Join(dir, "authorized_keys")
	if err := os.WriteFile(akf, []byte(kr.file), 0o600); err != nil {
		t.Fatal(err)
	}
	pub := fmt.Sprintf("localhost:%d", freePort())
	cfg := looseBaseConfig
	env := map[string]string{
		"NUTS_DATADIR":              dir,
		"NUTS_CONFIGFILE":           filepath.Join(dir, "nuts.yaml"),
		"NUTS_HTTP_PUBLIC_ADDRESS":  pub,
		"NUTS_NETWORK_GRPCADDR":     fmt.Sprintf("localhost:%d", freePort()),
		"NUTS_EVENTS_NATS_PORT":     fmt.Sprint(freePort()),
		"NUTS_EVENTS_NATS_HOSTNAME": "localhost",
		"NUTS_EVENTS_NATS_TIMEOUT":  "600",
		"NUTS_URL":                  "http://" + pub,
		"NUTS_DIDMETHODS":           "web",
		"NUTS_VERBOSITY":            "warn",
	}
	if lc.auth {
		env["NUTS_HTTP_INTERNAL_AUTH_TYPE"] = "token_v2"
		env["NUTS_HTTP_INTERNAL_AUTH_AUTHORIZEDKEYSPATH"] = akf
		env["NUTS_HTTP_INTERNAL_AUTH_AUDIENCE"] = audience
	}
	args := []string{"nuts", "server"}
	switch lc.channel {
	case "env":
		env["NUTS_HTTP_INTERNAL_ADDRESS"] = lc.internal
	case "file":
		cfg += fmt.Sprintf("http:\n  internal:\n    address: %q\n", lc.internal)
	case "flag":
		args = append(args, "--http.internal.address="+lc.internal)
	case "unset":
	}
	if err := os.WriteFile(env["NUTS_CONFIGFILE"], []byte(cfg), 0o644); err != nil {
		t.Fatal(err)
	}
	os.Unsetenv("NUTS_HTTP_INTERNAL_ADDRESS")
	var restore []func()
	for k, v := range env {
		k := k
		if old, had := os.LookupEnv(k); had {
			restore = append(restore, func() { os.Setenv(k, old) })
		} else {
			restore = append(restore, func() { os.Unsetenv(k) })
		}
		os.Setenv(k, v)
	}
	oldArgs := os.Args
	os.Args = args
	// a refused start-up ends in logrus.Fatal (= os.Exit) inside the goroutine that runs the server command: end that goroutine instead
	std := logrus.StandardLogger()
	oldExit := std.ExitFunc
	fatal := make(chan struct{}, 8)
	std.ExitFunc = func(int) {
		select {
		case fatal <- struct{}{}:
		default:
		}
		runtime.Goexit()
	}
	defer func() {
		for _, f := range restore {
			f()
		}
		os.Args = oldArgs
	}()

	ctx, cancel := context.WithCancel(context.Background())
	system := cmd.CreateSystem(cancel) // the HTTP engine calls this when an interface stops unexpectedly
	done := make(chan struct{})
	go func() {
		defer close(done)
		_ = cmd.Execute(ctx, system)
	}()
	stop := func() {
		cancel()
		select {
		case <-done:
		case <-time.After(60 * time.Second):
		}
		std.ExitFunc = oldExit
	}
	start := time.Now()
	for {
		select {
		case <-done:
			cancel()
			std.ExitFunc = oldExit
			select {
			case <-fatal:
				return nil, "refused (start-up error)"
			default:
				return nil, "stopped by itself (an interface could not be started)"
			}
		default:
		}
		if c, err := net.DialTimeout("tcp", pub, time.Second); err == nil {
			c.Close()
			break
		}
		if time.Since(start) > 5*time.Minute { // watchdog only
			stop()
			r.Inconclusive("listener configuration " + lc.name + ": node neither came up on its public address nor stopped")
			return nil, "watchdog"
		}
		time.Sleep(20 * time.Millisecond)
	}
	// the interfaces are started concurrently; one that cannot be started takes the node down shortly afterwards
	select {
	case <-done:
		cancel()
		std.ExitFunc = oldExit
		return nil, "stopped by itself (an interface could not be started)"
	case <-time.After(300 * time.Millisecond):
	}
	n := &node.Node{Internal: "http://" + lc.internal, Public: "http://" + pub, DataDir: dir, System: system}
	e = newEnv(t, r, "loose:"+lc.name, n, kr, cap, lc.auth)
	e.stopFn = stop
	t.Cleanup(stop)
	return e, "started"
}

// listenerMatrix: every listener configuration; the public listener of each node that comes up is probed.
func listenerMatrix(t *testing.T, r *ev.Run, kr *keyring, cap *audit.CapturedLog) {
	outcomes := map[string]string{}
	for ci, lc := range listenerCfgs() {
		cap.Hook.Reset()
		e, oc := startLoose(t, r, lc, kr, cap)
		outcomes[lc.name] = oc
		r.Distinct("listener_configurations", lc.name)
		if e == nil {
			r.Count("listener_configurations_refused_or_stopped", 1)
			r.Case("listener-config|"+lc.name+"|"+oc, false)
			continue
		}
		r.Count("listener_configurations_started", 1)
		before := r.Get("requests_sent")
		probePublic(e, ci)
		outcomes[lc.name] = fmt.Sprintf("started; %d requests on the public listener", r.Get("requests_sent")-before)
		e.finish()
	}
	r.Extra("listener_configuration_outcomes", outcomes)
}

// probePublic: every monitored path in its ordinary spelling, then a seeded share of the request-target grammar, on the public listener.
func probePublic(e *env, ci int) {
	publicPlain(e)
	e.refreshCreds()
	valid, none := e.cred("valid/ed25519/kid-ssh"), e.cred("authz/none")
	type target struct {
		prefix string
		rt     route
	}
	targets := []target{{"internal", routes[0]}, {"status", route{"status", "GET", "/status", ""}}, {"metrics", route{"metrics", "GET", "/metrics", ""}},
		{"health", route{"health", "GET", "/health", ""}}, {"internal", routes[1]}}
	rnd := e.r.Rand(fmt.Sprintf("listener-forms-%d", ci))
	stride := e.r.Pick(6, 2)
	for ti, tg := range targets {
		fs := forms(tg.rt.path, e.pubHP, rnd, e.r.Pick(1, 4))
		off := rnd.Intn(stride)
		for fi, f := range fs {
			if fi%stride != off {
				continue
			}
			e.public(tg.prefix, tg.rt, f, none)
			if ti == 0 || ti == 4 || e.r.Thorough() {
				e.public(tg.prefix, tg.rt, f, valid)
			}
		}
	}
	// the subject that a served POST would have created
	if n := strings.Count(fmt.Sprint(e.last), "sql:"); n == 0 {
		e.r.Fatalf("state probe of configuration %s watches no table", e.cfg)
	}
}
