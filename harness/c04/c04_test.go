// Check C04: internal API token authentication cannot be bypassed; internal routes stay off the public port.
// A complete in-process node with http.internal.auth.type=token_v2 is driven over RAW TCP (the harness writes the
// request bytes itself), in two listener configurations. Every request-target spelling x route x credential is sent;
// the oracle looks only at what came back (auth middleware's 401 / router's 404-405 / net/http's own rejection /
// anything else = a handler ran), at the audit log (AccessGranted) and at the node's state (SQL row counts, key files).
package c04

import (
	"fmt"
	"io"
	"os"
	"path/filepath"
	"sort"
	"strings"
	"testing"

	"github.com/nuts-foundation/nuts-node/audit"
	"github.com/nuts-foundation/nuts-node/storage"
	"github.com/sirupsen/logrus"
	"verif/lib/ev"
	"verif/lib/node"
)

var debug = os.Getenv("C04_DEBUG") != ""

var routes = []route{
	{"subject-list", "GET", "/internal/vdr/v2/subject", ""},
	{"subject-create", "POST", "/internal/vdr/v2/subject", "{}"},
	{"subject-get", "GET", "/internal/vdr/v2/subject/c04seed", ""},
	{"network-peers", "GET", "/internal/network/v1/diagnostics/peers", ""},
	{"discovery-list", "GET", "/internal/discovery/v1", ""},
	{"vcr-search", "POST", "/internal/vcr/v2/search", `{"query":{"@context":["https://www.w3.org/2018/credentials/v1"],"type":["VerifiableCredential"]}}`},
}

type env struct {
	t     *testing.T
	r     *ev.Run
	cfg   string // "split" (different addresses) | "shared" (one address)
	n     *node.Node
	intHP string
	pubHP string
	probe *stateProbe
	last  map[string]int64
	cap   *audit.CapturedLog
	kr    *keyring
	// calibration failures that are judged at the end of the run (see calibrate)
	deferredBroken []string
	gen            *credGen
	creds          []cred
	dispatch       map[string]bool // (cfg,listener,route,form) -> a conforming token reached the handler
	bypass         map[string]bool // form classes that reached a handler without any credential
	byForm         map[string]int
	byRoute        map[string]int
	byVerd         map[string]int
	byKind         map[string]int
	sampled        map[string]bool
	firstUse       map[string]bool // credential strings already presented to this node (calibrate)
	stopFn         func()          // set for nodes not started through lib/node
}

type result struct {
	o       outcome
	granted int
	denied  int
	changed []string
}

func hostport(base string) string { return strings.TrimPrefix(base, "http://") }

func (e *env) refreshCreds() { e.creds = e.gen.all() }

func (e *env) cred(class string) cred {
	for _, c := range e.creds {
		if c.class == class {
			return c
		}
	}
	e.r.Fatalf("no credential class %s", class)
	return cred{}
}

// send performs one exchange and collects everything the monitors observe about it.
func (e *env) send(listener string, rt route, f form, c cred) result {
	hp := e.intHP
	if listener == "public" {
		hp = e.pubHP
	}
	raw := buildRequest(rt, f, hp, c)
	method := effectiveMethod(rt, f)
	e.cap.Hook.Reset()
	n := 1
	if f.prelude {
		n = 2
	}
	o, timedOut := exchangeRaw(hp, raw, method, f.target, n)
	if timedOut {
		e.r.Inconclusive(fmt.Sprintf("no answer within the watchdog: %s %q: %s", method, f.target, o.err))
	}
	res := result{o: o}
	for _, en := range e.cap.Hook.AllEntries() {
		switch en.Data["event"] {
		case audit.AccessGrantedEvent:
			res.granted++
		case audit.AccessDeniedEvent:
			res.denied++
		}
	}
	now, err := e.probe.snap()
	if err != nil {
		e.r.Fatalf("state probe: %v", err)
	}
	res.changed = diffState(e.last, now)
	e.last = now

	// evidence
	e.r.Case(strings.Join([]string{e.cfg, listener, method, f.target, f.proto, f.host, fmt.Sprint(f.prelude), rt.name, c.class}, "|"), o.kind != "no-response")
	e.r.Distinct("form_x_credential_pairs", f.name+"|"+c.class)
	e.r.Distinct("request_targets", f.target)
	e.byForm[f.class]++
	e.byRoute[listener+":"+rt.name]++
	e.byVerd[c.verdict.String()]++
	e.byKind[listener+":"+o.kind]++
	e.r.Count("requests_sent", 1)
	e.r.Count("audit_access_granted", res.granted)
	e.r.Count("audit_access_denied", res.denied)
	switch o.kind {
	case "reached":
		e.r.Count("handler_reached", 1)
	case "auth-401":
		e.r.Count("answered_401_by_auth", 1)
	case "router-404", "router-405", "router-options":
		e.r.Count("answered_by_router_404_405", 1)
	case "server-reject", "server-options":
		e.r.Count("answered_by_net_http_itself", 1)
	case "no-response":
		e.r.Count("connection_closed_without_response", 1)
	}
	if len(res.changed) > 0 {
		e.r.Count("requests_followed_by_state_change", 1)
	}
	if e.cfg == "split" && listener == "internal" && rt.name == "subject-list" && (c.class == "authz/none" || c.class == "valid/ed25519/kid-ssh") &&
		(f.name == "origin" || f.name == "absolute/http-other-host" || f.name == "pct/first-letter") && !e.sampled[f.name+c.class] {
		e.sampled[f.name+c.class] = true
		proto := f.proto
		if proto == "" {
			proto = "HTTP/1.1"
		}
		e.r.Sample(map[string]any{"config": e.cfg, "listener": listener, "request_line": method + " " + f.target + " " + proto, "credential": c.class,
			"outcome": o.kind, "status": o.status, "audit_granted": res.granted, "audit_denied": res.denied, "state_change": res.changed})
	}
	if debug {
		fmt.Printf("C04DBG %s %s %-16s %-44s %-50s -> %s granted=%d denied=%d changed=%v\n", e.cfg, listener, rt.name, f.name, c.class, o, res.granted, res.denied, res.changed)
	}
	return res
}

func (e *env) witness(listener string, rt route, f form, c cred, res result) map[string]any {
	hp := e.intHP
	if listener == "public" {
		hp = e.pubHP
	}
	raw := string(buildRequest(rt, f, hp, c))
	raw = strings.ReplaceAll(raw, hp, "<listener>")
	if len(raw) > 1500 {
		raw = raw[:1500] + "…"
	}
	return map[string]any{"config": e.cfg, "listener": listener, "route": rt.method + " " + rt.path, "form": f.name, "credential": c.class,
		"credential_verdict": c.verdict.String(), "request_bytes": raw, "status": res.o.status, "response_body": truncate(res.o.body, 400),
		"outcome": res.o.kind, "audit_access_granted": res.granted, "state_change": res.changed}
}

type abort struct{}

// broken reports a calibration failure of the harness. When violations were already reported the cause is most likely the
// same misbehaviour of the node: the run then ends as violated instead of broken.
func (e *env) broken(format string, args ...any) {
	if e.r.Violations() > 0 {
		e.r.Inconclusive("stopped early, calibration impossible after the reported violations: " + fmt.Sprintf(format, args...))
		panic(abort{})
	}
	e.r.Fatalf(format, args...)
}

func truncate(s string, n int) string {
	if len(s) > n {
		return s[:n] + "…"
	}
	return s
}

// internal sends one request for an /internal route to the INTERNAL listener and applies the oracle.
func (e *env) internal(rt route, f form, c cred) result {
	res := e.send("internal", rt, f, c)
	reached := res.o.kind == "reached"
	dk := e.cfg + "|" + rt.name + "|" + f.name
	switch c.verdict {
	case vValid:
		if reached {
			e.dispatch[dk] = true
		} else if f.plain {
			e.broken("harness calibration: conforming credential %s refused on the ordinary request %s %q for route %s: %s", c.class, effectiveMethod(rt, f), f.target, rt.name, res.o)
		}
	case vOK:
		if reached {
			e.r.Count("valid_unusual_admitted", 1)
		} else {
			e.r.Count("valid_unusual_refused", 1)
		}
	case vUnspec:
		if reached || res.granted > 0 {
			e.r.Unspecified("admitted:" + c.class)
		} else {
			e.r.Unspecified("refused:" + c.class)
		}
	case vInvalid:
		w := e.witness("internal", rt, f, c, res)
		if reached {
			if c.class == "authz/none" {
				e.bypass[f.class] = true
			}
			if e.bypass[f.class] {
				e.r.Violation("C04/bypass/"+f.class, fmt.Sprintf("request %s %q for %s reached a handler under /internal without a conforming token (credential: %s; answer %d)",
					effectiveMethod(rt, f), f.target, rt.path, c.class, res.o.status), w)
			} else {
				e.r.Violation("C04/token-accepted/"+c.class, fmt.Sprintf("credential %s (reference predicate false) reached the handler of %s %s (answer %d)", c.class, rt.method, rt.path, res.o.status), w)
			}
		} else if e.dispatch[dk] && res.o.kind != "auth-401" {
			e.r.Violation("C04/not-401/"+f.class, fmt.Sprintf("request %s %q is dispatched to %s when it carries a conforming token, but with failing credential %s it was answered %d (%s) instead of 401",
				effectiveMethod(rt, f), f.target, rt.path, c.class, res.o.status, res.o.kind), w)
		}
		if res.granted > 0 {
			e.r.Violation("C04/audit-granted/"+c.class, fmt.Sprintf("audit log shows AccessGranted for credential %s on %s %q", c.class, effectiveMethod(rt, f), f.target), w)
		}
		if len(res.changed) > 0 {
			site := c.class
			if e.bypass[f.class] {
				site = f.class
			}
			e.r.Violation("C04/side-effect/"+site, fmt.Sprintf("node state changed after a request without conforming token (%s %q, credential %s, answer %d): %v",
				effectiveMethod(rt, f), f.target, c.class, res.o.status, res.changed), w)
		}
	}
	return res
}

// public sends a request to the PUBLIC listener; nothing under the internal prefixes may be served there, whatever the credential.
func (e *env) public(prefix string, rt route, f form, c cred) {
	res := e.send("public", rt, f, c)
	if res.o.kind == "reached" {
		e.r.Violation("C04/public-listener/"+prefix+"/"+f.class, fmt.Sprintf("public listener served %s %q (route %s, credential %s): answer %d %s",
			effectiveMethod(rt, f), f.target, rt.path, c.class, res.o.status, truncate(res.o.body, 120)), e.witness("public", rt, f, c, res))
	}
	if len(res.changed) > 0 && c.verdict == vInvalid {
		e.r.Violation("C04/public-listener/side-effect/"+f.class, fmt.Sprintf("node state changed after a request on the public listener (%s %q): %v", effectiveMethod(rt, f), f.target, res.changed),
			e.witness("public", rt, f, c, res))
	}
}

func startEnv(t *testing.T, r *ev.Run, cfg string, kr *keyring, cap *audit.CapturedLog) *env {
	dir, err := os.MkdirTemp("", "c04-keys-")
	if err != nil {
		t.Fatal(err)
	}
	t.Cleanup(func() { os.RemoveAll(dir) })
	akf := filepath.Join(dir, "authorized_keys")
	if err := os.WriteFile(akf, []byte(kr.file), 0o600); err != nil {
		t.Fatal(err)
	}
	n := node.Start(t, node.Options{SameAddress: cfg == "shared", Env: map[string]string{
		"NUTS_HTTP_INTERNAL_AUTH_TYPE":               "token_v2",
		"NUTS_HTTP_INTERNAL_AUTH_AUTHORIZEDKEYSPATH": akf,
		"NUTS_HTTP_INTERNAL_AUTH_AUDIENCE":           audience,
	}})
	return newEnv(t, r, cfg, n, kr, cap, true)
}

// newEnv wraps a running node into the monitoring environment (audit capture, state probe, credential generator).
func newEnv(t *testing.T, r *ev.Run, cfg string, n *node.Node, kr *keyring, cap *audit.CapturedLog, auth bool) *env {
	if !debug {
		logrus.StandardLogger().SetOutput(io.Discard) // thousands of "Failed to parse JWT" lines otherwise
	}
	// the audit logger writes every entry to stderr as well: silence that, the hook keeps seeing them
	registered := 0
	for _, en := range cap.Hook.AllEntries() {
		en.Logger.SetOutput(io.Discard)
		if en.Data["event"] == audit.AccessKeyRegisteredEvent {
			registered++
		}
	}
	if auth && registered != len(kr.authorised()) {
		r.Fatalf("node registered %d authorised keys, the generated file holds %d acceptable ones", registered, len(kr.authorised()))
	}
	db := node.Engine[storage.Engine](n).GetSQLDatabase()
	probe, err := newStateProbe(db, n.DataDir)
	if err != nil {
		r.Fatalf("state probe: %v", err)
	}
	e := &env{t: t, r: r, cfg: cfg, n: n, intHP: hostport(n.Internal), pubHP: hostport(n.Public), probe: probe, cap: cap, kr: kr,
		gen: &credGen{kr: kr, rnd: r.Rand("cred-" + cfg)}, dispatch: map[string]bool{}, bypass: map[string]bool{},
		byForm: map[string]int{}, byRoute: map[string]int{}, byVerd: map[string]int{}, byKind: map[string]int{}, sampled: map[string]bool{},
		firstUse: map[string]bool{}}
	e.refreshCreds()
	if e.last, err = probe.snap(); err != nil {
		r.Fatalf("state probe: %v", err)
	}
	return e
}

// seed creates the subject addressed by the parameterised route (with a conforming token through the ordinary client).
func (e *env) seed() {
	resp, err := node.Do("POST", e.n.Internal+"/internal/vdr/v2/subject", map[string]any{"subject": "c04seed"}, map[string]string{"Authorization": "Bearer " + e.gen.good(e.kr.alice)})
	if err != nil || resp.Status != 200 {
		e.broken("harness calibration: cannot create the seed subject with a conforming token: %v %s", err, resp)
	}
	var serr error
	if e.last, serr = e.probe.snap(); serr != nil {
		e.r.Fatalf("state probe: %v", serr)
	}
}

func (e *env) finish() {
	pre := e.cfg + "_"
	e.r.Extra(pre+"requests_by_target_form", e.byForm)
	e.r.Extra(pre+"requests_by_listener_and_route", e.byRoute)
	e.r.Extra(pre+"requests_by_credential_verdict", e.byVerd)
	e.r.Extra(pre+"answers_by_listener_and_kind", e.byKind)
	var disp []string
	for k := range e.dispatch {
		disp = append(disp, k[strings.LastIndex(k, "|")+1:])
	}
	sort.Strings(disp)
	disp = uniq(disp)
	e.r.Extra(pre+"target_forms_dispatched_with_conforming_token", disp)
	e.r.Extra(pre+"sql_tables_watched", len(e.probe.tables))
	if e.stopFn != nil {
		e.stopFn()
	} else {
		e.n.Stop()
	}
	if len(e.deferredBroken) > 0 && e.r.Violations() == 0 {
		e.r.Fatalf("harness calibration (%s listeners): %s", e.cfg, strings.Join(e.deferredBroken[:min(3, len(e.deferredBroken))], "; "))
	}
}

func uniq(s []string) []string {
	var out []string
	for i, v := range s {
		if i == 0 || s[i-1] != v {
			out = append(out, v)
		}
	}
	return out
}

func TestCheck(t *testing.T) {
	r := ev.Start(t, "C04", "exploration")
	defer r.Finish()
	defer func() {
		if p := recover(); p != nil {
			if _, ok := p.(abort); !ok {
				panic(p)
			}
		}
	}()
	r.SetRule("cases = (listener configuration, listener, route, request-target form, credential). Forms: fixed grammar list (origin, query, fragment, absolute, network-path, authority/CONNECT, asterisk, " +
		"duplicated/encoded slashes, backslashes, dot segments, percent-encoded letters, control/unicode, case, ;params, trailing dots, HTTP versions, Host variants, methods, pipelining) plus seeded variants; " +
		"credentials: conforming tokens per authorised key/alg/kid, every single claim defect, unauthorised keys, hostile JOSE variants, Authorization header shapes, each labelled by construction with the reference predicate. " +
		"Every form is sent with a conforming token, with no credential and with seeded failing credentials; every credential is sent on ordinary requests. " +
		"Sequences: short-lived conforming tokens are presented repeatedly while valid, failing credentials derived from an accepted token (same jti / signed bytes / signature) follow, " +
		"and every short-lived token is presented again after its exp (monotonic stopwatch, lifetime + 2 s). Listener configurations: besides different/same address, the node is booted with the internal " +
		"address empty, blank, unset, on an ephemeral port or unusable (through environment, file and command line); the public listener of every node that comes up is probed. " +
		"A case is non-trivial when the server answered; distinct by (config, listener, request line, Host, route, credential class).")
	r.Require(r.Pick(600, 4000), r.Pick(400, 3000))
	r.Assume("handler execution is inferred from the answer (not the auth middleware's 401, not the router's 404/405, not net/http's own rejection) and from side effects (SQL row counts of all tables, key files, AccessGranted audit entries)")
	r.Assume("token instants of the request matrix keep >= 5 min distance from the node's clock; only the expiry sequences depend on elapsed time: a token is presented again when a monotonic stopwatch started before its exp was computed shows lifetime + 2 s (the wall clock is assumed not to be stepped back by 2 s meanwhile); a first presentation that came too late is inconclusive, never a violation")

	kr := newKeyring()
	cap := audit.CaptureAuditLogs(t)

	// ---------- configuration 1: different addresses ----------
	e := startEnv(t, r, "split", kr, cap)
	publicPlain(e)
	e.seed()
	calibrate(e)
	sq := seqBegin(e)
	tokenMatrix(e)
	formMatrix(e)
	seqEnd(e, sq)
	publicListener(e)
	e.finish()

	// ---------- configuration 2: one address for both interfaces ----------
	e = startEnv(t, r, "shared", kr, cap)
	e.seed()
	calibrate(e)
	sq = seqBegin(e)
	tokenMatrix(e)
	formMatrix(e)
	paramValues(e)
	seqEnd(e, sq)
	e.finish()

	// ---------- the listener-configuration dimension: internal address empty / blank / unset / ephemeral / unusable ----------
	listenerMatrix(t, r, kr, cap)
}

func origin(rt route) form {
	return form{class: "origin-form", name: "origin", target: rt.path, plain: true}
}

// calibrate: every conforming credential must be admitted on the plain request of every route (otherwise the harness proves nothing).
func calibrate(e *env) {
	for _, rt := range routes {
		for _, c := range byVerdict(e.creds, vValid) {
			if rt.method == "POST" && c.class != "valid/ed25519/kid-ssh" && !e.r.Thorough() {
				continue
			}
			res := e.internal(rt, origin(rt), c)
			ck := strings.Join(c.lines, "\n")
			repeated := e.firstUse[ck]
			e.firstUse[ck] = true
			if repeated && res.granted != 1 {
				// the same credential string was presented before: the property text does not demand an audit entry per granted
				// request (only the first presentation calibrates "authentication ran"), so this is merely counted
				e.r.Count("repeated_credential_admitted_without_audit_entry", 1)
				continue
			}
			if res.granted != 1 {
				// A conforming token that reaches the handler without an AccessGranted audit entry means no authentication ran at all
				// for this request. That is either a harness problem or the very misbehaviour the matrix below exposes (requests
				// without a token reaching handlers): carry on, and end as broken only if the matrix reports no violation.
				e.deferredBroken = append(e.deferredBroken, fmt.Sprintf("expected one AccessGranted audit entry for %s on %s, saw %d (%s)", c.class, rt.name, res.granted, res.o))
				continue
			}
			e.r.Count("calibration_requests_admitted", 1)
		}
	}
	// the state probe must see a subject creation
	before := e.last
	res := e.internal(routes[1], origin(routes[1]), e.cred("valid/ed25519/kid-ssh"))
	if len(res.changed) == 0 {
		e.broken("harness calibration: state probe did not notice a subject creation (before=%v)", before)
	}
	e.r.Extra("state_change_of_one_subject_creation", res.changed)
}

// tokenMatrix: every credential on ordinary requests.
func tokenMatrix(e *env) {
	e.refreshCreds()
	rnd := e.r.Rand("tokenmatrix-" + e.cfg)
	plainForms := func(rt route) []form {
		return []form{origin(rt), {class: "query", name: "query/pair", target: rt.path + "?a=b", plain: true}, {class: "http10", name: "http10/no-host", target: rt.path, proto: "HTTP/1.0", host: "-", plain: true}}
	}
	for i, c := range e.creds {
		if c.verdict == vValid {
			continue // calibrate() did those
		}
		var rts []route
		switch {
		case e.r.Thorough() && e.cfg == "split":
			rts = routes
		case e.r.Thorough():
			rts = routes[:3]
		case e.cfg == "split":
			rts = []route{routes[0], routes[1]}
		default:
			rts = []route{routes[i%2]}
		}
		for _, rt := range rts {
			f := origin(rt)
			if rnd.Intn(3) == 0 {
				pf := plainForms(rt)
				f = pf[rnd.Intn(len(pf))]
			}
			if !e.dispatch[e.cfg+"|"+rt.name+"|"+f.name] {
				e.internal(rt, f, e.cred("valid/ed25519/kid-ssh"))
			}
			e.internal(rt, f, c)
		}
	}
}

// formMatrix: every request-target form with a conforming token, without credential and with seeded failing credentials.
func formMatrix(e *env) {
	rnd := e.r.Rand("formmatrix-" + e.cfg)
	var rts []route
	switch {
	case e.r.Thorough() && e.cfg == "split":
		rts = routes
	case e.r.Thorough():
		rts = routes[:3]
	case e.cfg == "split":
		rts = routes[:2]
	default:
		rts = routes[:2]
	}
	nInvalid := e.r.Pick(1, 4)
	if e.cfg == "shared" {
		nInvalid = e.r.Pick(1, 2)
	}
	for ri, rt := range rts {
		e.refreshCreds()
		valid := e.cred("valid/ed25519/kid-ssh")
		none := e.cred("authz/none")
		invalid := byVerdict(e.creds, vInvalid)
		other := append(byVerdict(e.creds, vUnspec), byVerdict(e.creds, vOK)...)
		fs := forms(rt.path, e.intHP, e.r.Rand(fmt.Sprintf("forms-%s-%d", e.cfg, ri)), e.r.Pick(3, 10))
		for fi, f := range fs {
			if e.cfg == "shared" && !e.r.Thorough() && ri == 1 && fi%2 == 1 {
				continue
			}
			e.internal(rt, f, valid)
			e.internal(rt, f, none)
			for k := 0; k < nInvalid; k++ {
				e.internal(rt, f, invalid[rnd.Intn(len(invalid))])
			}
			if e.r.Thorough() || fi%4 == 0 {
				e.internal(rt, f, other[rnd.Intn(len(other))])
			}
		}
	}
}

// paramValues: hostile path-parameter values on a parameterised route (always run, also in the quick tier, where the full matrix
// only covers the two unparameterised routes).
func paramValues(e *env) {
	rnd := e.r.Rand("paramvalues-" + e.cfg)
	e.refreshCreds()
	valid, none := e.cred("valid/ed25519/kid-ssh"), e.cred("authz/none")
	invalid := byVerdict(e.creds, vInvalid)
	rt := routes[2] // GET /internal/vdr/v2/subject/:id
	for _, f := range forms(rt.path, e.intHP, rnd, 0) {
		if f.class != "param-value" {
			continue
		}
		e.internal(rt, f, valid)
		e.internal(rt, f, none)
		e.internal(rt, f, invalid[rnd.Intn(len(invalid))])
	}
}

// publicPlain: the ordinary spelling of every monitored path on the public listener, before anything else.
func publicPlain(e *env) {
	none, valid := e.cred("authz/none"), e.cred("valid/ed25519/kid-ssh")
	for _, rt := range routes {
		e.public("internal", rt, origin(rt), none)
		e.public("internal", rt, origin(rt), valid)
	}
	for _, p := range []string{"/status", "/status/diagnostics", "/metrics", "/health"} {
		rt := route{strings.Trim(p, "/"), "GET", p, ""}
		e.public(strings.Split(p, "/")[1], rt, origin(rt), none)
		e.public(strings.Split(p, "/")[1], rt, origin(rt), valid)
	}
}

// publicListener: paths under /internal, /status, /metrics, /health in every form on the public listener (addresses differ).
func publicListener(e *env) {
	e.refreshCreds()
	valid := e.cred("valid/ed25519/kid-ssh")
	none := e.cred("authz/none")
	type target struct {
		prefix string
		rt     route
	}
	targets := []target{
		{"internal", routes[0]}, {"status", route{"status", "GET", "/status", ""}}, {"metrics", route{"metrics", "GET", "/metrics", ""}}, {"health", route{"health", "GET", "/health", ""}},
		{"status", route{"status-diagnostics", "GET", "/status/diagnostics", ""}}, {"internal", routes[1]},
	}
	if e.r.Thorough() {
		for _, rt := range routes[2:] {
			targets = append(targets, target{"internal", rt})
		}
	}
	// the monitored handlers exist and answer on the internal listener (else "not served on the public one" would be vacuous)
	for _, tg := range targets[1:5] {
		res := e.send("internal", tg.rt, origin(tg.rt), none)
		if res.o.kind != "reached" {
			e.broken("harness calibration: %s is not served on the internal listener: %s", tg.rt.path, res.o)
		}
	}
	for ti, tg := range targets {
		fs := forms(tg.rt.path, e.pubHP, e.r.Rand(fmt.Sprintf("pubforms-%d", ti)), e.r.Pick(2, 8))
		for fi, f := range fs {
			if !e.r.Thorough() && ti >= 4 && fi%3 != 0 {
				continue
			}
			e.public(tg.prefix, tg.rt, f, none)
			e.public(tg.prefix, tg.rt, f, valid)
		}
	}
}
