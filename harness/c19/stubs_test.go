package c19

func v2Protocol(h *harness)      {}
func httpNode(h *harness)        {}
func v2Worker(args []string) int { return 0 }
