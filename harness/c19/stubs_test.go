package c19

func didEntries(h *harness) []*entry    { return nil }
func cryptoEntries(h *harness) []*entry { return nil }
func vcrEntries(h *harness) []*entry    { return nil }
func v2Protocol(h *harness)             {}
func httpNode(h *harness)               {}
func v2Worker(args []string) int        { return 0 }
