package c19

func httpNode(h *harness) {}
