package c19

import (
	"bufio"
	"encoding/json"
	"errors"
	"fmt"
	"os"
	"os/exec"
	"strings"
	"sync"
	"time"
)

// ---- isolated entry points -------------------------------------------------------------------------------------------------
// Some inputs do not make the code under test panic but make the Go runtime abort the process: an allocation whose size is taken
// from the input ("fatal error: runtime: out of memory", "cannot allocate memory"), stack exhaustion, concurrent map writes.
// recover() does not see those. Entry points where numbers of the remote party can end up as sizes (presentation definitions:
// min/max/count of submission requirements) therefore run in a child process of their own: the parent hands over one input at a
// time (the input is on disk before, see harness.one) and reads one answer; the child's exit while an input is outstanding is the
// observed event and is attributed to that input. The child is long-lived (one per entry point; a fresh one after an exit). A call
// that was abandoned by the watchdog keeps its child (as an abandoned in-process call keeps its goroutine); the next call gets a
// fresh child. All children are killed when the check ends.

type isoReq struct {
	Data       []byte `json:"data"`
	HasGrid    bool   `json:"has_grid"`
	GridPD     string `json:"grid_pd"`
	GridWallet []int  `json:"grid_wallet"`
	GridK      int    `json:"grid_k"`
}

type isoResp struct {
	Result string `json:"result"` // ready | ok | err | panic
	Err    string `json:"err,omitempty"`
	PVal   string `json:"pval,omitempty"`
	PFunc  string `json:"pfunc,omitempty"`
	Repo   string `json:"repo,omitempty"`
	Stack  string `json:"stack,omitempty"`
}

// childPanic is what an isolated call returns when the call panicked in the child (recovered there) or the child process ended.
type childPanic struct{ o outcome }

func (c childPanic) Error() string { return "child: " + c.o.pval }

// isoEntryNames: the entry points that run isolated. The child builds the same entries (same constructors) and looks its own up by name.
func isoBuild(h *harness) map[string]*entry {
	out := map[string]*entry{}
	for _, e := range append(peEntries(h), peGridEntry(h)) {
		if e.isolate {
			out[e.name] = e
		}
	}
	return out
}

// isoWorker is the child: args[0] = entry point name. Requests on stdin (one JSON document per line), answers on fd 3.
func isoWorker(args []string) int {
	resp := os.NewFile(3, "answers")
	enc := json.NewEncoder(resp)
	h := &harness{stats: map[string]*stats{}, hangs: map[string]bool{}}
	e := isoBuild(h)[args[0]]
	if e == nil {
		_ = enc.Encode(isoResp{Result: "err", Err: "unknown isolated entry point " + args[0]})
		return 96
	}
	_ = enc.Encode(isoResp{Result: "ready"})
	// a child that is busy with an input that never returns must not outlive a parent that was killed
	go func(parent int) {
		for {
			time.Sleep(5 * time.Second)
			if os.Getppid() != parent {
				os.Exit(95)
			}
		}
	}(os.Getppid())
	rd := bufio.NewReaderSize(os.Stdin, 1<<20)
	for {
		line, err := rd.ReadBytes('\n')
		if err != nil {
			return 0 // the parent closed the pipe (or is gone)
		}
		var req isoReq
		if err := json.Unmarshal(line, &req); err != nil {
			_ = enc.Encode(isoResp{Result: "err", Err: "harness: bad request: " + err.Error()})
			continue
		}
		in := input{data: req.Data}
		if req.HasGrid {
			in.aux = gridCase{pd: req.GridPD, wallet: req.GridWallet, k: req.GridK}
		}
		o := guarded(func() error { return e.call(in) }, 1000*time.Hour)
		switch {
		case o.panicked:
			_ = enc.Encode(isoResp{Result: "panic", PVal: o.pval, PFunc: o.pfunc, Repo: o.repo, Stack: o.stack})
		case o.err != nil:
			_ = enc.Encode(isoResp{Result: "err", Err: o.err.Error()})
		default:
			_ = enc.Encode(isoResp{Result: "ok"})
		}
	}
}

type isoChild struct {
	cmd   *exec.Cmd
	stdin *os.File
	resp  *bufio.Reader
	respF *os.File
	out   *boundedBuf
}

// boundedBuf keeps the first 256 KiB of what the child wrote to stdout/stderr (a crash report starts with its reason and the stack of the failing goroutine).
type boundedBuf struct {
	mu sync.Mutex
	b  strings.Builder
}

func (w *boundedBuf) Write(p []byte) (int, error) {
	w.mu.Lock()
	defer w.mu.Unlock()
	if room := 256<<10 - w.b.Len(); room > 0 {
		if len(p) > room {
			w.b.Write(p[:room])
		} else {
			w.b.Write(p)
		}
	}
	return len(p), nil
}

func (w *boundedBuf) String() string {
	w.mu.Lock()
	defer w.mu.Unlock()
	return w.b.String()
}

type isoPool struct {
	h     *harness
	name  string
	mu    sync.Mutex
	idle  []*isoChild
	all   []*isoChild
	exits int
}

var isoPools struct {
	mu   sync.Mutex
	list []*isoPool
}

// isolate makes the entry points marked so run in child processes (parent side only).
func isolate(h *harness, es []*entry) {
	for _, e := range es {
		if !e.isolate {
			continue
		}
		p := &isoPool{h: h, name: e.name}
		isoPools.mu.Lock()
		isoPools.list = append(isoPools.list, p)
		isoPools.mu.Unlock()
		e.call = p.call
	}
}

// isoShutdown ends every child (idle ones by closing their stdin, busy = abandoned ones by SIGKILL).
func isoShutdown() {
	isoPools.mu.Lock()
	pools := isoPools.list
	isoPools.list = nil
	isoPools.mu.Unlock()
	for _, p := range pools {
		p.mu.Lock()
		all := p.all
		p.all, p.idle = nil, nil
		p.mu.Unlock()
		for _, c := range all {
			_ = c.stdin.Close()
			_ = c.cmd.Process.Kill()
			_ = c.cmd.Wait()
			_ = c.respF.Close()
		}
	}
}

func (p *isoPool) spawn() (*isoChild, error) {
	self, err := os.Executable()
	if err != nil {
		return nil, err
	}
	inR, inW, err := os.Pipe()
	if err != nil {
		return nil, err
	}
	respR, respW, err := os.Pipe()
	if err != nil {
		return nil, err
	}
	c := &isoChild{stdin: inW, respF: respR, resp: bufio.NewReaderSize(respR, 1<<20), out: &boundedBuf{}}
	cmd := exec.Command(self, "-test.run", "^$")
	cmd.Env = append(os.Environ(), "VERIF_WORKER=c19iso", "VERIF_WORKER_ARGS="+p.name)
	cmd.Stdin = inR
	cmd.Stdout, cmd.Stderr = c.out, c.out
	cmd.ExtraFiles = []*os.File{respW}
	if err := cmd.Start(); err != nil {
		return nil, err
	}
	_ = inR.Close()
	_ = respW.Close()
	c.cmd = cmd
	var first isoResp
	line, err := c.resp.ReadBytes('\n')
	if err == nil {
		err = json.Unmarshal(line, &first)
	}
	if err != nil || first.Result != "ready" {
		_ = cmd.Process.Kill()
		_ = cmd.Wait()
		return nil, fmt.Errorf("isolated worker for %s did not come up (%v %s): %s", p.name, err, first.Err, tailStr(c.out.String(), 1500))
	}
	p.mu.Lock()
	p.all = append(p.all, c)
	p.mu.Unlock()
	return c, nil
}

func (p *isoPool) forget(c *isoChild) {
	p.mu.Lock()
	defer p.mu.Unlock()
	for i, x := range p.all {
		if x == c {
			p.all = append(p.all[:i], p.all[i+1:]...)
			break
		}
	}
}

// call evaluates one input in a child and translates the answer: nil / error (rejected) / childPanic (panic in the child, or the child ended).
// A child that ended is a verdict only when another child ends on the same input as well (something else on the machine can end a process).
func (p *isoPool) call(in input) error {
	err, ended := p.attempt(in)
	if !ended {
		return err
	}
	err2, again := p.attempt(in)
	if again {
		p.h.r.Count("child_process_exits", 1)
	} else {
		p.h.r.Inconclusive(fmt.Sprintf("%s: a child process ended while evaluating an input but another child returned for the same input (%s)", p.name, trunc([]byte(err.Error()), 300)))
	}
	return err2
}

// attempt: one input, one child. ended = the child process ended while the input was outstanding.
func (p *isoPool) attempt(in input) (result error, ended bool) {
	p.mu.Lock()
	var c *isoChild
	if n := len(p.idle); n > 0 {
		c, p.idle = p.idle[n-1], p.idle[:n-1]
	}
	p.mu.Unlock()
	if c == nil {
		var err error
		if c, err = p.spawn(); err != nil {
			p.h.r.Fatalf("%v", err)
			return err, false
		}
	}
	req := isoReq{Data: in.data}
	if gc, ok := in.aux.(gridCase); ok {
		req.HasGrid, req.GridPD, req.GridWallet, req.GridK = true, gc.pd, gc.wallet, gc.k
	}
	line, _ := json.Marshal(req)
	_, werr := c.stdin.Write(append(line, '\n'))
	var resp isoResp
	var rerr error
	if werr == nil {
		var answer []byte
		if answer, rerr = c.resp.ReadBytes('\n'); rerr == nil {
			rerr = json.Unmarshal(answer, &resp)
		}
	}
	if werr != nil || rerr != nil {
		// the child is gone while this input was outstanding: the exit is the observed event
		_ = c.stdin.Close()
		werrWait := c.cmd.Wait()
		_ = c.respF.Close()
		p.forget(c)
		p.mu.Lock()
		p.exits++
		p.mu.Unlock()
		text := c.out.String()
		top, repo := stackTextSite(text)
		if strings.Contains(text, "fatal error:") && !strings.Contains(text, "panic:") {
			top = "fatal-error"
		}
		status := "exit status unknown"
		if werrWait != nil {
			status = werrWait.Error()
		}
		if text == "" {
			top = "process-exit" // e.g. killed by the kernel's OOM killer: no report of the runtime
		}
		return childPanic{outcome{panicked: true, pfunc: top, repo: repo,
			pval:  firstLineWith(text, "fatal error:", "panic:") + " [child process ended while evaluating this input: " + status + "]",
			stack: headStr(text, 6000)}}, true
	}
	p.mu.Lock()
	p.idle = append(p.idle, c)
	p.mu.Unlock()
	switch resp.Result {
	case "ok":
		return nil, false
	case "panic":
		return childPanic{outcome{panicked: true, pval: resp.PVal, pfunc: resp.PFunc, repo: resp.Repo, stack: resp.Stack}}, false
	default:
		return errors.New(resp.Err), false
	}
}

func headStr(s string, n int) string {
	if len(s) > n {
		return s[:n]
	}
	return s
}
