package c19

import (
	"bytes"
	"crypto/sha256"
	"encoding/base64"
	"encoding/hex"
	"encoding/json"
	"fmt"
	"net"
	"net/http"
	"os"
	"path/filepath"
	"strings"
	"sync"
	"sync/atomic"
	"time"

	"github.com/nuts-foundation/nuts-node/discovery"
	"github.com/nuts-foundation/nuts-node/storage"
	"verif/lib/jmut"
	"verif/lib/node"
)

// The CLIENT side of discovery: every node polls the Discovery Servers of the services it knows (Module.update, a background goroutine in
// production) and stores what they answer. The answer - {"entries": {timestamp: presentation}, "seed", "timestamp"} - is input from a remote
// server. A second in-process node is the client; a harness HTTP server plays the hostile (or broken) Discovery Server; the client's real updater
// is run against it (VerifClientUpdate = clientUpdater.updateService; then VerifClientValidate = the rest of the background pass).
//
// Oracle: no panic, the pass returns; when the updater rejects the answer (returns an error) the client's stored copy of the service (its
// presentations, seed and timestamp) is unchanged. Where the answer was rejected after part of it had been applied (one of several entries, or the
// reset that a new seed demands) the property text is silent: counted as unspecified.

const discClientService = "c19-remote"

// discoveryServer is the hostile Discovery Server.
type discoveryServer struct {
	mu     sync.Mutex
	status int
	ct     string
	body   []byte
	short  int // >0: declare the whole body but close the connection after that many bytes
	hits   atomic.Int64
	url    string
}

func (s *discoveryServer) set(status int, ct string, body []byte, short int) {
	s.mu.Lock()
	s.status, s.ct, s.body, s.short = status, ct, body, short
	s.mu.Unlock()
}

func (s *discoveryServer) ServeHTTP(w http.ResponseWriter, r *http.Request) {
	s.hits.Add(1)
	s.mu.Lock()
	status, ct, body, short := s.status, s.ct, s.body, s.short
	s.mu.Unlock()
	if ct != "" {
		w.Header().Set("Content-Type", ct)
	}
	if status == 301 || status == 302 || status == 307 {
		w.Header().Set("Location", s.url+"/discovery/"+discClientService+"?timestamp=0&again=1")
	}
	if short > 0 && short < len(body) {
		w.Header().Set("Content-Length", fmt.Sprint(len(body)))
		w.WriteHeader(status)
		_, _ = w.Write(body[:short])
		if f, ok := w.(http.Flusher); ok {
			f.Flush()
		}
		if hj, ok := w.(http.Hijacker); ok {
			if c, _, err := hj.Hijack(); err == nil {
				_ = c.Close()
			}
		}
		return
	}
	w.WriteHeader(status)
	_, _ = w.Write(body)
}

// discTree is the composite of one answer: presentations are {"h","p"} composites (signed when the answer is built), everything else is as served.
func discVP(k *attackerKey, did, jtiSuffix string, extraClaims, vpType string, vcs []string) string {
	return fmt.Sprintf(`{"h":{"alg":"ES256","typ":"JWT","kid":"%[1]s#0"},"p":{"iss":%[1]q,"sub":%[1]q,"jti":"%[1]s#%[2]s-%[7]s","aud":%[3]q,"nonce":"n","nbf":%[4]s,"exp":%[5]s%[8]s,
"vp":{"@context":["https://www.w3.org/2018/credentials/v1"],"type":%[9]s,"holder":%[1]q,"verifiableCredential":%[6]s}}}`,
		did, jtiPlaceholder, discClientService, nbfPlaceholder, expPlaceholder, mustJSON(vcs), jtiSuffix, extraClaims, vpType)
}

func didJWKOf(k *attackerKey) string {
	return "did:jwk:" + base64.RawStdEncoding.EncodeToString([]byte(k.pubJWK))
}

func discoveryClientEntry(h *harness) *entry {
	f := theNode(h)
	// the hostile server
	ln, err := net.Listen("tcp", "127.0.0.1:0")
	if err != nil {
		h.r.Fatalf("listen: %v", err)
	}
	srv := &discoveryServer{url: "http://" + ln.Addr().String()}
	hs := &http.Server{Handler: srv}
	go func() { _ = hs.Serve(ln) }()
	h.t.Cleanup(func() { _ = hs.Close() })

	// the client node: knows the service, is not a server for it, does not poll by itself
	dir, err := os.MkdirTemp("", "c19-discovery-client-")
	if err != nil {
		h.r.Fatalf("tempdir: %v", err)
	}
	h.t.Cleanup(func() { os.RemoveAll(dir) })
	def := fmt.Sprintf(`{"id":%q,"endpoint":%q,"presentation_max_validity":36000,
"presentation_definition":{"id":"c19-pd","format":{"jwt_vc":{"alg":["ES256"]},"jwt_vp":{"alg":["ES256"]},"ldp_vc":{"proof_type":["JsonWebSignature2020"]}},
"input_descriptors":[{"id":"org","constraints":{"fields":[{"path":["$.type"],"filter":{"type":"string","const":"NutsOrganizationCredential"}},
{"id":"name","path":["$.credentialSubject.organization.name","$.credentialSubject[0].organization.name"],"filter":{"type":"string"}}]}}]}}`,
		discClientService, srv.url+"/discovery/"+discClientService)
	if err := os.WriteFile(filepath.Join(dir, "remote.json"), []byte(def), 0o644); err != nil {
		h.r.Fatalf("write definition: %v", err)
	}
	srv.set(200, "application/json", []byte(`{"entries":{},"seed":"","timestamp":0}`), 0)
	cn := node.Start(h.t, node.Options{Verbosity: "error", Config: "discovery:\n  definitions:\n    directory: " + dir + "\n  client:\n    refresh_interval: 0s\n",
		Env: map[string]string{"NUTS_HTTP_CACHE_MAXBYTES": "0"}})
	cm := node.Engine[*discovery.Module](cn)
	cdb := node.Engine[storage.Engine](cn).GetSQLDatabase()
	if cm == nil || cdb == nil {
		h.r.Fatalf("client node: engines not found")
	}
	cdb.Exec("PRAGMA synchronous = OFF") // the harness' client node: durability is not under observation here

	// two hostile holders
	atk2 := newAttackerKey()
	d1, d2 := atkDIDJWK(), didJWKOf(atk2)
	keyFor := func(hdr *jmut.Node) *attackerKey {
		if kid := hdr.Get("kid"); kid != nil && kid.K == jmut.Str && strings.HasPrefix(kid.S, d2) {
			return atk2
		}
		return atk
	}
	orgVC := func(k *attackerKey, d string) string {
		tree := strings.ReplaceAll(atkVCTree("NutsOrganizationCredential", "", ""), atkDIDJWK(), d)
		b, _ := k.jwsFromTree(jmut.MustParse(tree))
		return string(b)
	}
	vp1 := discVP(atk, d1, "a", "", `"VerifiablePresentation"`, []string{orgVC(atk, d1)})
	vp2 := discVP(atk2, d2, "b", "", `"VerifiablePresentation"`, []string{orgVC(atk2, d2)})
	retraction := discVP(atk, d1, "r", fmt.Sprintf(`,"retract_jti":"%s#%s-a"`, d1, jtiPlaceholder), `["VerifiablePresentation","RetractedVerifiablePresentation"]`, nil)
	const seedPlaceholder = "SEED-PLACEHOLDER"
	answer := func(entries string, ts string) string {
		return fmt.Sprintf(`{"entries":%s,"seed":%q,"timestamp":%s}`, entries, seedPlaceholder, ts)
	}
	seeds := seedsOf(
		"one-presentation", answer(`{"1":`+vp1+`}`, "1"),
		"two-presentations", answer(`{"1":`+vp1+`,"2":`+vp2+`}`, "2"),
		"presentation-and-retraction", answer(`{"7":`+vp1+`,"8":`+retraction+`}`, "8"),
	)
	var seq atomic.Int64
	currentSeed := "5d5e7e08-0000-4000-8000-000000000001"
	// build turns the composite into the bytes the server sends: placeholders are filled in, every {"h","p"} entry is signed.
	build := func(t *jmut.Node) []byte {
		t = t.Clone()
		now := time.Now()
		n := seq.Add(1)
		fill := func(b []byte) []byte {
			b = bytes.ReplaceAll(b, []byte(nbfPlaceholder), []byte(fmt.Sprint(now.Unix()-1)))
			b = bytes.ReplaceAll(b, []byte(expPlaceholder), []byte(fmt.Sprint(now.Add(time.Hour).Unix())))
			b = bytes.ReplaceAll(b, []byte(jtiPlaceholder), []byte(fmt.Sprintf("j%d", n)))
			return bytes.ReplaceAll(b, []byte(seedPlaceholder), []byte(currentSeed))
		}
		if es := t.Get("entries"); t.K == jmut.Obj && es != nil && es.K == jmut.Obj {
			for i, m := range es.O {
				v := m.Val
				if v == nil || v.K != jmut.Obj || v.Get("h") == nil || v.Get("p") == nil || len(v.O) != 2 {
					continue
				}
				payload := v.Get("p").Bytes()
				if v.Get("p").K == jmut.Str {
					payload = []byte(v.Get("p").S)
				}
				es.O[i].Val = jmut.S(string(keyFor(v.Get("h")).signCompact(v.Get("h").Bytes(), fill(payload))))
			}
		}
		return fill(t.Bytes())
	}
	type discCase struct {
		status int
		ct     string
		body   []byte
		short  int
		// entries/otherSeed: what the harness knows about the answer it serves (for the classification of partial application)
		entries   int
		otherSeed bool
	}
	countEntries := func(t *jmut.Node) (int, bool) {
		if t == nil || t.K != jmut.Obj {
			return 0, false
		}
		n := 0
		for _, m := range t.O { // the largest "entries" member (duplicates!)
			if m.Key == "entries" && m.Val != nil && m.Val.K == jmut.Obj {
				n = max(n, len(m.Val.O))
			}
		}
		other := false
		for _, m := range t.O { // every "seed" member (duplicates!) must be the placeholder
			if m.Key == "seed" && (m.Val == nil || m.Val.K != jmut.Str || m.Val.S != seedPlaceholder) {
				other = true
			}
		}
		if t.Get("seed") == nil {
			other = true
		}
		return n, other
	}
	wrap := func(s jsonSeed, m jmut.Mutant) (input, bool) {
		t := m.Tree
		c := discCase{status: 200, ct: "application/json"}
		if t == nil {
			// byte-level damage: applied to the signed answer
			c.entries, c.otherSeed = 2, true
			c.body = damage(build(s.tree), m)
		} else {
			c.entries, c.otherSeed = countEntries(t)
			c.body = build(t)
		}
		// the input on record is what the server sends (signed at generation time; the presentations are valid for an hour)
		return input{data: c.body, ops: m.Ops, aux: c}, true
	}

	type srow struct {
		Seed                 *string
		LastLamportTimestamp int
	}
	type prow struct {
		PresentationID      string
		CredentialSubjectID string
		LamportTimestamp    int
		Validated           int
		PresentationRaw     string
	}
	digest := func() string {
		var ss []srow
		var ps []prow
		if err := cdb.Table("discovery_service").Where("id = ?", discClientService).Find(&ss).Error; err != nil {
			return "error: " + err.Error()
		}
		if err := cdb.Table("discovery_presentation").Where("service_id = ?", discClientService).Order("presentation_id").Find(&ps).Error; err != nil {
			return "error: " + err.Error()
		}
		hsh := sha256.New()
		for _, p := range ps {
			fmt.Fprintf(hsh, "%s\x00%s\x00%d\x00%d\x00%s\x00", p.PresentationID, p.CredentialSubjectID, p.LamportTimestamp, p.Validated, p.PresentationRaw)
		}
		seed, ts := "null", 0
		if len(ss) > 0 {
			ts = ss[0].LastLamportTimestamp
			if ss[0].Seed != nil {
				seed = *ss[0].Seed
			}
		}
		if len(seed) > 40 {
			sum := sha256.Sum256([]byte(seed))
			seed = fmt.Sprintf("%s...(%d bytes, sha256 %s)", seed[:16], len(seed), hex.EncodeToString(sum[:6]))
		}
		return fmt.Sprintf("seed=%s timestamp=%d presentations=%d sha256=%s", seed, ts, len(ps), hex.EncodeToString(hsh.Sum(nil)[:8]))
	}
	// storedSeed is the seed of the Discovery Server as the client knows it ("" when it knows none yet)
	storedSeed := func() string {
		var ss []srow
		cdb.Table("discovery_service").Where("id = ?", discClientService).Find(&ss)
		if len(ss) == 0 || ss[0].Seed == nil {
			return ""
		}
		return *ss[0].Seed
	}

	var e *entry
	e = &entry{name: "discovery.client.update",
		gen: func(h *harness, e *entry, emit func(input)) {
			// schema-valid but unusual answers, written out
			ldVP := string(f.ldVP) // a JSON-LD presentation (created by the first node): servers only admit JWTs, a hostile server sends what it likes
			var ldNoID map[string]any
			_ = json.Unmarshal(f.ldVP, &ldNoID)
			delete(ldNoID, "id")
			noJTI := strings.Replace(vp1, fmt.Sprintf(`"jti":"%s#%s-a",`, d1, jtiPlaceholder), "", 1)
			oddities := []struct{ name, tree string }{
				{"no-entries", answer(`{}`, "0")},
				{"no-entries-later-timestamp", answer(`{}`, "5")},
				{"jwt-presentation-without-jti", answer(`{"1":`+noJTI+`}`, "1")},
				{"jsonld-presentation", answer(`{"1":`+ldVP+`}`, "1")},
				{"jsonld-presentation-without-id", answer(`{"1":`+mustJSON(ldNoID)+`}`, "1")},
				{"entry-empty-object", answer(`{"1":{}}`, "1")},
				{"entry-null", answer(`{"1":null}`, "1")},
				{"same-presentation-under-two-timestamps", answer(`{"1":`+vp1+`,"2":`+vp1+`}`, "2")},
				{"timestamp-behind-entries", answer(`{"9":`+vp1+`}`, "1")},
				{"timestamp-max-int64", answer(`{"1":`+vp1+`}`, "9223372036854775807")},
				{"timestamp-negative", answer(`{"1":`+vp1+`}`, "-5")},
				{"entry-keys-not-numbers", answer(`{"":`+vp1+`,"x":`+vp2+`}`, "2")},
				{"other-seed-valid-entries", strings.Replace(answer(`{"1":`+vp1+`}`, "1"), seedPlaceholder, "5d5e7e08-0000-4000-8000-0000000000ff", 1)},
				{"retraction-of-unknown", answer(`{"3":`+retraction+`}`, "3")},
			}
			for _, o := range oddities {
				t := jmut.MustParse(o.tree)
				in, _ := wrap(jsonSeed{o.name, t}, jmut.Mutant{Tree: t, Data: t.Bytes()})
				in.ops, in.seed = []string{"oddity:" + o.name + "@"}, o.name
				emit(in)
			}
			// the HTTP envelope around a valid answer
			valid := func() []byte { return build(seeds[0].tree) }
			problem := func(s string) func() []byte { return func() []byte { return []byte(s) } }
			https := []struct {
				name   string
				status int
				ct     string
				body   func() []byte
				short  int
			}{
				{"status-201", 201, "application/json", valid, 0},
				{"status-204", 204, "application/json", problem(""), 0},
				{"status-301", 301, "application/json", valid, 0},
				{"status-400-problem", 400, "application/problem+json", problem(`{"title":"bad","detail":"request","status":400}`), 0},
				{"status-400-problem-wrong-types", 400, "application/problem+json", problem(`{"title":null,"detail":[1,2],"status":"400"}`), 0},
				{"status-400-problem-null", 400, "application/problem+json", problem(`null`), 0},
				{"status-404-html", 404, "text/html", problem(`<html>not here</html>`), 0},
				{"status-500-empty", 500, "", problem(""), 0},
				{"status-500-deep", 500, "application/problem+json", problem(strings.Repeat("[", 100000)), 0},
				{"content-type-html", 200, "text/html", valid, 0},
				{"content-type-none", 200, "", valid, 0},
				{"body-empty", 200, "application/json", problem(""), 0},
				{"body-null", 200, "application/json", problem("null"), 0},
				{"body-array", 200, "application/json", problem("[]"), 0},
				{"body-entries-null", 200, "application/json", problem(`{"entries":null,"seed":null,"timestamp":null}`), 0},
				{"body-connection-closed-half-way", 200, "application/json", valid, 300},
				{"body-over-the-response-limit", 200, "application/json", func() []byte {
					return append(append([]byte(`{"entries":{},"seed":"`), bytes.Repeat([]byte("s"), 1<<20+100)...), []byte(`","timestamp":0}`)...)
				}, 0},
			}
			for _, x := range https {
				c := discCase{status: x.status, ct: x.ct, body: x.body(), short: x.short, entries: 1}
				emit(input{data: []byte(fmt.Sprintf("HTTP %d\nContent-Type: %s\n(connection closed after %d bytes)\n\n%s", c.status, c.ct, c.short, c.body)), ops: []string{"http:" + x.name + "@"}, seed: "one-presentation", aux: c})
			}
			genJSON(seeds, true, wrap)(h, e, emit)
		},
		call: func(in input) error {
			c := in.aux.(discCase)
			srv.set(c.status, c.ct, c.body, c.short)
			st := h.st(e.name)
			before := digest()
			// an earlier hostile answer may have been accepted with a seed of its own: then also an answer with the regular seed demands a reset
			demandsReset := c.otherSeed
			if known := storedSeed(); known != "" && known != currentSeed {
				demandsReset = true
			}
			hits := srv.hits.Load()
			err := discovery.VerifClientUpdate(cm, discClientService)
			after := digest()
			st.mu.Lock()
			st.StateCheck++
			st.mu.Unlock()
			if srv.hits.Load() == hits {
				h.r.Fatalf("%s: the client did not ask the harness' Discovery Server", e.name)
			}
			if err != nil && after != before {
				if c.entries >= 2 || demandsReset {
					h.r.Unspecified("discovery-client/answer-rejected-after-part-of-it-was-applied")
				} else {
					h.stateViolation(e, in, fmt.Sprintf("the updater rejected the Discovery Server's answer (%v) but the client's copy of the service changed", err), before, after)
				}
			}
			// the rest of the background pass works on what is stored now
			_ = discovery.VerifClientValidate(cm)
			if in.valid && err == nil {
				// calibration: what the harness calls a valid answer is one whose presentations the client verifies and activates
				var n int64
				cdb.Table("discovery_presentation").Where("service_id = ? AND validated = 1", discClientService).Count(&n)
				if n == 0 {
					h.r.Fatalf("%s: the client did not activate any presentation of the valid answer %q", e.name, in.seed)
				}
				h.r.Count("discovery_client_valid_answers_activated", 1)
			}
			return err
		}}
	return e
}
