package c19

import (
	"bytes"
	"errors"
	"fmt"
	"io"
	"net/http"
	"sync"
	"sync/atomic"
	"time"

	"github.com/nuts-foundation/nuts-node/http/client"
)

// This file is the hostile *remote server* of the outbound HTTP entry points (status list refresh, caching transport, did:web through the
// cache): a RoundTripper that answers from a script, counts what the node consumes of each response body, and can fail at every stage
// (transport error, error in the middle of the body, endless body). No socket is opened.

// bodySpec describes a response body without materialising it: head, then fill repeated to fillLen bytes (-1: for ever), then tail.
type bodySpec struct {
	head    []byte
	fill    []byte
	fillLen int64
	tail    []byte
}

func bodyOf(b []byte) bodySpec { return bodySpec{head: b} }

// patternBody is a body of exactly n bytes (n < 0: endless) whose content is derived from tag, so that bodies of different URLs differ at every offset window.
func patternBody(tag string, n int64) bodySpec {
	return bodySpec{fill: []byte(tag + "|"), fillLen: n}
}

// length returns the body length, -1 when endless.
func (b bodySpec) length() int64 {
	if b.fillLen < 0 {
		return -1
	}
	return int64(len(b.head)) + b.fillLen + int64(len(b.tail))
}

// read copies the bytes from offset off into p and returns how many there were (0 at the end of the body).
func (b bodySpec) read(p []byte, off int64) int {
	if l := len(b.fill); l > 0 && l < 1024 && len(p) > 4*l {
		// copy the fill in pieces of a few KiB, not of a few bytes (a whole number of repetitions: the content at every offset stays the same)
		b.fill = bytes.Repeat(b.fill, 2048/l+1)
	}
	n := 0
	for n < len(p) {
		o := off + int64(n)
		switch {
		case o < int64(len(b.head)):
			n += copy(p[n:], b.head[o:])
			continue
		}
		o -= int64(len(b.head))
		if b.fillLen < 0 || o < b.fillLen {
			if len(b.fill) == 0 {
				return n
			}
			avail := int64(len(p) - n)
			if b.fillLen >= 0 && b.fillLen-o < avail {
				avail = b.fillLen - o
			}
			for avail > 0 {
				c := copy(p[n:n+int(min(avail, int64(len(b.fill))))], b.fill[o%int64(len(b.fill)):])
				n += c
				o += int64(c)
				avail -= int64(c)
			}
			continue
		}
		o -= b.fillLen
		if o < int64(len(b.tail)) {
			n += copy(p[n:], b.tail[o:])
			continue
		}
		return n
	}
	return n
}

// bytes materialises a finite body (harness side only).
func (b bodySpec) bytes() []byte {
	out := make([]byte, b.length())
	b.read(out, 0)
	return out
}

// hostileResp is one scripted answer.
type hostileResp struct {
	status    int
	header    http.Header
	body      bodySpec
	err       error // the transport fails instead of answering
	failAfter int64 // >0: the body fails with errBodyBroken after that many bytes (connection reset in the middle of the body)
	noLength  bool  // do not declare a Content-Length
}

var errBodyBroken = errors.New("hostile server: connection reset in the middle of the body")
var errHarnessCap = errors.New("hostile server: the harness stops serving this body (cap reached)")

// hostileServer plays the remote servers. Answers are looked up by URL (with query); every body handed out counts the bytes that were read from it.
type hostileServer struct {
	mu       sync.Mutex
	routes   map[string]hostileResp
	requests map[string]int
	consumed map[string]*atomic.Int64
	// hardCap ends an endless (or overlong) body with an error once that many bytes were consumed: by then the consumption bound is long exceeded,
	// and the harness process must survive the observation.
	hardCap int64
}

func newHostileServer(hardCap int64) *hostileServer {
	return &hostileServer{routes: map[string]hostileResp{}, requests: map[string]int{}, consumed: map[string]*atomic.Int64{}, hardCap: hardCap}
}

func (s *hostileServer) set(url string, r hostileResp) {
	s.mu.Lock()
	s.routes[url] = r
	s.mu.Unlock()
}

func (s *hostileServer) requestCount(url string) int {
	s.mu.Lock()
	defer s.mu.Unlock()
	return s.requests[url]
}

// consumedOf returns the number of body bytes read so far from all answers for url.
func (s *hostileServer) consumedOf(url string) int64 {
	s.mu.Lock()
	c := s.consumed[url]
	s.mu.Unlock()
	if c == nil {
		return 0
	}
	return c.Load()
}

func (s *hostileServer) RoundTrip(req *http.Request) (*http.Response, error) {
	u := req.URL.String()
	s.mu.Lock()
	s.requests[u]++
	r, ok := s.routes[u]
	c := s.consumed[u]
	if c == nil {
		c = new(atomic.Int64)
		s.consumed[u] = c
	}
	s.mu.Unlock()
	if !ok {
		r = hostileResp{status: 404, header: http.Header{"Content-Type": {"text/plain"}}, body: bodyOf([]byte("not scripted"))}
	}
	if r.err != nil {
		return nil, r.err
	}
	h := http.Header{}
	for k, v := range r.header {
		h[k] = append([]string{}, v...)
	}
	cl := r.body.length()
	if r.noLength {
		cl = -1
	}
	return &http.Response{StatusCode: r.status, Status: fmt.Sprintf("%d hostile", r.status), Header: h, ContentLength: cl, Request: req,
		Proto: "HTTP/1.1", ProtoMajor: 1, ProtoMinor: 1,
		Body: &countingBody{spec: r.body, failAfter: r.failAfter, consumed: c, hardCap: s.hardCap}}, nil
}

type countingBody struct {
	spec      bodySpec
	off       int64
	failAfter int64
	consumed  *atomic.Int64
	hardCap   int64
	closed    atomic.Bool
}

func (b *countingBody) Read(p []byte) (int, error) {
	if b.closed.Load() {
		return 0, errors.New("hostile server: read on closed body")
	}
	if b.failAfter > 0 && b.off >= b.failAfter {
		return 0, errBodyBroken
	}
	if b.hardCap > 0 && b.off >= b.hardCap {
		return 0, errHarnessCap
	}
	if b.failAfter > 0 && int64(len(p)) > b.failAfter-b.off {
		p = p[:b.failAfter-b.off]
	}
	if b.hardCap > 0 && int64(len(p)) > b.hardCap-b.off {
		p = p[:b.hardCap-b.off]
	}
	n := b.spec.read(p, b.off)
	b.off += int64(n)
	b.consumed.Add(int64(n))
	if n == 0 {
		return 0, io.EOF
	}
	return n, nil
}

func (b *countingBody) Close() error { b.closed.Store(true); return nil }

// muxTransport is harness glue between the node's StrictHTTPClient and per-case transports: it hands each request to the RoundTripper
// registered for the request's host. client.NewWithCache captures the process-wide client.DefaultCachingTransport when a client is
// constructed; the harness constructs its StrictHTTPClients once (in the serial set-up phase) over a muxTransport, and registers a real
// CachingRoundTripper (or a bare hostile server) per case afterwards.
type muxTransport struct {
	mu     sync.RWMutex
	byHost map[string]http.RoundTripper
}

func (m *muxTransport) register(host string, rt http.RoundTripper) {
	m.mu.Lock()
	m.byHost[host] = rt
	m.mu.Unlock()
}

func (m *muxTransport) unregister(host string) {
	m.mu.Lock()
	delete(m.byHost, host)
	m.mu.Unlock()
}

func (m *muxTransport) RoundTrip(req *http.Request) (*http.Response, error) {
	m.mu.RLock()
	rt := m.byHost[req.URL.Host]
	m.mu.RUnlock()
	if rt == nil {
		return nil, fmt.Errorf("harness: no transport registered for host %q", req.URL.Host)
	}
	return rt.RoundTrip(req)
}

var (
	strictOnce    sync.Once
	strictMux     *muxTransport
	strictClient  *client.StrictHTTPClient // as vcr builds it for the status list verifier (follows redirects)
	strictNoRedir *client.StrictHTTPClient // as didweb.NewResolver builds it
)

// strictClients returns the node's real StrictHTTPClients over the harness' muxTransport. It MUST be called first from the serial set-up phase
// (allEntries): it swaps the process-wide client.DefaultCachingTransport for the duration of the two constructor calls.
func strictClients() (*muxTransport, *client.StrictHTTPClient, *client.StrictHTTPClient) {
	strictOnce.Do(func() {
		strictMux = &muxTransport{byHost: map[string]http.RoundTripper{}}
		saved := client.DefaultCachingTransport
		client.DefaultCachingTransport = strictMux
		// the timeout is far beyond the watchdog: no verdict depends on it (it cannot interrupt a RoundTrip that does not return anyway)
		strictClient = client.NewWithCache(10 * time.Minute)
		strictNoRedir = client.NewWithCache(10 * time.Minute).WithoutRedirects()
		client.DefaultCachingTransport = saved
	})
	return strictMux, strictClient, strictNoRedir
}
