package c19

import (
	"crypto/ecdsa"
	"crypto/elliptic"
	crand "crypto/rand"
	"crypto/sha256"
	"encoding/base64"
	"encoding/json"
	"fmt"
	"math/big"

	"github.com/lestrrat-go/jwx/v2/jwk"
	"verif/lib/jmut"
)

// attackerKey is a P-256 key the hostile party owns: every mutated JWS/JWT is re-signed with it so that
// the input gets past signature checks that only need *a* valid signature (embedded jwk, attacker-controlled DID).
// Key material comes from crypto/rand: key values never influence which inputs are generated or any verdict.
type attackerKey struct {
	priv   *ecdsa.PrivateKey
	pubJWK string // public JWK as JSON
}

func newAttackerKey() *attackerKey {
	priv, err := ecdsa.GenerateKey(elliptic.P256(), crand.Reader)
	if err != nil {
		panic(err)
	}
	k, err := jwk.FromRaw(priv.Public())
	if err != nil {
		panic(err)
	}
	js, _ := json.Marshal(k)
	return &attackerKey{priv: priv, pubJWK: string(js)}
}

var b64 = base64.RawURLEncoding

// signCompact builds a compact JWS with exactly the given protected-header bytes and payload and an ES256 signature by key
// (no library in between: any header JSON, valid or not, can be signed).
func (k *attackerKey) signCompact(header, payload []byte) []byte {
	signingInput := b64.EncodeToString(header) + "." + b64.EncodeToString(payload)
	sum := sha256.Sum256([]byte(signingInput))
	r, s, err := ecdsa.Sign(crand.Reader, k.priv, sum[:])
	if err != nil {
		panic(err)
	}
	sig := make([]byte, 64)
	r.FillBytes(sig[:32])
	s.FillBytes(sig[32:])
	return []byte(signingInput + "." + b64.EncodeToString(sig))
}

var _ = big.NewInt

// jwsFromTree turns a composite tree {"h": <protected header>, "p": <payload>} into a signed compact JWS.
// A string payload is used verbatim, any other payload value is used as its JSON serialisation (JWT claims).
func (k *attackerKey) jwsFromTree(t *jmut.Node) ([]byte, bool) {
	if t == nil || t.K != jmut.Obj {
		return nil, false
	}
	h, p := t.Get("h"), t.Get("p")
	if h == nil || p == nil {
		return nil, false
	}
	payload := p.Bytes()
	if p.K == jmut.Str {
		payload = []byte(p.S)
	}
	return k.signCompact(h.Bytes(), payload), true
}

// damage applies the byte-level damage that the mutator chose for the JSON form to another serialisation (compact JWS, protobuf) instead.
func damage(serialised []byte, m jmut.Mutant) []byte {
	if len(serialised) < 2 {
		return serialised
	}
	n := len(m.Data)
	op := ""
	if len(m.Ops) > 0 {
		op = m.Ops[len(m.Ops)-1]
	}
	out := append([]byte{}, serialised...)
	switch {
	case len(op) >= 10 && op[:10] == "bytes:flip":
		out[n%len(out)] ^= 1 << uint(n%8)
	case len(op) >= 14 && op[:14] == "bytes:trailing":
		out = append(out, '.', 'x')
	default: // truncation
		out = out[:1+n%(len(out)-1)]
	}
	return out
}

// jwsWrap is the genJSON wrap function for composite {"h","p"} seeds.
func (k *attackerKey) jwsWrap(s jsonSeed, m jmut.Mutant) (input, bool) {
	if m.Tree == nil {
		valid, _ := k.jwsFromTree(s.tree)
		return input{data: damage(valid, m), ops: m.Ops}, true
	}
	data, ok := k.jwsFromTree(m.Tree)
	if !ok {
		// the composite itself was destroyed (root replaced, "h" or "p" removed): send what is left as the whole token
		return input{data: m.Data, ops: m.Ops}, true
	}
	return input{data: data, ops: m.Ops}, true
}

func mustJSON(v any) string {
	b, err := json.Marshal(v)
	if err != nil {
		panic(err)
	}
	return string(b)
}

func errf(format string, a ...any) error { return fmt.Errorf(format, a...) }
