package c19

import (
	"errors"
	"fmt"
	"io"
	"net/http"
	"os"
	"path/filepath"
	"strings"
	"time"

	"verif/lib/jmut"
)

// gridServices: presentation definitions from the PE grid (entries_pegrid_test.go) that the node holds as discovery service definitions and as
// policy scopes: the relation between descriptors and credentials is unusual (one credential fulfils several descriptors, groups named twice, ...).
// Template numbers: 0 type-org, 2 issuer, 4 type-other, 5 city, 10 two-fields. Group numbers: 0 none, 1 A, 2 B, 3 A+B.
var gridServices = []struct {
	id     string
	ts, gs []int
	req    int
}{
	{"c19-grid-shared", []int{0, 5}, []int{0, 0}, 0},             // no requirements, one credential fulfils both descriptors
	{"c19-grid-all-shared", []int{0, 5}, []int{1, 1}, 1},         // all A
	{"c19-grid-pick1-shared", []int{0, 5}, []int{1, 1}, 2},       // pick 1 A
	{"c19-grid-all-twice", []int{0, 10}, []int{1, 1}, 6},         // all A, all A
	{"c19-grid-nested", []int{0, 5, 4}, []int{1, 1, 2}, 7},       // nested all A + pick 1 B
	{"c19-grid-pick-min0", []int{0, 4}, []int{1, 2}, 10},         // nothing required
	{"c19-grid-two-groups", []int{0, 2, 4}, []int{3, 1, 2}, 3},   // a descriptor in two groups, all A + all B
	{"c19-grid-pick2-shared", []int{0, 5, 2}, []int{1, 1, 1}, 5}, // pick 2 A out of three descriptors one credential fulfils
	{"c19-grid-max1", []int{0, 5, 4}, []int{1, 1, 2}, 9},         // pick max 1 B + all A
	{"c19-grid-three-shared", []int{0, 5, 2}, []int{0, 0, 0}, 0}, // no requirements, three descriptors
	{"c19-grid-nested-twice", []int{5, 0}, []int{1, 1}, 8},       // nested all A twice
}

func gridServiceIDs() string {
	ids := []string{"c19-service"}
	for _, s := range gridServices {
		ids = append(ids, s.id)
	}
	return strings.Join(ids, ",")
}

func writeGridServices(h *harness, dir string) {
	for _, s := range gridServices {
		def := fmt.Sprintf(`{"id":%q,"endpoint":"https://discovery.example.com/discovery/%s","presentation_max_validity":36000,"presentation_definition":%s}`,
			s.id, s.id, gridDefinition(s.id+"-pd", s.ts, s.gs, s.req, false))
		if err := os.WriteFile(filepath.Join(dir, s.id+".json"), []byte(def), 0o644); err != nil {
			h.r.Fatalf("write definition: %v", err)
		}
	}
}

func writeGridPolicies(h *harness, dir string) {
	var scopes []string
	for _, s := range gridServices {
		scopes = append(scopes, fmt.Sprintf(`%q:{"organization":%s}`, s.id, gridDefinition(s.id+"-pd", s.ts, s.gs, s.req, false)))
	}
	if err := os.WriteFile(filepath.Join(dir, "c19-grid.json"), []byte("{"+strings.Join(scopes, ",")+"}"), 0o644); err != nil {
		h.r.Fatalf("write policy: %v", err)
	}
}

func asHTTPPanic(errs ...error) error {
	for _, err := range errs {
		var hp httpPanic
		if errors.As(err, &hp) {
			return err
		}
	}
	return nil
}

// httpGridEntries: the grid definitions through the node's HTTP interfaces: discovery registration (server) followed by a search (client API),
// and the s2s token request with a presentation + submission for the scope's definition.
func httpGridEntries(h *harness, f *nodeFixture, run func(*entry), vpTree func(aud string, vcs ...string) string,
	post func(path string, ct string, body io.Reader, hdr map[string]string) (httpResult, error),
	tokenReq func(assertion, sub string, hdr map[string]string, extraForm map[string]string) error, audience string) {
	d := atkDIDJWK()
	// the credentials of the grid have ids of their own and are signed once: the node's credential store refuses another token with the id of a stored credential
	orgTree := strings.Replace(atkVCTree("NutsOrganizationCredential", "", ""), "#c1", "#grid-org", 1)
	orgOnce := compact(orgTree)
	otherOnce := compact(strings.Replace(atkVCTree("OtherCredential", fmt.Sprintf(`{"id":%q,"x":1}`, d), ""), "#c1", "#grid-other", 1))
	org := func() string { return orgOnce }
	other := func() string { return otherOnce }
	wallets := map[string]func() []string{
		"org":         func() []string { return []string{org()} },
		"org+other":   func() []string { return []string{org(), other()} },
		"org+org":     func() []string { o := org(); return []string{o, o} },
		"other":       func() []string { return []string{other()} },
		"other+org":   func() []string { return []string{other(), org()} },
		"org+org-new": func() []string { return []string{org(), compact(orgTree)} }, // the same credential signed twice (ECDSA: two different tokens with one id)
	}
	walletNames := []string{"org", "org+other", "org+org", "other", "other+org", "org+org-new"}
	sign := func(tree string, validFor time.Duration) string {
		t := jmut.MustParse(tree)
		in, _ := freshWrap(validFor, nil)(jsonSeed{name: "grid", tree: t}, jmut.Mutant{Tree: t})
		return string(in.data)
	}
	search := func(service string) error {
		req, err := http.NewRequest("GET", f.n.Internal+"/internal/discovery/v1/"+service, nil)
		if err != nil {
			return err
		}
		_, err = f.do(req)
		return err
	}
	type gridIn struct {
		service string
		wallet  string
		sub     string
	}
	run(&entry{name: "http.discovery.register-search.grid",
		gen: func(h *harness, e *entry, emit func(input)) {
			emit(input{data: []byte("c19-service org"), valid: true, seed: "registration", aux: gridIn{service: "c19-service", wallet: "org"}})
			for _, s := range gridServices {
				for wi, w := range walletNames {
					if !h.r.Thorough() && wi >= 3 && (wi+len(s.id)+int(h.r.Seed()))%3 != 0 {
						continue
					}
					emit(input{data: []byte(s.id + " " + w), ops: []string{"pegrid:definition=" + s.id + "@/presentation_definition", "pegrid:credentials=" + w + "@/vp/verifiableCredential"}, seed: "registration",
						aux: gridIn{service: s.id, wallet: w}})
				}
			}
		},
		call: func(in input) error {
			g := in.aux.(gridIn)
			vp := sign(vpTree(g.service, wallets[g.wallet]()...), time.Hour)
			_, rerr := post(f.n.Public+"/discovery/"+g.service, "application/json", strings.NewReader(mustJSON(vp)), nil)
			serr := search(g.service)
			if p := asHTTPPanic(rerr, serr); p != nil {
				return p
			}
			if rerr != nil {
				return rerr
			}
			return serr
		}})
	run(&entry{name: "http.token.vp_bearer.grid",
		gen: func(h *harness, e *entry, emit func(input)) {
			for _, s := range gridServices {
				for wi, w := range walletNames[:3] {
					n := 1
					if strings.Contains(w, "+") {
						n = 2
					}
					subs := gridSubmissions(s.id+"-pd", "jwt_vp", make([]int, n), len(s.ts))
					k := 0
					for _, name := range []string{"first-descriptor-only", "every-descriptor-first-cred", "descriptor-i-credential-i", "reversed", "empty-map"} {
						k++
						if !h.r.Thorough() && k > 2 && (k+wi+len(s.id)+int(h.r.Seed()))%3 != 0 {
							continue
						}
						sub := strings.ReplaceAll(subs[name], `"ldp_vc"`, `"jwt_vc"`)
						emit(input{data: []byte(s.id + " " + w + " " + sub), ops: []string{"pegrid:definition=" + s.id + "@/presentation_definition", "pegrid:credentials=" + w + "@/vp/verifiableCredential", "pegrid:submission=" + name + "@/presentation_submission"},
							seed: "s2s", aux: gridIn{service: s.id, wallet: w, sub: sub}})
					}
				}
			}
		},
		call: func(in input) error {
			g := in.aux.(gridIn)
			vp := sign(vpTree(audience, wallets[g.wallet]()...), 4*time.Second)
			return tokenReq(vp, g.sub, nil, map[string]string{"scope": g.service})
		}})
}
