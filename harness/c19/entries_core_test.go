package c19

import (
	"context"
	"crypto"
	"encoding/binary"
	"encoding/json"
	"errors"
	"fmt"
	"os"
	"strconv"
	"strings"
	"time"

	"github.com/nuts-foundation/go-did/did"
	"github.com/nuts-foundation/go-did/vc"
	"github.com/nuts-foundation/nuts-node/crypto/hash"
	"github.com/nuts-foundation/nuts-node/network/dag"
	"github.com/nuts-foundation/nuts-node/network/dag/tree"
	"github.com/nuts-foundation/nuts-node/vcr/pe"
	"github.com/nuts-foundation/nuts-node/vdr/resolver"
	"verif/lib/dagx"
	"verif/lib/jmut"
)

var atk = newAttackerKey()

func allEntries(h *harness) []*entry {
	var out []*entry
	out = append(out, dagEntries(h)...)
	out = append(out, ibltEntry(h))
	out = append(out, peEntries(h)...)
	out = append(out, peGridEntry(h))
	out = append(out, didEntries(h)...)
	out = append(out, cryptoEntries(h)...)
	out = append(out, keyGridEntries(h)...)
	out = append(out, vcrEntries(h)...)
	out = append(out, statusListRefreshEntry(h))
	out = append(out, cacheEntries(h)...)
	out = append(out, discoveryClientEntry(h))
	return out
}

// ---- (1) dag.ParseTransaction, and dag.State.Add of what it returns ---------------------------------------------

func txSeed(prevs []string, lc int, payloadHash string, withJWK bool, pal bool) string {
	h := fmt.Sprintf(`{"alg":"ES256","cty":"application/x-verif","crit":["sigt","ver","prevs","lc"],"sigt":1700000000,"prevs":%s,"ver":2,"lc":%d`, mustJSON(prevs), lc)
	if withJWK {
		h += `,"jwk":` + atk.pubJWK
	} else {
		h += `,"kid":"did:nuts:GvkzxsezHvEc8nGhgz6Xo3jbqkHwswLmWw3CYtCm7hAW#key-1"`
	}
	if pal {
		h += `,"pal":["AAECAwQFBgc=","CAkKCwwNDg8="]`
	}
	h += `}`
	return `{"h":` + h + `,"p":` + mustJSON(payloadHash) + `}`
}

type stubKeyResolver struct{}

func (stubKeyResolver) ResolvePublicKey(kid string, _ []hash.SHA256Hash) (crypto.PublicKey, error) {
	if strings.HasSuffix(kid, "#key-1") {
		return atk.priv.Public(), nil
	}
	return nil, resolver.ErrKeyNotFound
}

func useTx(tx dag.Transaction) {
	_ = tx.Ref()
	_, _ = tx.MarshalJSON()
	_ = tx.PAL()
	_ = tx.Previous()
	_ = tx.SigningKey()
	_ = tx.SigningKeyID()
	_ = tx.SigningTime()
	_ = tx.Clock()
	_ = tx.PayloadHash()
	_ = tx.PayloadType()
	_ = tx.Version()
	_ = tx.SigningAlgorithm()
	_ = tx.Data()
}

func dagEntries(h *harness) []*entry {
	payload := []byte("c19 payload")
	ph := hash.SHA256Sum(payload).String()
	somePrev := hash.SHA256Sum([]byte("prev")).String()
	parseSeeds := seedsOf(
		"tx-jwk-root", txSeed([]string{}, 0, ph, true, false),
		"tx-jwk-prevs", txSeed([]string{somePrev, hash.SHA256Sum([]byte("prev2")).String()}, 7, ph, true, false),
		"tx-kid-pal", txSeed([]string{somePrev}, 3, ph, false, true),
	)
	parse := &entry{name: "dag.ParseTransaction", gen: genJSON(parseSeeds, false, atk.jwsWrap),
		call: func(in input) error {
			tx, err := dag.ParseTransaction(in.data)
			if err != nil {
				return err
			}
			useTx(tx)
			return nil
		}}

	// real State on bbolt with the production verifiers; hostile transactions reference the root
	dir, err := os.MkdirTemp("", "c19-dag-")
	if err != nil {
		h.r.Fatalf("tempdir: %v", err)
	}
	h.t.Cleanup(func() { os.RemoveAll(dir) })
	db, err := dagx.OpenStore(dir, false)
	if err != nil {
		h.r.Fatalf("open store: %v", err)
	}
	st := dagx.NewState(db, dag.NewPrevTransactionsVerifier(), dag.NewTransactionSignatureVerifier(stubKeyResolver{}))
	h.t.Cleanup(func() { _ = st.Shutdown(); _ = db.Close(context.Background()) })
	root := dagx.NewTx(dagx.NewKey(""), true, []byte("root"), "application/x-verif", time.Unix(1700000000, 0), nil)
	if err := st.Add(context.Background(), root, []byte("root")); err != nil {
		h.r.Fatalf("add root: %v", err)
	}
	addSeeds := seedsOf(
		"tx-jwk-on-root", txSeed([]string{root.Ref().String()}, 1, ph, true, false),
		"tx-kid-on-root", txSeed([]string{root.Ref().String()}, 1, ph, false, false),
		"tx-private-on-root", txSeed([]string{root.Ref().String()}, 1, ph, true, true),
	)
	add := &entry{name: "dag.State.Add", gen: genJSON(addSeeds, false, atk.jwsWrap),
		call: func(in input) error {
			tx, err := dag.ParseTransaction(in.data)
			if err != nil {
				return err
			}
			var pl []byte
			if tx.PayloadHash().Equals(hash.SHA256Sum(payload)) {
				pl = payload
			}
			return st.Add(context.Background(), tx, pl)
		},
		digest: func() string {
			x, c := st.XOR(dag.MaxLamportClock)
			n := 0
			for _, d := range st.Diagnostics() {
				if d.Name() == "transaction_count" {
					n, _ = strconv.Atoi(fmt.Sprint(d.Result()))
				}
			}
			return fmt.Sprintf("xor=%s lc=%d n=%v", x, c, n)
		}}
	return []*entry{parse, add}
}

// ---- (3) IBLT: UnmarshalBinary -> Subtract -> Decode, as handleTransactionSet does ---------------------------------

func ibltEntry(h *harness) *entry {
	local := tree.NewIblt(dag.IbltNumBuckets)
	peer := tree.NewIblt(dag.IbltNumBuckets)
	for i := 0; i < 300; i++ {
		ref := hash.SHA256Sum([]byte(fmt.Sprintf("tx%d", i)))
		if i < 280 {
			local.Insert(ref)
		}
		if i >= 20 {
			peer.Insert(ref)
		}
	}
	valid, _ := peer.MarshalBinary()
	const bb = 44
	nb := len(valid) / bb
	return &entry{name: "iblt.Unmarshal-Subtract-Decode",
		gen: func(h *harness, e *entry, emit func(input)) {
			rnd := h.r.Rand("gen/" + e.name)
			emit(input{data: valid, valid: true, seed: "iblt-1024"})
			// lengths: every structural boundary class
			for _, n := range []int{0, 1, 43, 44, 45, 5 * bb, 6 * bb, 7 * bb, (nb - 1) * bb, nb*bb - 1, nb*bb + 1, (nb + 1) * bb, 2 * nb * bb, 40000 * bb} {
				d := make([]byte, n)
				for i := range d {
					d[i] = valid[i%len(valid)]
				}
				emit(input{data: d, ops: []string{fmt.Sprintf("iblt:length=%d@", n)}, seed: "iblt-1024"})
			}
			counts := []uint32{0, 1, 0xffffffff, 2, 0x7fffffff, 0x80000000, 0xfffffffe}
			_, nRandom := h.budget(false)
			nRandom *= 2
			for i := 0; i < nRandom; i++ {
				d := append([]byte{}, valid...)
				var ops []string
				for k := 1 + rnd.Intn(4); k > 0; k-- {
					b := rnd.Intn(nb)
					o := d[b*bb : (b+1)*bb]
					switch rnd.Intn(7) {
					case 0:
						c := counts[rnd.Intn(len(counts))]
						binary.LittleEndian.PutUint32(o, c)
						ops = append(ops, fmt.Sprintf("iblt:count=%d@/%d/count", int32(c), b))
					case 1:
						rnd.Read(o[4:12])
						ops = append(ops, fmt.Sprintf("iblt:hashSum=random@/%d/hashSum", b))
					case 2:
						rnd.Read(o[12:])
						ops = append(ops, fmt.Sprintf("iblt:keySum=random@/%d/keySum", b))
					case 3:
						// a forged pure bucket: count ±1 and hashSum == hash(keySum), present in this one bucket only
						ref := hash.SHA256Sum([]byte(fmt.Sprintf("forged%d", rnd.Int())))
						t := tree.NewIblt(dag.IbltNumBuckets)
						t.Insert(ref)
						tb, _ := t.MarshalBinary()
						for j := 0; j < nb; j++ {
							if binary.LittleEndian.Uint32(tb[j*bb:]) == 1 {
								copy(o, tb[j*bb:(j+1)*bb])
								break
							}
						}
						if rnd.Intn(2) == 0 {
							binary.LittleEndian.PutUint32(o, 0xffffffff)
						}
						ops = append(ops, fmt.Sprintf("iblt:forged-pure@/%d", b))
					case 4:
						for j := range o {
							o[j] = 0
						}
						ops = append(ops, fmt.Sprintf("iblt:zero-bucket@/%d", b))
					case 5:
						o[rnd.Intn(bb)] ^= 1 << uint(rnd.Intn(8))
						ops = append(ops, fmt.Sprintf("iblt:bitflip@/%d", b))
					default:
						// copy another bucket over this one
						src := rnd.Intn(nb)
						copy(o, valid[src*bb:(src+1)*bb])
						ops = append(ops, fmt.Sprintf("iblt:copy-bucket@/%d", b))
					}
				}
				if rnd.Intn(20) == 0 {
					d = d[:rnd.Intn(len(d))]
					ops = append(ops, "iblt:truncate@")
				}
				emit(input{data: d, ops: ops, seed: "iblt-1024"})
			}
			// a difference in which one bucket OUTSIDE a key's own buckets is pure for that key while the key's own buckets can never
			// become pure (count of magnitude 3): every decode pass finds the key exactly once, in the same bucket, for ever
			for j := 0; j < 4; j++ {
				key := hash.SHA256Sum([]byte(fmt.Sprintf("recurring-%d-%d", j, rnd.Int())))
				t := tree.NewIblt(dag.IbltNumBuckets)
				t.Insert(key)
				tb, _ := t.MarshalBinary()
				crafted := make([]byte, len(tb))
				var pure []byte
				own := map[int]bool{}
				for b := 0; b < nb; b++ {
					if binary.LittleEndian.Uint32(tb[b*bb:]) == 1 {
						own[b] = true
						pure = tb[b*bb : (b+1)*bb]
					}
				}
				for b := range own {
					o := crafted[b*bb : (b+1)*bb]
					rnd.Read(o[4:])
					binary.LittleEndian.PutUint32(o, []uint32{3, 0xfffffffd, 5, 4}[j%4]) // 3, -3, 5, 4
				}
				foreign := rnd.Intn(nb)
				for own[foreign] {
					foreign = rnd.Intn(nb)
				}
				copy(crafted[foreign*bb:], pure)
				if j%2 == 1 {
					binary.LittleEndian.PutUint32(crafted[foreign*bb:], 0xffffffff) // pure with count -1
				}
				c := tree.NewIblt(dag.IbltNumBuckets)
				if err := c.UnmarshalBinary(crafted); err != nil {
					panic(err)
				}
				pp := local.Clone().(*tree.Iblt)
				if err := pp.Subtract(c); err != nil { // local - (local - crafted) = crafted is what Decode will see
					panic(err)
				}
				d, _ := pp.MarshalBinary()
				emit(input{data: d, ops: []string{fmt.Sprintf("iblt:recurring-pure-bucket-outside-own-buckets@/%d", j)}, seed: "iblt-1024"})
			}
			// all buckets hostile at once
			for _, c := range counts {
				d := append([]byte{}, valid...)
				for b := 0; b < nb; b++ {
					binary.LittleEndian.PutUint32(d[b*bb:], c)
				}
				emit(input{data: d, ops: []string{fmt.Sprintf("iblt:all-counts=%d@", int32(c))}, seed: "iblt-1024"})
			}
		},
		call: func(in input) error {
			p := tree.NewIblt(dag.IbltNumBuckets)
			if err := p.UnmarshalBinary(in.data); err != nil {
				return err
			}
			mine := local.Clone().(*tree.Iblt)
			if err := mine.Subtract(p); err != nil {
				return err
			}
			_, _, err := mine.Decode()
			if errors.Is(err, tree.ErrDecodeNotPossible) {
				return nil // a regular outcome of set reconciliation, the handler falls back to range queries
			}
			return err
		}}
}

// ---- (2) presentation exchange --------------------------------------------------------------------------------

const walletLDVC = `{"@context":["https://www.w3.org/2018/credentials/v1","https://nuts.nl/credentials/v1","https://w3c-ccg.github.io/lds-jws2020/contexts/lds-jws2020-v1.json"],
"id":"did:web:issuer.example#4b2a1c","type":["VerifiableCredential","NutsOrganizationCredential"],"issuer":"did:web:issuer.example","issuanceDate":"2024-01-01T00:00:00Z",
"credentialSubject":{"id":"did:web:holder.example","organization":{"name":"care organisation","city":"IJbergen"}},
"proof":{"type":"JsonWebSignature2020","verificationMethod":"did:web:issuer.example#key-1","proofPurpose":"assertionMethod","created":"2024-01-01T00:00:00Z","jws":"eyJhbGciOiJFUzI1NiIsImI2NCI6ZmFsc2UsImNyaXQiOlsiYjY0Il19..c2ln"}}`

const walletLDVC2 = `{"@context":["https://www.w3.org/2018/credentials/v1"],
"id":"did:web:issuer.example#second","type":["VerifiableCredential","OtherCredential"],"issuer":"did:web:issuer.example","issuanceDate":"2024-01-01T00:00:00Z","expirationDate":"2034-01-01T00:00:00Z",
"credentialSubject":{"id":"did:web:holder.example","level":3,"active":true,"tags":["a","b"]},
"proof":{"type":"JsonWebSignature2020","verificationMethod":"did:web:issuer.example#key-1","proofPurpose":"assertionMethod","created":"2024-01-01T00:00:00Z","jws":"eyJhbGciOiJFUzI1NiJ9..c2ln"}}`

func jwtVCTree() string {
	return `{"h":{"alg":"ES256","typ":"JWT","kid":"did:web:issuer.example#key-1"},"p":{"iss":"did:web:issuer.example","sub":"did:web:holder.example","jti":"did:web:issuer.example#jwt1","nbf":1704067200,"exp":2019686400,
"vc":{"@context":["https://www.w3.org/2018/credentials/v1","https://nuts.nl/credentials/v1"],"type":["VerifiableCredential","NutsOrganizationCredential"],
"credentialSubject":{"id":"did:web:holder.example","organization":{"name":"care jwt","city":"IJbergen"}}}}}`
}

const pdBasic = `{"id":"pd-basic","name":"basic","purpose":"p","format":{"ldp_vc":{"proof_type":["JsonWebSignature2020"]},"jwt_vc":{"alg":["ES256"]},"ldp_vp":{"proof_type":["JsonWebSignature2020"]},"jwt_vp":{"alg":["ES256"]}},
"input_descriptors":[{"id":"org","name":"org","purpose":"p","constraints":{"fields":[
 {"path":["$.type"],"filter":{"type":"string","const":"NutsOrganizationCredential"}},
 {"id":"city","path":["$.credentialSubject.organization.city","$.credentialSubject[0].organization.city"],"filter":{"type":"string","const":"IJbergen"}},
 {"id":"name","path":["$.credentialSubject.organization.name","$.credentialSubject[0].organization.name"],"filter":{"type":"string","pattern":"^care (.*)$"}},
 {"id":"opt","optional":true,"path":["$.credentialSubject.nothing"],"filter":{"type":"string","enum":["a","b"]}}]}}]}`

const pdPick = `{"id":"pd-pick","submission_requirements":[{"name":"one org","rule":"pick","count":1,"from":"A"},{"name":"some","rule":"pick","min":0,"max":2,"from":"B"},{"name":"every","rule":"all","from":"A"}],
"input_descriptors":[
 {"id":"org","group":["A"],"constraints":{"fields":[{"path":["$.type"],"filter":{"type":"string","const":"NutsOrganizationCredential"}}]}},
 {"id":"other","group":["B"],"constraints":{"fields":[{"id":"lvl","path":["$.credentialSubject.level"],"filter":{"type":"number"}},{"path":["$.credentialSubject.active"],"filter":{"type":"boolean"}},{"path":["$.credentialSubject.tags"],"filter":{"type":"string","pattern":"a|b"}}]}},
 {"id":"none","group":["B"],"format":{"ldp_vc":{"proof_type":["JsonWebSignature2020"]}},"constraints":{"fields":[{"path":["$.id"],"filter":{"type":"string","const":"nope"}}]}}]}`

const pdNested = `{"id":"pd-nested","submission_requirements":[{"name":"nested","rule":"pick","min":1,"max":2,"from_nested":[{"rule":"all","from":"A"},{"rule":"pick","count":1,"from":"B"},{"rule":"pick","min":1,"max":1,"from_nested":[{"rule":"all","from":"B"}]}]}],
"input_descriptors":[
 {"id":"org","group":["A"],"constraints":{"fields":[{"path":["$.type"],"filter":{"type":"string","const":"NutsOrganizationCredential"}}]}},
 {"id":"other","group":["B"],"constraints":{"limit_disclosure":"preferred","fields":[{"path":["$.issuer"],"purpose":"x","name":"n","intent_to_retain":false,"filter":{"type":"string","pattern":"^did:web:(.+)$"}}]}}]}`

// schema-valid oddities written out explicitly (the sweep reaches them too by deleting single members)
const pdPickMinOnly = `{"id":"pd-min-only","submission_requirements":[{"name":"at least one","rule":"pick","min":1,"from":"A"}],
"input_descriptors":[{"id":"org","group":["A"],"constraints":{"fields":[{"path":["$.type"],"filter":{"type":"string","const":"NutsOrganizationCredential"}}]}}]}`

const pdPickBare = `{"id":"pd-pick-bare","submission_requirements":[{"rule":"pick","from":"A"}],
"input_descriptors":[{"id":"org","group":["A"],"constraints":{"fields":[{"path":["$.type"],"filter":{"type":"string","const":"NutsOrganizationCredential"}}]}}]}`

// pdArrayPattern: a pattern filter evaluated against an array-valued member none of whose elements match
const pdArrayPattern = `{"id":"pd-array-pattern","input_descriptors":[{"id":"t","constraints":{"fields":[{"path":["$.type"],"filter":{"type":"string","pattern":"^Absent(.*)Credential$"}}]}}]}`

// pdBacktrack: an ECMAScript pattern with nested quantifiers against a wallet value that does not match
const pdBacktrack = `{"id":"pd-backtrack","input_descriptors":[{"id":"t","constraints":{"fields":[{"path":["$.proof.jws"],"filter":{"type":"string","pattern":"^([A-Za-z0-9]+)*!$"}}]}}]}`

type peFixture struct {
	wallet []vc.VerifiableCredential
	holder did.DID
}

func newPEFixture() *peFixture {
	f := &peFixture{holder: did.MustParseDID("did:web:holder.example")}
	for _, raw := range []string{walletLDVC, walletLDVC2} {
		c, err := vc.ParseVerifiableCredential(raw)
		if err != nil {
			panic(err)
		}
		f.wallet = append(f.wallet, *c)
	}
	jwtVC, _ := atk.jwsFromTree(jmut.MustParse(jwtVCTree()))
	c, err := vc.ParseVerifiableCredential(string(jwtVC))
	if err != nil {
		panic(err)
	}
	f.wallet = append(f.wallet, *c)
	return f
}

// usePD drives everything the node does with a presentation definition it holds: matching a wallet, building a submission,
// resolving constraint fields, deciding whether credentials are required.
func (f *peFixture) usePD(pd *pe.PresentationDefinition) error {
	_ = pd.CredentialsRequired()
	vcs, mappings, matchErr := pd.Match(f.wallet)
	b := pd.PresentationSubmissionBuilder()
	b.AddWallet(f.holder, f.wallet)
	_, _, buildErr := b.Build("ldp_vp")
	cm := map[string]vc.VerifiableCredential{}
	for i, m := range mappings {
		if i < len(vcs) {
			cm[m.Id] = vcs[i]
		}
	}
	for _, d := range pd.InputDescriptors {
		if d != nil {
			if _, ok := cm[d.Id]; !ok {
				cm[d.Id] = f.wallet[0]
			}
		}
	}
	_, resolveErr := pd.ResolveConstraintsFields(cm)
	return errors.Join(matchErr, buildErr, resolveErr)
}

func peEntries(h *harness) []*entry {
	f := newPEFixture()
	pdSeeds := seedsOf("pd-basic", pdBasic, "pd-pick", pdPick, "pd-nested", pdNested)
	oddities := seedsOf("pd-pick-min-only", pdPickMinOnly, "pd-pick-bare", pdPickBare, "pd-array-pattern", pdArrayPattern, "pd-backtrack", pdBacktrack)
	// extreme but schema-valid numbers ("type":"integer","minimum":0) in the submission requirements of a definition the wallet can fulfil (the selection is reached),
	// and definitions that ask for nothing
	for _, n := range []string{"1000000000000000000", "9223372036854775807", "4294967296", "2147483648", "0"} {
		for _, member := range []string{"max", "count", "min"} {
			req := fmt.Sprintf(`{"rule":"pick","min":1,%q:%s,"from":"A"}`, member, n)
			if member != "max" {
				req = fmt.Sprintf(`{"rule":"pick",%q:%s,"from":"A"}`, member, n)
			}
			oddities = append(oddities, seedsOf("pd-pick-"+member+"-"+n, `{"id":"pd-extreme","submission_requirements":[`+req+`,{"rule":"pick","min":0,"max":`+n+`,"from_nested":[{"rule":"all","from":"B"},{"rule":"pick","min":0,"max":`+n+`,"from":"B"}]}],
"input_descriptors":[{"id":"org","group":["A"],"constraints":{"fields":[{"path":["$.type"],"filter":{"type":"string","const":"NutsOrganizationCredential"}}]}},
 {"id":"any","group":["A","B"],"constraints":{"fields":[{"path":["$.issuer"],"filter":{"type":"string","pattern":"^did:web:(.+)$"}}]}}]}`)...)
		}
	}
	oddities = append(oddities, seedsOf("pd-no-descriptors", `{"id":"pd-none","input_descriptors":[]}`,
		"pd-no-descriptors-optional-requirement", `{"id":"pd-none-2","submission_requirements":[{"rule":"pick","min":0,"from":"A"}],"input_descriptors":[]}`)...)
	// the oddities are schema-valid inputs, not known-good instances: emitted as mutants of class "oddity"
	genPD := func(h *harness, e *entry, emit func(input)) {
		for _, o := range oddities {
			emit(input{data: o.tree.Bytes(), ops: []string{"oddity:" + o.name + "@"}, seed: o.name})
		}
		genJSON(pdSeeds, false, plainWrap)(h, e, emit)
	}
	parsed := &entry{name: "pe.Definition.Parse-Match", gen: genPD, isolate: true,
		call: func(in input) error {
			pd, err := pe.ParsePresentationDefinition(in.data)
			if err != nil {
				return err
			}
			return f.usePD(pd)
		}}
	// the wallet side of OpenID4VP / the s2s flow fetches the verifier's definition with a plain json.Unmarshal (auth/client/iam: PresentationDefinition)
	remote := &entry{name: "pe.Definition.Unmarshal-Match", gen: genPD, isolate: true,
		call: func(in input) error {
			var pd pe.PresentationDefinition
			if err := json.Unmarshal(in.data, &pd); err != nil {
				return err
			}
			return f.usePD(&pd)
		}}

	// hostile credentials against valid definitions (credentials arrive in presentations from remote wallets)
	var goodPDs []*pe.PresentationDefinition
	for _, s := range pdSeeds {
		pd, err := pe.ParsePresentationDefinition(s.tree.Bytes())
		if err != nil {
			h.r.Fatalf("seed definition %s invalid: %v", s.name, err)
		}
		goodPDs = append(goodPDs, pd)
	}
	vcSeeds := seedsOf("ld-vc", walletLDVC, "ld-vc-2", walletLDVC2)
	hostileVC := &entry{name: "pe.Match.hostileVC", gen: genJSON(vcSeeds, false, plainWrap),
		call: func(in input) error {
			c, err := vc.ParseVerifiableCredential(string(in.data))
			if err != nil {
				return err
			}
			var errs []error
			for _, pd := range goodPDs {
				_, _, err := pd.Match([]vc.VerifiableCredential{*c, f.wallet[1]})
				if err != nil && !errors.Is(err, pe.ErrNoCredentials) {
					errs = append(errs, err)
				}
				ids := map[string]vc.VerifiableCredential{}
				for _, d := range pd.InputDescriptors {
					ids[d.Id] = *c
				}
				_, _ = pd.ResolveConstraintsFields(ids)
			}
			return errors.Join(errs...)
		}}
	jwtVCSeeds := seedsOf("jwt-vc", jwtVCTree())
	hostileJWTVC := &entry{name: "pe.Match.hostileJWTVC", gen: genJSON(jwtVCSeeds, false, atk.jwsWrap),
		call: func(in input) error {
			c, err := vc.ParseVerifiableCredential(string(in.data))
			if err != nil {
				return err
			}
			var errs []error
			for _, pd := range goodPDs {
				_, _, err := pd.Match([]vc.VerifiableCredential{*c})
				if err != nil && !errors.Is(err, pe.ErrNoCredentials) {
					errs = append(errs, err)
				}
			}
			return errors.Join(errs...)
		}}

	// submissions + envelopes: what /response and the s2s token endpoint receive
	vpLD := `{"@context":["https://www.w3.org/2018/credentials/v1"],"id":"did:web:holder.example#vp1","type":"VerifiablePresentation","holder":"did:web:holder.example",
"verifiableCredential":[` + walletLDVC + `,` + walletLDVC2 + `],
"proof":{"type":"JsonWebSignature2020","verificationMethod":"did:web:holder.example#key-1","proofPurpose":"authentication","created":"2024-01-01T00:00:00Z","challenge":"n","domain":"d","jws":"eyJhbGciOiJFUzI1NiJ9..c2ln"}}`
	vpLDSingle := `{"@context":["https://www.w3.org/2018/credentials/v1"],"type":"VerifiablePresentation","verifiableCredential":` + walletLDVC + `,
"proof":{"type":"JsonWebSignature2020","verificationMethod":"did:web:holder.example#key-1","proofPurpose":"authentication","created":"2024-01-01T00:00:00Z","jws":"eyJhbGciOiJFUzI1NiJ9..c2ln"}}`
	jwtVC, _ := atk.jwsFromTree(jmut.MustParse(jwtVCTree()))
	vpJWTTree := `{"h":{"alg":"ES256","typ":"JWT","kid":"did:web:holder.example#key-1"},"p":{"iss":"did:web:holder.example","sub":"did:web:holder.example","jti":"did:web:holder.example#vp","nbf":1704067200,"exp":2019686400,"nonce":"n","aud":"did:web:verifier.example",
"vp":{"@context":["https://www.w3.org/2018/credentials/v1"],"type":"VerifiablePresentation","verifiableCredential":[` + mustJSON(string(jwtVC)) + `,` + walletLDVC + `]}}}`
	vpJWT, _ := atk.jwsFromTree(jmut.MustParse(vpJWTTree))

	pdForSubmission, _ := pe.ParsePresentationDefinition([]byte(`{"id":"pd-sub","input_descriptors":[
 {"id":"org","constraints":{"fields":[{"path":["$.type"],"filter":{"type":"string","const":"NutsOrganizationCredential"}}]}},
 {"id":"other","constraints":{"fields":[{"path":["$.type"],"filter":{"type":"string","const":"OtherCredential"}}]}}]}`))
	pdSingle, _ := pe.ParsePresentationDefinition([]byte(`{"id":"pd-single","input_descriptors":[{"id":"org","constraints":{"fields":[{"path":["$.type"],"filter":{"type":"string","const":"NutsOrganizationCredential"}}]}}]}`))

	envLD, err := pe.ParseEnvelope([]byte(vpLD))
	if err != nil {
		h.r.Fatalf("seed envelope: %v", err)
	}
	envArr, err := pe.ParseEnvelope([]byte(`[` + vpLDSingle + `,` + mustJSON(string(vpJWT)) + `]`))
	if err != nil {
		h.r.Fatalf("seed envelope array: %v", err)
	}
	// what a remote party can always send: an envelope without presentations, also to a verifier whose definition asks for nothing
	pdNone, _ := pe.ParsePresentationDefinition([]byte(`{"id":"pd-none","input_descriptors":[]}`))
	pdOptional, _ := pe.ParsePresentationDefinition([]byte(`{"id":"pd-optional","submission_requirements":[{"rule":"pick","min":0,"from":"A"}],"input_descriptors":[]}`))
	envEmpty, err := pe.ParseEnvelope([]byte(`[]`))
	if err != nil || pdNone == nil || pdOptional == nil {
		h.r.Fatalf("seed envelope without presentations / definitions without descriptors: %v", err)
	}
	type envPD struct {
		env *pe.Envelope
		pd  *pe.PresentationDefinition
	}
	emptyCombos := []envPD{{envEmpty, pdNone}, {envEmpty, pdOptional}, {envEmpty, pdSingle}, {envLD, pdNone}}
	emptySub, _ := pe.ParsePresentationSubmission([]byte(`{"id":"s0","definition_id":"pd-none","descriptor_map":[]}`))
	subSeeds := seedsOf(
		"submission-flat", `{"id":"s1","definition_id":"pd-sub","descriptor_map":[{"id":"org","format":"ldp_vc","path":"$.verifiableCredential[0]"},{"id":"other","format":"ldp_vc","path":"$.verifiableCredential[1]"}]}`,
		"submission-nested", `{"id":"s2","definition_id":"pd-single","descriptor_map":[{"id":"org","format":"ldp_vp","path":"$[0]","path_nested":{"id":"org","format":"ldp_vc","path":"$.verifiableCredential"}}]}`,
	)
	submission := &entry{name: "pe.Submission.Parse-Validate", gen: genJSON(subSeeds, false, plainWrap),
		call: func(in input) error {
			s, err := pe.ParsePresentationSubmission(in.data)
			if err != nil {
				return err
			}
			var errs []error
			ok := false
			for _, env := range []*pe.Envelope{envLD, envArr} {
				for _, pd := range []*pe.PresentationDefinition{pdForSubmission, pdSingle} {
					if _, err := s.Resolve(*env); err != nil {
						errs = append(errs, err)
					}
					if _, err := s.Validate(*env, *pd); err != nil {
						errs = append(errs, err)
					} else {
						ok = true
					}
				}
			}
			for _, c := range emptyCombos {
				_, _ = s.Resolve(*c.env)
				_, _ = s.Validate(*c.env, *c.pd)
			}
			if ok {
				return nil
			}
			return errors.Join(errs...)
		}}
	// the token endpoint unmarshals the submission with plain json.Unmarshal (no schema)
	submissionRaw := &entry{name: "pe.Submission.Unmarshal-Validate", gen: genJSON(subSeeds, false, plainWrap),
		call: func(in input) error {
			var s pe.PresentationSubmission
			if err := json.Unmarshal(in.data, &s); err != nil {
				return err
			}
			var errs []error
			ok := false
			for _, env := range []*pe.Envelope{envLD, envArr} {
				for _, pd := range []*pe.PresentationDefinition{pdForSubmission, pdSingle} {
					if _, err := s.Validate(*env, *pd); err != nil {
						errs = append(errs, err)
					} else {
						ok = true
					}
				}
			}
			for _, c := range emptyCombos {
				_, _ = s.Validate(*c.env, *c.pd)
			}
			if ok {
				return nil
			}
			return errors.Join(errs...)
		}}

	goodSubFlat, _ := pe.ParsePresentationSubmission(subSeeds[0].tree.Bytes())
	goodSubNested, _ := pe.ParsePresentationSubmission(subSeeds[1].tree.Bytes())
	useEnvelope := func(env *pe.Envelope) error {
		if _, err := json.Marshal(env); err != nil {
			return err
		}
		_, e1 := goodSubFlat.Validate(*env, *pdForSubmission)
		_, e2 := goodSubNested.Validate(*env, *pdSingle)
		// the same envelope sent to verifiers whose definition asks for nothing, with a submission that maps nothing (does not count as acceptance of the envelope)
		_, _ = emptySub.Validate(*env, *pdNone)
		_, _ = emptySub.Validate(*env, *pdOptional)
		if e1 == nil || e2 == nil {
			return nil
		}
		return errors.Join(e1, e2)
	}
	envSeeds := seedsOf("envelope-ld-vp", vpLD, "envelope-array", `[`+vpLDSingle+`,`+mustJSON(string(vpJWT))+`]`)
	envelope := &entry{name: "pe.Envelope.Parse-Validate", gen: genJSON(envSeeds, false, plainWrap),
		call: func(in input) error {
			env, err := pe.ParseEnvelope(in.data)
			if err != nil {
				return err
			}
			return useEnvelope(env)
		}}
	envJWTSeeds := seedsOf("envelope-jwt-vp", vpJWTTree)
	goodSubJWT, _ := pe.ParsePresentationSubmission([]byte(`{"id":"s4","definition_id":"pd-single","descriptor_map":[{"id":"org","format":"jwt_vc","path":"$.verifiableCredential[0]"}]}`))
	envelopeJWT := &entry{name: "pe.Envelope.JWT-Validate", gen: genJSON(envJWTSeeds, false, atk.jwsWrap),
		call: func(in input) error {
			var env pe.Envelope
			if err := json.Unmarshal([]byte(mustJSON(string(in.data))), &env); err != nil {
				return err
			}
			_, err := goodSubJWT.Validate(env, *pdSingle)
			return err
		}}
	return []*entry{parsed, remote, hostileVC, hostileJWTVC, submission, submissionRaw, envelope, envelopeJWT}
}
