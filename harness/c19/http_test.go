package c19

import (
	"bytes"
	"encoding/json"
	"fmt"
	"io"
	"net/http"
	"net/http/httptrace"
	"net/url"
	"os"
	"path/filepath"
	"strings"
	"sync"
	"sync/atomic"
	"time"

	"verif/lib/jmut"
)

// httpPanic is returned by an HTTP entry's call when the server log shows that the handler panicked
// (net/http recovers per connection, logs "http: panic serving" and drops the connection).
type httpPanic struct {
	report string
}

func (p httpPanic) Error() string {
	return "handler panicked: " + firstLineWith(p.report, "panic serving")
}

var httpClient = &http.Client{Timeout: 60 * time.Second, CheckRedirect: func(*http.Request, []*http.Request) error { return http.ErrUseLastResponse }}

type httpResult struct {
	status int
	header http.Header
	body   []byte
}

// do sends one request to the node and classifies the outcome: 2xx/3xx = accepted, 4xx/5xx = rejected (error), aborted connection + panic report = httpPanic.
func (f *nodeFixture) do(req *http.Request) (httpResult, error) {
	// the server reports a handler panic together with the client address of the connection: remember which connection carried this request
	// (net/http retries an idempotent request on a fresh connection when the first one is closed without a response: all of them count)
	var mu sync.Mutex
	var locals []string
	req = req.WithContext(httptrace.WithClientTrace(req.Context(), &httptrace.ClientTrace{GotConn: func(info httptrace.GotConnInfo) {
		mu.Lock()
		locals = append(locals, info.Conn.LocalAddr().String())
		mu.Unlock()
	}}))
	resp, err := httpClient.Do(req)
	var res httpResult
	if err == nil {
		res.status, res.header = resp.StatusCode, resp.Header
		res.body, _ = io.ReadAll(io.LimitReader(resp.Body, 4<<20))
		resp.Body.Close()
	}
	mu.Lock()
	addrs := append([]string{}, locals...)
	mu.Unlock()
	// the panic report travels through a pipe: give it a moment when the connection was aborted
	// every connection that was dropped without a response should have a report: all of them when the request failed, all but the last when a retry succeeded
	need := len(addrs)
	if err == nil {
		need--
	}
	deadline := time.Now().Add(10 * time.Second)
	var reports []string
	for {
		for _, a := range addrs {
			if report := f.log.takeFor(a); report != "" {
				reports = append(reports, report)
			}
		}
		if len(reports) >= need || time.Now().After(deadline) {
			break
		}
		time.Sleep(20 * time.Millisecond)
	}
	if len(reports) > 0 {
		return res, httpPanic{report: strings.Join(reports, "\n----\n")}
	}
	if err != nil {
		return res, fmt.Errorf("transport: %w", err)
	}
	if res.status >= 400 {
		return res, fmt.Errorf("HTTP %d: %s", res.status, trunc(res.body, 200))
	}
	return res, nil
}

func policyDir(h *harness) string {
	dir, err := os.MkdirTemp("", "c19-policy-")
	if err != nil {
		h.r.Fatalf("tempdir: %v", err)
	}
	h.t.Cleanup(func() { os.RemoveAll(dir) })
	pd := `{"c19":{"organization":{"id":"c19-policy-pd","format":{"jwt_vc":{"alg":["ES256"]},"jwt_vp":{"alg":["ES256"]},"ldp_vc":{"proof_type":["JsonWebSignature2020"]},"ldp_vp":{"proof_type":["JsonWebSignature2020"]}},
"input_descriptors":[{"id":"org","constraints":{"fields":[{"path":["$.type"],"filter":{"type":"string","const":"NutsOrganizationCredential"}},
{"id":"org_name","path":["$.credentialSubject.organization.name","$.credentialSubject[0].organization.name"],"filter":{"type":"string"}}]}}]}}}`
	if err := os.WriteFile(filepath.Join(dir, "c19.json"), []byte(pd), 0o644); err != nil {
		h.r.Fatalf("write policy: %v", err)
	}
	writeGridPolicies(h, dir)
	return dir
}

const (
	nbfPlaceholder   = "1111111111"
	expPlaceholder   = "2222222222"
	noncePlaceholder = "NONCE-PLACEHOLDER"
	statePlaceholder = "STATE-PLACEHOLDER"
	jtiPlaceholder   = "JTI-PLACEHOLDER"
)

var httpSeq atomic.Int64

// freshWrap signs at the moment of use and replaces the time/nonce placeholders that the mutation left intact.
func freshWrap(validFor time.Duration, extra func(payload []byte) []byte) func(s jsonSeed, m jmut.Mutant) (input, bool) {
	return func(s jsonSeed, m jmut.Mutant) (input, bool) {
		t := m.Tree
		if t == nil {
			t = s.tree
		}
		h, p := t.Get("h"), t.Get("p")
		if t.K != jmut.Obj || h == nil || p == nil {
			return input{data: m.Data, ops: m.Ops}, true
		}
		payload := p.Bytes()
		if p.K == jmut.Str {
			payload = []byte(p.S)
		}
		now := time.Now()
		payload = bytes.ReplaceAll(payload, []byte(nbfPlaceholder), []byte(fmt.Sprint(now.Unix()-1)))
		payload = bytes.ReplaceAll(payload, []byte(expPlaceholder), []byte(fmt.Sprint(now.Add(validFor).Unix()-1)))
		n := httpSeq.Add(1)
		payload = bytes.ReplaceAll(payload, []byte(noncePlaceholder), []byte(fmt.Sprintf("n-%d-%d", now.UnixNano(), n)))
		payload = bytes.ReplaceAll(payload, []byte(jtiPlaceholder), []byte(fmt.Sprintf("j-%d-%d", now.UnixNano(), n)))
		if extra != nil {
			payload = extra(payload)
		}
		data := atk.signCompact(h.Bytes(), payload)
		if m.Tree == nil {
			data = damage(data, m)
		}
		return input{data: data, ops: m.Ops}, true
	}
}

func form(values map[string]string) *strings.Reader {
	v := url.Values{}
	for k, x := range values {
		v.Set(k, x)
	}
	return strings.NewReader(v.Encode())
}

func httpNode(h *harness) {
	f := theNode(h)
	d := atkDIDJWK()
	base := f.n.Public + "/oauth2/" + f.subject
	audience := base // the authorization server URL of the subject
	orgVC := func() string { return compact(atkVCTree("NutsOrganizationCredential", "", "")) }
	var httpEntries []*entry
	run := func(e *entry) { httpEntries = append(httpEntries, e) }
	post := func(path string, ct string, body io.Reader, hdr map[string]string) (httpResult, error) {
		req, err := http.NewRequest("POST", path, body)
		if err != nil {
			return httpResult{}, fmt.Errorf("client cannot build the request: %w", err)
		}
		req.Header.Set("Content-Type", ct)
		for k, v := range hdr {
			req.Header.Set(k, v)
		}
		return f.do(req)
	}

	// ---- /token, vp_token-bearer grant (RFC021): hostile assertion, submission, form, DPoP header ------------------------------------
	vpTree := func(aud string, vcs ...string) string {
		return fmt.Sprintf(`{"h":{"alg":"ES256","typ":"JWT","kid":"%[1]s#0"},"p":{"iss":%[1]q,"sub":%[1]q,"jti":"%[1]s#%[4]s","aud":%[3]q,"nonce":%[5]q,"nbf":%[6]s,"iat":%[6]s,"exp":%[7]s,
"vp":{"@context":["https://www.w3.org/2018/credentials/v1"],"type":"VerifiablePresentation","holder":%[1]q,"verifiableCredential":%[2]s}}}`, d, mustJSON(vcs), aud, jtiPlaceholder, noncePlaceholder, nbfPlaceholder, expPlaceholder)
	}
	submission := `{"id":"s","definition_id":"c19-policy-pd","descriptor_map":[{"id":"org","format":"jwt_vc","path":"$.verifiableCredential[0]"}]}`
	tokenReq := func(assertion, sub string, hdr map[string]string, extraForm map[string]string) error {
		vals := map[string]string{"grant_type": "vp_token-bearer", "assertion": assertion, "presentation_submission": sub, "scope": "c19", "client_id": "https://attacker.example/oauth2/atk"}
		for k, v := range extraForm {
			if v == "\x00delete" {
				delete(vals, k)
			} else {
				vals[k] = v
			}
		}
		_, err := post(base+"/token", "application/x-www-form-urlencoded", form(vals), hdr)
		return err
	}
	s2sSeeds := seedsOf("s2s-jwt-vp", vpTree(audience, orgVC()))
	run(&entry{name: "http.token.vp_bearer.assertion", gen: genJSON(s2sSeeds, true, freshWrap(4*time.Second, nil)),
		call: func(in input) error { return tokenReq(string(in.data), submission, nil, nil) }})
	validAssertion := func() string {
		in, _ := freshWrap(4*time.Second, nil)(s2sSeeds[0], jmut.Mutant{Tree: s2sSeeds[0].tree})
		return string(in.data)
	}
	run(&entry{name: "http.token.vp_bearer.submission", gen: genJSON(seedsOf("submission", submission), true, plainWrap),
		call: func(in input) error { return tokenReq(validAssertion(), string(in.data), nil, nil) }})
	dpopSeed := seedsOf("dpop", fmt.Sprintf(`{"h":{"typ":"dpop+jwt","alg":"ES256","jwk":%s},"p":{"htm":"POST","htu":%q,"jti":%q,"iat":%s}}`, atk.pubJWK, base+"/token", jtiPlaceholder, nbfPlaceholder))
	run(&entry{name: "http.token.dpop-header", gen: genJSON(dpopSeed, true, freshWrap(time.Minute, nil)),
		call: func(in input) error {
			return tokenReq(validAssertion(), submission, map[string]string{"DPoP": string(in.data)}, nil)
		}})
	run(&entry{name: "http.token.form",
		gen: func(h *harness, e *entry, emit func(input)) {
			emit(input{data: []byte("valid"), valid: true, seed: "form", aux: map[string]string{}})
			fields := []string{"grant_type", "assertion", "presentation_submission", "scope", "client_id", "code", "code_verifier", "redirect_uri"}
			values := []string{"\x00delete", "", " ", "null", "[]", "{}", "\x00", strings.Repeat("A", 200000), "authorization_code", "urn:ietf:params:oauth:grant-type:pre-authorized_code", "vp_token-bearer", "%zz", "c19 other", "https://attacker.example/oauth2/atk"}
			for _, fld := range fields {
				for vi, v := range values {
					emit(input{data: []byte(fld + "=" + trunc([]byte(v), 40)), ops: []string{fmt.Sprintf("form:value%d@/%s", vi, fld)}, seed: "form", aux: map[string]string{fld: v}})
				}
			}
		},
		call: func(in input) error { return tokenReq(validAssertion(), submission, nil, in.aux.(map[string]string)) }})
	// raw bodies / content types on the token endpoint
	run(&entry{name: "http.token.body",
		gen: func(h *harness, e *entry, emit func(input)) {
			good := url.Values{"grant_type": {"vp_token-bearer"}, "scope": {"c19"}}.Encode()
			bodies := map[string]string{"empty": "", "json": `{"grant_type":"vp_token-bearer"}`, "garbage": "\x00\xff&&==%%", "dup-params": good + "&" + good, "semicolons": "a=1;b=2", "huge-key": strings.Repeat("k", 100000) + "=v", "many-params": strings.Repeat("a=b&", 20000), "bad-escape": "grant_type=%zz"}
			cts := []string{"application/x-www-form-urlencoded", "application/json", "", "multipart/form-data; boundary=x", "text/plain", "application/x-www-form-urlencoded; charset=\"", ";"}
			emit(input{data: []byte(good), valid: false, ops: []string{"body:minimal@"}, aux: [2]string{good, cts[0]}})
			for bn, b := range bodies {
				for ci, ct := range cts {
					emit(input{data: []byte(trunc([]byte(b), 100)), ops: []string{"body:" + bn + "@", fmt.Sprintf("content-type%d@", ci)}, aux: [2]string{b, ct}})
				}
			}
		},
		call: func(in input) error {
			a := in.aux.([2]string)
			_, err := post(base+"/token", a[1], strings.NewReader(a[0]), nil)
			return err
		}})

	// ---- discovery registration ----------------------------------------------------------------------------------------------------
	discURL := f.n.Public + "/discovery/c19-service"
	discSeeds := seedsOf("registration-jwt-vp", vpTree("c19-service", orgVC()))
	run(&entry{name: "http.discovery.register", gen: genJSON(discSeeds, true, freshWrap(time.Hour, nil)),
		call: func(in input) error {
			_, err := post(discURL, "application/json", strings.NewReader(mustJSON(string(in.data))), nil)
			return err
		},
		digest: func() string {
			req, _ := http.NewRequest("GET", discURL+"?timestamp=0", nil)
			res, err := f.do(req)
			if err != nil {
				return "error: " + err.Error()
			}
			var out struct {
				Entries   map[string]json.RawMessage `json:"entries"`
				Timestamp int                        `json:"timestamp"`
			}
			_ = json.Unmarshal(res.body, &out)
			return fmt.Sprintf("entries=%d timestamp=%d", len(out.Entries), out.Timestamp)
		}})
	run(&entry{name: "http.discovery.register.body",
		gen: func(h *harness, e *entry, emit func(input)) {
			bodies := []string{"", "null", "{}", "[]", `""`, `"a.b.c"`, `{"@context":[],"type":"VerifiablePresentation"}`, `{"verifiableCredential":[null]}`, `{"proof":[null]}`, `{"proof":true}`, `{"type":null,"proof":{}}`, "\"" + strings.Repeat("A", 1<<20) + "\"", strings.Repeat("[", 20000), `{"holder":1}`, `{"id":[]}`}
			for i, b := range bodies {
				for _, svc := range []string{"c19-service", "unknown", "%zz", strings.Repeat("s", 5000)} {
					emit(input{data: []byte(trunc([]byte(b), 100)), ops: []string{fmt.Sprintf("body%d@", i), "service:" + trunc([]byte(svc), 12) + "@"}, aux: [2]string{b, svc}})
				}
			}
		},
		call: func(in input) error {
			a := in.aux.([2]string)
			_, err := post(f.n.Public+"/discovery/"+a[1], "application/json", strings.NewReader(a[0]), nil)
			return err
		}})

	// ---- /authorize (JAR by value, RFC9101), the client's OpenID configuration, request objects, /response ---------------------------
	clientID := "https://attacker.example/oauth2/atk"
	wellKnown := "https://attacker.example/.well-known/openid-configuration/oauth2/atk"
	// the entry that serves hostile OpenID configurations has a client id (and so a configuration URL) of its own
	hostileClientID := "https://attacker.example/oauth2/atk-conf"
	hostileWellKnown := "https://attacker.example/.well-known/openid-configuration/oauth2/atk-conf"
	var jwkWithKid map[string]any
	_ = json.Unmarshal([]byte(atk.pubJWK), &jwkWithKid)
	jwkWithKid["kid"] = d + "#0"
	confTree := fmt.Sprintf(`{"h":{"alg":"ES256","typ":"entity-statement+jwt","kid":"%[1]s#0"},"p":{"iss":%[2]q,"sub":%[2]q,"iat":%[3]s,"exp":%[4]s,"jwks":{"keys":[%[5]s]},
"metadata":{"openid_provider":{"issuer":%[2]q,"authorization_endpoint":"https://attacker.example/oauth2/atk/authorize","token_endpoint":"https://attacker.example/oauth2/atk/token",
"response_types_supported":["code","vp_token"],"response_modes_supported":["query","direct_post"],"grant_types_supported":["authorization_code","vp_token-bearer"],
"vp_formats":{"jwt_vp_json":{"alg_values_supported":["ES256"]},"jwt_vc_json":{"alg_values_supported":["ES256"]}},"vp_formats_supported":{"jwt_vp_json":{"alg_values_supported":["ES256"]}},
"client_id_schemes_supported":["entity_id"],"require_signed_request_object":true,"dpop_signing_alg_values_supported":["ES256"]}}}}`, d, clientID, nbfPlaceholder, expPlaceholder, mustJSON(jwkWithKid))
	confSeeds := seedsOf("openid-configuration", confTree)
	validConf := func() []byte {
		in, _ := freshWrap(2*time.Hour, nil)(confSeeds[0], jmut.Mutant{Tree: confSeeds[0].tree})
		return in.data
	}
	// the well-behaved client's configuration is served for the whole run; hostile configurations are served under the other client id
	f.rt.set(wellKnown, 200, "application/entity-statement+jwt", validConf())
	serveConf := func([]byte) {}
	serveHostileConf := func(data []byte) {
		f.rt.set(hostileWellKnown, 200, "application/entity-statement+jwt", bytes.ReplaceAll(data, []byte(clientID+`"`), []byte(hostileClientID+`"`)))
	}
	jarTree := fmt.Sprintf(`{"h":{"alg":"ES256","typ":"oauth-authz-req+jwt","kid":"%[1]s#0"},"p":{"iss":%[2]q,"client_id":%[2]q,"aud":%[3]q,"jti":%[4]q,"iat":%[5]s,"nbf":%[5]s,"exp":%[6]s,
"response_type":"code","redirect_uri":"https://attacker.example/oauth2/atk/callback","scope":"c19","state":"client-state","code_challenge":"E9Melhoa2OwvFrEMTJguCHaoeK1t8URWbuGJSstw-cM","code_challenge_method":"S256","nonce":"n"}}`,
		d, clientID, audience, jtiPlaceholder, nbfPlaceholder, expPlaceholder)
	jarSeeds := seedsOf("jar-code-flow", jarTree)
	authorizeAs := func(client, jar string, extra url.Values) (httpResult, error) {
		q := url.Values{"client_id": {client}, "request": {jar}}
		for k, v := range extra {
			q[k] = v
		}
		req, err := http.NewRequest("GET", base+"/authorize?"+q.Encode(), nil)
		if err != nil {
			return httpResult{}, fmt.Errorf("client cannot build the request: %w", err)
		}
		return f.do(req)
	}
	authorize := func(jar string, extra url.Values) (httpResult, error) { return authorizeAs(clientID, jar, extra) }
	run(&entry{name: "http.authorize.request-object", gen: genJSON(jarSeeds, true, freshWrap(time.Minute, nil)),
		call: func(in input) error {
			serveConf(validConf())
			_, err := authorize(string(in.data), nil)
			return err
		}})
	validJAR := func() string {
		in, _ := freshWrap(time.Minute, nil)(jarSeeds[0], jmut.Mutant{Tree: jarSeeds[0].tree})
		return string(in.data)
	}
	hostileJARSeeds := seedsOf("jar-code-flow", strings.ReplaceAll(jarTree, clientID+`"`, hostileClientID+`"`))
	// hostile configurations are signed after the client id was substituted: wrap, then re-sign is not possible from outside, so substitute in the tree instead
	hostileConfSeeds := seedsOf("openid-configuration", strings.ReplaceAll(confTree, clientID+`"`, hostileClientID+`"`))
	run(&entry{name: "http.authorize.openid-configuration", gen: genJSON(hostileConfSeeds, true, freshWrap(time.Hour, nil)),
		call: func(in input) error {
			f.rt.set(hostileWellKnown, 200, "application/entity-statement+jwt", in.data)
			jar, _ := freshWrap(time.Minute, nil)(hostileJARSeeds[0], jmut.Mutant{Tree: hostileJARSeeds[0].tree})
			_, err := authorizeAs(hostileClientID, string(jar.data), nil)
			return err
		}})
	_ = serveHostileConf
	run(&entry{name: "http.authorize.query",
		gen: func(h *harness, e *entry, emit func(input)) {
			emit(input{data: []byte("valid"), valid: true, seed: "query", aux: url.Values{}})
			keys := []string{"client_id", "request", "request_uri", "request_uri_method", "response_type", "scope", "state", "redirect_uri", "client_metadata", "presentation_definition", "nonce"}
			vals := []string{"", "null", "{}", "[]", "%zz", "https://attacker.example/x", "http://[::1", "get", "post", "GET", "a.b.c", "e30.e30.", "did:web:x", strings.Repeat("A", 60000), "openid4vp://authorize", "\x00"}
			for _, k := range keys {
				for vi, v := range vals {
					emit(input{data: []byte(k + "=" + trunc([]byte(v), 40)), ops: []string{fmt.Sprintf("query:value%d@/%s", vi, k)}, seed: "query", aux: url.Values{k: {v}}})
				}
				emit(input{data: []byte(k + " twice"), ops: []string{"query:duplicated@/" + k}, seed: "query", aux: url.Values{k: {"a", "b"}}})
			}
		},
		call: func(in input) error {
			serveConf(validConf())
			_, err := authorize(validJAR(), in.aux.(url.Values))
			return err
		}})

	// a complete hostile wallet: start the code flow, fetch the node's request object, answer it on /response
	startFlow := func() (requestURI, state, nonce string, err error) {
		serveConf(validConf())
		res, err := authorize(validJAR(), nil)
		if err != nil {
			return "", "", "", err
		}
		loc, err := url.Parse(res.header.Get("Location"))
		if err != nil || loc.Query().Get("request_uri") == "" {
			return "", "", "", fmt.Errorf("no request_uri in redirect %q", res.header.Get("Location"))
		}
		requestURI = loc.Query().Get("request_uri")
		req, err := http.NewRequest("GET", requestURI, nil)
		if err != nil {
			return requestURI, "", "", err
		}
		ro, err := f.do(req)
		if err != nil {
			return requestURI, "", "", err
		}
		parts := strings.Split(string(ro.body), ".")
		if len(parts) != 3 {
			return requestURI, "", "", fmt.Errorf("request object is not a JWT: %s", trunc(ro.body, 100))
		}
		var claims map[string]any
		_ = json.Unmarshal(mustDecode([]byte(parts[1])), &claims)
		state, _ = claims["state"].(string)
		nonce, _ = claims["nonce"].(string)
		if state == "" || nonce == "" {
			return requestURI, "", "", fmt.Errorf("request object without state/nonce: %v", claims)
		}
		return requestURI, state, nonce, nil
	}
	if _, _, _, err := startFlow(); err != nil {
		h.r.Fatalf("cannot drive the authorization code flow up to the request object: %v", err)
	}
	respSubmission := `{"id":"s","definition_id":"c19-policy-pd","descriptor_map":[{"id":"org","format":"jwt_vc","path":"$.verifiableCredential[0]"}]}`
	respond := func(vpToken, sub, state string, extra map[string]string) error {
		vals := map[string]string{"vp_token": vpToken, "presentation_submission": sub, "state": state}
		for k, v := range extra {
			if v == "\x00delete" {
				delete(vals, k)
			} else {
				vals[k] = v
			}
		}
		_, err := post(base+"/response", "application/x-www-form-urlencoded", form(vals), nil)
		return err
	}
	respSeeds := seedsOf("response-jwt-vp", vpTree(audience, orgVC()))
	run(&entry{name: "http.response.vp_token", gen: genJSON(respSeeds, true, func(s jsonSeed, m jmut.Mutant) (input, bool) { return input{data: m.Data, ops: m.Ops, aux: m}, true }),
		call: func(in input) error {
			_, state, nonce, err := startFlow()
			if err != nil {
				return fmt.Errorf("flow: %w", err)
			}
			m := in.aux.(jmut.Mutant)
			signed, _ := freshWrap(time.Minute, func(p []byte) []byte { return bytes.ReplaceAll(p, []byte(noncePlaceholder), []byte(nonce)) })(respSeeds[0], m)
			// the nonce placeholder is replaced by freshWrap's own nonce first: sign again with the session's nonce
			t := m.Tree
			if t != nil && t.Get("p") != nil && t.Get("h") != nil {
				payload := t.Get("p").Bytes()
				if t.Get("p").K == jmut.Str {
					payload = []byte(t.Get("p").S)
				}
				now := time.Now()
				payload = bytes.ReplaceAll(payload, []byte(noncePlaceholder), []byte(nonce))
				payload = bytes.ReplaceAll(payload, []byte(nbfPlaceholder), []byte(fmt.Sprint(now.Unix()-1)))
				payload = bytes.ReplaceAll(payload, []byte(expPlaceholder), []byte(fmt.Sprint(now.Unix()+60)))
				payload = bytes.ReplaceAll(payload, []byte(jtiPlaceholder), []byte(fmt.Sprint("j", httpSeq.Add(1))))
				signed.data = atk.signCompact(t.Get("h").Bytes(), payload)
			}
			return respond(string(signed.data), respSubmission, state, nil)
		}})
	validVPToken := func(nonce string) string {
		t := respSeeds[0].tree
		now := time.Now()
		payload := t.Get("p").Bytes()
		payload = bytes.ReplaceAll(payload, []byte(noncePlaceholder), []byte(nonce))
		payload = bytes.ReplaceAll(payload, []byte(nbfPlaceholder), []byte(fmt.Sprint(now.Unix()-1)))
		payload = bytes.ReplaceAll(payload, []byte(expPlaceholder), []byte(fmt.Sprint(now.Unix()+60)))
		payload = bytes.ReplaceAll(payload, []byte(jtiPlaceholder), []byte(fmt.Sprint("j", httpSeq.Add(1))))
		return string(atk.signCompact(t.Get("h").Bytes(), payload))
	}
	run(&entry{name: "http.response.presentation_submission", gen: genJSON(seedsOf("submission", respSubmission), true, plainWrap),
		call: func(in input) error {
			_, state, nonce, err := startFlow()
			if err != nil {
				return fmt.Errorf("flow: %w", err)
			}
			return respond(validVPToken(nonce), string(in.data), state, nil)
		}})
	run(&entry{name: "http.response.form",
		gen: func(h *harness, e *entry, emit func(input)) {
			emit(input{data: []byte("valid"), valid: true, seed: "form", aux: map[string]string{}})
			fields := []string{"vp_token", "presentation_submission", "state", "error", "error_description", "error_uri"}
			values := []string{"\x00delete", "", "null", "[]", "{}", "[null]", `[""]`, `["a.b.c"]`, "\x00", strings.Repeat("A", 200000), "a.b.c", "e30.e30.", "invalid_request", "unknown-state", "%zz"}
			for _, fld := range fields {
				for vi, v := range values {
					emit(input{data: []byte(fld + "=" + trunc([]byte(v), 40)), ops: []string{fmt.Sprintf("form:value%d@/%s", vi, fld)}, seed: "form", aux: map[string]string{fld: v}})
				}
			}
		},
		call: func(in input) error {
			_, state, nonce, err := startFlow()
			if err != nil {
				return fmt.Errorf("flow: %w", err)
			}
			return respond(validVPToken(nonce), respSubmission, state, in.aux.(map[string]string))
		}})
	// request object endpoint: ids and POST bodies
	run(&entry{name: "http.request-object",
		gen: func(h *harness, e *entry, emit func(input)) {
			emit(input{data: []byte("GET valid"), valid: true, seed: "request-object", aux: [3]string{"GET", "", ""}})
			emit(input{data: []byte("POST on a request_uri issued for GET"), ops: []string{"method:post-on-get-uri@"}, seed: "request-object", aux: [3]string{"POST", "", "wallet_nonce=abc"}})
			ids := []string{"unknown", "%zz", "..", strings.Repeat("i", 10000), "%00", "a/b"}
			bodies := []string{"", "wallet_metadata=null", "wallet_metadata={}", "wallet_metadata=[]", "wallet_metadata=%7B%22vp_formats_supported%22%3Anull%7D", "wallet_metadata={\"authorization_endpoint\":1}", "wallet_nonce=" + strings.Repeat("n", 100000), "wallet_metadata=" + url.QueryEscape(`{"client_id_schemes_supported":[null],"vp_formats_supported":{"a":null}}`), "%zz", "wallet_metadata=\x00"}
			for i, id := range ids {
				emit(input{data: []byte("GET " + trunc([]byte(id), 20)), ops: []string{fmt.Sprintf("path:id%d@", i)}, aux: [3]string{"GET", id, ""}})
			}
			for i, b := range bodies {
				emit(input{data: []byte("POST " + trunc([]byte(b), 60)), ops: []string{fmt.Sprintf("body%d@", i)}, aux: [3]string{"POST", "", b}})
				emit(input{data: []byte("POST unknown " + trunc([]byte(b), 60)), ops: []string{fmt.Sprintf("body%d@", i), "path:id0@"}, aux: [3]string{"POST", "unknown", b}})
			}
		},
		call: func(in input) error {
			a := in.aux.([3]string)
			target := base + "/request.jwt/" + a[1]
			if a[1] == "" {
				serveConf(validConf())
				res, err := authorize(validJAR(), nil)
				if err != nil {
					return err
				}
				loc, _ := url.Parse(res.header.Get("Location"))
				target = loc.Query().Get("request_uri")
			}
			req, err := http.NewRequest(a[0], target, strings.NewReader(a[2]))
			if err != nil {
				return fmt.Errorf("client cannot build the request: %w", err)
			}
			if a[0] == "POST" {
				req.Header.Set("Content-Type", "application/x-www-form-urlencoded")
			}
			_, err = f.do(req)
			return err
		}})

	// ---- API clients on the internal interface: verifier and DPoP validation --------------------------------------------------------
	internalPost := func(path string, body []byte) error {
		_, err := post(f.n.Internal+path, "application/json", bytes.NewReader(body), nil)
		return err
	}
	vcSeeds := []jsonSeed{{"verify-vc-request", jmut.MustParse(`{"verifiableCredential":` + string(f.ldVCExp) + `,"verificationOptions":{"allowUntrustedIssuer":true}}`)}}
	run(&entry{name: "http.internal.verifier.vc", gen: genJSON(vcSeeds, true, plainWrap),
		call: func(in input) error { return internalPost("/internal/vcr/v2/verifier/vc", in.data) }})
	vpSeeds := []jsonSeed{{"verify-vp-request", jmut.MustParse(`{"verifiablePresentation":` + string(f.ldVP) + `,"verifyCredentials":true}`)}}
	run(&entry{name: "http.internal.verifier.vp", gen: genJSON(vpSeeds, true, plainWrap),
		call: func(in input) error { return internalPost("/internal/vcr/v2/verifier/vp", in.data) }})
	httpGridEntries(h, f, run, vpTree, post, tokenReq, audience)
	var wg sync.WaitGroup
	sem := make(chan struct{}, 6)
	var afterwards []*entry
	for _, e := range httpEntries {
		if e.name == "http.discovery.register-search.grid" {
			// registers on the service whose list http.discovery.register digests before and after each of its inputs: not beside it
			afterwards = append(afterwards, e)
			continue
		}
		wg.Add(1)
		go func(e *entry) {
			defer wg.Done()
			sem <- struct{}{}
			defer func() { <-sem }()
			st := h.st(e.name)
			e.gen(h, e, func(in input) { h.one(e, st, in) })
		}(e)
	}
	wg.Wait()
	for _, e := range afterwards {
		st := h.st(e.name)
		e.gen(h, e, func(in input) { h.one(e, st, in) })
	}
	time.Sleep(300 * time.Millisecond)
	for _, report := range f.log.takeAll() {
		top, repo := stackTextSite(report)
		h.r.Violation("C19/panic/http.unattributed/"+top, "an HTTP handler panicked on a connection the harness cannot attribute to an input: "+firstLineWith(report, "panic serving"),
			map[string]any{"function": top, "repo_function": repo, "stack": tailStr(report, 6000)})
	}
}
