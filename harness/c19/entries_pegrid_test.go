package c19

import (
	"errors"
	"fmt"
	"math/rand"
	"strings"

	"github.com/nuts-foundation/go-did/vc"
	"github.com/nuts-foundation/nuts-node/vcr/pe"
	"verif/lib/jmut"
)

// ---- presentation exchange grid -----------------------------------------------------------------------------------------
// The single-mutation sweep of a handful of definitions never produces the schema-valid combinations in which the *relation*
// between input descriptors and credentials is unusual: several descriptors fulfilled by one and the same credential, one
// descriptor fulfilled by several credentials, a credential that is present twice, groups named by several submission
// requirements, descriptors in several groups, requirements that select nothing. This entry point enumerates
// (descriptor templates) x (group assignment) x (submission requirement shape) x (credentials presented) and drives, per
// combination, what the node does with a definition it holds and a presentation + submission it receives:
// Match, the submission builder, PresentationSubmission.Resolve/Validate (s2s token request, OpenID4VP authorization response)
// for several envelope shapes and several submissions, ResolveConstraintsFields.

const gridLDVCNoID = `{"@context":["https://www.w3.org/2018/credentials/v1","https://nuts.nl/credentials/v1"],
"type":["VerifiableCredential","NutsOrganizationCredential"],"issuer":"did:web:issuer.example","issuanceDate":"2024-01-01T00:00:00Z",
"credentialSubject":{"id":"did:web:holder.example","organization":{"name":"care without id","city":"IJbergen"}},
"proof":{"type":"JsonWebSignature2020","verificationMethod":"did:web:issuer.example#key-1","proofPurpose":"assertionMethod","created":"2024-01-01T00:00:00Z","jws":"eyJhbGciOiJFUzI1NiJ9..c2ln"}}`

// gridTemplates: constraints objects, by what they select from the pool (A = org LD credential, B = other LD credential, C = org JWT credential, D = org LD credential without id).
var gridTemplates = []struct{ name, constraints string }{
	{"type-org", `{"fields":[{"path":["$.type"],"filter":{"type":"string","const":"NutsOrganizationCredential"}}]}`},                                                                 // A C D
	{"id-A", `{"fields":[{"path":["$.id"],"filter":{"type":"string","const":"did:web:issuer.example#4b2a1c"}}]}`},                                                                    // A
	{"issuer", `{"fields":[{"id":"iss","path":["$.issuer"],"filter":{"type":"string","pattern":"^did:(web|jwk):(.+)$"}}]}`},                                                          // all
	{"subject", `{"fields":[{"path":["$.credentialSubject.id","$.credentialSubject[0].id"],"filter":{"type":"string","const":"did:web:holder.example"}}]}`},                          // all
	{"type-other", `{"fields":[{"path":["$.type"],"filter":{"type":"string","const":"OtherCredential"}}]}`},                                                                          // B
	{"city", `{"fields":[{"id":"city","path":["$.credentialSubject.organization.city","$.credentialSubject[0].organization.city"],"filter":{"type":"string","const":"IJbergen"}}]}`}, // A C D
	{"never", `{"fields":[{"path":["$.id"],"filter":{"type":"string","const":"nope"}}]}`},                                                                                            // none
	{"optional-only", `{"fields":[{"id":"opt","optional":true,"path":["$.credentialSubject.nothing"],"filter":{"type":"string"}}]}`},                                                 // all
	{"no-fields", `{}`}, // all
	{"jwt-only", `{"fields":[{"path":["$.type"],"filter":{"type":"string","const":"NutsOrganizationCredential"}}]},"format":{"jwt_vc":{"alg":["ES256"]}}`},                                                                                                                   // C (descriptor format)
	{"two-fields", `{"fields":[{"path":["$.type"],"filter":{"type":"string","const":"NutsOrganizationCredential"}},{"id":"name","path":["$.credentialSubject.organization.name","$.credentialSubject[0].organization.name"],"filter":{"type":"string","pattern":"care"}}]}`}, // A C D
}

// gridRequirements: submission requirement shapes over the groups A and B ("" = the definition has none).
var gridRequirements = []struct{ name, json string }{
	{"none", ``},
	{"all-A", `[{"name":"a","rule":"all","from":"A"}]`},
	{"pick-1-A", `[{"name":"a","rule":"pick","count":1,"from":"A"}]`},
	{"all-A+all-B", `[{"rule":"all","from":"A"},{"rule":"all","from":"B"}]`},
	{"pick-min1-A+pick-0..2-B", `[{"rule":"pick","min":1,"from":"A"},{"rule":"pick","min":0,"max":2,"from":"B"}]`},
	{"pick-2-A", `[{"rule":"pick","count":2,"from":"A"}]`},
	{"all-A-twice", `[{"rule":"all","from":"A"},{"rule":"all","from":"A"}]`},
	{"nested-all-A+pick-1-B", `[{"rule":"pick","min":1,"max":2,"from_nested":[{"rule":"all","from":"A"},{"rule":"pick","count":1,"from":"B"}]}]`},
	{"nested-A-twice", `[{"rule":"all","from_nested":[{"rule":"all","from":"A"},{"rule":"all","from":"A"}]}]`},
	{"pick-max1-B+all-A", `[{"rule":"pick","max":1,"from":"B"},{"rule":"all","from":"A"}]`},
	{"pick-min0-A", `[{"rule":"pick","min":0,"from":"A"},{"rule":"pick","min":0,"from":"B"}]`},
	{"all-unused-group", `[{"rule":"all","from":"A"},{"rule":"all","from":"B"},{"rule":"all","from":"C"}]`},
}

// gridExtremeRequirements: the same shapes with numbers at the edges of what the schema admits ("type":"integer","minimum":0 resp. 1): the remote party that
// sends a definition chooses them. Only the isolated entry point uses them (a number that becomes an allocation size ends the process, which no recover() sees).
var gridExtremeRequirements = []struct{ name, json string }{
	{"pick-min1-max1e18-A", `[{"rule":"pick","min":1,"max":1000000000000000000,"from":"A"}]`},
	{"pick-max2^32-A+pick-0..maxint-B", `[{"rule":"pick","max":4294967296,"from":"A"},{"rule":"pick","min":0,"max":9223372036854775807,"from":"B"}]`},
	{"pick-count2^32-A", `[{"rule":"pick","count":4294967296,"from":"A"}]`},
	{"pick-minmaxint-A", `[{"rule":"pick","min":9223372036854775807,"from":"A"}]`},
	{"nested-max2^31-all-A+pick-max2^32-B", `[{"rule":"pick","min":1,"max":2147483648,"from_nested":[{"rule":"all","from":"A"},{"rule":"pick","max":4294967295,"from":"B"}]}]`},
	{"pick-0..0-A", `[{"rule":"pick","min":0,"max":0,"from":"A"}]`},
	{"pick-min2-max1-A", `[{"rule":"pick","min":2,"max":1,"from":"A"}]`},
	{"pick-count-min-max-A", `[{"rule":"pick","count":1,"min":4294967296,"max":1000000000000000000,"from":"A"}]`},
}

func gridRequirement(req int) (name, json string) {
	if req >= len(gridRequirements) {
		x := gridExtremeRequirements[req-len(gridRequirements)]
		return x.name, x.json
	}
	return gridRequirements[req].name, gridRequirements[req].json
}

var gridGroups = []struct{ name, json string }{{"-", ``}, {"A", `["A"]`}, {"B", `["B"]`}, {"AB", `["A","B"]`}}

// gridDefinition builds the JSON of a presentation definition: descriptor i uses template ts[i] and group gs[i].
func gridDefinition(id string, ts, gs []int, req int, duplicateIDs bool) string {
	var ds []string
	for i, t := range ts {
		did := fmt.Sprintf("d%d", i)
		if duplicateIDs && i > 0 {
			did = "d0"
		}
		c := gridTemplates[t].constraints
		format := ""
		if j := strings.Index(c, `},"format":`); j >= 0 { // a template that also sets the descriptor's format
			format = c[j+1:]
			c = c[:j+1]
		}
		d := fmt.Sprintf(`{"id":%q,"constraints":%s%s`, did, c, format)
		if g := gridGroups[gs[i]].json; g != "" {
			d += `,"group":` + g
		}
		ds = append(ds, d+"}")
	}
	out := fmt.Sprintf(`{"id":%q`, id)
	if _, r := gridRequirement(req); r != "" {
		out += `,"submission_requirements":` + r
	}
	return out + `,"input_descriptors":[` + strings.Join(ds, ",") + `]}`
}

type gridCase struct {
	pd     string
	wallet []int // indices into the pool
	k      int   // case number: selects which envelope shape is tried besides the plain JSON-LD presentation
}

// gridWallets: which credentials the remote party presents (A=0 B=1 C=2 D=3), with repetitions and orders.
var gridWallets = [][]int{{0}, {0, 1}, {1, 0}, {0, 0}, {2}, {0, 2}, {0, 1, 2, 3}, {3}, {3, 3}, {1}, {}, {2, 2, 0}}

func walletName(w []int) string {
	s := ""
	for _, i := range w {
		s += string(rune('A' + i))
	}
	if s == "" {
		return "empty"
	}
	return s
}

type peGrid struct {
	pool    []vc.VerifiableCredential
	poolRaw []string // JSON value of the credential inside a presentation (object, or string for the JWT credential)
}

func newPEGrid() *peGrid {
	g := &peGrid{}
	jwtVC, _ := atk.jwsFromTree(jmut.MustParse(jwtVCTree()))
	for _, raw := range []string{walletLDVC, walletLDVC2, mustJSON(string(jwtVC)), gridLDVCNoID} {
		in := raw
		if strings.HasPrefix(raw, `"`) {
			in = string(jwtVC)
		}
		c, err := vc.ParseVerifiableCredential(in)
		if err != nil {
			panic(err)
		}
		g.pool = append(g.pool, *c)
		g.poolRaw = append(g.poolRaw, raw)
	}
	return g
}

const gridLDProof = `"proof":{"type":"JsonWebSignature2020","verificationMethod":"did:web:holder.example#key-1","proofPurpose":"authentication","created":"2024-01-01T00:00:00Z","challenge":"n","domain":"d","jws":"eyJhbGciOiJFUzI1NiJ9..c2ln"}`

// envelopes returns the presentations a remote wallet could send for the given credentials: one JSON-LD presentation (a single credential
// is a bare object there, as go-did marshals it), one JWT presentation, and the credentials spread over two presentations.
func (g *peGrid) envelopes(w []int) map[string]string {
	raws := make([]string, len(w))
	for i, c := range w {
		raws[i] = g.poolRaw[c]
	}
	ld := func(rs []string) string {
		vcs := "[" + strings.Join(rs, ",") + "]"
		if len(rs) == 1 {
			vcs = rs[0]
		}
		return `{"@context":["https://www.w3.org/2018/credentials/v1"],"type":"VerifiablePresentation","holder":"did:web:holder.example","verifiableCredential":` + vcs + `,` + gridLDProof + `}`
	}
	out := map[string]string{"ldp_vp": ld(raws), "ldp_vp-array-of-one": `[` + ld(raws) + `]`, "no-presentations": `[]`}
	jwtVP, _ := atk.jwsFromTree(jmut.MustParse(`{"h":{"alg":"ES256","typ":"JWT","kid":"did:web:holder.example#key-1"},"p":{"iss":"did:web:holder.example","sub":"did:web:holder.example","jti":"did:web:holder.example#vp","nbf":1704067200,"exp":2019686400,"nonce":"n","aud":"did:web:verifier.example",
"vp":{"@context":["https://www.w3.org/2018/credentials/v1"],"type":"VerifiablePresentation","verifiableCredential":[` + strings.Join(raws, ",") + `]}}}`))
	out["jwt_vp"] = mustJSON(string(jwtVP))
	if len(raws) >= 2 {
		out["two-presentations"] = `[` + ld(raws[:1]) + `,` + ld(raws[1:]) + `]`
	}
	return out
}

// submissions returns the submissions a remote party could send along with envelope kind `env` holding n credentials, for a definition with nd descriptors.
func gridSubmissions(pdID string, env string, w []int, nd int) map[string]string {
	format := func(c int) string {
		if c == 2 {
			return "jwt_vc"
		}
		return "ldp_vc"
	}
	path := func(j int) string {
		switch env {
		case "ldp_vp":
			if len(w) == 1 {
				return `"path":"$.verifiableCredential"`
			}
			return fmt.Sprintf(`"path":"$.verifiableCredential[%d]"`, j)
		case "jwt_vp":
			return fmt.Sprintf(`"path":"$.verifiableCredential[%d]"`, j)
		case "ldp_vp-array-of-one":
			if len(w) == 1 {
				return `"format":"ldp_vp","path":"$[0]","path_nested":{"path":"$.verifiableCredential"`
			}
			return fmt.Sprintf(`"format":"ldp_vp","path":"$[0]","path_nested":{"path":"$.verifiableCredential[%d]"`, j)
		default: // two presentations: credential 0 in the first, the others in the second
			if j == 0 {
				return `"format":"ldp_vp","path":"$[0]","path_nested":{"path":"$.verifiableCredential"`
			}
			if len(w) == 2 {
				return `"format":"ldp_vp","path":"$[1]","path_nested":{"path":"$.verifiableCredential"`
			}
			return fmt.Sprintf(`"format":"ldp_vp","path":"$[1]","path_nested":{"path":"$.verifiableCredential[%d]"`, j-1)
		}
	}
	entry := func(d, j int) string {
		if len(w) == 0 {
			return ""
		}
		j %= len(w)
		p := path(j)
		if strings.Contains(p, "path_nested") {
			return fmt.Sprintf(`{"id":"d%d",%s,"id":"d%d","format":%q}}`, d, p, d, format(w[j]))
		}
		return fmt.Sprintf(`{"id":"d%d","format":%q,%s}`, d, format(w[j]), p)
	}
	mk := func(entries ...string) string {
		var keep []string
		for _, e := range entries {
			if e != "" {
				keep = append(keep, e)
			}
		}
		return fmt.Sprintf(`{"id":"s","definition_id":%q,"descriptor_map":[%s]}`, pdID, strings.Join(keep, ","))
	}
	var all0, diag, rev []string
	for d := 0; d < nd; d++ {
		all0 = append(all0, entry(d, 0))
		diag = append(diag, entry(d, d))
		rev = append(rev, entry(d, nd-1-d))
	}
	return map[string]string{
		"first-descriptor-only":       mk(entry(0, 0)),
		"every-descriptor-first-cred": mk(all0...),
		"descriptor-i-credential-i":   mk(diag...),
		"reversed":                    mk(rev...),
		"empty-map":                   mk(),
	}
}

func (g *peGrid) run(c gridCase) error {
	pd, err := pe.ParsePresentationDefinition([]byte(c.pd))
	if err != nil {
		return err
	}
	wallet := make([]vc.VerifiableCredential, len(c.wallet))
	for i, j := range c.wallet {
		wallet[i] = g.pool[j]
	}
	holder := newPEFixtureHolder
	var errs []error
	accepted := false
	// the definition against the credentials, as a wallet / the discovery module does
	_ = pd.CredentialsRequired()
	if _, _, err := pd.Match(wallet); err != nil {
		errs = append(errs, err)
	}
	b := pd.PresentationSubmissionBuilder()
	b.AddWallet(holder, wallet)
	built, sign, err := b.Build("ldp_vp")
	if err != nil {
		errs = append(errs, err)
	} else if len(sign.VerifiableCredentials) > 0 {
		// a well-behaved wallet: presents exactly what the builder selected, with the builder's submission
		var sel []int
		for _, sc := range sign.VerifiableCredentials {
			for j := range g.pool {
				if g.pool[j].Raw() == sc.Raw() {
					sel = append(sel, j)
					break
				}
			}
		}
		if len(sel) == len(sign.VerifiableCredentials) {
			if env, err := pe.ParseEnvelope([]byte(g.envelopes(sel)["ldp_vp"])); err == nil {
				if _, err := built.Validate(*env, *pd); err != nil {
					errs = append(errs, err)
				} else {
					accepted = true
				}
			}
		}
	}
	// what a remote party sends: the credentials in every envelope shape, with every submission shape
	envs := g.envelopes(c.wallet)
	otherKinds := []string{"jwt_vp", "ldp_vp-array-of-one", "two-presentations"}
	second := otherKinds[c.k%len(otherKinds)]
	if _, ok := envs[second]; !ok {
		second = otherKinds[(c.k+1)%2]
	}
	// besides: an envelope without any presentation (the remote party can send it whatever the definition asks for)
	for _, kind := range []string{"ldp_vp", second, "no-presentations"} {
		raw := envs[kind]
		env, err := pe.ParseEnvelope([]byte(raw))
		if err != nil {
			errs = append(errs, fmt.Errorf("%s: %w", kind, err))
			continue
		}
		subs := gridSubmissions(pd.Id, kind, c.wallet, len(pd.InputDescriptors))
		for name, sj := range subs {
			if kind == "no-presentations" && name != "empty-map" && name != "first-descriptor-only" {
				continue
			}
			if kind != "ldp_vp" && kind != "no-presentations" && name != "descriptor-i-credential-i" && name != "first-descriptor-only" {
				continue // every submission shape with the plain presentation, two of them with the other envelope shape
			}
			s, err := pe.ParsePresentationSubmission([]byte(sj))
			if err != nil {
				errs = append(errs, fmt.Errorf("%s/%s: %w", kind, name, err))
				continue
			}
			_, _ = s.Resolve(*env)
			creds, err := s.Validate(*env, *pd)
			if err != nil {
				errs = append(errs, fmt.Errorf("%s/%s: %w", kind, name, err))
				continue
			}
			accepted = true
			_, _ = pd.ResolveConstraintsFields(creds)
		}
	}
	if accepted {
		return nil
	}
	return errors.Join(errs...)
}

var newPEFixtureHolder = newPEFixture().holder

func peGridEntry(h *harness) *entry {
	g := newPEGrid()
	return &entry{name: "pe.Grid.Match-Build-Validate", isolate: true,
		gen: func(h *harness, e *entry, emit func(input)) {
			rnd := h.r.Rand("gen/" + e.name)
			n := 0
			out := func(ts, gs []int, req int, dup bool, w []int, valid bool) {
				n++
				var tn, gn []string
				for i := range ts {
					tn = append(tn, gridTemplates[ts[i]].name)
					gn = append(gn, gridGroups[gs[i]].name)
				}
				pd := gridDefinition("pd-grid", ts, gs, req, dup)
				in := input{data: []byte(pd + "\n" + walletName(w)), aux: gridCase{pd: pd, wallet: w, k: n}, seed: "grid"}
				if valid {
					in.valid = true
				} else {
					reqName, _ := gridRequirement(req)
					in.ops = []string{"pegrid:requirements=" + reqName + "@/submission_requirements", "pegrid:descriptors=" + strings.Join(tn, "+") + "@/input_descriptors",
						"pegrid:groups=" + strings.Join(gn, "+") + "@/input_descriptors/group", "pegrid:credentials=" + walletName(w) + "@/verifiableCredential"}
					if dup {
						in.ops = append(in.ops, "pegrid:duplicate-descriptor-ids@/input_descriptors/id")
					}
				}
				emit(in)
			}
			// known-good: two descriptors fulfilled by two different credentials, no requirements
			out([]int{0, 4}, []int{0, 0}, 0, false, []int{0, 1}, true)
			// systematic: every ordered pair of templates, both in group A (or ungrouped), x the requirement shapes that name group A only, x two presentations.
			// The pairs are spread over the requirement shapes/presentations such that every (pair, shape) is met in the thorough tier and every pair + every shape in the quick tier.
			reqsA := []int{0, 1, 2, 5, 6, 8}
			k := int(h.r.Seed() % 7)
			for t1 := range gridTemplates {
				for t2 := range gridTemplates {
					for ri, req := range reqsA {
						k++
						if !h.r.Thorough() && (t1+2*t2+ri+k/7)%3 != 0 {
							continue
						}
						gs := []int{1, 1}
						if req == 0 {
							gs = []int{0, 0}
						}
						out([]int{t1, t2}, gs, req, false, gridWallets[(t1+t2+ri)%4], false)
						if h.r.Thorough() {
							out([]int{t1, t2}, gs, req, false, gridWallets[4+(t1+t2+ri)%(len(gridWallets)-4)], false)
						}
					}
				}
			}
			// every requirement shape x every presentation for the definition in which one credential fulfils two descriptors of A and another one of B
			for req := range gridRequirements {
				for wi := range gridWallets {
					if !h.r.Thorough() && (req+wi)%2 != int(h.r.Seed()%2) {
						continue
					}
					gs := []int{1, 1, 2}
					if req == 0 {
						gs = []int{0, 0, 0}
					}
					out([]int{0, 1, 4}, gs, req, false, gridWallets[wi], false)
				}
			}
			// extreme numbers in the requirements x presentations that do / do not fulfil them (two descriptors of A one credential fulfils, one of B)
			for x := range gridExtremeRequirements {
				for wi := range gridWallets {
					if !h.r.Thorough() && wi%3 != (x+int(h.r.Seed()))%3 && wi != 1 {
						continue
					}
					out([]int{0, 5, 4}, []int{1, 1, 2}, len(gridRequirements)+x, false, gridWallets[wi], false)
				}
			}
			// definitions that ask for nothing: no descriptors at all x (no requirements, only optional requirements, requirements naming groups without members) x presentations
			for _, req := range []int{0, 10, 4, 1, 2, len(gridRequirements) + 5, len(gridRequirements) + 1} {
				for _, wi := range []int{10, 0, 1} {
					out([]int{}, []int{}, req, false, gridWallets[wi], false)
				}
			}
			// one descriptor nobody has to fulfil
			for _, t := range []int{0, 6, 7, 8} {
				for _, wi := range []int{10, 0, 9} {
					out([]int{t}, []int{1}, 10, false, gridWallets[wi], false)
				}
			}
			// seeded random: 1-4 descriptors, any template/group/requirement/presentation
			_, nRandom := h.budgetFor(e.name, false)
			nRandom = nRandom / 2
			for i := 0; i < nRandom; i++ {
				nd := 1 + rnd.Intn(4)
				ts, gs := make([]int, nd), make([]int, nd)
				req := rnd.Intn(len(gridRequirements))
				if rnd.Intn(6) == 0 {
					req = len(gridRequirements) + rnd.Intn(len(gridExtremeRequirements))
				}
				if rnd.Intn(12) == 0 {
					ts, gs = ts[:0], gs[:0] // a definition without descriptors
				}
				for j := range ts {
					ts[j] = rnd.Intn(len(gridTemplates))
					if req == 0 && rnd.Intn(8) != 0 {
						gs[j] = 0
					} else {
						gs[j] = rnd.Intn(len(gridGroups))
					}
				}
				out(ts, gs, req, rnd.Intn(10) == 0, randomWallet(rnd), false)
			}
		},
		call: func(in input) error { return g.run(in.aux.(gridCase)) }}
}

func randomWallet(rnd *rand.Rand) []int {
	if rnd.Intn(3) > 0 {
		return gridWallets[rnd.Intn(len(gridWallets))]
	}
	w := make([]int, rnd.Intn(5))
	for i := range w {
		w[i] = rnd.Intn(4)
	}
	return w
}
