package c19

import (
	"bytes"
	"compress/gzip"
	"crypto/sha256"
	"encoding/base64"
	"encoding/hex"
	"errors"
	"fmt"
	"net/http"
	"os"
	"strings"
	"sync/atomic"
	"time"

	"github.com/nuts-foundation/go-did/vc"
	"github.com/nuts-foundation/nuts-node/storage"
	"github.com/nuts-foundation/nuts-node/vcr/revocation"
	"gorm.io/gorm"
)

// Status lists are fetched more than once: the verifier keeps the last accepted copy of every external list and tries to replace it when the
// copy is older than its maximum age or past its expiry. This entry point drives those *sequences*: (what is cached) x (how the cached copy aged)
// x (what the status list host answers to the refresh). The answer to the refresh is the hostile input: transport faults, HTTP faults, damaged
// bodies, lists that fail validation, structure-aware mutants of valid lists, and valid re-issues. "Nothing cached" is one of the cached states,
// so the same faults also hit the first fetch.
//
// Oracle: no panic, every Verify returns; the stored copy after the sequence is the copy from before (refresh rejected) or exactly what the host
// served (refresh accepted) - for answers the harness knows to be unusable (no 2xx, broken transport/body, not the list of that URL, bad signature)
// it must be the copy from before.

const slRefreshHost = "refresh.status.example.com"
const slRefreshPlaceholder = "https://" + slRefreshHost + "/list/PLACEHOLDER"

func gzB64(raw []byte) string {
	var b bytes.Buffer
	w := gzip.NewWriter(&b)
	_, _ = w.Write(raw)
	_ = w.Close()
	return base64.RawURLEncoding.EncodeToString(b.Bytes())
}

// slListTree is the composite {"h","p"} tree of a StatusList2021Credential (jwt_vc) issued by the hostile party for the list at url.
// exp: "future", "none" (the optional expirationDate is absent), "past".
func slListTree(url, exp, purpose, encoded string) string {
	d := atkDIDJWK()
	now := time.Now().Unix()
	expClaim := ""
	switch exp {
	case "future":
		expClaim = fmt.Sprintf(`"exp":%d,`, now+86400)
	case "past":
		expClaim = fmt.Sprintf(`"exp":%d,`, now-30)
	}
	return fmt.Sprintf(`{"h":{"alg":"ES256","typ":"JWT","kid":"%[1]s#0"},"p":{"iss":%[1]q,"sub":%[3]q,"jti":%[3]q,"nbf":%[2]d,%[4]s
"vc":{"@context":["https://www.w3.org/2018/credentials/v1","https://w3id.org/vc/status-list/2021/v1"],"type":["VerifiableCredential","StatusList2021Credential"],
"credentialSubject":{"id":%[3]q,"type":"StatusList2021","statusPurpose":%[5]q,"encodedList":%[6]q}}}}`, d, now-60, url, expClaim, purpose, encoded)
}

// retargetJWS replaces placeholder by url in the claims of a compact JWS and signs it again (left alone when it is not a three-part token any more).
func retargetJWS(data []byte, placeholder, url string) []byte {
	if parts := bytes.Split(data, []byte(".")); len(parts) == 3 {
		hdr, err0 := b64.DecodeString(string(parts[0]))
		if claims, err := b64.DecodeString(string(parts[1])); err == nil && err0 == nil && bytes.Contains(claims, []byte(placeholder)) {
			return atk.signCompact(hdr, bytes.ReplaceAll(claims, []byte(placeholder), []byte(url)))
		}
	}
	return data
}

// slSecond is the answer of the status list host to the refresh (or, when nothing is cached, to the first fetch).
type slSecond struct {
	name string
	// make returns the scripted answer for the list at url, and the raw credential the host offers with it ("" when the answer carries none)
	make func(url string) (hostileResp, string)
	// what the harness knows about the answer, independently of the node: +1 it is a valid list for url, -1 it cannot be used, 0 not known (mutants)
	usable int
}

type slCase struct {
	cached string // "none" | "jwt-exp" | "jwt-no-exp"
	age    string
	second slSecond
}

var slJSON = http.Header{"Content-Type": {"application/json"}}

func slOK(raw string) hostileResp {
	return hostileResp{status: 200, header: slJSON, body: bodyOf([]byte(mustJSON(raw)))}
}

func slSeconds() []slSecond {
	zeros := gzB64(make([]byte, 16*1024))
	bit5 := make([]byte, 16*1024)
	bit5[0] = 0x04
	valid := func(name, exp, purpose, encoded string) slSecond {
		return slSecond{name: name, usable: +1, make: func(url string) (hostileResp, string) {
			raw := compact(slListTree(url, exp, purpose, encoded))
			return slOK(raw), raw
		}}
	}
	status := func(code int, body string) slSecond {
		return slSecond{name: fmt.Sprintf("status-%d", code), usable: -1, make: func(url string) (hostileResp, string) {
			return hostileResp{status: code, header: slJSON, body: bodyOf([]byte(body))}, ""
		}}
	}
	body := func(name string, mk func(validRaw string) []byte) slSecond {
		return slSecond{name: name, usable: -1, make: func(url string) (hostileResp, string) {
			return hostileResp{status: 200, header: slJSON, body: bodyOf(mk(compact(slListTree(url, "future", "revocation", zeros))))}, ""
		}}
	}
	return []slSecond{
		valid("valid-reissue", "future", "revocation", gzB64(bit5)),
		valid("valid-reissue-without-expiry", "none", "revocation", gzB64(bit5)),
		valid("valid-other-purpose", "future", "suspension", zeros),
		valid("valid-one-byte-list", "future", "revocation", gzB64(make([]byte, 1))),
		// a list that is already past its expiry when it is served: whether the node takes it is not for this check to say
		{name: "expired-list", usable: 0, make: func(url string) (hostileResp, string) {
			raw := compact(slListTree(url, "past", "revocation", zeros))
			return slOK(raw), raw
		}},
		status(404, `{"title":"not found","status":404}`),
		status(500, `<html>internal error</html>`),
		status(204, ``),
		status(304, ``),
		status(300, `[]`),
		{name: "redirect-to-itself", usable: -1, make: func(url string) (hostileResp, string) {
			return hostileResp{status: 302, header: http.Header{"Location": {url}}, body: bodyOf(nil)}, ""
		}},
		{name: "redirect-to-unreachable-host", usable: -1, make: func(url string) (hostileResp, string) {
			return hostileResp{status: 307, header: http.Header{"Location": {"https://unreachable.invalid/list"}}, body: bodyOf(nil)}, ""
		}},
		{name: "redirect-without-location", usable: -1, make: func(url string) (hostileResp, string) {
			return hostileResp{status: 301, header: http.Header{}, body: bodyOf(nil)}, ""
		}},
		{name: "transport-error", usable: -1, make: func(url string) (hostileResp, string) {
			return hostileResp{err: errors.New("dial tcp 203.0.113.7:443: connect: connection refused")}, ""
		}},
		{name: "body-breaks-in-the-middle", usable: -1, make: func(url string) (hostileResp, string) {
			raw := compact(slListTree(url, "future", "revocation", zeros))
			return hostileResp{status: 200, header: slJSON, body: bodyOf([]byte(mustJSON(raw))), failAfter: int64(len(raw) / 2)}, ""
		}},
		{name: "body-breaks-at-the-first-byte", usable: -1, make: func(url string) (hostileResp, string) {
			raw := compact(slListTree(url, "future", "revocation", zeros))
			return hostileResp{status: 200, header: slJSON, body: bodyOf([]byte(mustJSON(raw))), failAfter: 1}, ""
		}},
		body("body-empty", func(string) []byte { return nil }),
		body("body-truncated", func(raw string) []byte { b := []byte(mustJSON(raw)); return b[:len(b)/2] }),
		body("body-truncated-document", func(string) []byte { return []byte(`{"@context": [`) }),
		body("body-not-json", func(string) []byte { return []byte("<html><body>maintenance</body></html>") }),
		body("body-json-null", func(string) []byte { return []byte("null") }),
		body("body-json-empty-object", func(string) []byte { return []byte("{}") }),
		body("body-json-array", func(raw string) []byte { return []byte("[" + mustJSON(raw) + "]") }),
		body("body-json-number", func(string) []byte { return []byte("1e400") }),
		body("body-bare-jwt", func(raw string) []byte { return []byte(raw) }),
		body("body-empty-string", func(string) []byte { return []byte(`""`) }),
		body("jwt-without-signature", func(raw string) []byte { return []byte(mustJSON(raw[:strings.LastIndexByte(raw, '.')+1])) }),
		body("jwt-signature-damaged", func(raw string) []byte {
			b := []byte(raw)
			if b[len(b)-2] == 'A' {
				b[len(b)-2] = 'B'
			} else {
				b[len(b)-2] = 'A'
			}
			return []byte(mustJSON(string(b)))
		}),
		body("jwt-two-parts", func(raw string) []byte { return []byte(mustJSON(raw[:strings.LastIndexByte(raw, '.')])) }),
		{name: "list-of-another-url", usable: -1, make: func(url string) (hostileResp, string) {
			raw := compact(slListTree(url+"-other", "future", "revocation", zeros))
			return slOK(raw), raw
		}},
		{name: "body-over-the-response-limit", usable: -1, make: func(url string) (hostileResp, string) {
			return hostileResp{status: 200, header: slJSON, body: bodySpec{head: []byte(`"`), fill: []byte("A"), fillLen: 1<<20 + 16, tail: []byte(`"`)}}, ""
		}},
		{name: "body-endless", usable: -1, make: func(url string) (hostileResp, string) {
			return hostileResp{status: 200, header: slJSON, body: bodySpec{fill: []byte(" "), fillLen: -1}, noLength: true}, ""
		}},
	}
}

// slAges are the ways the cached copy ages between the fetch and the refresh (virtual time: the row's timestamps are moved, as the clock would).
var slAges = []string{"fresh", "older-than-max-age", "expiry-passed", "older-and-expiry-passed", "created-at-epoch", "created-in-the-future", "expiry-column-null-and-older"}

func slApplyAge(db *gorm.DB, url, age string) error {
	now := time.Now()
	type upd struct {
		sql  string
		args []any
	}
	var us []upd
	older := upd{"UPDATE status_list_credential SET created_at = ? WHERE subject_id = ?", []any{now.Add(-2 * time.Hour).Unix(), url}}
	// only a copy that has an expiry can pass it
	expired := upd{"UPDATE status_list_credential SET expires = ? WHERE subject_id = ? AND expires IS NOT NULL", []any{now.Add(-time.Minute).Unix(), url}}
	switch age {
	case "fresh":
	case "older-than-max-age":
		us = []upd{older}
	case "expiry-passed":
		us = []upd{expired}
	case "older-and-expiry-passed":
		us = []upd{older, expired}
	case "created-at-epoch":
		us = []upd{{"UPDATE status_list_credential SET created_at = 0 WHERE subject_id = ?", []any{url}}}
	case "created-in-the-future":
		us = []upd{{"UPDATE status_list_credential SET created_at = ? WHERE subject_id = ?", []any{now.Add(365 * 24 * time.Hour).Unix(), url}}}
	case "expiry-column-null-and-older":
		us = []upd{older, {"UPDATE status_list_credential SET expires = NULL WHERE subject_id = ?", []any{url}}}
	default:
		return fmt.Errorf("unknown age %q", age)
	}
	for _, u := range us {
		if res := db.Exec(u.sql, u.args...); res.Error != nil {
			return res.Error
		}
	}
	return nil
}

func statusListRefreshEntry(h *harness) *entry {
	f := theNode(h)
	mux, strict, _ := strictClients()
	host := newHostileServer(8 << 20)
	mux.register(slRefreshHost, host)

	// databases of its own: the first-fetch entry point (revocation.StatusList2021.Verify) digests the whole status list table of the node's database.
	// One verifier + database per worker (the SQL layer allows one statement at a time per database).
	const workers = 4
	type fixture struct {
		db *gorm.DB
		sl *revocation.StatusList2021
	}
	pool := make(chan *fixture, workers)
	for i := 0; i < workers; i++ {
		dir, err := os.MkdirTemp("", "c19-slrefresh-")
		if err != nil {
			h.r.Fatalf("tempdir: %v", err)
		}
		h.t.Cleanup(func() { os.RemoveAll(dir) })
		db := storage.NewTestStorageEngineInDir(h.t, dir).GetSQLDatabase()
		db.Exec("PRAGMA synchronous = OFF") // the harness' own database (one connection): durability is not under observation here
		sl := revocation.NewStatusList2021(db, strict, "https://node.example.com")
		sl.VerifySignature = f.verifier.VerifySignature
		pool <- &fixture{db, sl}
	}

	zeros := gzB64(make([]byte, 16*1024))
	subjectVCFor := func(url string, index string) vc.VerifiableCredential {
		status := fmt.Sprintf(`{"id":"%s#%s","type":"StatusList2021Entry","statusPurpose":"revocation","statusListIndex":%q,"statusListCredential":%q}`, url, index, index, url)
		c, err := vc.ParseVerifiableCredential(compact(atkVCTree("NutsOrganizationCredential", "", status)))
		if err != nil {
			panic(err)
		}
		return *c
	}
	type row struct {
		SubjectID     string
		StatusPurpose string
		Bitstring     string
		CreatedAt     int64
		Expires       *int64
		Raw           string
	}
	// rowOf returns a digest of the stored copy of the list at url, and its raw credential
	rowOf := func(db *gorm.DB, url string) (string, string) {
		var rows []row
		if err := db.Table("status_list_credential").Where("subject_id = ?", url).Find(&rows).Error; err != nil {
			return "error: " + err.Error(), ""
		}
		if len(rows) == 0 {
			return "absent", ""
		}
		r := rows[0]
		exp := "null"
		if r.Expires != nil {
			exp = fmt.Sprint(*r.Expires)
		}
		sum := sha256.Sum256([]byte(r.Raw + "\x00" + r.Bitstring))
		return fmt.Sprintf("rows=%d purpose=%s created_at=%d expires=%s sha256=%s", len(rows), r.StatusPurpose, r.CreatedAt, exp, hex.EncodeToString(sum[:8])), r.Raw
	}

	listSeeds := seedsOf(
		"status-list-credential", slListTree(slRefreshPlaceholder, "future", "revocation", zeros),
		"status-list-credential-without-expiry", slListTree(slRefreshPlaceholder, "none", "revocation", zeros),
	)
	var listN atomic.Int64
	var e *entry
	e = &entry{name: "revocation.StatusList2021.refresh",
		gen: func(h *harness, e *entry, emit func(input)) {
			// the sequences are independent of each other (a URL and a stored row of its own each): four at a time
			emit, wait := parallelEmit(workers, emit)
			defer wait()
			seconds := slSeconds()
			mk := func(c slCase, ops []string) input {
				return input{data: []byte(fmt.Sprintf("cached=%s age=%s refresh-answer=%s", c.cached, c.age, c.second.name)), aux: c, ops: ops, seed: c.cached}
			}
			// the sequences that must work
			for _, c := range []slCase{{"jwt-exp", "fresh", seconds[0]}, {"jwt-exp", "older-than-max-age", seconds[0]}, {"jwt-no-exp", "older-than-max-age", seconds[1]}, {"none", "fresh", seconds[1]}} {
				in := mk(c, nil)
				in.valid = true
				emit(in)
			}
			// every (cached copy, ageing) x every scripted answer
			pair := int(h.r.Seed())
			for _, cached := range []string{"jwt-exp", "jwt-no-exp", "none"} {
				for _, age := range slAges {
					if cached == "none" && age != "fresh" {
						continue // nothing there to age
					}
					pair++
					for si, s := range seconds {
						if young := age == "fresh" || age == "created-in-the-future"; young && cached != "none" {
							if si%8 != 0 {
								continue // the copy is young: no refresh is attempted, the answer is never fetched (a few are kept to observe exactly that)
							}
						} else if !h.r.Thorough() && cached != "none" && (si+pair)%2 != 0 {
							continue // quick: every (cached copy, ageing) meets every other answer; which half depends on the seed
						}
						emit(mk(slCase{cached, age, s}, []string{"answer:" + s.name + "@/refresh", "cached:" + cached + "@/cached", "age:" + age + "@/age"}))
					}
				}
			}
			// structure-aware mutants of valid lists as the answer to a refresh; the sequence in front of it rotates through the states in which a refresh is attempted
			// (and, every so often, the first fetch)
			type state struct{ cached, age string }
			var states []state
			for _, cached := range []string{"jwt-no-exp", "jwt-exp"} {
				for _, age := range []string{"older-than-max-age", "expiry-passed", "older-and-expiry-passed", "created-at-epoch", "expiry-column-null-and-older"} {
					if cached == "jwt-no-exp" && age == "expiry-passed" {
						continue // no refresh is attempted
					}
					states = append(states, state{cached, age})
				}
			}
			states = append(states, state{"none", "fresh"})
			i := int(h.r.Seed() % int64(len(states)))
			genJSON(listSeeds, true, atk.jwsWrap)(h, e, func(in input) {
				if in.valid {
					return // the pristine lists are the valid re-issues above
				}
				st := states[i%len(states)]
				i++
				data := in.data
				c := slCase{st.cached, st.age, slSecond{name: "mutant", usable: 0, make: func(url string) (hostileResp, string) {
					raw := string(retargetJWS(data, slRefreshPlaceholder, url))
					return slOK(raw), raw
				}}}
				in.aux = c
				in.ops = append(append([]string{}, in.ops...), "cached:"+st.cached+"@/cached", "age:"+st.age+"@/age")
				emit(in)
			})
		},
		call: func(in input) error {
			c := in.aux.(slCase)
			url := fmt.Sprintf("https://%s/list/%d", slRefreshHost, listN.Add(1))
			st := h.st(e.name)
			fx := <-pool
			defer func() { pool <- fx }()
			db, sl := fx.db, fx.sl
			// (1) the copy the node holds
			first := ""
			if c.cached != "none" {
				exp := "future"
				if c.cached == "jwt-no-exp" {
					exp = "none"
				}
				first = compact(slListTree(url, exp, "revocation", zeros))
				host.set(url, slOK(first))
				if err := sl.Verify(subjectVCFor(url, "5")); err != nil {
					h.r.Fatalf("%s: the valid list (%s) was not accepted on the first fetch: %v", e.name, c.cached, err)
				}
				// (2) time passes
				if err := slApplyAge(db, url, c.age); err != nil {
					h.r.Fatalf("%s: ageing the stored copy: %v", e.name, err)
				}
			}
			before, beforeRaw := rowOf(db, url)
			if beforeRaw != first {
				h.r.Fatalf("%s: the valid list (%s) was not stored on the first fetch", e.name, c.cached)
			}
			// (3) the host's answer from now on
			resp, served := c.second.make(url)
			host.set(url, resp)
			asked := host.requestCount(url)
			var firstErr error
			for _, idx := range []string{"0", "131072"} {
				err := sl.Verify(subjectVCFor(url, idx))
				if idx == "0" && err != nil && strings.HasPrefix(err.Error(), "status list:") {
					firstErr = err
				}
			}
			attempts := host.requestCount(url) - asked
			after, afterRaw := rowOf(db, url)
			st.mu.Lock()
			st.StateCheck++
			st.mu.Unlock()
			if attempts > 0 {
				h.r.Count("status_list_refresh_attempts_observed", 1)
			}
			if attempts > 0 && c.cached != "none" && after == before {
				h.r.Count("status_list_refresh_rejected_cached_copy_kept", 1)
			}
			switch {
			case c.second.usable < 0 && after != before:
				h.stateViolation(e, in, fmt.Sprintf("the status list host's answer (%s) cannot be used, but the stored copy of the list changed", c.second.name), before, after)
			case after != before && (served == "" || afterRaw != served):
				h.stateViolation(e, in, fmt.Sprintf("after the refresh (%s) the stored copy is neither the copy from before nor the list the host served", c.second.name), before, after)
			}
			if firstErr != nil {
				return firstErr
			}
			if attempts > 0 && after == before && c.second.usable <= 0 {
				return errors.New("refresh not accepted, stored copy unchanged")
			}
			return nil
		}}
	return e
}

// stateViolation reports that stored state changed although the input was rejected (for entry points that compare state inside their call).
func (h *harness) stateViolation(e *entry, in input, what, before, after string) {
	path := h.persist(e, in, "state")
	h.r.Violation("C19/state/"+e.name, fmt.Sprintf("%s: %s: %s -> %s", e.name, what, before, after),
		map[string]any{"entry": e.name, "mutations": in.ops, "input_file": path, "input": trunc(in.data, 4000), "before": before, "after": after})
}

// parallelEmit hands the inputs of one entry point to n workers (for entry points whose cases do not share state). wait returns when all were evaluated.
func parallelEmit(n int, emit func(input)) (func(input), func()) {
	ch := make(chan input)
	done := make(chan struct{})
	for i := 0; i < n; i++ {
		go func() {
			for in := range ch {
				emit(in)
			}
			done <- struct{}{}
		}()
	}
	return func(in input) { ch <- in }, func() {
		close(ch)
		for i := 0; i < n; i++ {
			<-done
		}
	}
}
