package c19

import (
	"context"
	"encoding/base64"
	"encoding/json"
	"fmt"
	"io"
	"os"
	"path/filepath"
	"runtime"
	"strconv"
	"strings"
	"sync/atomic"
	"time"

	"github.com/nuts-foundation/go-stoabs"
	"github.com/nuts-foundation/nuts-node/crypto/hash"
	"github.com/nuts-foundation/nuts-node/network/dag"
	"github.com/sirupsen/logrus"
	"verif/lib/dagx"
	"verif/lib/jmut"
	"verif/lib/worker"
)

// ---- transactions received in a given DAG state -----------------------------------------------------------------------------
// dag.State.Add (what the v2 protocol calls for every transaction of a TransactionList) is an entry point whose input is a sequence:
// which checks a transaction meets depends on what the DAG already holds. The in-process entry "dag.State.Add" feeds one non-empty DAG;
// here the cases are (DAG state: empty - a node that just joined -, root only, chain, fork) x (relation of the transaction to that state:
// root transaction, child of the heads, child of an inner transaction, unknown / duplicated / partly unknown prevs, replay) x
// (lamport clock: the correct one, its neighbours, tree page boundaries, powers of two, 2^31 and 2^32 neighbours) x (payload supplied, absent, other).
// After the Add the scenario goes on as the node would: XOR/IBLT queries at several clocks, a correct child of what was accepted, a restart on the same store.
// The scenarios run in a worker process: a handler that does not return keeps the DAG write lock and may allocate without bound. Observed events per
// scenario: returned (accepted/rejected + state digest before/after) | process exit (panic) | watchdog expiry | allocation budget exceeded while the
// scenario had not returned. The latter is a logical event (bytes allocated by the process since the scenario began, runtime.MemStats.TotalAlloc), not a timing.

const dagSeqEntry = "dag.State.sequence"

type dagScenario struct {
	I       int      `json:"i"`
	Prefix  string   `json:"prefix"`
	Shape   string   `json:"shape"`
	Ops     []string `json:"ops"`
	Tx      string   `json:"tx"`
	Payload string   `json:"payload"` // base64; "-" = not supplied
	Valid   bool     `json:"valid,omitempty"`
}

type dagPrefixes map[string][]txLine

type dagSeqEnv struct {
	dir    string
	db     stoabs.KVStore
	state  dag.State
	prefix string
	base   string
}

func openDagSeqState(dir string) (stoabs.KVStore, dag.State) {
	db, err := dagx.OpenStore(dir, false)
	if err != nil {
		panic(err)
	}
	st := dagx.NewState(db, dag.NewPrevTransactionsVerifier(), dag.NewTransactionSignatureVerifier(stubKeyResolver{}))
	if err := st.Start(); err != nil {
		panic(err)
	}
	return db, st
}

func dagSeqDigest(st dag.State, ref hash.SHA256Hash) string {
	x, c := st.XOR(dag.MaxLamportClock)
	n := 0
	for _, d := range st.Diagnostics() {
		if d.Name() == "transaction_count" {
			n, _ = strconv.Atoi(fmt.Sprint(d.Result()))
		}
	}
	present, _ := st.IsPresent(context.Background(), ref)
	return fmt.Sprintf("xor=%s lc=%d n=%d present=%v", x, c, n, present)
}

// dagSeqWorker args: dir, start index, allocation budget in MiB, ["single"].
func dagSeqWorker(args []string) int {
	dir := args[0]
	start, _ := strconv.Atoi(args[1])
	budgetMiB, _ := strconv.Atoi(args[2])
	single := len(args) > 3 && args[3] == "single"
	logrus.SetLevel(logrus.ErrorLevel)
	logrus.SetOutput(io.Discard)
	var prefixes dagPrefixes
	data, err := os.ReadFile(filepath.Join(dir, "prefixes.json"))
	if err != nil || json.Unmarshal(data, &prefixes) != nil {
		fmt.Println("worker: cannot read prefixes", err)
		return 3
	}
	led := worker.OpenLedger(filepath.Join(dir, "ledger"))
	lines := worker.ReadLedger(filepath.Join(dir, "scenarios.jsonl"))

	// monitor: allocation budget and watchdog of the open scenario
	var open atomic.Int64 // scenario index + 1, 0 = none
	var alloc0 atomic.Uint64
	var t0 atomic.Int64
	open.Store(0)
	go func() {
		var ms runtime.MemStats
		for {
			time.Sleep(50 * time.Millisecond)
			i := open.Load()
			if i == 0 {
				continue
			}
			runtime.ReadMemStats(&ms)
			if i != open.Load() {
				continue
			}
			if d := ms.TotalAlloc - alloc0.Load(); ms.TotalAlloc > alloc0.Load() && d > uint64(budgetMiB)<<20 {
				led.Log("alloc %d %d", i-1, d>>20)
				os.Exit(5)
			}
			if time.Since(time.Unix(0, t0.Load())) > watchdog {
				led.Log("end %d T", i-1)
				os.Exit(4)
			}
		}
	}()

	envN := 0
	var env *dagSeqEnv
	openEnv := func(prefix string) *dagSeqEnv {
		envN++
		d := filepath.Join(dir, fmt.Sprintf("state-%d", envN))
		_ = os.MkdirAll(d, 0o755)
		db, st := openDagSeqState(d)
		for _, l := range prefixes[prefix] {
			if err := st.Add(context.Background(), l.tx(), l.payload()); err != nil {
				panic(fmt.Sprintf("prefix %s: %v", prefix, err))
			}
		}
		return &dagSeqEnv{dir: d, db: db, state: st, prefix: prefix, base: dagSeqDigest(st, hash.EmptyHash())}
	}
	closeEnv := func(e *dagSeqEnv) {
		_ = e.state.Shutdown()
		_ = e.db.Close(context.Background())
		_ = os.RemoveAll(e.dir)
	}
	for _, ln := range lines {
		var sc dagScenario
		if err := json.Unmarshal([]byte(ln), &sc); err != nil {
			fmt.Println("worker: bad scenario", err)
			return 3
		}
		if sc.I < start || (single && sc.I > start) {
			continue
		}
		if env == nil || env.prefix != sc.Prefix || dagSeqDigest(env.state, hash.EmptyHash()) != env.base {
			if env != nil {
				closeEnv(env)
			}
			env = openEnv(sc.Prefix)
		}
		var ms runtime.MemStats
		runtime.ReadMemStats(&ms)
		alloc0.Store(ms.TotalAlloc)
		t0.Store(time.Now().UnixNano())
		led.Log("begin %d", sc.I)
		open.Store(int64(sc.I) + 1)
		verdict, changed, detail := dagSeqScenario(env, sc)
		open.Store(0)
		led.Log("end %d %s %s | %s", sc.I, verdict, changed, strings.ReplaceAll(detail, "\n", " "))
	}
	if env != nil {
		closeEnv(env)
	}
	led.Log("done")
	return 0
}

func dagSeqScenario(env *dagSeqEnv, sc dagScenario) (verdict, changed, detail string) {
	ctx := context.Background()
	tx, err := dag.ParseTransaction([]byte(sc.Tx))
	if err != nil {
		return "R", "same", "parse: " + err.Error()
	}
	useTx(tx)
	var payload []byte
	if sc.Payload != "-" {
		payload, _ = base64.StdEncoding.DecodeString(sc.Payload)
	}
	before := dagSeqDigest(env.state, tx.Ref())
	addErr := env.state.Add(ctx, tx, payload)
	// the node goes on: set reconciliation queries, more transactions, a restart
	clocks := []uint32{0, 1, tx.Clock(), tx.Clock() + 1, tx.Clock() - 1, 511, 512, 1 << 31, dag.MaxLamportClock}
	for _, c := range clocks {
		_, _ = env.state.XOR(c)
		_, _ = env.state.IBLT(c)
	}
	_, _ = env.state.FindBetweenLC(ctx, 0, dag.MaxLamportClock)
	_, _ = env.state.FindBetweenLC(ctx, tx.Clock(), tx.Clock()+1)
	_, _ = env.state.GetTransaction(ctx, tx.Ref())
	_, _ = env.state.Head(ctx)
	_ = env.state.Verify(ctx)
	after := dagSeqDigest(env.state, tx.Ref())
	verdict, changed = "A", "same"
	if addErr != nil {
		verdict, detail = "R", addErr.Error()
	}
	if before != after {
		changed = "changed " + before + " -> " + after
	}
	if addErr == nil && before != after {
		// a correct child of the accepted transaction (signed by the same hostile party), then a restart on the same store
		if tx.Clock() < dag.MaxLamportClock {
			pl := []byte("child of accepted")
			child, _ := atk.jwsFromTree(jmut.MustParse(txSeed([]string{tx.Ref().String()}, int(tx.Clock())+1, hash.SHA256Sum(pl).String(), true, false)))
			if ctxTx, err := dag.ParseTransaction(child); err == nil {
				if err := env.state.Add(ctx, ctxTx, pl); err != nil {
					detail += " [child: " + err.Error() + "]"
				}
			}
		}
		d1 := dagSeqDigest(env.state, tx.Ref())
		_ = env.state.Shutdown()
		_ = env.db.Close(ctx)
		env.db, env.state = openDagSeqState(env.dir)
		if d2 := dagSeqDigest(env.state, tx.Ref()); d2 != d1 {
			detail += " [after restart: " + d1 + " -> " + d2 + "]"
		}
		for _, c := range clocks {
			_, _ = env.state.XOR(c)
			_, _ = env.state.IBLT(c)
		}
	}
	return verdict, changed, detail
}

// buildDagScenarios: pure function of (seed, tier) apart from key material.
func buildDagScenarios(h *harness) (dagPrefixes, []dagScenario) {
	rnd := h.r.Rand("dagseq")
	key := dagx.NewKey("")
	now := time.Unix(1700000000, 0)
	mk := func(name string, prevs ...dag.Transaction) (dag.Transaction, txLine) {
		pl := []byte("dagseq " + name)
		tx := dagx.NewTx(key, true, pl, "application/x-verif", now, nil, prevs...)
		return tx, line(tx, pl)
	}
	root, rootL := mk("root")
	c1, c1L := mk("c1", root)
	c2, c2L := mk("c2", c1)
	c3, c3L := mk("c3", c2)
	fa, faL := mk("fa", root)
	fb, fbL := mk("fb", root)
	_ = c3
	prefixes := dagPrefixes{"empty": nil, "root": {rootL}, "chain": {rootL, c1L, c2L, c3L}, "fork": {rootL, faL, fbL}}
	type pinfo struct {
		name  string
		heads []dag.Transaction
		inner dag.Transaction // a transaction that is not a head (nil: none)
		last  txLine
	}
	infos := []pinfo{{name: "empty"}, {name: "root", heads: []dag.Transaction{root}, last: rootL}, {name: "chain", heads: []dag.Transaction{c3}, inner: c1, last: c3L}, {name: "fork", heads: []dag.Transaction{fa, fb}, inner: root, last: fbL}}

	fixed := []uint64{0, 1, 2, 3, 511, 512, 513, 1023, 1024, 65535, 65536, 1<<31 - 1, 1 << 31, 1<<31 + 1, 1<<32 - 2, 1<<32 - 1}
	if h.r.Thorough() {
		for k := 3; k <= 31; k++ {
			fixed = append(fixed, 1<<k-1, 1<<k, 1<<k+1)
		}
		for i := 0; i < 40; i++ {
			fixed = append(fixed, uint64(rnd.Uint32()))
		}
	}
	few := []uint64{0, 1 << 31, 1<<32 - 1}
	payload := []byte("dagseq hostile payload")
	ph := hash.SHA256Sum(payload).String()
	unknown := hash.SHA256Sum([]byte("dagseq unknown prev")).String()
	var out []dagScenario
	add := func(p pinfo, shape string, prevs []string, lc uint64, lcLabel string, pl string, valid bool) {
		data, _ := atk.jwsFromTree(jmut.MustParse(txSeed(prevs, int(lc), ph, true, false)))
		plName := map[string]string{"-": "absent"}[pl]
		if plName == "" {
			plName = "supplied"
			if pl != base64.StdEncoding.EncodeToString(payload) {
				plName = "other"
			}
		}
		sc := dagScenario{I: len(out), Prefix: p.name, Shape: shape + "-on-" + p.name, Tx: string(data), Payload: pl, Valid: valid}
		if !valid {
			sc.Ops = []string{"dagseq:" + shape + "-on-" + p.name + "@/prevs", "dagseq:lc=" + lcLabel + "@/h/lc", "dagseq:payload-" + plName + "@/payload"}
		}
		out = append(out, sc)
	}
	good := base64.StdEncoding.EncodeToString(payload)
	label := func(lc, correct uint64) string {
		switch {
		case lc == correct:
			return "correct"
		case lc+1 == correct:
			return "correct-1"
		case lc == correct+1:
			return "correct+1"
		}
		return strconv.FormatUint(lc, 10)
	}
	for _, p := range infos {
		refs := func(txs ...dag.Transaction) []string {
			var r []string
			for _, t := range txs {
				r = append(r, t.Ref().String())
			}
			return r
		}
		var correct uint64
		for _, t := range p.heads {
			if uint64(t.Clock())+1 > correct {
				correct = uint64(t.Clock()) + 1
			}
		}
		sweep := func(shape string, prevs []string, correct uint64, clocks []uint64) {
			seen := map[uint64]bool{}
			all := append([]uint64{correct, correct + 1}, clocks...)
			if correct > 0 {
				all = append(all, correct-1)
			}
			for _, lc := range all {
				if seen[lc] || lc > 1<<32-1 {
					continue
				}
				seen[lc] = true
				add(p, shape, prevs, lc, label(lc, correct), good, false)
			}
			add(p, shape, prevs, correct, "correct", "-", false)
			add(p, shape, prevs, correct, "correct", base64.StdEncoding.EncodeToString([]byte("some other payload")), false)
		}
		if len(p.heads) > 0 {
			// the known-good instance of the state: a correct child of the heads
			add(p, "child-of-heads", refs(p.heads...), correct, "correct", good, true)
			sweep("child-of-heads", refs(p.heads...), correct, fixed)
			sweep("duplicated-prev", append(refs(p.heads...), p.heads[0].Ref().String()), correct, few)
			sweep("known-and-unknown-prev", append(refs(p.heads...), unknown), correct, few)
			if len(p.heads) > 1 {
				sweep("child-of-one-head", refs(p.heads[0]), uint64(p.heads[0].Clock())+1, few)
			}
			// replay of what the DAG holds
			out = append(out, dagScenario{I: len(out), Prefix: p.name, Shape: "replay-on-" + p.name, Tx: p.last.Data, Payload: p.last.Payload, Ops: []string{"dagseq:replay-on-" + p.name + "@"}})
			out = append(out, dagScenario{I: len(out), Prefix: p.name, Shape: "replay-on-" + p.name, Tx: rootL.Data, Payload: "-", Ops: []string{"dagseq:replay-on-" + p.name + "@", "dagseq:payload-absent@/payload"}})
		} else {
			add(p, "root-tx", []string{}, 0, "correct", good, true)
		}
		if p.inner != nil {
			sweep("child-of-inner", refs(p.inner), uint64(p.inner.Clock())+1, fixed)
		}
		sweep("root-tx", []string{}, 0, fixed)
		sweep("unknown-prev", []string{unknown}, 0, few)
	}
	return prefixes, out
}

func (sc dagScenario) input() input {
	return input{data: []byte(sc.Tx), ops: sc.Ops, seed: sc.Prefix}
}

// dagSequences runs the scenarios in worker processes and evaluates their ledgers.
func dagSequences(h *harness) {
	prefixes, scs := buildDagScenarios(h)
	dir, err := os.MkdirTemp("", "c19-dagseq-")
	if err != nil {
		h.r.Fatalf("tempdir: %v", err)
	}
	defer os.RemoveAll(dir)
	pj, _ := json.Marshal(prefixes)
	var sb strings.Builder
	for _, sc := range scs {
		b, _ := json.Marshal(sc)
		sb.Write(b)
		sb.WriteByte('\n')
	}
	write := func(d string) {
		_ = os.WriteFile(filepath.Join(d, "prefixes.json"), pj, 0o644)
		_ = os.WriteFile(filepath.Join(d, "scenarios.jsonl"), []byte(sb.String()), 0o644)
	}
	write(dir)
	const budgetMiB = 512
	e := &entry{name: dagSeqEntry}
	st := h.st(e.name)
	// repro runs scenario i alone in a fresh worker with a larger allocation budget: "alloc" | "T" | "" (returned) | "exit"
	repro := func(i int) string {
		rdir, err := os.MkdirTemp("", "c19-dagseq-repro-")
		if err != nil {
			return ""
		}
		defer os.RemoveAll(rdir)
		write(rdir)
		res := worker.Run("c19dag", []string{rdir, strconv.Itoa(i), strconv.Itoa(3 * budgetMiB), "single"}, 3*time.Minute)
		for _, ln := range worker.ReadLedger(filepath.Join(rdir, "ledger")) {
			switch {
			case strings.HasPrefix(ln, fmt.Sprintf("alloc %d ", i)):
				return "alloc"
			case strings.HasPrefix(ln, fmt.Sprintf("end %d T", i)):
				return "T"
			case strings.HasPrefix(ln, fmt.Sprintf("end %d ", i)):
				return ""
			}
		}
		if res.TimedOut {
			return "T"
		}
		return "exit"
	}
	count := func(sc dagScenario) {
		st.mu.Lock()
		st.Inputs++
		if sc.Valid {
			st.Seeds++
		}
		for _, op := range sc.Ops {
			st.opsPtrs[op] = struct{}{}
			st.operators[strings.SplitN(op, "@", 2)[0]] = struct{}{}
		}
		st.mu.Unlock()
		h.r.Case(e.name+"|"+strings.Join(sc.Ops, "+"), len(sc.Ops) > 0)
	}
	start, exits := 0, 0
	for start < len(scs) {
		res := worker.Run("c19dag", []string{dir, strconv.Itoa(start), strconv.Itoa(budgetMiB)}, time.Duration(h.r.Pick(4, 20))*time.Minute)
		lines := worker.ReadLedger(filepath.Join(dir, "ledger"))
		_ = os.Remove(filepath.Join(dir, "ledger"))
		done := false
		open, lastEnd := -1, start-1
		allocMiB, expired := "", false
		for _, ln := range lines {
			switch {
			case ln == "done":
				done = true
			case strings.HasPrefix(ln, "begin "):
				open, _ = strconv.Atoi(ln[6:])
			case strings.HasPrefix(ln, "alloc "):
				if f := strings.Fields(ln); len(f) == 3 {
					allocMiB = f[2]
				}
			case strings.HasPrefix(ln, "end "):
				parts := strings.SplitN(ln, " ", 4)
				if len(parts) >= 3 && parts[2] == "T" {
					expired = true
					continue
				}
				i, _ := strconv.Atoi(parts[1])
				h.dagSeqResult(st, scs[i], ln, count)
				lastEnd, open = i, -1
			}
		}
		if done {
			break
		}
		if open < 0 {
			if res.TimedOut && lastEnd >= start {
				h.r.Inconclusive(fmt.Sprintf("%s: worker stalled between scenarios after scenario %d; restarted", e.name, lastEnd))
				start = lastEnd + 1
				continue
			}
			h.r.Fatalf("%s: worker ended (exit=%d signal=%v timeout=%v) outside a scenario: %s", e.name, res.ExitCode, res.Signal, res.TimedOut, tailStr(res.Output, 1500))
		}
		sc := scs[open]
		count(sc)
		key := "C19/hang/" + e.name + "/" + sc.Shape
		switch {
		case allocMiB != "" || expired:
			st.mu.Lock()
			st.Timeouts++
			st.mu.Unlock()
			h.r.Count("watchdog_expiries", 1)
			h.mu.Lock()
			known := h.hangs[key]
			h.hangs[key] = true
			h.mu.Unlock()
			if known {
				break
			}
			what := "the scenario did not return within " + watchdog.String()
			if allocMiB != "" {
				what = fmt.Sprintf("the scenario had not returned when the process had allocated %s MiB since the scenario began (budget %d MiB)", allocMiB, budgetMiB)
			}
			again, kinds := 0, []string{}
			for k := 0; k < 3; k++ {
				r := repro(sc.I)
				kinds = append(kinds, r)
				if r != "alloc" && r != "T" {
					break
				}
				again++
			}
			if again < 3 {
				h.r.Inconclusive(fmt.Sprintf("%s: %s, but it returned when run alone in a worker of its own (%v; mutations %v)", e.name, what, kinds, sc.Ops))
				break
			}
			st.mu.Lock()
			st.Hangs++
			st.mu.Unlock()
			path := h.persist(e, sc.input(), "hang-"+sc.Shape)
			h.r.Violation(key, fmt.Sprintf("%s: %s; reproduced 3x in a worker of its own with three times the budget (%v); DAG state %q, mutations %v", e.name, what, kinds, sc.Prefix, sc.Ops),
				map[string]any{"entry": e.name, "dag_state": sc.Prefix, "shape": sc.Shape, "mutations": sc.Ops, "transaction": sc.Tx, "payload_base64": sc.Payload, "input_file": path,
					"allocation_budget_MiB": budgetMiB, "reproductions": kinds})
		case res.TimedOut:
			st.mu.Lock()
			st.Timeouts++
			st.mu.Unlock()
			h.r.Inconclusive(fmt.Sprintf("%s: worker did not finish within its time limit at scenario %d (%v)", e.name, open, sc.Ops))
		default:
			top, repo := stackTextSite(res.Output)
			if i := strings.Index(res.Output, "fatal error:"); i >= 0 && !strings.Contains(res.Output, "panic:") {
				top = "fatal-error"
			}
			h.r.Count("child_process_exits", 1)
			h.reportPanic(e, st, sc.input(), outcome{panicked: true, pfunc: top, repo: repo, pval: firstLineWith(res.Output, "panic:", "fatal error:") + fmt.Sprintf(" [worker process exit %d; DAG state %s]", res.ExitCode, sc.Prefix), stack: tailStr(res.Output, 3000)})
		}
		exits++
		start = open + 1
		if exits >= 30 {
			h.r.Inconclusive(fmt.Sprintf("%s: %d worker exits, remaining %d scenarios not evaluated", e.name, exits, len(scs)-start))
			break
		}
	}
}

// dagSeqResult evaluates one "end" ledger line: end <i> <A|R> <same|changed ...> | detail
func (h *harness) dagSeqResult(st *stats, sc dagScenario, ln string, count func(dagScenario)) {
	parts := strings.SplitN(ln, " ", 4)
	rest := ""
	if len(parts) == 4 {
		rest = parts[3]
	}
	count(sc)
	st.mu.Lock()
	if parts[2] == "A" {
		st.Accepted++
	} else {
		st.Rejected++
	}
	st.StateCheck++
	st.mu.Unlock()
	if sc.Valid && parts[2] != "A" {
		h.r.Fatalf("%s: the valid scenario %s is rejected: %s", dagSeqEntry, sc.Shape, rest)
	}
	if parts[2] == "R" && strings.HasPrefix(rest, "changed") {
		e := &entry{name: dagSeqEntry}
		path := h.persist(e, sc.input(), "state")
		h.r.Violation("C19/state/"+dagSeqEntry, fmt.Sprintf("%s rejected the transaction but the DAG state changed: %s; DAG state %q, mutations %v", dagSeqEntry, rest, sc.Prefix, sc.Ops),
			map[string]any{"entry": dagSeqEntry, "dag_state": sc.Prefix, "mutations": sc.Ops, "transaction": sc.Tx, "input_file": path, "ledger": ln})
	}
	if len(sc.Ops) > 0 && sc.I%37 == 0 {
		h.r.Sample(map[string]any{"entry": dagSeqEntry, "dag_state": sc.Prefix, "mutations": sc.Ops, "observed": parts[2] + " " + trunc([]byte(rest), 200)})
	}
}
