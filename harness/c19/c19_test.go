// Check C19: untrusted input never crashes or hangs the node.
//
// Every parsing/validation entry point that faces the network or the public API is driven with
// structure-aware mutations of VALID instances (systematic single-mutation sweep over every JSON
// member x core operator, then seeded random multi-mutation). Observed event per (entry, input):
// returned error | panic (recovered, keyed by the top non-runtime function of the panicking stack)
// | watchdog expiry (a hang only when reproduced 3x alone). Entry points whose handlers run in
// background goroutines (v2 protocol Handle) run in a worker child process that logs the input
// before handling it: the process exit is the observed event. HTTP entry points run against a
// complete in-process node; a handler panic (net/http recovers it per connection and logs
// "http: panic serving") is detected through the captured server log + the aborted response.
// Stateful entry points: a state digest is taken before/after; rejected input must leave it unchanged.
package c19

import (
	"errors"
	"fmt"
	"os"
	"path/filepath"
	"runtime"
	"runtime/pprof"
	"sort"
	"strings"
	"sync"
	"testing"
	"time"

	"verif/lib/ev"
	"verif/lib/jmut"
	"verif/lib/worker"
)

func TestMain(m *testing.M) {
	worker.Register("c19v2", v2Worker)
	worker.Register("c19dag", dagSeqWorker)
	worker.Register("c19iso", isoWorker)
	worker.Main(m)
}

const watchdog = 20 * time.Second

// longWatchdog is the budget of the last, solitary rerun that separates "slow" from "does not terminate".
const longWatchdog = 150 * time.Second

// input is one hostile input for an entry point.
type input struct {
	data  []byte       // the hostile bytes (what is written to the replay dir)
	ops   []string     // "operator@pointer" of the mutations that produced it (empty: an unmodified valid seed)
	seed  string       // name of the valid instance it was derived from
	aux   any          // prepared form for the call (optional)
	valid bool         // an unmodified valid instance: must be accepted, else the harness is broken
	regen func() input // valid instances that carry dates: builds the same instance afresh (a queued one can have expired on a loaded machine)
}

func (in input) class() string {
	if len(in.ops) == 0 {
		return "valid-seed"
	}
	op := in.ops[0]
	if i := strings.IndexByte(op, '@'); i >= 0 {
		op = op[:i]
	}
	return op
}

// entry is one monitored entry point.
type entry struct {
	name   string
	gen    func(h *harness, e *entry, emit func(input)) // deterministic in (seed, tier)
	call   func(in input) error                         // nil = accepted, error = rejected
	digest func() string                                // state digest for stateful entry points (nil: stateless)
	serial bool                                         // entry must not run concurrently with others (it swaps process-wide seams)
	// hangGroup: entry points that drive the same code underneath (e.g. the response cache). A hang there leaves a goroutine spinning and a lock held;
	// once one hang of the group is confirmed, the entry points of the group stop feeding inputs (further expiries are only counted).
	hangGroup string
	// isolate: the calls run in a child process (iso_test.go): input numbers can become allocation sizes there, and a failed allocation / exhausted stack
	// is a fatal error of the runtime that no recover() sees. The child's exit while an input is outstanding is attributed to that input.
	isolate bool
}

type stats struct {
	mu         sync.Mutex
	Inputs     int            `json:"inputs"`
	Accepted   int            `json:"accepted"`
	Rejected   int            `json:"rejected"`
	Panics     int            `json:"panics"`
	Timeouts   int            `json:"watchdog_expiries"`
	Hangs      int            `json:"hangs_confirmed"`
	StateCheck int            `json:"state_digests_compared"`
	Skipped    int            `json:"skipped_after_hang"`
	Slow       int            `json:"slow_inputs"`
	OpsPtrs    int            `json:"distinct_operator_x_pointer"`
	Operators  int            `json:"distinct_operators"`
	Seeds      int            `json:"valid_seeds"`
	WallMs     int64          `json:"wall_ms"`
	SlowestMs  int64          `json:"slowest_call_ms"`
	PanicSites map[string]int `json:"panic_sites,omitempty"`
	opsPtrs    map[string]struct{}
	operators  map[string]struct{}
	aborted    bool
	SlowestOps []string `json:"slowest_call_mutations,omitempty"`
}

type harness struct {
	r       *ev.Run
	t       *testing.T
	alone   sync.RWMutex // reproductions of a watchdog expiry hold it exclusively ("alone on an idle worker")
	mu      sync.Mutex
	stats   map[string]*stats
	current string // directory of the per-entry "current input" files
	hangs   map[string]bool
}

func (h *harness) st(name string) *stats {
	h.mu.Lock()
	defer h.mu.Unlock()
	s := h.stats[name]
	if s == nil {
		s = &stats{PanicSites: map[string]int{}, opsPtrs: map[string]struct{}{}, operators: map[string]struct{}{}}
		h.stats[name] = s
	}
	return s
}

// budget returns (sweep cap, random inputs) for an entry of the given cost class.
// mediumCost lists the entry points whose calls take tens of milliseconds under the race detector (JSON-LD-free but several
// parse/marshal round trips per call): their thorough tier gets fewer random inputs so that the tier stays within its budget.
var mediumCost = map[string]bool{"pe.Match.hostileVC": true, "pe.Match.hostileJWTVC": true, "didjwk.Resolve": true, "pe.Envelope.Parse-Validate": true, "pe.Envelope.JWT-Validate": true,
	"didnuts.document": true, "didweb.document": true, "pe.Definition.Unmarshal-Match": true, "pe.Definition.Parse-Match": true, "pe.Grid.Match-Build-Validate": true}

// budget returns (sweep cap, random inputs) for an entry of the given cost class.
func (h *harness) budgetFor(name string, slow bool) (int, int) {
	sweep, random := h.budget(slow)
	if h.r.Thorough() && !slow && mediumCost[name] {
		random = 7000
	}
	return sweep, random
}

func (h *harness) budget(slow bool) (int, int) {
	if h.r.Thorough() {
		if slow {
			return 1000, 800
		}
		return 1 << 30, 20000
	}
	if slow {
		return 160, 110
	}
	return 600, 400
}

type outcome struct {
	err      error
	panicked bool
	pval     string
	pfunc    string // top non-runtime function
	repo     string // first nuts-node function on the stack
	stack    string
	timeout  bool
}

// guarded runs fn in its own goroutine with recover and the watchdog.
func guarded(fn func() error, d time.Duration) outcome {
	ch := make(chan outcome, 1)
	go func() {
		defer func() {
			if p := recover(); p != nil {
				o := outcome{panicked: true, pval: fmt.Sprint(p)}
				o.pfunc, o.repo, o.stack = panicSite()
				ch <- o
			}
		}()
		ch <- outcome{err: fn()}
	}()
	t := time.NewTimer(d)
	defer t.Stop()
	select {
	case o := <-ch:
		return o
	case <-t.C:
		return outcome{timeout: true}
	}
}

// panicSite inspects the stack of the panicking goroutine (called from the deferred recover handler).
func panicSite() (top, repo, text string) {
	pcs := make([]uintptr, 64)
	n := runtime.Callers(3, pcs) // skip Callers, panicSite, the deferred func
	frames := runtime.CallersFrames(pcs[:n])
	var sb strings.Builder
	for {
		f, more := frames.Next()
		fn := f.Function
		if fn != "" {
			fmt.Fprintf(&sb, "%s\n", fn)
			isRuntime := strings.HasPrefix(fn, "runtime.") || strings.HasPrefix(fn, "runtime/")
			if top == "" && !isRuntime {
				top = shortFunc(fn)
			}
			if repo == "" && strings.HasPrefix(fn, "github.com/nuts-foundation/nuts-node/") {
				repo = shortFunc(fn)
			}
		}
		if !more || strings.HasPrefix(fn, "verif/") {
			break
		}
	}
	if top == "" {
		top = "unknown"
	}
	return top, repo, sb.String()
}

// shortFunc turns a fully qualified function name into a stable short form: last package element + function, no generics instantiation.
func shortFunc(fn string) string {
	if i := strings.Index(fn, "[...]"); i >= 0 {
		fn = fn[:i] + fn[i+5:]
	}
	if i := strings.LastIndexByte(fn, '/'); i >= 0 {
		fn = fn[i+1:]
	}
	return fn
}

// stackTextSite extracts the top non-runtime function and the first nuts-node function from a textual Go stack trace
// (child process crash output, net/http "panic serving" log).
func stackTextSite(text string) (top, repo string) {
	lines := strings.Split(text, "\n")
	start := -1
	for i, ln := range lines {
		if strings.HasPrefix(ln, "goroutine ") && strings.Contains(ln, "[running]") {
			start = i + 1
			break
		}
	}
	if start < 0 {
		return "unknown", "" // no stack of a running goroutine in the text (output cut off)
	}
	for _, ln := range lines[start:] {
		if ln == "" {
			if top != "" {
				break
			}
			continue
		}
		if strings.HasPrefix(ln, "\t") || strings.HasPrefix(ln, " ") || strings.HasPrefix(ln, "created by") || strings.HasPrefix(ln, "goroutine ") {
			continue
		}
		fn := ln
		if i := strings.LastIndexByte(fn, '('); i > 0 {
			fn = fn[:i]
		} else {
			continue // not a "function(args)" line
		}
		if strings.ContainsAny(fn, " =\"") {
			continue // a log line that got between the stack lines
		}
		if fn == "panic" || strings.HasPrefix(fn, "runtime.") || strings.HasPrefix(fn, "runtime/") || strings.HasPrefix(fn, "net/http.(*conn).serve") {
			continue
		}
		if top == "" {
			top = shortFunc(fn)
		}
		if repo == "" && strings.HasPrefix(fn, "github.com/nuts-foundation/nuts-node/") {
			repo = shortFunc(fn)
			break
		}
	}
	if top == "" {
		top = "unknown"
	}
	return
}

func (h *harness) persist(e *entry, in input, kind string) string {
	name := strings.Map(func(c rune) rune {
		if c >= 'a' && c <= 'z' || c >= 'A' && c <= 'Z' || c >= '0' && c <= '9' || c == '-' || c == '.' {
			return c
		}
		return '_'
	}, e.name+"-"+kind)
	path := filepath.Join(ev.Root(), "replay", "C19", name+".input")
	_ = os.WriteFile(path, in.data, 0o644)
	return path
}

func trunc(b []byte, n int) string {
	if len(b) > n {
		return string(b[:n]) + fmt.Sprintf("…(+%d bytes)", len(b)-n)
	}
	return string(b)
}

func (h *harness) reportPanic(e *entry, st *stats, in input, o outcome) {
	st.mu.Lock()
	st.Panics++
	st.PanicSites[o.pfunc]++
	st.mu.Unlock()
	h.r.Count("panics_observed", 1)
	path := h.persist(e, in, "panic-"+o.pfunc)
	h.r.Violation("C19/panic/"+e.name+"/"+o.pfunc,
		fmt.Sprintf("%s panicked in %s (first nuts-node frame %s): %s; input class %s, mutations %v", e.name, o.pfunc, o.repo, o.pval, in.class(), in.ops),
		map[string]any{"entry": e.name, "panic": o.pval, "function": o.pfunc, "repo_function": o.repo, "stack": o.stack, "mutations": in.ops, "seed_instance": in.seed,
			"input_file": path, "input": trunc(in.data, 4000)})
}

// one evaluates a single input.
func (h *harness) one(e *entry, st *stats, in input) {
	st.mu.Lock()
	if st.aborted {
		st.Skipped++
		st.mu.Unlock()
		return
	}
	st.Inputs++
	nth := st.Inputs // entry points may evaluate several inputs at a time (parallelEmit)
	if in.valid {
		st.Seeds++
	}
	for _, op := range in.ops {
		st.opsPtrs[op] = struct{}{}
		if i := strings.IndexByte(op, '@'); i >= 0 {
			op = op[:i]
		}
		st.operators[op] = struct{}{}
	}
	st.mu.Unlock()
	// the input goes to disk before the call (only the current one per entry point is kept; persisted under its own name on failure)
	_ = os.WriteFile(filepath.Join(h.current, e.name+".input"), in.data, 0o644)
	before := ""
	if e.digest != nil {
		before = e.digest()
	}
	h.alone.RLock()
	t0 := time.Now()
	o := guarded(func() error { return e.call(in) }, watchdog)
	el := time.Since(t0).Milliseconds()
	h.alone.RUnlock()
	st.mu.Lock()
	st.WallMs += el
	if el > st.SlowestMs {
		st.SlowestMs = el
		st.SlowestOps = in.ops
	}
	st.mu.Unlock()
	fingerprint := e.name + "|" + strings.Join(in.ops, "+")
	var hp httpPanic
	var cp childPanic
	if !o.panicked && !o.timeout && errors.As(o.err, &cp) {
		o = cp.o // panicked (recovered) in the child process of an isolated entry point, or the child ended while evaluating the input
	} else if !o.panicked && !o.timeout && errors.As(o.err, &hp) {
		// the handler panicked on the server side of the HTTP connection
		o = outcome{panicked: true, pval: firstLineWith(hp.report, "panic serving"), stack: tailStr(hp.report, 6000)}
		o.pfunc, o.repo = stackTextSite(hp.report)
	}
	switch {
	case o.panicked:
		h.reportPanic(e, st, in, o)
		h.r.Case(fingerprint, len(in.ops) > 0)
		return
	case o.timeout:
		st.mu.Lock()
		st.Timeouts++
		st.mu.Unlock()
		h.r.Count("watchdog_expiries", 1)
		h.confirmHang(e, st, in)
		h.r.Case(fingerprint, len(in.ops) > 0)
		return
	}
	st.mu.Lock()
	if o.err == nil {
		st.Accepted++
	} else {
		st.Rejected++
	}
	st.mu.Unlock()
	if in.valid && o.err != nil {
		// once more before calling the harness broken (a loaded machine can time a request out)
		again := in
		if in.regen != nil {
			again = in.regen()
		}
		if o2 := guarded(func() error { return e.call(again) }, watchdog); !o2.panicked && !o2.timeout && o2.err == nil {
			o = o2
		}
	}
	if in.valid && o.err != nil {
		h.r.Fatalf("entry %s: the valid instance %q is rejected (%v): mutations of it would be trivially rejected", e.name, in.seed, o.err)
	}
	if e.digest != nil {
		after := e.digest()
		st.mu.Lock()
		st.StateCheck++
		st.mu.Unlock()
		if o.err != nil && after != before {
			path := h.persist(e, in, "state")
			h.r.Violation("C19/state/"+e.name, fmt.Sprintf("%s rejected the input (%v) but the state digest changed: %s -> %s", e.name, o.err, before, after),
				map[string]any{"entry": e.name, "error": o.err.Error(), "mutations": in.ops, "input_file": path, "input": trunc(in.data, 4000), "before": before, "after": after})
		}
	}
	h.r.Case(fingerprint, len(in.ops) > 0)
	if len(in.ops) > 0 && nth%97 == 0 {
		res := "accepted"
		if o.err != nil {
			res = "rejected: " + trunc([]byte(o.err.Error()), 160)
		}
		h.r.Sample(map[string]any{"entry": e.name, "mutations": in.ops, "input": trunc(in.data, 300), "observed": res})
	}
}

// confirmHang reruns the input 3x while nothing else runs; only 3 further expiries make it a hang.
func (h *harness) confirmHang(e *entry, st *stats, in input) {
	key := "C19/hang/" + e.name + "/" + in.class()
	h.mu.Lock()
	known := h.hangs[key]
	if e.hangGroup != "" && h.hangs["group:"+e.hangGroup] {
		known = true
		st.mu.Lock()
		st.aborted = true
		st.mu.Unlock()
	}
	h.mu.Unlock()
	if known {
		return
	}
	h.alone.Lock()
	if e.hangGroup != "" {
		// another entry point of the group may have had its hang confirmed while this one waited for its turn
		h.mu.Lock()
		settled := h.hangs["group:"+e.hangGroup]
		h.mu.Unlock()
		if settled {
			h.alone.Unlock()
			st.mu.Lock()
			st.aborted = true
			st.mu.Unlock()
			return
		}
	}
	expired := 0
	for i := 0; i < 3; i++ {
		if o := guarded(func() error { return e.call(in) }, watchdog); o.timeout {
			expired++
		} else {
			break
		}
	}
	if expired == 3 {
		// slow is not stuck: one last run, still alone, with a budget of minutes. Only an input that does not return within that is reported as a hang.
		t0 := time.Now()
		if o := guarded(func() error { return e.call(in) }, longWatchdog); !o.timeout {
			h.alone.Unlock()
			h.mu.Lock()
			h.hangs[key] = true // settled for this (entry, input class): further expiries of the class are only counted
			h.mu.Unlock()
			st.mu.Lock()
			st.Slow++
			st.mu.Unlock()
			h.r.Count("slow_inputs", 1)
			h.r.Inconclusive(fmt.Sprintf("%s: slow input, no hang: exceeded %s four times but returned after %s when given %s alone (%d bytes, mutations %v)", e.name, watchdog, time.Since(t0).Round(time.Second), longWatchdog, len(in.data), in.ops))
			h.persist(e, in, "slow-"+in.class())
			return
		}
	}
	if expired == 3 && e.hangGroup != "" {
		// settled for the whole group before the next entry point of the group gets its turn
		h.mu.Lock()
		h.hangs["group:"+e.hangGroup] = true
		h.mu.Unlock()
	}
	h.alone.Unlock()
	if expired < 3 {
		h.r.Inconclusive(fmt.Sprintf("%s: watchdog expired once but the input returned when rerun alone (mutations %v)", e.name, in.ops))
		return
	}
	h.mu.Lock()
	h.hangs[key] = true
	h.mu.Unlock()
	st.mu.Lock()
	st.Hangs++
	if st.Hangs >= 2 || e.hangGroup != "" {
		st.aborted = true // every confirmed hang leaves 4 spinning goroutines behind: stop feeding this entry
	}
	st.mu.Unlock()
	path := h.persist(e, in, "hang-"+in.class())
	h.r.Violation(key, fmt.Sprintf("%s did not return within %s, reproduced 3x alone; input class %s, mutations %v", e.name, watchdog, in.class(), in.ops),
		map[string]any{"entry": e.name, "mutations": in.ops, "seed_instance": in.seed, "input_file": path, "input": trunc(in.data, 4000)})
}

// jsonSeed is a named valid JSON instance.
type jsonSeed struct {
	name string
	tree *jmut.Node
}

func seedsOf(pairs ...string) []jsonSeed {
	var out []jsonSeed
	for i := 0; i+1 < len(pairs); i += 2 {
		out = append(out, jsonSeed{pairs[i], jmut.MustParse(pairs[i+1])})
	}
	return out
}

// genJSON is the standard generator: valid seeds, systematic sweep (capped by an evenly spread, seeded sample), truncations, random multi-mutation.
// wrap turns a mutant into the entry's input (e.g. signs it into a JWS); it may return false to drop it.
func genJSON(seeds []jsonSeed, slow bool, wrap func(s jsonSeed, m jmut.Mutant) (input, bool)) func(h *harness, e *entry, emit func(input)) {
	return func(h *harness, e *entry, emit func(input)) {
		sweepCap, nRandom := h.budgetFor(e.name, slow)
		rnd := h.r.Rand("gen/" + e.name)
		for _, s := range seeds {
			in, ok := wrap(s, jmut.Mutant{Tree: s.tree, Data: s.tree.Bytes()})
			if ok {
				in.valid, in.seed = true, s.name
				s := s
				in.regen = func() input {
					fresh, _ := wrap(s, jmut.Mutant{Tree: s.tree, Data: s.tree.Bytes()})
					fresh.valid, fresh.seed = true, s.name
					return fresh
				}
				emit(in)
			}
		}
		perSeed := sweepCap / len(seeds)
		for _, s := range seeds {
			total := jmut.SweepSize(s.tree, true)
			stride, off := 1, 0
			if total > perSeed {
				stride = (total + perSeed - 1) / perSeed
				off = rnd.Intn(stride)
			}
			i := 0
			jmut.Sweep(s.tree, true, func(m jmut.Mutant) {
				i++
				if (i-1)%stride != off {
					return
				}
				if in, ok := wrap(s, m); ok {
					in.seed = s.name
					emit(in)
				}
			})
			for _, m := range jmut.Truncations(s.tree.Bytes(), h.r.Pick(12, 200)) {
				if in, ok := wrap(s, m); ok {
					in.seed = s.name
					emit(in)
				}
			}
		}
		for i := 0; i < nRandom; i++ {
			s := seeds[rnd.Intn(len(seeds))]
			m := jmut.Random(rnd, s.tree, 3)
			if in, ok := wrap(s, m); ok {
				in.seed = s.name
				emit(in)
			}
		}
	}
}

func plainWrap(s jsonSeed, m jmut.Mutant) (input, bool) {
	return input{data: m.Data, ops: m.Ops}, true
}

func TestCheck(t *testing.T) {
	r := ev.Start(t, "C19", "exploration")
	defer r.Finish()
	r.SetRule("cases = (entry point, input); inputs = valid instances of each input kind + for every JSON member of each instance every core operator " +
		"(null, type confusion x5, delete, wrap, unwrap, empty/null-element arrays, duplicated member same/other type, number extremes; sweep sampled evenly when over the tier cap) " +
		"+ evenly spread truncations + seeded random 1-3 fold mutation (adds deep nesting, string/number variant tables, subtree swaps, byte damage); JWS/JWT inputs are re-signed after mutation, " +
		"protobuf envelopes are mutated per field. Each case = one call of the real entry point under recover + 20s watchdog (child process for background handlers, full node for HTTP). " +
		"Non-trivial = a mutated (not pristine) input whose call was observed to completion/panic/expiry; distinct by (entry, operator@pointer set). " +
		"Entry points whose input is a sequence: status list refresh = (cached copy: none / with / without expiry) x (ageing of the stored copy: fresh, past its maximum age, past its expiry, both, epoch, future, expiry column null) " +
		"x (answer of the list host to the refresh: transport and HTTP faults, broken bodies, lists that fail validation, valid re-issues, structure-aware mutants of valid lists); " +
		"response cache (the CachingRoundTripper alone, and under the StrictHTTPClient of did:web resolution and of the status list fetch) = (cache size) x (what the cache answered before: empty, several entries in ascending/descending expiry, expired, nearly full, replaced, same path with other queries) " +
		"x (caching headers) x (body length: 0, 1, max-bytes-1/+0/+1, 2x max-bytes, response limit-1/+0/+1, far over every limit, endless), followed by further requests on the same cache; " +
		"discovery client = answers (entries/seed/timestamp, presentations re-signed after mutation; HTTP envelope faults) of a harness Discovery Server to the real client updater of a second node. " +
		"presentation exchange grid = (descriptor templates by which credentials of a pool they select) x (group assignment) x (submission requirement shape: none, all, pick count/min/max, nested, a group named twice, unused group; count/min/max at the edges of what the schema admits: 0, min>max, 2^31, 2^32, max int64, 1e18; definitions without any descriptor) x (credentials presented: subsets, orders, repetitions, JSON-LD/JWT, none; envelope without presentations) " +
		"-> Match, submission builder, Resolve/Validate for several envelope shapes x submission shapes, ResolveConstraintsFields; the same definitions as discovery services (register, then search) and policy scopes (s2s token request) of the node; " +
		"DAG sequences (worker process) = (DAG state: empty, root, chain, fork) x (relation of the received transaction to it: root, child of heads / one head / inner transaction, unknown, duplicated, partly unknown prevs, replay) x (lamport clock: correct, +-1, page boundaries, powers of two, 2^31 and 2^32 neighbours) x (payload supplied/absent/other), " +
		"followed by XOR/IBLT/range queries, a correct child of what was accepted and a restart on the same store; besides exit/expiry the worker observes the bytes allocated since the scenario began (runaway = budget of 512 MiB exceeded before returning, reproduced 3x alone with 1536 MiB); " +
		"key material grid = (key shape: OKP/EC/RSA/oct, coordinate lengths 0, 1, short, exact, long, double, off-curve, other curve, degenerate modulus/exponent) x (alg header) at every signature-verifying entry point (did:jwk, did:web JsonWebKey2020 / Ed25519VerificationKey2018, jwk header of DPoP proofs and DAG transactions, JWT and JSON-LD credentials/presentations through the node's verifier). " +
		"Further observed events there: bytes read from each response body (bound max(cache size, 1 MiB)+64 KiB), bytes the cache retains (bound: its maximum), answers compared byte by byte with what the server sent, stored copy before/after inside the sequence.")
	r.Require(r.Pick(15000, 250000), r.Pick(12000, 150000))
	r.Assume("inputs are those reachable by the listed operators from the harness' valid instances; a silent run says nothing about other inputs")
	r.Assume("a watchdog expiry (20s) is a hang only when the same input expires 3 more times with nothing else running and then also does not return within 150s alone; otherwise inconclusive (slow input)")
	r.Assume("time in the status list sequences is virtual: the stored copy ages by moving the created_at/expires columns of its row; cache entries expire through the caching headers (max-age=0, Expires before Date), never by waiting")
	r.Assume("unrecoverable runtime errors (stack exhaustion, out of memory) are observed where the entry point runs in a child process (v2 protocol, DAG sequences, the presentation definition entry points pe.Definition.* and pe.Grid.*: exit of the child while an input is outstanding = violation attributed to that input); in the other in-process entry points they would abort the check as BROKEN with the input left in replay/C19/current/")

	if prof := os.Getenv("VERIF_C19_MEMPROF"); prof != "" {
		// development aid: heap profile when the heap grows beyond 4 GiB
		go func() {
			for n := 0; ; {
				time.Sleep(5 * time.Second)
				var ms runtime.MemStats
				runtime.ReadMemStats(&ms)
				if ms.HeapAlloc > uint64(4+4*n)<<30 {
					if f, err := os.Create(fmt.Sprintf("%s.%d", prof, n)); err == nil {
						_ = pprof.WriteHeapProfile(f)
						f.Close()
					}
					fmt.Printf("NOTE: heap %d MiB, goroutines %d\n", ms.HeapAlloc>>20, runtime.NumGoroutine())
					n++
				}
			}
		}()
	}
	cur := filepath.Join(ev.Root(), "replay", "C19", "current")
	_ = os.MkdirAll(cur, 0o755)
	h := &harness{r: r, t: t, stats: map[string]*stats{}, current: cur, hangs: map[string]bool{}}
	jmut.Heavy = r.Thorough()

	// development aid: VERIF_C19_ONLY=entries|v2|http[,entry-name-substring] restricts the run (the run is then reported as broken: observed too little)
	only := os.Getenv("VERIF_C19_ONLY")
	part := func(p string) bool { return only == "" || strings.HasPrefix(only, p) }
	var entries []*entry
	if part("entries") {
		entries = allEntries(h)
		isolate(h, entries)
		defer isoShutdown()
		if i := strings.IndexByte(only, ','); i >= 0 {
			var keep []*entry
			for _, e := range entries {
				if strings.Contains(e.name, only[i+1:]) {
					keep = append(keep, e)
				}
			}
			entries = keep
		}
	}
	// stateless / independent entry points run in parallel; entries that swap process-wide seams run one at a time afterwards
	var wg sync.WaitGroup
	sem := make(chan struct{}, 12)
	if part("v2") {
		wg.Add(1)
		go func() { defer wg.Done(); v2Protocol(h) }()
	}
	if part("dagseq") {
		wg.Add(1)
		go func() { defer wg.Done(); dagSequences(h) }()
	}
	if part("http") {
		theNode(h) // booted here, not concurrently (configuration travels through the process environment)
		wg.Add(1)
		go func() { defer wg.Done(); httpNode(h) }()
	}
	for _, e := range entries {
		if e.serial {
			continue
		}
		wg.Add(1)
		go func(e *entry) {
			defer wg.Done()
			sem <- struct{}{}
			defer func() { <-sem }()
			st := h.st(e.name)
			e.gen(h, e, func(in input) { h.one(e, st, in) })
		}(e)
	}
	wg.Wait()
	for _, e := range entries {
		if e.serial {
			st := h.st(e.name)
			e.gen(h, e, func(in input) { h.one(e, st, in) })
		}
	}

	names := make([]string, 0, len(h.stats))
	for n := range h.stats {
		names = append(names, n)
	}
	sort.Strings(names)
	per := map[string]*stats{}
	tot := stats{}
	for _, n := range names {
		s := h.stats[n]
		s.OpsPtrs, s.Operators = len(s.opsPtrs), len(s.operators)
		if len(s.PanicSites) == 0 {
			s.PanicSites = nil
		}
		per[n] = s
		tot.Inputs += s.Inputs
		tot.Accepted += s.Accepted
		tot.Rejected += s.Rejected
		tot.Panics += s.Panics
		tot.Timeouts += s.Timeouts
		tot.Hangs += s.Hangs
		tot.StateCheck += s.StateCheck
		if s.Inputs == 0 {
			r.Fatalf("entry point %s received no input", n)
		}
	}
	r.Extra("entry_points", per)
	r.Extra("entry_point_count", len(names))
	r.Count("inputs_tried", tot.Inputs)
	r.Count("inputs_accepted", tot.Accepted)
	r.Count("inputs_rejected", tot.Rejected)
	r.Count("state_digests_compared", tot.StateCheck)
	r.Count("hangs_confirmed", tot.Hangs)
}
