package c19

import (
	"bytes"
	"encoding/json"
	"errors"
	"fmt"
	"io"
	"net/http"
	"os"
	"sort"
	"sync/atomic"
	"time"

	"github.com/nuts-foundation/go-did/did"
	"github.com/nuts-foundation/go-did/vc"
	"github.com/nuts-foundation/nuts-node/http/client"
	"github.com/nuts-foundation/nuts-node/storage"
	"github.com/nuts-foundation/nuts-node/vcr/revocation"
	"github.com/nuts-foundation/nuts-node/vdr/didweb"
)

// The node's outbound HTTP (did:web resolution, status list fetches, OpenID4VP metadata) goes through one shared response cache
// (client.DefaultCachingTransport). What a remote server controls there is the *shape* of its response: the length of the body, whether the
// response is cacheable and for how long, and - over several requests - what the cache holds when the next response arrives.
// These entry points drive the real CachingRoundTripper over a hostile server (hostile_http_test.go), alone and underneath the real
// StrictHTTPClient users, with bodies of every length class around the configured limits, in every cache state.
//
// Oracle: every request returns (watchdog + solitary re-runs: hang), also the requests that follow it on the same cache (the cache's lock is not
// left held); the node reads no more of a body than max(cache size, DefaultMaxHttpResponseSize) + slack; every answer - fresh or from the cache -
// is byte-identical to what the server sent for that URL.

const consumptionSlack = 64 << 10

// exactLength asks for the valid answer as it is, without padding.
const exactLength = -2

// atLeast(n) asks for the valid answer padded to n bytes, or as it is when it is longer than that.
const atLeastBase = -1000

func atLeast(n int64) int64 { return atLeastBase - n }

func consumptionBound(cacheSize int) int64 {
	return int64(max(cacheSize, client.DefaultMaxHttpResponseSize)) + consumptionSlack
}

type cacheHeader struct {
	name   string
	header http.Header
}

func cacheHeaders() []cacheHeader {
	now := time.Now().UTC()
	hd := func(kv ...string) http.Header {
		h := http.Header{}
		for i := 0; i+1 < len(kv); i += 2 {
			h.Add(kv[i], kv[i+1])
		}
		return h
	}
	return []cacheHeader{
		{"max-age-60", hd("Cache-Control", "max-age=60")},
		{"public-max-age-3600", hd("Cache-Control", "public, max-age=3600")},
		{"s-maxage-10", hd("Cache-Control", "s-maxage=10")},
		{"expires-in-an-hour", hd("Date", now.Format(http.TimeFormat), "Expires", now.Add(time.Hour).Format(http.TimeFormat))},
		{"max-age-over-the-cap", hd("Cache-Control", "max-age=99999999")},
		{"max-age-0", hd("Cache-Control", "max-age=0")},
		{"expires-before-date", hd("Date", now.Format(http.TimeFormat), "Expires", now.Add(-time.Hour).Format(http.TimeFormat))},
		{"no-cache-headers", hd()},
		{"no-store", hd("Cache-Control", "no-store")},
		{"private", hd("Cache-Control", "private, max-age=60")},
		{"no-cache", hd("Cache-Control", "no-cache, max-age=60")},
		{"max-age-not-a-number", hd("Cache-Control", "max-age=abc")},
		{"max-age-negative", hd("Cache-Control", "max-age=-1")},
		{"max-age-overflow", hd("Cache-Control", "max-age=99999999999999999999999")},
		{"date-garbage", hd("Cache-Control", "max-age=60", "Date", "yesterday")},
		{"expires-zero", hd("Expires", "0")},
		{"age-larger-than-max-age", hd("Cache-Control", "max-age=60", "Age", "100")},
		{"vary-star", hd("Cache-Control", "max-age=60", "Vary", "*")},
		{"duplicate-cache-control", hd("Cache-Control", "max-age=60", "Cache-Control", "no-store")},
		{"last-modified-heuristic", hd("Last-Modified", now.Add(-240*time.Hour).Format(http.TimeFormat))},
	}
}

// lengthClasses are the body lengths around every limit that applies to a cache of maxBytes (-1: endless).
func lengthClasses(maxBytes int) []struct {
	name string
	n    int64
} {
	m, lim := int64(maxBytes), int64(client.DefaultMaxHttpResponseSize)
	all := []struct {
		name string
		n    int64
	}{{"empty", 0}, {"one-byte", 1}, {"max-bytes-minus-1", m - 1}, {"max-bytes", m}, {"max-bytes-plus-1", m + 1}, {"twice-max-bytes", 2 * m},
		{"response-limit-minus-1", lim - 1}, {"response-limit", lim}, {"response-limit-plus-1", lim + 1},
		{"far-over-every-limit", 3*max(m, lim) + 12345}, {"endless", -1}}
	return all
}

type preRequest struct {
	suffix string // path?query of the URL
	hdr    cacheHeader
	n      int64
}

// cacheStates are what the cache holds when the response under test arrives: the requests that were answered before it.
func cacheStates(maxBytes int) map[string][]preRequest {
	hs := cacheHeaders()
	byName := map[string]cacheHeader{}
	for _, h := range hs {
		byName[h.name] = h
	}
	live, live2, live3, gone, gone2 := byName["max-age-60"], byName["public-max-age-3600"], byName["s-maxage-10"], byName["expires-before-date"], byName["max-age-0"]
	m := int64(maxBytes)
	q := max(m/4, 1)
	return map[string][]preRequest{
		"empty":     nil,
		"one-small": {{"/pre/a", live, min(8, q)}},
		// ascending and descending expiry: the cache keeps its entries ordered by expiry
		"several":                   {{"/pre/a", live3, q}, {"/pre/b", live, q}, {"/pre/c", live2, q}},
		"several-descending-expiry": {{"/pre/a", live2, q}, {"/pre/b", live, q}, {"/pre/c", live3, q}},
		"several-expired":           {{"/pre/a", gone, q}, {"/pre/b", gone2, q}, {"/pre/c", gone, q}},
		"nearly-full":               {{"/pre/a", live, m / 2}, {"/pre/b", live2, m - m/2 - 1}},
		"same-path-other-queries":   {{"/pre?x=1", live, q / 2}, {"/pre?x=2", gone, q / 2}, {"/pre?x=3", live2, q / 2}, {"/pre", gone2, q / 2}},
		"replaced-entries":          {{"/pre/a", gone2, q}, {"/pre/a", gone2, q}, {"/pre/a", live, q}, {"/pre/b", live, q}},
		"many-small":                {{"/pre/1", live, 1}, {"/pre/2", live2, 1}, {"/pre/3", live3, 1}, {"/pre/4", gone, 1}, {"/pre/5", live, 1}, {"/pre/6", gone2, 1}, {"/pre/7", live2, 1}, {"/pre/8", live, 1}},
	}
}

type cacheCase struct {
	maxBytes int
	state    string
	pre      []preRequest
	hdr      cacheHeader
	lenName  string
	n        int64
}

func withTag(h http.Header, tag string) http.Header {
	out := http.Header{}
	for k, v := range h {
		out[k] = append([]string{}, v...)
	}
	out.Set("X-Hostile-Tag", tag)
	return out
}

// cacheProbe is one cache under observation.
type cacheProbe struct {
	h      *harness
	e      *entry
	in     input
	srv    *hostileServer
	rt     http.RoundTripper
	bound  int64
	served map[string]hostileResp
}

var errAnswerDiffers = errors.New("answer differs from what the server sent")

// get performs one GET through the cache and checks the answer against what the server has for the URL.
func (p *cacheProbe) get(url string, lenName string) error {
	spec := p.served[url]
	req, err := http.NewRequest(http.MethodGet, url, nil)
	if err != nil {
		return err
	}
	c0 := p.srv.consumedOf(url)
	resp, err := p.rt.RoundTrip(req)
	inside := p.srv.consumedOf(url) - c0
	p.h.r.Count("cache_round_trips_observed", 1)
	if inside > p.bound {
		p.h.consumptionViolation(p.e, p.in, lenName, inside, p.bound, "inside RoundTrip, before the caller saw the response")
	}
	if err != nil {
		return err
	}
	defer resp.Body.Close()
	differs := func(what string) error {
		path := p.h.persist(p.e, p.in, "answer-differs")
		p.h.r.Violation("C19/cache/"+p.e.name+"/answer-differs", fmt.Sprintf("%s: the answer for %s %s what the server sent for that URL; %s", p.e.name, url, what, p.in.data),
			map[string]any{"entry": p.e.name, "mutations": p.in.ops, "input_file": path, "input": trunc(p.in.data, 4000), "url": url})
		return errAnswerDiffers
	}
	if resp.StatusCode != spec.status {
		return differs(fmt.Sprintf("has status %d, not the %d", resp.StatusCode, spec.status))
	}
	if got, want := resp.Header.Get("X-Hostile-Tag"), spec.header.Get("X-Hostile-Tag"); got != want {
		return differs(fmt.Sprintf("carries the headers of another answer (%q, not %q), unlike", got, want))
	}
	// compare the body with the server's, as a stream (of an endless or very long body: the first 256 KiB)
	want := spec.body.length()
	limit := want
	if want < 0 || want > 2<<20 {
		limit = 256 << 10
	}
	buf, exp := make([]byte, 32<<10), make([]byte, 32<<10)
	var off int64
	for off < limit+1 {
		n, rerr := resp.Body.Read(buf[:int(min(int64(len(buf)), limit+1-off))])
		if n > 0 {
			m := spec.body.read(exp[:n], off)
			if m < n || !bytes.Equal(buf[:n], exp[:n]) {
				return differs(fmt.Sprintf("has a body that differs within bytes %d..%d from", off, off+int64(n)))
			}
			off += int64(n)
		}
		if rerr == io.EOF {
			break
		}
		if rerr != nil {
			return rerr
		}
	}
	if want >= 0 && want <= 2<<20 && off != want {
		return differs(fmt.Sprintf("has a body of %d bytes, not the %d bytes", off, want))
	}
	if want < 0 || want > 2<<20 {
		if off < limit {
			return differs(fmt.Sprintf("has a body of only %d bytes, shorter than", off))
		}
	}
	return nil
}

func (h *harness) consumptionViolation(e *entry, in input, lenName string, consumed, bound int64, where string) {
	path := h.persist(e, in, "consumption-"+lenName)
	h.r.Violation("C19/consumption/"+e.name+"/"+lenName, fmt.Sprintf("%s: the node read %d bytes of one response body (%s); the configured limits allow %d; %s", e.name, consumed, where, bound, in.data),
		map[string]any{"entry": e.name, "mutations": in.ops, "input_file": path, "input": trunc(in.data, 4000), "consumed": consumed, "bound": bound})
}

// retentionCheck: the cache must not hold on to more response bytes than its configured maximum (observed through the verif export of the cache).
func (h *harness) retentionCheck(e *entry, in input, rt *client.CachingRoundTripper) {
	retained, accounted, maxBytes := client.VerifCacheUsage(rt)
	h.r.Count("cache_retention_observed", 1)
	if retained > maxBytes {
		path := h.persist(e, in, "retention")
		h.r.Violation("C19/consumption/"+e.name+"/cache-retains-more-than-its-maximum", fmt.Sprintf("%s: the response cache holds on to %d bytes of response bodies (it accounts for %d), its configured maximum is %d; %s", e.name, retained, accounted, maxBytes, in.data),
			map[string]any{"entry": e.name, "mutations": in.ops, "input_file": path, "input": trunc(in.data, 4000), "retained": retained, "accounted": accounted, "max_bytes": maxBytes})
	}
}

func cacheEntries(h *harness) []*entry {
	f := theNode(h)
	mux, strict, strictNoRedir := strictClients()
	var caseN atomic.Int64

	// ---- the CachingRoundTripper itself ---------------------------------------------------------------------------------------------------
	var raw *entry
	raw = &entry{name: "httpclient.CachingRoundTripper", hangGroup: "response-cache",
		gen: func(h *harness, e *entry, emit func(input)) {
			hdrs := cacheHeaders()
			sizes := []int{64, 1000}
			if h.r.Thorough() {
				sizes = append(sizes, 4096, 10*1024*1024) // the last one is the node's default (http.cache.maxbytes)
			}
			emit(input{data: []byte("cache=1000 state=empty headers=max-age-60 body=one-byte"), valid: true, seed: "small-cacheable",
				aux: cacheCase{1000, "empty", nil, hdrs[0], "one-byte", 1}})
			sel := 0
			for _, size := range sizes {
				states := cacheStates(size)
				var names []string
				for n := range states {
					names = append(names, n)
				}
				sort.Strings(names)
				for _, l := range lengthClasses(size) {
					for _, sn := range names {
						for hi, hd := range hdrs {
							// every (length, state) with the first (plainly cacheable) header; the other headers take turns, a third each per seed
							// (thorough: all; the default-size cache: the plainly cacheable header and one other only - its bodies are tens of MiB)
							sel++
							switch {
							case hi == 0:
							case size > 1<<20 && hi != 8:
								continue
							case size > 1<<20 && sn != "empty" && sn != "several":
								continue
							case !h.r.Thorough() && (sel+int(h.r.Seed()))%3 != 0:
								continue
							}
							emit(input{data: []byte(fmt.Sprintf("cache=%d state=%s headers=%s body=%s(%d)", size, sn, hd.name, l.name, l.n)),
								ops:  []string{"len:" + l.name + "@/body", "state:" + sn + "@/cache", "headers:" + hd.name + "@/headers", fmt.Sprintf("cache-size:%d@/cache", size)},
								seed: "small-cacheable", aux: cacheCase{size, sn, states[sn], hd, l.name, l.n}})
						}
					}
				}
			}
		},
		call: func(in input) error {
			c := in.aux.(cacheCase)
			bound := consumptionBound(c.maxBytes)
			srv := newHostileServer(bound + 2<<20)
			crt := client.NewCachingTransport(srv, c.maxBytes)
			p := &cacheProbe{h: h, e: raw, in: in, srv: srv, rt: crt, bound: bound, served: map[string]hostileResp{}}
			base := fmt.Sprintf("https://cache-%d.example.com", caseN.Add(1))
			serve := func(url string, hd cacheHeader, n int64) {
				r := hostileResp{status: 200, header: withTag(hd.header, url), body: patternBody(url, n), noLength: n < 0}
				p.served[url] = r
				srv.set(url, r)
			}
			var urls []string
			for _, pr := range c.pre {
				u := base + pr.suffix
				serve(u, pr.hdr, pr.n)
				urls = append(urls, u)
				if err := p.get(u, "cache-state"); err != nil {
					return fmt.Errorf("while filling the cache (%s): %w", pr.suffix, err)
				}
			}
			target := base + "/target?v=1"
			serve(target, c.hdr, c.n)
			err := p.get(target, c.lenName)
			// whatever became of it: the cache must still answer. The same URL again, the same path with another query, every earlier URL, a new one.
			other := base + "/target?v=2"
			serve(other, c.hdr, 5)
			later := base + "/later"
			serve(later, cacheHeaders()[0], 7)
			for _, u := range append(append([]string{target, other}, urls...), later, later, target) {
				if err2 := p.get(u, c.lenName); err2 != nil && err == nil && !errors.Is(err2, errHarnessCap) {
					err = fmt.Errorf("follow-up request %s: %w", u, err2)
				}
			}
			h.retentionCheck(raw, in, crt)
			return err
		}}

	// ---- did:web resolution through StrictHTTPClient + cache -------------------------------------------------------------------------------
	// docFor pads the valid answer to n bytes with insignificant whitespace (after its first byte); shorter n truncates it. atLeast(n) never truncates.
	docFor := func(doc []byte, n int64) (bodySpec, bool) {
		if n <= atLeastBase {
			n = max(atLeastBase-n, int64(len(doc)))
		}
		switch {
		case n == exactLength || n >= 0 && n <= int64(len(doc))+1 && n >= int64(len(doc))-1:
			return bodyOf(doc), true
		case n < 0:
			return bodySpec{head: doc[:1], fill: []byte(" "), fillLen: -1}, false
		case n < int64(len(doc)):
			return bodyOf(doc[:n]), false
		}
		return bodySpec{head: doc[:1], fill: []byte(" "), fillLen: n - int64(len(doc)), tail: doc[1:]}, n <= client.DefaultMaxHttpResponseSize
	}
	docLen := int64(len(webDocSeed("did:web:cache-0000.didweb.example.com")))
	userLengths := func(size int, valid int64) []struct {
		name string
		n    int64
	} {
		out := []struct {
			name string
			n    int64
		}{{"exactly-the-document", exactLength}}
		for _, l := range lengthClasses(size) {
			if l.n >= 0 && l.n < valid && l.n > 1 {
				continue // a truncated document: the parsers' own entry points cover those
			}
			out = append(out, l)
		}
		return out
	}
	type userCase struct {
		maxBytes int
		filled   bool
		hdr      cacheHeader
		lenName  string
		n        int64
		fault    string // "": none; the transport fails / the body breaks after half of it / after its first byte
	}
	faulty := func(c userCase, r hostileResp) hostileResp {
		switch c.fault {
		case "transport-error":
			r.err = errors.New("read tcp 203.0.113.7:443: connection reset by peer")
		case "body-breaks-in-the-middle":
			r.failAfter = max(r.body.length()/2, 1)
		case "body-breaks-at-the-first-byte":
			r.failAfter = 1
		}
		return r
	}
	genUser := func(valid int64, sizesQuick, sizesThorough []int) func(h *harness, e *entry, emit func(input)) {
		return func(h *harness, e *entry, emit func(input)) {
			hdrs := cacheHeaders()
			pick := []cacheHeader{hdrs[0], hdrs[5], hdrs[7]} // cacheable, cacheable but expired at once, not cacheable
			emit(input{data: []byte("valid answer, cacheable"), valid: true, seed: "valid", aux: userCase{sizesQuick[0], false, hdrs[0], "exactly-the-document", exactLength, ""}})
			sizes := sizesQuick
			if h.r.Thorough() {
				sizes = sizesThorough
			}
			for _, size := range sizes {
				for _, l := range userLengths(size, valid) {
					for _, filled := range []bool{false, true} {
						for _, hd := range pick {
							if size > 1<<20 && hd.name != hdrs[0].name {
								continue
							}
							st := "empty"
							if filled {
								st = "several"
							}
							emit(input{data: []byte(fmt.Sprintf("cache=%d state=%s headers=%s body=%s(%d)", size, st, hd.name, l.name, l.n)),
								ops:  []string{"len:" + l.name + "@/body", "state:" + st + "@/cache", "headers:" + hd.name + "@/headers", fmt.Sprintf("cache-size:%d@/cache", size)},
								seed: "valid", aux: userCase{size, filled, hd, l.name, l.n, ""}})
						}
					}
				}
				// the answer does not arrive whole
				for _, fault := range []string{"transport-error", "body-breaks-in-the-middle", "body-breaks-at-the-first-byte"} {
					for _, n := range []int64{exactLength, int64(size) + 1, client.DefaultMaxHttpResponseSize + 1} {
						for _, hd := range []cacheHeader{hdrs[0], hdrs[7]} {
							if size > 1<<20 {
								continue
							}
							emit(input{data: []byte(fmt.Sprintf("cache=%d state=empty headers=%s body of %d bytes, fault=%s", size, hd.name, n, fault)),
								ops:  []string{"fault:" + fault + "@/body", fmt.Sprintf("len:%d@/body", n), "headers:" + hd.name + "@/headers", fmt.Sprintf("cache-size:%d@/cache", size)},
								seed: "valid", aux: userCase{size, false, hd, "fault-" + fault, n, fault}})
						}
					}
				}
			}
		}
	}
	var web *entry
	web = &entry{name: "httpclient.cache.didweb", hangGroup: "response-cache",
		gen: genUser(docLen, []int{4096}, []int{4096, 10 * 1024 * 1024}),
		call: func(in input) error {
			c := in.aux.(userCase)
			bound := consumptionBound(c.maxBytes)
			srv := newHostileServer(bound + 2<<20)
			host := fmt.Sprintf("cache-%04d.didweb.example.com", caseN.Add(1)%10000)
			crt := client.NewCachingTransport(srv, c.maxBytes)
			mux.register(host, crt)
			defer mux.unregister(host)
			r := didweb.Resolver{HttpClient: strictNoRedir}
			serve := func(id string, hd cacheHeader, n int64) (string, bool) {
				url := "https://" + host + "/.well-known/did.json"
				if parsed := did.MustParseDID(id); len(parsed.ID) > len(host) {
					url = "https://" + host + "/" + parsed.ID[len(host)+1:] + "/did.json"
				}
				body, ok := docFor([]byte(webDocSeed(id)), n)
				hdr := withTag(hd.header, url)
				hdr.Set("Content-Type", "application/did+json")
				srv.set(url, hostileResp{status: 200, header: hdr, body: body, noLength: n == -1})
				return url, ok
			}
			resolve := func(id string) (string, error) {
				doc, _, err := r.Resolve(did.MustParseDID(id), nil)
				if err != nil {
					return "", err
				}
				b, _ := json.Marshal(doc)
				return string(b), nil
			}
			var pre []string
			if c.filled {
				for i, hd := range []cacheHeader{cacheHeaders()[2], cacheHeaders()[0], cacheHeaders()[1]} {
					id := fmt.Sprintf("did:web:%s:pre%d", host, i)
					serve(id, hd, atLeast(min(int64(c.maxBytes/4), 512<<10)))
					pre = append(pre, id)
					if _, err := resolve(id); err != nil {
						return fmt.Errorf("while filling the cache: %w", err)
					}
				}
			}
			id := "did:web:" + host
			url, shouldWork := serve(id, c.hdr, c.n)
			if c.fault != "" {
				shouldWork = false
				srv.mu.Lock()
				srv.routes[url] = faulty(c, srv.routes[url])
				srv.mu.Unlock()
			}
			c0 := srv.consumedOf(url)
			first, err := resolve(id)
			h.r.Count("cache_round_trips_observed", 1)
			if used := srv.consumedOf(url) - c0; used > bound {
				h.consumptionViolation(web, in, c.lenName, used, bound, "for one did:web resolution")
			}
			if err != nil && shouldWork {
				h.r.Count("didweb_valid_document_not_resolved_through_cache", 1)
			}
			// the cache must still answer: the same DID, the earlier ones, a new one
			again, err2 := resolve(id)
			if err == nil && err2 == nil && first != again {
				path := h.persist(web, in, "answer-differs")
				h.r.Violation("C19/cache/"+web.name+"/answer-differs", fmt.Sprintf("%s: the second resolution of %s returned another document than the first; %s", web.name, id, in.data),
					map[string]any{"entry": web.name, "mutations": in.ops, "input_file": path, "first": trunc([]byte(first), 2000), "second": trunc([]byte(again), 2000)})
			}
			later := fmt.Sprintf("did:web:%s:later", host)
			serve(later, cacheHeaders()[0], exactLength)
			for _, other := range append(pre, later, later) {
				if _, err3 := resolve(other); err3 != nil && err == nil {
					err = fmt.Errorf("follow-up resolution of %s: %w", other, err3)
				}
			}
			h.retentionCheck(web, in, crt)
			return err
		}}

	// ---- status list fetch through StrictHTTPClient + cache --------------------------------------------------------------------------------
	dir, derr := os.MkdirTemp("", "c19-slcache-")
	if derr != nil {
		h.r.Fatalf("tempdir: %v", derr)
	}
	h.t.Cleanup(func() { os.RemoveAll(dir) })
	db := storage.NewTestStorageEngineInDir(h.t, dir).GetSQLDatabase()
	db.Exec("PRAGMA synchronous = OFF")
	sl := revocation.NewStatusList2021(db, strict, "https://node.example.com")
	sl.VerifySignature = f.verifier.VerifySignature
	zeros := gzB64(make([]byte, 16*1024))
	listFor := func(url string, n int64) (bodySpec, bool) {
		body := []byte(mustJSON(compact(slListTree(url, "future", "revocation", zeros))))
		if n == -1 {
			return bodySpec{fill: []byte(" "), fillLen: -1}, false
		}
		// the JSON string, with insignificant whitespace in front of it
		spec, ok := docFor(body, n)
		if spec.fillLen > 0 {
			spec = bodySpec{fill: []byte(" "), fillLen: spec.fillLen, tail: body}
		}
		return spec, ok
	}
	listLen := int64(len(mustJSON(compact(slListTree("https://cache-0000.status.example.com/list/target", "future", "revocation", zeros)))))
	var list *entry
	list = &entry{name: "httpclient.cache.statuslist", hangGroup: "response-cache",
		gen: genUser(listLen, []int{4096}, []int{4096, 10 * 1024 * 1024}),
		call: func(in input) error {
			c := in.aux.(userCase)
			bound := consumptionBound(c.maxBytes)
			srv := newHostileServer(bound + 2<<20)
			host := fmt.Sprintf("cache-%04d.status.example.com", caseN.Add(1)%10000)
			crt := client.NewCachingTransport(srv, c.maxBytes)
			mux.register(host, crt)
			defer mux.unregister(host)
			serve := func(name string, hd cacheHeader, n int64) (string, bool) {
				url := "https://" + host + "/list/" + name
				body, ok := listFor(url, n)
				hdr := withTag(hd.header, url)
				hdr.Set("Content-Type", "application/json")
				srv.set(url, hostileResp{status: 200, header: hdr, body: body, noLength: n == -1})
				return url, ok
			}
			verify := func(url string) error {
				status := fmt.Sprintf(`{"id":"%s#1","type":"StatusList2021Entry","statusPurpose":"revocation","statusListIndex":"1","statusListCredential":%q}`, url, url)
				cred, err := vc.ParseVerifiableCredential(compact(atkVCTree("NutsOrganizationCredential", "", status)))
				if err != nil {
					return err
				}
				return sl.Verify(*cred)
			}
			var pre []string
			if c.filled {
				for i, hd := range []cacheHeader{cacheHeaders()[2], cacheHeaders()[0], cacheHeaders()[1]} {
					u, _ := serve(fmt.Sprintf("pre%d", i), hd, atLeast(min(int64(c.maxBytes/4), 512<<10)))
					pre = append(pre, u)
					if err := verify(u); err != nil {
						return fmt.Errorf("while filling the cache: %w", err)
					}
				}
			}
			url, shouldWork := serve("target", c.hdr, c.n)
			if c.fault != "" {
				shouldWork = false
				srv.mu.Lock()
				srv.routes[url] = faulty(c, srv.routes[url])
				srv.mu.Unlock()
			}
			c0 := srv.consumedOf(url)
			err := verify(url)
			h.r.Count("cache_round_trips_observed", 1)
			if used := srv.consumedOf(url) - c0; used > bound {
				h.consumptionViolation(list, in, c.lenName, used, bound, "for one status list fetch")
			}
			if err != nil && shouldWork {
				h.r.Count("statuslist_valid_list_not_fetched_through_cache", 1)
			}
			later, _ := serve("later", cacheHeaders()[0], exactLength)
			for _, other := range append(pre, later, url) {
				if err3 := verify(other); err3 != nil && err == nil && other != url {
					err = fmt.Errorf("follow-up fetch of %s: %w", other, err3)
				}
			}
			h.retentionCheck(list, in, crt)
			return err
		}}
	return []*entry{raw, web, list}
}
