package c19

import (
	"context"
	"crypto"
	"crypto/ecdsa"
	"crypto/ed25519"
	"crypto/elliptic"
	crand "crypto/rand"
	"crypto/rsa"
	"encoding/base64"
	"errors"
	"fmt"
	"os"
	"strings"
	"time"

	"github.com/mr-tron/base58"
	"github.com/nuts-foundation/go-did/did"
	"github.com/nuts-foundation/go-did/vc"
	nutsCrypto "github.com/nuts-foundation/nuts-node/crypto"
	"github.com/nuts-foundation/nuts-node/crypto/dpop"
	"github.com/nuts-foundation/nuts-node/crypto/hash"
	"github.com/nuts-foundation/nuts-node/network/dag"
	"github.com/nuts-foundation/nuts-node/vdr/didjwk"
	"github.com/nuts-foundation/nuts-node/vdr/didweb"
	"github.com/nuts-foundation/nuts-node/vdr/resolver"
	"verif/lib/dagx"
)

// ---- key material grid -------------------------------------------------------------------------------------------------
// Every entry point that verifies a signature with a key the remote party chooses (did:jwk identifier, JsonWebKey2020 /
// Ed25519VerificationKey2018 method in a did:web document served by its host, jwk header of a DPoP proof or of a DAG transaction):
// (key shape: family x length of each coordinate - 0, 1, one short, exact, one long, double -, points off the curve, other curves,
// degenerate RSA moduli/exponents, symmetric keys) x (alg header: every algorithm the libraries know, fitting the family or not).
// The mutation sweeps keep the harness' own P-256 key: they change JSON members of tokens, not the shape of the key behind the kid.
// The signature bytes have the length the algorithm prescribes; a valid Ed25519 / P-256 signed instance per entry point is the known-good case.

type keyShape struct {
	name string
	jwk  string // public JWK (JSON)
	okpX []byte // OKP: the raw x (for the base58 form of Ed25519VerificationKey2018)
}

type keyGridFixture struct {
	shapes []keyShape
	edPriv ed25519.PrivateKey
	edJWK  string
}

func newKeyGridFixture() *keyGridFixture {
	f := &keyGridFixture{}
	u := base64.RawURLEncoding.EncodeToString
	pub, priv, _ := ed25519.GenerateKey(crand.Reader)
	f.edPriv = priv
	f.edJWK = fmt.Sprintf(`{"kty":"OKP","crv":"Ed25519","x":%q}`, u(pub))
	rnd := func(n int) []byte { b := make([]byte, n); _, _ = crand.Read(b); return b }
	add := func(name, jwk string, x []byte) { f.shapes = append(f.shapes, keyShape{name, jwk, x}) }
	lengths := []int{0, 1, 31, 32, 33, 64}
	for _, crv := range []string{"Ed25519", "X25519"} {
		for _, n := range lengths {
			x := rnd(n)
			if n == 32 && crv == "Ed25519" {
				x = pub // a well-formed key (the signature is not made with it unless the case says so)
			}
			add(fmt.Sprintf("okp-%s-x%d", crv, n), fmt.Sprintf(`{"kty":"OKP","crv":%q,"x":%q}`, crv, u(x)), x)
		}
	}
	add("okp-Ed25519-x-all-zero", fmt.Sprintf(`{"kty":"OKP","crv":"Ed25519","x":%q}`, u(make([]byte, 32))), make([]byte, 32))
	add("okp-Ed25519-x-all-ff", fmt.Sprintf(`{"kty":"OKP","crv":"Ed25519","x":%q}`, u([]byte(strings.Repeat("\xff", 32)))), []byte(strings.Repeat("\xff", 32)))
	add("okp-Ed448", fmt.Sprintf(`{"kty":"OKP","crv":"Ed448","x":%q}`, u(rnd(57))), rnd(57))
	add("okp-no-crv", fmt.Sprintf(`{"kty":"OKP","x":%q}`, u(pub)), pub)
	add("okp-no-x", `{"kty":"OKP","crv":"Ed25519"}`, nil)
	add("okp-x-not-base64", `{"kty":"OKP","crv":"Ed25519","x":"!!!!"}`, nil)
	add("okp-x-4KiB", fmt.Sprintf(`{"kty":"OKP","crv":"Ed25519","x":%q}`, u(make([]byte, 4096))), make([]byte, 4096))
	px, py := atk.priv.X.FillBytes(make([]byte, 32)), atk.priv.Y.FillBytes(make([]byte, 32))
	for _, n := range []int{0, 1, 31, 33, 64} {
		add(fmt.Sprintf("ec-P256-x%d", n), fmt.Sprintf(`{"kty":"EC","crv":"P-256","x":%q,"y":%q}`, u(rnd(n)), u(py)), nil)
		add(fmt.Sprintf("ec-P256-y%d", n), fmt.Sprintf(`{"kty":"EC","crv":"P-256","x":%q,"y":%q}`, u(px), u(rnd(n))), nil)
	}
	add("ec-P256-valid", atk.pubJWK, nil)
	add("ec-P256-off-curve", fmt.Sprintf(`{"kty":"EC","crv":"P-256","x":%q,"y":%q}`, u(px), u(rnd(32))), nil)
	add("ec-P256-zero-point", fmt.Sprintf(`{"kty":"EC","crv":"P-256","x":%q,"y":%q}`, u(make([]byte, 32)), u(make([]byte, 32))), nil)
	add("ec-P256-leading-zero-padded", fmt.Sprintf(`{"kty":"EC","crv":"P-256","x":%q,"y":%q}`, u(append([]byte{0}, px...)), u(append([]byte{0}, py...))), nil)
	add("ec-P256-coordinates-of-P384", fmt.Sprintf(`{"kty":"EC","crv":"P-256","x":%q,"y":%q}`, u(rnd(48)), u(rnd(48))), nil)
	k384, _ := ecdsa.GenerateKey(elliptic.P384(), crand.Reader)
	add("ec-P384-valid", fmt.Sprintf(`{"kty":"EC","crv":"P-384","x":%q,"y":%q}`, u(k384.X.FillBytes(make([]byte, 48))), u(k384.Y.FillBytes(make([]byte, 48)))), nil)
	add("ec-P384-coordinates-of-P256", fmt.Sprintf(`{"kty":"EC","crv":"P-384","x":%q,"y":%q}`, u(px), u(py)), nil)
	k521, _ := ecdsa.GenerateKey(elliptic.P521(), crand.Reader)
	add("ec-P521-valid", fmt.Sprintf(`{"kty":"EC","crv":"P-521","x":%q,"y":%q}`, u(k521.X.FillBytes(make([]byte, 66))), u(k521.Y.FillBytes(make([]byte, 66)))), nil)
	add("ec-secp256k1", fmt.Sprintf(`{"kty":"EC","crv":"secp256k1","x":%q,"y":%q}`, u(px), u(py)), nil)
	add("ec-unknown-curve", fmt.Sprintf(`{"kty":"EC","crv":"P-257","x":%q,"y":%q}`, u(px), u(py)), nil)
	add("ec-no-y", fmt.Sprintf(`{"kty":"EC","crv":"P-256","x":%q}`, u(px)), nil)
	rsaKey, _ := rsa.GenerateKey(crand.Reader, 2048)
	n := rsaKey.N.Bytes()
	for _, v := range []struct{ name, n, e string }{
		{"rsa-valid", u(n), "AQAB"}, {"rsa-n-empty", "", "AQAB"}, {"rsa-n-1-byte", u([]byte{0xc5}), "AQAB"}, {"rsa-n-zero", u(make([]byte, 256)), "AQAB"}, {"rsa-n-512-bit", u(n[:64]), "AQAB"},
		{"rsa-n-even", u(append(append([]byte{}, n[:255]...), 0xfe)), "AQAB"}, {"rsa-e-empty", u(n), ""}, {"rsa-e-zero", u(n), "AA"}, {"rsa-e-one", u(n), "AQ"}, {"rsa-e-even", u(n), "Ag"},
		{"rsa-e-9-bytes", u(n), u([]byte{1, 0, 0, 0, 0, 0, 0, 0, 1})}, {"rsa-e-larger-than-n", u(n[:8]), u(n)}, {"rsa-n-8KiB", u(make([]byte, 8192)), "AQAB"},
	} {
		add(v.name, fmt.Sprintf(`{"kty":"RSA","n":%q,"e":%q}`, v.n, v.e), nil)
	}
	add("oct", fmt.Sprintf(`{"kty":"oct","k":%q}`, u(rnd(32))), nil)
	add("oct-empty", `{"kty":"oct","k":""}`, nil)
	add("kty-unknown", `{"kty":"XYZ","x":"AA"}`, nil)
	return f
}

var keyGridAlgs = []string{"EdDSA", "ES256", "ES384", "ES512", "ES256K", "PS256", "PS384", "PS512", "RS256", "HS256", "none"}

func sigLen(alg string) int {
	switch alg {
	case "EdDSA", "ES256", "ES256K":
		return 64
	case "ES384":
		return 96
	case "ES512":
		return 132
	case "HS256":
		return 32
	case "none":
		return 0
	}
	return 256
}

// unsignedCompact: a compact JWS with a signature of the right length made of arbitrary bytes.
func unsignedCompact(header, payload string, alg string) string {
	sig := make([]byte, sigLen(alg))
	_, _ = crand.Read(sig)
	return b64.EncodeToString([]byte(header)) + "." + b64.EncodeToString([]byte(payload)) + "." + b64.EncodeToString(sig)
}

func (f *keyGridFixture) edSigned(header, payload string) string {
	si := b64.EncodeToString([]byte(header)) + "." + b64.EncodeToString([]byte(payload))
	return si + "." + b64.EncodeToString(ed25519.Sign(f.edPriv, []byte(si)))
}

func didJWKFor(jwk string) string {
	return "did:jwk:" + base64.RawStdEncoding.EncodeToString([]byte(jwk))
}

type keyCase struct {
	shape keyShape
	alg   string
	valid bool // sign properly with the fixture's Ed25519 key (the shape is that key)
}

func keyGridEntries(h *harness) []*entry {
	f := newKeyGridFixture()
	node := theNode(h)
	now := time.Now().Unix()
	jwkResolver := didjwk.NewResolver()
	claims := func(iss string) string {
		return fmt.Sprintf(`{"iss":%q,"sub":%q,"aud":"a","jti":"j","iat":%d,"nbf":%d,"exp":%d}`, iss, iss, now-5, now-5, now+3600)
	}
	token := func(c keyCase, header, payload string) string {
		if c.valid {
			return f.edSigned(header, payload)
		}
		return unsignedCompact(header, payload, c.alg)
	}
	keyFunc := func(r resolver.DIDResolver) nutsCrypto.PublicKeyFunc {
		kr := resolver.DIDKeyResolver{Resolver: r}
		return func(kid string) (crypto.PublicKey, error) {
			return kr.ResolveKeyByID(kid, nil, resolver.AssertionMethod)
		}
	}
	genV := func(withValid bool, algs []string, filter func(keyShape) bool) func(h *harness, e *entry, emit func(input)) {
		return func(h *harness, e *entry, emit func(input)) {
			if withValid {
				emit(input{data: []byte(f.edJWK + " EdDSA signed"), valid: true, seed: "ed25519-signed", aux: keyCase{shape: keyShape{name: "valid", jwk: f.edJWK, okpX: f.edPriv.Public().(ed25519.PublicKey)}, alg: "EdDSA", valid: true}})
			}
			for _, s := range f.shapes {
				if filter != nil && !filter(s) {
					continue
				}
				for _, alg := range algs {
					emit(input{data: []byte(trunc([]byte(s.jwk), 300) + " " + alg), ops: []string{"key:" + s.name + "@/jwk", "alg:" + alg + "@/h/alg"}, seed: "ed25519-signed", aux: keyCase{shape: s, alg: alg}})
				}
			}
		}
	}
	gen := func(algs []string, filter func(keyShape) bool) func(h *harness, e *entry, emit func(input)) {
		return genV(true, algs, filter)
	}
	if !h.r.Thorough() {
		// quick tier: one algorithm per signature family + "none"; the thorough tier has all of them
		keyGridAlgs = []string{"EdDSA", "ES256", "ES512", "PS256", "none"}
	}
	var entries []*entry
	// (a) (b) did:jwk, JWT and JWS parsing as every token-verifying component does (crypto/jwx.go)
	entries = append(entries, &entry{name: "keygrid.ParseJWT.did-jwk", gen: gen(keyGridAlgs, nil), call: func(in input) error {
		c := in.aux.(keyCase)
		d := didJWKFor(c.shape.jwk)
		_, err := nutsCrypto.ParseJWT(token(c, fmt.Sprintf(`{"alg":%q,"typ":"JWT","kid":"%s#0"}`, c.alg, d), claims(d)), keyFunc(jwkResolver))
		return err
	}})
	entries = append(entries, &entry{name: "keygrid.ParseJWS.did-jwk", gen: gen(keyGridAlgs, nil), call: func(in input) error {
		c := in.aux.(keyCase)
		d := didJWKFor(c.shape.jwk)
		_, err := nutsCrypto.ParseJWS([]byte(token(c, fmt.Sprintf(`{"alg":%q,"kid":"%s#0"}`, c.alg, d), "payload")), keyFunc(jwkResolver))
		return err
	}})
	// (c) did:web: the hostile host serves a document whose methods carry the key (JsonWebKey2020; Ed25519VerificationKey2018 for the OKP shapes)
	webID := "did:web:keys.example.com"
	webDoc := func(method string) []byte {
		return []byte(fmt.Sprintf(`{"@context":["https://www.w3.org/ns/did/v1"],"id":%[1]q,"verificationMethod":[%[2]s],"authentication":["%[1]s#key-1"],"assertionMethod":["%[1]s#key-1"]}`, webID, method))
	}
	webCall := func(method func(c keyCase) (string, bool)) func(in input) error {
		return func(in input) error {
			c := in.aux.(keyCase)
			m, ok := method(c)
			if !ok {
				return errors.New("shape has no such representation")
			}
			doer := &scriptedDoer{}
			doer.set(200, "application/did+json", webDoc(m))
			_, err := nutsCrypto.ParseJWT(token(c, fmt.Sprintf(`{"alg":%q,"typ":"JWT","kid":"%s#key-1"}`, c.alg, webID), claims(webID)), keyFunc(didweb.Resolver{HttpClient: doer}))
			return err
		}
	}
	entries = append(entries, &entry{name: "keygrid.ParseJWT.did-web.JsonWebKey2020", gen: gen(keyGridAlgs, nil), call: webCall(func(c keyCase) (string, bool) {
		return fmt.Sprintf(`{"id":"%[1]s#key-1","type":"JsonWebKey2020","controller":%[1]q,"publicKeyJwk":%[2]s}`, webID, c.shape.jwk), true
	})})
	entries = append(entries, &entry{name: "keygrid.ParseJWT.did-web.Ed25519VerificationKey2018", gen: gen(keyGridAlgs, func(s keyShape) bool { return s.okpX != nil && len(s.okpX) < 1<<16 }),
		call: webCall(func(c keyCase) (string, bool) {
			return fmt.Sprintf(`{"id":"%[1]s#key-1","type":"Ed25519VerificationKey2018","controller":%[1]q,"publicKeyBase58":%[2]q}`, webID, base58.Encode(c.shape.okpX)), true
		})})
	// (d) DPoP proof: the key travels in the jwk header
	entries = append(entries, &entry{name: "keygrid.dpop.Parse", gen: gen(keyGridAlgs, nil), call: func(in input) error {
		c := in.aux.(keyCase)
		p, err := dpop.Parse(token(c, fmt.Sprintf(`{"typ":"dpop+jwt","alg":%q,"jwk":%s}`, c.alg, c.shape.jwk), fmt.Sprintf(`{"htm":"POST","htu":"https://server.example.com/token","jti":"j","iat":%d}`, now-5)))
		if err != nil {
			return err
		}
		_, _ = p.Match("x", "POST", "https://server.example.com/token")
		return nil
	}})
	// (e) (f) the node's credential verifier: JWT credential / presentation issued by the did:jwk
	jwtVC := func(c keyCase, d string) string {
		return token(c, fmt.Sprintf(`{"alg":%q,"typ":"JWT","kid":"%s#0"}`, c.alg, d), fmt.Sprintf(`{"iss":%[1]q,"sub":%[1]q,"jti":"%[1]s#c1","nbf":%[2]d,"exp":%[3]d,
"vc":{"@context":["https://www.w3.org/2018/credentials/v1","https://nuts.nl/credentials/v1"],"type":["VerifiableCredential","NutsOrganizationCredential"],"credentialSubject":{"id":%[1]q,"organization":{"name":"hostile care","city":"IJbergen"}}}}`, d, now-60, now+86400))
	}
	entries = append(entries, &entry{name: "keygrid.verifier.Verify.jwt_vc", gen: gen(keyGridAlgs, nil), call: func(in input) error {
		c := in.aux.(keyCase)
		cred, err := vc.ParseVerifiableCredential(jwtVC(c, didJWKFor(c.shape.jwk)))
		if err != nil {
			return err
		}
		return node.verifier.Verify(*cred, true, true, nil)
	}})
	entries = append(entries, &entry{name: "keygrid.verifier.VerifyVP.jwt_vp", gen: gen(keyGridAlgs, nil), call: func(in input) error {
		c := in.aux.(keyCase)
		d := didJWKFor(c.shape.jwk)
		vp := token(c, fmt.Sprintf(`{"alg":%q,"typ":"JWT","kid":"%s#0"}`, c.alg, d), fmt.Sprintf(`{"iss":%[1]q,"sub":%[1]q,"jti":"%[1]s#p1","aud":"did:web:verifier.example","nonce":"n","nbf":%[2]d,"exp":%[3]d,
"vp":{"@context":["https://www.w3.org/2018/credentials/v1"],"type":"VerifiablePresentation","holder":%[1]q,"verifiableCredential":[%[4]q]}}`, d, now-60, now+3600, jwtVC(c, d)))
		p, err := vc.ParseVerifiablePresentation(vp)
		if err != nil {
			return err
		}
		_, err = node.verifier.VerifyVP(*p, true, true, nil)
		return err
	}})
	// (g) JSON-LD credential with a JsonWebSignature2020 proof by the did:jwk: the algorithm follows from the key, the alg header is not consulted
	entries = append(entries, &entry{name: "keygrid.verifier.Verify.ldp_vc", gen: genV(false, []string{"EdDSA"}, nil), call: func(in input) error { // no known-good instance here (the harness has no JSON-LD signer): verifier.Verify.ldp_vc has the node-issued one
		c := in.aux.(keyCase)
		d := didJWKFor(c.shape.jwk)
		sig := make([]byte, 64)
		_, _ = crand.Read(sig)
		raw := fmt.Sprintf(`{"@context":["https://www.w3.org/2018/credentials/v1","https://nuts.nl/credentials/v1","https://w3c-ccg.github.io/lds-jws2020/contexts/lds-jws2020-v1.json"],
"id":"%[1]s#ld1","type":["VerifiableCredential","NutsOrganizationCredential"],"issuer":%[1]q,"issuanceDate":"2024-01-01T00:00:00Z",
"credentialSubject":{"id":%[1]q,"organization":{"name":"hostile care","city":"IJbergen"}},
"proof":{"type":"JsonWebSignature2020","verificationMethod":"%[1]s#0","proofPurpose":"assertionMethod","created":"2024-01-01T00:00:00Z","jws":"%[2]s..%[3]s"}}`,
			d, b64.EncodeToString([]byte(`{"alg":"EdDSA","b64":false,"crit":["b64"]}`)), b64.EncodeToString(sig))
		cred, err := vc.ParseVerifiableCredential(raw)
		if err != nil {
			return err
		}
		return node.verifier.Verify(*cred, true, true, nil)
	}})
	// (h) DAG transaction: the key travels in the jwk header
	dir, err := os.MkdirTemp("", "c19-keygrid-dag-")
	if err != nil {
		h.r.Fatalf("tempdir: %v", err)
	}
	h.t.Cleanup(func() { os.RemoveAll(dir) })
	db, err := dagx.OpenStore(dir, false)
	if err != nil {
		h.r.Fatalf("open store: %v", err)
	}
	st := dagx.NewState(db, dag.NewPrevTransactionsVerifier(), dag.NewTransactionSignatureVerifier(stubKeyResolver{}))
	h.t.Cleanup(func() { _ = st.Shutdown(); _ = db.Close(context.Background()) })
	root := dagx.NewTx(dagx.NewKey(""), true, []byte("root"), "application/x-verif", time.Unix(1700000000, 0), nil)
	if err := st.Add(context.Background(), root, []byte("root")); err != nil {
		h.r.Fatalf("add root: %v", err)
	}
	pl := []byte("keygrid payload")
	entries = append(entries, &entry{name: "keygrid.dag.ParseTransaction-Add", gen: genV(false, keyGridAlgs, nil), call: func(in input) error { // EdDSA is not an admitted transaction algorithm: no known-good Ed25519 instance (dag.State.Add has the P-256 one)
		c := in.aux.(keyCase)
		hdr := fmt.Sprintf(`{"alg":%q,"cty":"application/x-verif","crit":["sigt","ver","prevs","lc"],"sigt":1700000000,"prevs":[%q],"ver":2,"lc":1,"jwk":%s}`, c.alg, root.Ref().String(), c.shape.jwk)
		tx, err := dag.ParseTransaction([]byte(unsignedCompact(hdr, hash.SHA256Sum(pl).String(), c.alg)))
		if err != nil {
			return err
		}
		useTx(tx)
		return st.Add(context.Background(), tx, pl)
	}, digest: func() string {
		x, c := st.XOR(dag.MaxLamportClock)
		return fmt.Sprintf("xor=%s lc=%d", x, c)
	}})
	_ = did.DID{}
	return entries
}
