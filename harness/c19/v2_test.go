package c19

import (
	"context"
	"encoding/base64"
	"encoding/binary"
	"encoding/json"
	"errors"
	"fmt"
	"io"
	"math/rand"
	"os"
	"path/filepath"
	"runtime"
	"strconv"
	"strings"
	"sync"
	"time"

	"github.com/nuts-foundation/go-did/did"
	"github.com/nuts-foundation/go-stoabs"
	"github.com/nuts-foundation/nuts-node/core"
	"github.com/nuts-foundation/nuts-node/crypto/hash"
	"github.com/nuts-foundation/nuts-node/network/dag"
	"github.com/nuts-foundation/nuts-node/network/dag/tree"
	"github.com/nuts-foundation/nuts-node/network/transport"
	"github.com/nuts-foundation/nuts-node/network/transport/grpc"
	v2 "github.com/nuts-foundation/nuts-node/network/transport/v2"
	"github.com/nuts-foundation/nuts-node/vdr/resolver"
	"github.com/sirupsen/logrus"
	grpcLib "google.golang.org/grpc"
	"google.golang.org/protobuf/encoding/protowire"
	"google.golang.org/protobuf/proto"
	"google.golang.org/protobuf/reflect/protoreflect"
	"verif/lib/dagx"
	"verif/lib/worker"
)

// ---- records exchanged between the check (parent) and the worker (child) ------------------------------------------

type v2Record struct {
	I       int      `json:"i"`
	Entry   string   `json:"entry"`
	Ops     []string `json:"ops"`
	Conv    string   `json:"conv,omitempty"`    // conversation the worker opens first: state | listquery | rangequery
	KeepCid bool     `json:"keepCid,omitempty"` // the mutation targets the conversation id: do not overwrite it with the live one
	KeepLC  bool     `json:"keepLC,omitempty"`  // the mutation targets LCReq
	Multi   bool     `json:"multi,omitempty"`   // list of several transactions (partial application is unspecified)
	Valid   bool     `json:"valid,omitempty"`   // unmodified valid instance
	Seed    string   `json:"seed"`              // name of the valid envelope it was derived from
	Env     string   `json:"env"`               // wire bytes of the envelope, base64
}

type baseDAG struct {
	Base    []txLine `json:"base"`    // public transactions with payload (in the worker's DAG)
	Private txLine   `json:"private"` // private transaction in the DAG, payload absent
	Future  []txLine `json:"future"`  // valid transactions not in the DAG: children of the tip
}

type txLine struct {
	Data    string `json:"data"`
	Payload string `json:"payload"`
}

func line(tx dag.Transaction, payload []byte) txLine {
	return txLine{Data: string(tx.Data()), Payload: base64.StdEncoding.EncodeToString(payload)}
}

func (l txLine) tx() dag.Transaction {
	tx, err := dag.ParseTransaction([]byte(l.Data))
	if err != nil {
		panic(err)
	}
	return tx
}

func (l txLine) payload() []byte {
	b, _ := base64.StdEncoding.DecodeString(l.Payload)
	return b
}

// ---- worker: a real dag.State + v2 protocol, hostile envelopes through the production Handle path -----------------------

type peerConn struct {
	*grpc.StubConnection
	mu     sync.Mutex
	sent   []*v2.Envelope
	onPeer func()
}

func (c *peerConn) Send(_ grpc.Protocol, envelope interface{}, _ bool) error {
	c.mu.Lock()
	c.sent = append(c.sent, envelope.(*v2.Envelope))
	c.mu.Unlock()
	return nil
}

func (c *peerConn) Peer() transport.Peer {
	if c.onPeer != nil {
		c.onPeer()
	}
	return c.StubConnection.Peer()
}

func (c *peerConn) last() *v2.Envelope {
	c.mu.Lock()
	defer c.mu.Unlock()
	if len(c.sent) == 0 {
		return nil
	}
	return c.sent[len(c.sent)-1]
}

type connList struct {
	mu   sync.Mutex
	list []grpc.Connection
}

func (l *connList) Get(query ...grpc.Predicate) grpc.Connection {
	for _, c := range l.AllMatching(query...) {
		return c
	}
	return nil
}
func (l *connList) All() []grpc.Connection {
	l.mu.Lock()
	defer l.mu.Unlock()
	return append([]grpc.Connection{}, l.list...)
}
func (l *connList) AllMatching(query ...grpc.Predicate) []grpc.Connection {
	var out []grpc.Connection
outer:
	for _, c := range l.All() {
		for _, q := range query {
			if !q.Match(c) {
				continue outer
			}
		}
		out = append(out, c)
	}
	return out
}

type fakeRegistrar struct{}

func (fakeRegistrar) RegisterService(*grpcLib.ServiceDesc, interface{}) {}

type fakeConnManager struct {
	observer transport.StreamStateObserverFunc
}

func (f *fakeConnManager) Diagnostics() []core.DiagnosticResult    { return nil }
func (f *fakeConnManager) Connect(string, did.DID, *time.Duration) {}
func (f *fakeConnManager) Peers() []transport.Peer                 { return nil }
func (f *fakeConnManager) Contacts() []transport.Contact           { return nil }
func (f *fakeConnManager) RegisterObserver(callback transport.StreamStateObserverFunc) {
	f.observer = callback
}
func (f *fakeConnManager) Start() error { return nil }
func (f *fakeConnManager) Stop()        {}

type nodeDIDResolver struct{ id did.DID }

func (r nodeDIDResolver) Resolve(id did.DID, _ *resolver.ResolveMetadata) (*did.Document, *resolver.DocumentMetadata, error) {
	if !id.Equals(r.id) {
		return nil, nil, resolver.ErrNotFound
	}
	doc := &did.Document{ID: id}
	kid := did.DIDURL{DID: id, Fragment: "ka"}
	vm, _ := did.NewVerificationMethod(kid, "JsonWebKey2020", id, atk.priv.Public())
	doc.AddKeyAgreement(vm)
	return doc, &resolver.DocumentMetadata{}, nil
}

type noDecrypter struct{}

func (noDecrypter) Decrypt(context.Context, string, []byte) ([]byte, error) {
	return nil, errors.New("cannot decrypt")
}

// errorHook records "Error handling message" entries: that is how the asynchronous handlers report a rejected message.
type errorHook struct {
	mu     sync.Mutex
	errors []string
	ignore string // peer id of the marker connection
}

func (h *errorHook) Levels() []logrus.Level {
	return []logrus.Level{logrus.ErrorLevel, logrus.WarnLevel}
}
func (h *errorHook) Fire(e *logrus.Entry) error {
	if e.Level != logrus.ErrorLevel {
		return nil
	}
	if p, ok := e.Data[core.LogFieldPeerID]; ok && fmt.Sprint(p) == h.ignore {
		return nil
	}
	msg := e.Message
	if err, ok := e.Data[logrus.ErrorKey]; ok {
		msg += ": " + fmt.Sprint(err)
	}
	h.mu.Lock()
	h.errors = append(h.errors, msg)
	h.mu.Unlock()
	return nil
}
func (h *errorHook) take() []string {
	h.mu.Lock()
	defer h.mu.Unlock()
	out := h.errors
	h.errors = nil
	return out
}

type v2Env struct {
	dir     string
	db      stoabs.KVStore
	state   dag.State
	proto   grpc.Protocol
	tp      transport.Protocol
	conns   *connList
	cm      *fakeConnManager
	base    baseDAG
	baseXor hash.SHA256Hash
	clock   uint32
	baseDig string
	nodeDID did.DID
	peerN   int
}

func (e *v2Env) digest() string {
	x, c := e.state.XOR(dag.MaxLamportClock)
	n := 0
	for _, d := range e.state.Diagnostics() {
		if d.Name() == "transaction_count" {
			n, _ = strconv.Atoi(fmt.Sprint(d.Result()))
		}
	}
	priv := e.base.Private.tx()
	pp, _ := e.state.IsPayloadPresent(context.Background(), priv.PayloadHash())
	return fmt.Sprintf("xor=%s lc=%d n=%d privatePayload=%v", x, c, n, pp)
}

func openV2Env(root string, base baseDAG, withDID bool, n int) *v2Env {
	dir := filepath.Join(root, fmt.Sprintf("state-%d", n))
	_ = os.MkdirAll(dir, 0o755)
	db, err := dagx.OpenStore(dir, false)
	if err != nil {
		panic(err)
	}
	st := dagx.NewState(db, dag.NewPrevTransactionsVerifier(), dag.NewTransactionSignatureVerifier(stubKeyResolver{}))
	e := &v2Env{dir: dir, db: db, state: st, base: base, conns: &connList{}, cm: &fakeConnManager{}}
	if withDID {
		e.nodeDID = did.MustParseDID("did:nuts:GvkzxsezHvEc8nGhgz6Xo3jbqkHwswLmWw3CYtCm7hAW")
	}
	cfg := v2.Config{Datadir: dir, PayloadRetryDelay: time.Hour, GossipInterval: 3600 * 1000, DiagnosticsInterval: 0}
	e.tp = v2.New(cfg, e.nodeDID, st, nodeDIDResolver{e.nodeDID}, noDecrypter{}, func() transport.Diagnostics { return transport.Diagnostics{} }, db)
	e.proto = e.tp.(grpc.Protocol)
	e.proto.Register(fakeRegistrar{}, func(grpcLib.ServerStream) error { return nil }, e.conns, e.cm)
	if err := e.tp.Configure("c19-node"); err != nil {
		panic(err)
	}
	if err := st.Start(); err != nil {
		panic(err)
	}
	if err := e.tp.Start(); err != nil {
		panic(err)
	}
	for _, l := range base.Base {
		if err := st.Add(context.Background(), l.tx(), l.payload()); err != nil {
			panic(fmt.Sprintf("base add: %v", err))
		}
	}
	if err := st.Add(context.Background(), base.Private.tx(), nil); err != nil {
		panic(fmt.Sprintf("private add: %v", err))
	}
	e.baseXor, e.clock = st.XOR(dag.MaxLamportClock)
	e.baseDig = e.digest()
	return e
}

func (e *v2Env) close() {
	e.tp.Stop()
	_ = e.state.Shutdown()
	_ = e.db.Close(context.Background())
}

func (e *v2Env) newPeer() *peerConn {
	e.peerN++
	p := transport.Peer{ID: transport.PeerID(fmt.Sprintf("hostile-%d", e.peerN)), Address: fmt.Sprintf("hostile:%d", e.peerN), NodeDID: did.MustParseDID("did:nuts:hostilepeer"), Authenticated: true}
	c := &peerConn{StubConnection: grpc.NewStubConnection(p)}
	e.conns.mu.Lock()
	e.conns.list = []grpc.Connection{c}
	e.conns.mu.Unlock()
	if e.cm.observer != nil {
		e.cm.observer(p, transport.StateConnected, e.tp)
	}
	return c
}

func (e *v2Env) dropPeer(c *peerConn) {
	if e.cm.observer != nil {
		e.cm.observer(c.StubConnection.Peer(), transport.StateDisconnected, e.tp)
	}
}

var stackBuf = make([]byte, 4<<20)

// quiesce waits until no asynchronous message handler is running: no goroutine started by handleASync is alive and the
// in-order TransactionList handler has reached the marker message sent after the input.
func (e *v2Env) quiesce() bool {
	// a fresh marker connection per call: only the first Peer() call of *this* marker's handler signals
	// (the handler calls Peer() again when it logs its "unknown conversation" error, possibly much later)
	reached := make(chan struct{})
	var once sync.Once
	m := &peerConn{StubConnection: grpc.NewStubConnection(transport.Peer{ID: "c19-marker", Address: "marker:1"})}
	m.onPeer = func() {
		// Handle() itself asks for the peer (for its log fields) before it queues the message: only the call made by the in-order handler counts
		buf := make([]byte, 8192)
		if strings.Contains(string(buf[:runtime.Stack(buf, false)]), "(*transactionListHandler).start") {
			once.Do(func() { close(reached) })
		}
	}
	_ = e.proto.Handle(m, &v2.Envelope{Message: &v2.Envelope_TransactionList{TransactionList: &v2.TransactionList{ConversationID: []byte("c19-marker")}}})
	select {
	case <-reached:
	case <-time.After(watchdog):
		return false
	}
	deadline := time.Now().Add(watchdog)
	for {
		n := runtime.Stack(stackBuf, true)
		s := string(stackBuf[:n])
		if !strings.Contains(s, "transport/v2.handleASync") && !strings.Contains(s, "(*protocol).handleTransactionList") {
			return true
		}
		if time.Now().After(deadline) {
			return false
		}
		time.Sleep(200 * time.Microsecond)
	}
}

// openConversation makes the node start a conversation of the wanted kind with peer c and returns its id (and the LC the node asked for).
func (e *v2Env) openConversation(c *peerConn, kind string) ([]byte, uint32) {
	var other [32]byte
	other[0] = 0xc1
	switch kind {
	case "state":
		// a Gossip with a different XOR and no new refs makes the node send State
		_ = e.proto.Handle(c, &v2.Envelope{Message: &v2.Envelope_Gossip{Gossip: &v2.Gossip{XOR: other[:], LC: e.clock + 7}}})
		e.quiesce()
		if m := c.last(); m != nil && m.GetState() != nil {
			return m.GetState().ConversationID, m.GetState().LC
		}
	case "listquery":
		// gossiping the future transactions such that our XOR + refs == peer XOR makes the node ask for them
		x := e.baseXor
		var refs [][]byte
		for _, f := range e.base.Future {
			r := f.tx().Ref()
			x = x.Xor(r)
			refs = append(refs, r.Slice())
		}
		_ = e.proto.Handle(c, &v2.Envelope{Message: &v2.Envelope_Gossip{Gossip: &v2.Gossip{XOR: x.Slice(), LC: e.clock + 2, Transactions: refs}}})
		e.quiesce()
		if m := c.last(); m != nil && m.GetTransactionListQuery() != nil {
			return m.GetTransactionListQuery().ConversationID, 0
		}
	case "rangequery":
		// State conversation, then a TransactionSet whose IBLT cannot be decoded: the node falls back to a range query for the first page
		cid, lc := e.openConversation(c, "state")
		if cid == nil {
			return nil, 0
		}
		garbage := make([]byte, dag.IbltNumBuckets*44)
		for b := 0; b < dag.IbltNumBuckets; b++ {
			binary.LittleEndian.PutUint32(garbage[b*44:], 5)
			garbage[b*44+20] = byte(b)
		}
		_ = e.proto.Handle(c, &v2.Envelope{Message: &v2.Envelope_TransactionSet{TransactionSet: &v2.TransactionSet{ConversationID: cid, LCReq: lc, LC: e.clock, IBLT: garbage}}})
		e.quiesce()
		if m := c.last(); m != nil && m.GetTransactionRangeQuery() != nil {
			return m.GetTransactionRangeQuery().ConversationID, 0
		}
	}
	return nil, 0
}

// v2Worker args: dir, withDID ("1"/"0"), start index. Reads dir/inputs.jsonl and dir/base.json, appends to dir/ledger.
func v2Worker(args []string) int {
	dir, withDID := args[0], args[1] == "1"
	start, _ := strconv.Atoi(args[2])
	single := len(args) > 3 && args[3] == "single" // evaluate only input `start` (reproduction of a stuck handler on an idle worker)
	logrus.SetLevel(logrus.ErrorLevel)
	logrus.SetOutput(io.Discard) // rejected messages are observed through the hook; the output is kept free for the crash report of the runtime
	var base baseDAG
	data, err := os.ReadFile(filepath.Join(dir, "base.json"))
	if err != nil || json.Unmarshal(data, &base) != nil {
		fmt.Println("worker: cannot read base", err)
		return 3
	}
	hook := &errorHook{ignore: "c19-marker"}
	logrus.AddHook(hook)
	led := worker.OpenLedger(filepath.Join(dir, "ledger"))
	lines := worker.ReadLedger(filepath.Join(dir, "inputs.jsonl"))
	envN, stuck := 0, 0
	e := openV2Env(dir, base, withDID, envN)
	for _, ln := range lines {
		var rec v2Record
		if err := json.Unmarshal([]byte(ln), &rec); err != nil {
			fmt.Println("worker: bad record", err)
			return 3
		}
		if rec.I < start || (single && rec.I > start) {
			continue
		}
		led.Log("begin %d", rec.I)
		wire, _ := base64.StdEncoding.DecodeString(rec.Env)
		env := &v2.Envelope{}
		if err := proto.Unmarshal(wire, env); err != nil {
			led.Log("end %d D decode: %v", rec.I, err) // refused by the gRPC layer's decoder
			continue
		}
		c := e.newPeer()
		convOK := true
		if rec.Conv != "" {
			cid, lc := e.openConversation(c, rec.Conv)
			convOK = cid != nil
			if convOK {
				patchConversation(env, cid, lc, !rec.KeepCid, !rec.KeepLC)
			}
			hook.take()
		}
		before := e.digest()
		hErr := e.proto.Handle(c, env)
		quiet := e.quiesce()
		after := e.digest()
		errs := hook.take()
		verdict := "A"
		detail := ""
		if hErr != nil || len(errs) > 0 {
			verdict = "R"
			if hErr != nil {
				detail = "Handle: " + hErr.Error() + " || "
			}
			detail += strings.Join(errs, " || ")
		}
		if !quiet {
			verdict = "T"
			stuck++
		}
		if !convOK {
			detail = "[conversation not opened] " + detail
		}
		changed := "same"
		if before != after {
			changed = "changed " + before + " -> " + after
		}
		led.Log("end %d %s %s | %s", rec.I, verdict, changed, strings.ReplaceAll(detail, "\n", " "))
		e.dropPeer(c)
		if stuck >= 3 {
			// handlers that never finish keep spinning in this process: stop here, the parent reports the rest as not evaluated
			led.Log("stuck")
			return 4
		}
		if after != e.baseDig {
			// every input is evaluated against the same base state. The used environment is abandoned, not shut down: stopping the protocol
			// cancels its context while notifier goroutines of the just-added transaction may sit in the store's lock-with-cancel (can deadlock)
			envN++
			e = openV2Env(dir, base, withDID, envN)
		}
	}
	led.Log("done")
	return 0
}

func patchConversation(env *v2.Envelope, cid []byte, lc uint32, setCid, setLC bool) {
	switch m := env.Message.(type) {
	case *v2.Envelope_TransactionSet:
		if m.TransactionSet != nil {
			if setCid {
				m.TransactionSet.ConversationID = cid
			}
			if setLC {
				m.TransactionSet.LCReq = lc
			}
		}
	case *v2.Envelope_TransactionList:
		if m.TransactionList != nil && setCid {
			m.TransactionList.ConversationID = cid
		}
	}
}

// ---- parent: input generation (protobuf-structure-aware) and evaluation of the worker's ledger ---------------------------

type pbSite struct {
	path string
	msg  protoreflect.Message
	fd   protoreflect.FieldDescriptor
}

func pbSites(m protoreflect.Message, prefix string, out *[]pbSite) {
	fds := m.Descriptor().Fields()
	for i := 0; i < fds.Len(); i++ {
		fd := fds.Get(i)
		if fd.ContainingOneof() != nil && !fd.HasOptionalKeyword() && !m.Has(fd) {
			continue
		}
		p := prefix + "/" + string(fd.Name())
		*out = append(*out, pbSite{p, m, fd})
		if fd.Kind() == protoreflect.MessageKind && m.Has(fd) {
			if fd.IsList() {
				l := m.Get(fd).List()
				for j := 0; j < l.Len(); j++ {
					pbSites(l.Get(j).Message(), p+"/"+strconv.Itoa(j), out)
				}
			} else {
				pbSites(m.Get(fd).Message(), p, out)
			}
		}
	}
}

type pbOp struct {
	name  string
	apply func(s pbSite, rnd *rand.Rand) bool
}

func bytesVariants(cur []byte, rnd *rand.Rand) map[string][]byte {
	r32 := make([]byte, 32)
	rnd.Read(r32)
	flip := append([]byte{}, cur...)
	if len(flip) > 0 {
		flip[rnd.Intn(len(flip))] ^= 1 << uint(rnd.Intn(8))
	}
	half := cur[:len(cur)/2]
	return map[string][]byte{"nil": nil, "empty": {}, "one-byte": {1}, "31-bytes": r32[:31], "33-bytes": append(append([]byte{}, r32...), 9), "zero-32": make([]byte, 32),
		"ff-32": []byte(strings.Repeat("\xff", 32)), "random-32": r32, "bitflip": flip, "half": half, "doubled": append(append([]byte{}, cur...), cur...), "1MiB": make([]byte, 1<<20)}
}

var uint32Variants = []uint32{0, 1, 2, 511, 512, 513, 1023, 1024, 1 << 31, 1<<32 - 2, 1<<32 - 1}

func pbOps() []pbOp {
	var ops []pbOp
	for _, name := range []string{"nil", "empty", "one-byte", "31-bytes", "33-bytes", "zero-32", "ff-32", "random-32", "bitflip", "half", "doubled", "1MiB"} {
		name := name
		ops = append(ops, pbOp{"bytes:" + name, func(s pbSite, rnd *rand.Rand) bool {
			if s.fd.Kind() != protoreflect.BytesKind {
				return false
			}
			if s.fd.IsList() {
				l := s.msg.Mutable(s.fd).List()
				if l.Len() == 0 {
					return false
				}
				i := rnd.Intn(l.Len())
				l.Set(i, protoreflect.ValueOfBytes(bytesVariants(l.Get(i).Bytes(), rnd)[name]))
				return true
			}
			s.msg.Set(s.fd, protoreflect.ValueOfBytes(bytesVariants(s.msg.Get(s.fd).Bytes(), rnd)[name]))
			return true
		}})
	}
	for _, v := range uint32Variants {
		v := v
		ops = append(ops, pbOp{fmt.Sprintf("uint32:%d", v), func(s pbSite, _ *rand.Rand) bool {
			if s.fd.Kind() != protoreflect.Uint32Kind {
				return false
			}
			s.msg.Set(s.fd, protoreflect.ValueOfUint32(v))
			return true
		}})
	}
	for _, v := range []string{"", "\x00", "\xff\xfe", strings.Repeat("A", 1<<20), "1.2.3", "%s%n", "\n"} {
		v := v
		ops = append(ops, pbOp{fmt.Sprintf("string:%q", trunc([]byte(v), 8)), func(s pbSite, rnd *rand.Rand) bool {
			if s.fd.Kind() != protoreflect.StringKind {
				return false
			}
			if s.fd.IsList() {
				l := s.msg.Mutable(s.fd).List()
				l.Append(protoreflect.ValueOfString(v))
				return true
			}
			s.msg.Set(s.fd, protoreflect.ValueOfString(v))
			return true
		}})
	}
	ops = append(ops,
		pbOp{"clear", func(s pbSite, _ *rand.Rand) bool {
			if !s.msg.Has(s.fd) {
				return false
			}
			s.msg.Clear(s.fd)
			return true
		}},
		pbOp{"list:duplicate", func(s pbSite, rnd *rand.Rand) bool {
			if !s.fd.IsList() {
				return false
			}
			l := s.msg.Mutable(s.fd).List()
			if l.Len() == 0 {
				return false
			}
			l.Append(l.Get(rnd.Intn(l.Len())))
			return true
		}},
		pbOp{"list:many", func(s pbSite, _ *rand.Rand) bool {
			if !s.fd.IsList() {
				return false
			}
			l := s.msg.Mutable(s.fd).List()
			if l.Len() == 0 {
				return false
			}
			for i := 0; i < 2000; i++ {
				l.Append(l.Get(0))
			}
			return true
		}},
		pbOp{"list:reverse", func(s pbSite, _ *rand.Rand) bool {
			if !s.fd.IsList() {
				return false
			}
			l := s.msg.Mutable(s.fd).List()
			if l.Len() < 2 {
				return false
			}
			for i, j := 0, l.Len()-1; i < j; i, j = i+1, j-1 {
				a, b := l.Get(i), l.Get(j)
				if s.fd.Kind() == protoreflect.MessageKind {
					a, b = protoreflect.ValueOfMessage(proto.Clone(a.Message().Interface()).ProtoReflect()), protoreflect.ValueOfMessage(proto.Clone(b.Message().Interface()).ProtoReflect())
				}
				l.Set(i, b)
				l.Set(j, a)
			}
			return true
		}},
		pbOp{"message:empty", func(s pbSite, _ *rand.Rand) bool {
			if s.fd.Kind() != protoreflect.MessageKind {
				return false
			}
			if s.fd.IsList() {
				l := s.msg.Mutable(s.fd).List()
				l.Append(l.NewElement())
				return true
			}
			s.msg.Set(s.fd, protoreflect.ValueOfMessage(s.msg.NewField(s.fd).Message()))
			return true
		}},
	)
	return ops
}

type v2Seed struct {
	name string
	typ  string
	conv string
	env  *v2.Envelope
	mult bool
}

type v2Gen struct {
	h    *harness
	rnd  *rand.Rand
	recs []v2Record
}

func (g *v2Gen) add(s v2Seed, env proto.Message, wire []byte, ops []string, valid bool) {
	if wire == nil {
		var err error
		wire, err = proto.Marshal(env)
		if err != nil {
			return
		}
	}
	keepCid, keepLC := false, false
	for _, o := range ops {
		if strings.Contains(o, "/conversationID") {
			keepCid = true
		}
		if strings.Contains(o, "/LCReq") {
			keepLC = true
		}
	}
	g.recs = append(g.recs, v2Record{I: len(g.recs), Entry: "v2.Handle." + s.typ, Ops: ops, Conv: s.conv, KeepCid: keepCid, KeepLC: keepLC, Multi: s.mult, Valid: valid, Seed: s.name,
		Env: base64.StdEncoding.EncodeToString(wire)})
}

// buildV2Inputs generates the base DAG and the hostile envelopes (pure function of seed and tier apart from key material).
func buildV2Inputs(h *harness) (baseDAG, []v2Record) {
	rnd := h.r.Rand("v2")
	key := dagx.NewKey("")
	now := time.Unix(1700000000, 0)
	var base baseDAG
	txs := dagx.Gen(rnd, key, h.r.Seed(), dagx.Random, 11, nil)
	for i, tx := range txs {
		base.Base = append(base.Base, line(tx, dagx.Payload(h.r.Seed(), i)))
	}
	tip := txs[len(txs)-1]
	for _, t := range txs {
		if t.Clock() > tip.Clock() {
			tip = t
		}
	}
	privPayload := []byte("private payload c19")
	priv := dagx.NewTx(key, true, privPayload, "application/x-verif", now, [][]byte{{1, 2, 3, 4}, {5, 6, 7, 8}}, tip)
	base.Private = line(priv, privPayload)
	f1p, f2p := []byte("future 1"), []byte("future 2")
	f1 := dagx.NewTx(key, true, f1p, "application/x-verif", now, nil, priv)
	f2 := dagx.NewTx(key, true, f2p, "application/x-verif", now, nil, f1)
	f3 := dagx.NewTx(key, true, []byte("future 3 private"), "application/x-verif", now, [][]byte{{9}}, priv)
	base.Future = []txLine{line(f1, f1p), line(f2, f2p), line(f3, nil)}

	xor := hash.EmptyHash()
	var clock uint32
	ib := tree.NewIblt(dag.IbltNumBuckets)
	for _, t := range append(append([]dag.Transaction{}, txs...), priv) {
		xor = xor.Xor(t.Ref())
		if t.Clock() > clock {
			clock = t.Clock()
		}
		ib.Insert(t.Ref())
	}
	peerIblt := ib.Clone().(*tree.Iblt)
	peerIblt.Insert(f1.Ref())
	peerIblt.Delete(txs[3].Ref())
	ibltBytes, _ := peerIblt.MarshalBinary()
	var other [32]byte
	other[5] = 0x77
	cid := []byte("11111111-2222-3333-4444-555555555555")
	pTx := func(l txLine, withPayload bool) *v2.Transaction {
		t := &v2.Transaction{Data: []byte(l.Data)}
		if withPayload {
			t.Payload = l.payload()
		}
		return t
	}
	seeds := []v2Seed{
		{name: "gossip-in-sync", typ: "Gossip", env: &v2.Envelope{Message: &v2.Envelope_Gossip{Gossip: &v2.Gossip{XOR: xor.Slice(), LC: clock}}}},
		{name: "gossip-new-refs", typ: "Gossip", env: &v2.Envelope{Message: &v2.Envelope_Gossip{Gossip: &v2.Gossip{XOR: xor.Xor(f1.Ref()).Slice(), LC: clock + 1, Transactions: [][]byte{f1.Ref().Slice(), txs[2].Ref().Slice()}}}}},
		{name: "gossip-diverged", typ: "Gossip", env: &v2.Envelope{Message: &v2.Envelope_Gossip{Gossip: &v2.Gossip{XOR: other[:], LC: clock}}}},
		{name: "list-query", typ: "TransactionListQuery", env: &v2.Envelope{Message: &v2.Envelope_TransactionListQuery{TransactionListQuery: &v2.TransactionListQuery{ConversationID: cid, Refs: [][]byte{txs[1].Ref().Slice(), txs[4].Ref().Slice(), priv.Ref().Slice(), other[:]}}}}},
		{name: "range-query", typ: "TransactionRangeQuery", env: &v2.Envelope{Message: &v2.Envelope_TransactionRangeQuery{TransactionRangeQuery: &v2.TransactionRangeQuery{ConversationID: cid, Start: 0, End: 5}}}},
		{name: "payload-query-public", typ: "TransactionPayloadQuery", env: &v2.Envelope{Message: &v2.Envelope_TransactionPayloadQuery{TransactionPayloadQuery: &v2.TransactionPayloadQuery{ConversationID: cid, TransactionRef: txs[3].Ref().Slice()}}}},
		{name: "payload-query-private", typ: "TransactionPayloadQuery", env: &v2.Envelope{Message: &v2.Envelope_TransactionPayloadQuery{TransactionPayloadQuery: &v2.TransactionPayloadQuery{ConversationID: cid, TransactionRef: priv.Ref().Slice()}}}},
		{name: "payload-private", typ: "TransactionPayload", env: &v2.Envelope{Message: &v2.Envelope_TransactionPayload{TransactionPayload: &v2.TransactionPayload{ConversationID: cid, TransactionRef: priv.Ref().Slice(), Data: privPayload}}}},
		{name: "payload-public", typ: "TransactionPayload", env: &v2.Envelope{Message: &v2.Envelope_TransactionPayload{TransactionPayload: &v2.TransactionPayload{TransactionRef: txs[2].Ref().Slice(), Data: dagx.Payload(h.r.Seed(), 2)}}}},
		{name: "state", typ: "State", env: &v2.Envelope{Message: &v2.Envelope_State{State: &v2.State{ConversationID: cid, XOR: other[:], LC: clock}}}},
		{name: "transaction-set", typ: "TransactionSet", conv: "state", env: &v2.Envelope{Message: &v2.Envelope_TransactionSet{TransactionSet: &v2.TransactionSet{ConversationID: cid, LCReq: clock, LC: clock + 1, IBLT: ibltBytes}}}},
		{name: "transaction-list-1", typ: "TransactionList", conv: "listquery", env: &v2.Envelope{Message: &v2.Envelope_TransactionList{TransactionList: &v2.TransactionList{ConversationID: cid, Transactions: []*v2.Transaction{pTx(base.Future[0], true)}, TotalMessages: 1, MessageNumber: 1}}}},
		{name: "transaction-list-3", typ: "TransactionList", conv: "listquery", mult: true, env: &v2.Envelope{Message: &v2.Envelope_TransactionList{TransactionList: &v2.TransactionList{ConversationID: cid, Transactions: []*v2.Transaction{pTx(base.Future[0], true), pTx(base.Future[1], true), pTx(base.Future[2], false)}, TotalMessages: 2, MessageNumber: 1}}}},
		{name: "transaction-list-range", typ: "TransactionList", conv: "rangequery", env: &v2.Envelope{Message: &v2.Envelope_TransactionList{TransactionList: &v2.TransactionList{ConversationID: cid, Transactions: []*v2.Transaction{pTx(base.Future[0], true)}, TotalMessages: 1, MessageNumber: 1}}}},
		{name: "transaction-list-in-state-conversation", typ: "TransactionList", conv: "state", env: &v2.Envelope{Message: &v2.Envelope_TransactionList{TransactionList: &v2.TransactionList{ConversationID: cid, Transactions: []*v2.Transaction{pTx(base.Future[0], true)}, TotalMessages: 1, MessageNumber: 1}}}},
		{name: "transaction-set-in-list-conversation", typ: "TransactionSet", conv: "listquery", env: &v2.Envelope{Message: &v2.Envelope_TransactionSet{TransactionSet: &v2.TransactionSet{ConversationID: cid, LCReq: clock, LC: clock, IBLT: ibltBytes}}}},
		{name: "diagnostics", typ: "DiagnosticsBroadcast", env: &v2.Envelope{Message: &v2.Envelope_DiagnosticsBroadcast{DiagnosticsBroadcast: &v2.Diagnostics{Uptime: 10, PeerID: "p", Peers: []string{"a", "b"}, NumberOfTransactions: 5, SoftwareVersion: "v", SoftwareID: "id"}}}},
	}
	g := &v2Gen{h: h, rnd: rnd}
	ops := pbOps()
	for _, s := range seeds {
		valid := s.name != "transaction-list-in-state-conversation" && s.name != "transaction-set-in-list-conversation" && s.name != "gossip-new-refs"
		var vops []string
		if !valid {
			vops = []string{"oddity:" + s.name + "@"}
		}
		g.add(s, s.env, nil, vops, valid)
		// systematic: every field x every applicable operator
		var sites []pbSite
		pbSites(s.env.ProtoReflect(), "", &sites)
		for si := range sites {
			for _, op := range ops {
				clone := proto.Clone(s.env).(*v2.Envelope)
				var cs []pbSite
				pbSites(clone.ProtoReflect(), "", &cs)
				if op.apply(cs[si], rnd) {
					g.add(s, clone, nil, []string{op.name + "@" + cs[si].path}, false)
				}
			}
		}
		// wire level
		wire, _ := proto.Marshal(s.env)
		for _, cut := range []int{1, 2, len(wire) / 2, len(wire) - 1} {
			if cut > 0 && cut < len(wire) {
				g.add(s, nil, wire[:cut], []string{fmt.Sprintf("wire:truncate@%d", cut)}, false)
			}
		}
		g.add(s, nil, append(append([]byte{}, wire...), wire...), []string{"wire:duplicated-oneof@"}, false)
		g.add(s, nil, protowire.AppendVarint(protowire.AppendTag(append([]byte{}, wire...), 999, protowire.VarintType), 7), []string{"wire:unknown-field@"}, false)
		other := seeds[(len(s.name)+3)%len(seeds)]
		ow, _ := proto.Marshal(other.env)
		g.add(s, nil, append(append([]byte{}, wire...), ow...), []string{"wire:two-message-kinds@" + other.typ}, false)
	}
	g.add(v2Seed{typ: "Empty"}, &v2.Envelope{}, nil, []string{"envelope:no-message@"}, false)

	// transactions inside lists: the hostile JWS transactions of the dag.ParseTransaction generator, referencing the real tip
	ph := hash.SHA256Sum(f1p).String()
	txSeeds := seedsOf("tx-on-tip", txSeed([]string{priv.Ref().String()}, int(priv.Clock())+1, ph, true, false),
		"tx-kid-on-tip", txSeed([]string{priv.Ref().String()}, int(priv.Clock())+1, ph, false, false))
	listSeed := seeds[11]
	n := 0
	limit := h.r.Pick(100, 3000)
	capture := func(in input) {
		if n >= limit {
			return
		}
		n++
		env := proto.Clone(listSeed.env).(*v2.Envelope)
		env.GetTransactionList().Transactions = []*v2.Transaction{{Data: in.data, Payload: f1p}}
		ops := append([]string{}, in.ops...)
		for i := range ops {
			ops[i] = strings.Replace(ops[i], "@", "@/transactions/0/data", 1)
		}
		if len(ops) == 0 {
			ops = []string{"tx:resigned-by-other-key@/transactions/0/data"}
		}
		g.add(listSeed, env, nil, ops, false)
	}
	stride := h.r.Pick(11, 1)
	k := 0
	genJSON(txSeeds, false, atk.jwsWrap)(h, &entry{name: "v2.tx"}, func(in input) {
		k++
		if k%stride == 0 {
			capture(in)
		}
	})
	// IBLTs inside TransactionSet
	setSeed := seeds[10]
	n = 0
	ibltEntry(h).gen(h, &entry{name: "v2.iblt"}, func(in input) {
		n++
		if n%h.r.Pick(14, 27) != 0 || len(in.data) > 3<<20 { // an IBLT is 45 kB: ~60 / ~1500 of them travel to the workers
			return
		}
		env := proto.Clone(setSeed.env).(*v2.Envelope)
		env.GetTransactionSet().IBLT = in.data
		ops := append([]string{}, in.ops...)
		for i := range ops {
			ops[i] = strings.Replace(ops[i], "@", "@/IBLT", 1)
		}
		g.add(setSeed, env, nil, ops, false)
	})
	return base, g.recs
}

// v2Protocol runs the envelopes through worker processes, with and without a configured node DID.
func v2Protocol(h *harness) {
	base, recs := buildV2Inputs(h)
	var wg sync.WaitGroup
	for _, withDID := range []bool{false, true} {
		wg.Add(1)
		go func(withDID bool) {
			defer wg.Done()
			v2Config(h, base, recs, withDID)
		}(withDID)
	}
	wg.Wait()
}

func v2Config(h *harness, base baseDAG, recs []v2Record, withDID bool) {
	{
		suffix := ".noNodeDID"
		arg := "0"
		if withDID {
			suffix, arg = ".nodeDID", "1"
		}
		dir, err := os.MkdirTemp("", "c19-v2-")
		if err != nil {
			h.r.Fatalf("tempdir: %v", err)
		}
		defer os.RemoveAll(dir)
		bj, _ := json.Marshal(base)
		_ = os.WriteFile(filepath.Join(dir, "base.json"), bj, 0o644)
		var sb strings.Builder
		for _, rec := range recs {
			b, _ := json.Marshal(rec)
			sb.Write(b)
			sb.WriteByte('\n')
		}
		// the inputs are on disk before the worker touches them
		_ = os.WriteFile(filepath.Join(dir, "inputs.jsonl"), []byte(sb.String()), 0o644)
		start, crashes := 0, 0
		const maxCrashes = 30
		// repro handles input i alone in a fresh worker and says whether its handler got stuck again
		repro := func(i int) bool {
			rdir, err := os.MkdirTemp("", "c19-v2-repro-")
			if err != nil {
				return false
			}
			defer os.RemoveAll(rdir)
			_ = os.WriteFile(filepath.Join(rdir, "base.json"), bj, 0o644)
			_ = os.WriteFile(filepath.Join(rdir, "inputs.jsonl"), []byte(sb.String()), 0o644)
			res := worker.Run("c19v2", []string{rdir, arg, strconv.Itoa(i), "single"}, 3*time.Minute)
			if res.TimedOut {
				return true
			}
			for _, ln := range worker.ReadLedger(filepath.Join(rdir, "ledger")) {
				if strings.HasPrefix(ln, fmt.Sprintf("end %d T", i)) {
					return true
				}
			}
			return false
		}
		for start < len(recs) {
			res := worker.Run("c19v2", []string{dir, arg, strconv.Itoa(start)}, time.Duration(h.r.Pick(4, 25))*time.Minute)
			lines := worker.ReadLedger(filepath.Join(dir, "ledger"))
			_ = os.Remove(filepath.Join(dir, "ledger"))
			done := false
			open, lastEnd := -1, start-1
			for _, ln := range lines {
				switch {
				case ln == "done":
					done = true
				case ln == "stuck":
					done = true
					h.r.Inconclusive(fmt.Sprintf("v2%s: three messages whose handlers did not finish; the remaining inputs were not evaluated", suffix))
				case strings.HasPrefix(ln, "begin "):
					open, _ = strconv.Atoi(ln[6:])
				case strings.HasPrefix(ln, "end "):
					h.v2Result(recs, suffix, ln, repro)
					lastEnd, open = open, -1
				}
			}
			if done {
				break
			}
			if open < 0 && res.TimedOut && lastEnd >= start {
				h.r.Inconclusive(fmt.Sprintf("v2 worker stalled between inputs after input %d; restarted", lastEnd))
				start = lastEnd + 1
				continue
			}
			if open < 0 {
				h.r.Fatalf("v2 worker ended (exit=%d signal=%v timeout=%v) outside an input: %s", res.ExitCode, res.Signal, res.TimedOut, tailStr(res.Output, 1500))
			}
			// the process died (or hung) while handling input `open`
			rec := recs[open]
			e := &entry{name: rec.Entry + suffix}
			st := h.st(e.name)
			wire, _ := base64.StdEncoding.DecodeString(rec.Env)
			in := input{data: wire, ops: rec.Ops, seed: rec.Conv}
			st.mu.Lock()
			st.Inputs++
			for _, op := range rec.Ops {
				st.opsPtrs[op] = struct{}{}
				st.operators[strings.SplitN(op, "@", 2)[0]] = struct{}{}
			}
			st.mu.Unlock()
			h.r.Case(e.name+"|"+strings.Join(rec.Ops, "+"), true)
			if res.TimedOut {
				st.mu.Lock()
				st.Timeouts++
				st.mu.Unlock()
				h.r.Inconclusive(fmt.Sprintf("v2 worker did not finish within its time limit at input %d (%s %v)", open, rec.Entry, rec.Ops))
			} else {
				top, repo := stackTextSite(res.Output)
				if i := strings.Index(res.Output, "fatal error:"); i >= 0 && !strings.Contains(res.Output, "panic:") {
					top = "fatal-error"
				}
				h.r.Count("child_process_exits", 1)
				h.reportPanic(e, st, in, outcome{panicked: true, pfunc: top, repo: repo, pval: firstLineWith(res.Output, "panic:", "fatal error:") + fmt.Sprintf(" [child process exit %d from a background goroutine]", res.ExitCode), stack: tailStr(res.Output, 3000)})
			}
			crashes++
			start = open + 1
			if crashes >= maxCrashes {
				h.r.Inconclusive(fmt.Sprintf("v2%s: %d worker exits, remaining %d inputs not evaluated", suffix, crashes, len(recs)-start))
				break
			}
		}
	}
}

func firstLineWith(s string, needles ...string) string {
	for _, ln := range strings.Split(s, "\n") {
		for _, n := range needles {
			if strings.Contains(ln, n) {
				return strings.TrimSpace(ln)
			}
		}
	}
	return "process exited"
}

func tailStr(s string, n int) string {
	if len(s) > n {
		return s[len(s)-n:]
	}
	return s
}

// v2Result evaluates one "end" ledger line: end <i> <A|R|D|T> <same|changed ...> | detail
func (h *harness) v2Result(recs []v2Record, suffix string, ln string, repro func(i int) bool) {
	parts := strings.SplitN(ln, " ", 4)
	if len(parts) < 3 {
		return
	}
	i, _ := strconv.Atoi(parts[1])
	rec := recs[i]
	name := rec.Entry + suffix
	st := h.st(name)
	rest := ""
	if len(parts) == 4 {
		rest = parts[3]
	}
	st.mu.Lock()
	st.Inputs++
	if rec.Valid {
		st.Seeds++
	}
	for _, op := range rec.Ops {
		st.opsPtrs[op] = struct{}{}
		st.operators[strings.SplitN(op, "@", 2)[0]] = struct{}{}
	}
	switch parts[2] {
	case "A":
		st.Accepted++
	case "R", "D":
		st.Rejected++
	case "T":
		st.Timeouts++
	}
	st.StateCheck++
	st.mu.Unlock()
	h.r.Case(name+"|"+strings.Join(rec.Ops, "+"), len(rec.Ops) > 0)
	if parts[2] == "T" {
		h.r.Count("watchdog_expiries", 1)
		cls := input{ops: rec.Ops}.class()
		key := "C19/hang/" + name + "/" + cls
		h.mu.Lock()
		known := h.hangs[key]
		h.hangs[key] = true
		h.mu.Unlock()
		if known || repro == nil {
			return
		}
		// reproduce alone: a fresh worker process that handles only this message, three times
		again := 0
		for k := 0; k < 3; k++ {
			if repro(rec.I) {
				again++
			} else {
				break
			}
		}
		if again < 3 {
			h.r.Inconclusive(fmt.Sprintf("%s: handlers did not become quiescent within %s once, but did when the message was handled alone (mutations %v)", name, watchdog, rec.Ops))
			return
		}
		wire, _ := base64.StdEncoding.DecodeString(rec.Env)
		path := h.persist(&entry{name: name}, input{data: wire}, "hang-"+cls)
		st.mu.Lock()
		st.Hangs++
		st.mu.Unlock()
		h.r.Violation(key, fmt.Sprintf("%s: the handler of the message did not finish within %s, reproduced 3x in a worker of its own; input class %s, mutations %v", name, watchdog, cls, rec.Ops),
			map[string]any{"entry": name, "mutations": rec.Ops, "conversation": rec.Conv, "seed_envelope": rec.Seed, "envelope_wire_base64": rec.Env, "input_file": path})
		return
	}
	if (parts[2] == "R" || parts[2] == "D") && strings.HasPrefix(rest, "changed") {
		if rec.Multi {
			h.r.Unspecified("v2/partially-applied-transaction-list")
			return
		}
		wire, _ := base64.StdEncoding.DecodeString(rec.Env)
		e := &entry{name: name}
		path := h.persist(e, input{data: wire}, "state")
		h.r.Violation("C19/state/"+name, fmt.Sprintf("%s rejected the message but the DAG state changed: %s; mutations %v", name, rest, rec.Ops),
			map[string]any{"entry": name, "mutations": rec.Ops, "conversation": rec.Conv, "seed_envelope": rec.Seed, "index": rec.I, "envelope_wire_base64": rec.Env, "input_file": path, "ledger": ln})
	}
	if len(rec.Ops) > 0 && i%211 == 0 {
		h.r.Sample(map[string]any{"entry": name, "mutations": rec.Ops, "observed": parts[2] + " " + trunc([]byte(rest), 200)})
	}
}
