package c19

import (
	"bytes"
	"compress/gzip"
	"crypto/sha256"
	"encoding/base64"
	"encoding/hex"
	"encoding/json"
	"fmt"
	"net/http"
	"os"
	"path/filepath"
	"sort"
	"strings"
	"sync/atomic"
	"time"

	ssi "github.com/nuts-foundation/go-did"
	"github.com/nuts-foundation/go-did/did"
	"github.com/nuts-foundation/go-did/vc"
	"github.com/nuts-foundation/nuts-node/vcr/credential"
	"github.com/nuts-foundation/nuts-node/vcr/revocation"
	"verif/lib/jmut"
)

func discoveryDir(h *harness) string {
	dir, err := os.MkdirTemp("", "c19-discovery-")
	if err != nil {
		h.r.Fatalf("tempdir: %v", err)
	}
	h.t.Cleanup(func() { os.RemoveAll(dir) })
	def := `{"id":"c19-service","endpoint":"https://discovery.example.com/discovery/c19-service","presentation_max_validity":36000,
"presentation_definition":{"id":"c19-pd","format":{"jwt_vc":{"alg":["ES256"]},"jwt_vp":{"alg":["ES256"]},"ldp_vc":{"proof_type":["JsonWebSignature2020"]}},
"input_descriptors":[{"id":"org","constraints":{"fields":[{"path":["$.type"],"filter":{"type":"string","const":"NutsOrganizationCredential"}},
{"id":"name","path":["$.credentialSubject.organization.name","$.credentialSubject[0].organization.name"],"filter":{"type":"string"}}]}}]}}`
	if err := os.WriteFile(filepath.Join(dir, "c19.json"), []byte(def), 0o644); err != nil {
		h.r.Fatalf("write definition: %v", err)
	}
	writeGridServices(h, dir)
	return dir
}

// self-issued credentials/presentations of the hostile party (issuer = holder = its did:jwk): every mutation is re-signed, so inputs pass the signature check
func atkVCTree(typ string, subject string, status string) string {
	d := atkDIDJWK()
	now := time.Now().Unix()
	cs := fmt.Sprintf(`{"id":%q,"organization":{"name":"hostile care","city":"IJbergen"}}`, d)
	if subject != "" {
		cs = subject
	}
	st := ""
	if status != "" {
		st = `,"credentialStatus":` + status
	}
	return fmt.Sprintf(`{"h":{"alg":"ES256","typ":"JWT","kid":"%[1]s#0"},"p":{"iss":%[1]q,"sub":%[1]q,"jti":"%[1]s#c1","nbf":%[2]d,"exp":%[3]d,
"vc":{"@context":["https://www.w3.org/2018/credentials/v1","https://nuts.nl/credentials/v1"],"type":["VerifiableCredential",%[4]q],"credentialSubject":%[5]s%[6]s}}}`,
		d, now-60, now+86400, typ, cs, st)
}

func atkVPTree(aud string, vcs ...string) string {
	d := atkDIDJWK()
	now := time.Now().Unix()
	return fmt.Sprintf(`{"h":{"alg":"ES256","typ":"JWT","kid":"%[1]s#0"},"p":{"iss":%[1]q,"sub":%[1]q,"jti":"%[1]s#p1","aud":%[5]q,"nonce":"n","nbf":%[2]d,"exp":%[3]d,
"vp":{"@context":["https://www.w3.org/2018/credentials/v1"],"type":"VerifiablePresentation","holder":%[1]q,"verifiableCredential":%[4]s}}}`, d, now-60, now+3600, mustJSON(vcs), aud)
}

func compact(tree string) string {
	b, ok := atk.jwsFromTree(jmut.MustParse(tree))
	if !ok {
		panic("bad tree")
	}
	return string(b)
}

func credentialUtils(c vc.VerifiableCredential) {
	_ = credential.FindValidator(c).Validate(c)
	_ = credential.ExtractTypes(c)
	_, _ = credential.ResolveSubjectDID(c)
	_ = credential.AutoCorrectSelfAttestedCredential(c, did.MustParseDID("did:web:example.com"))
	_ = credential.FilterOnDIDMethod([]vc.VerifiableCredential{c}, []string{"web", "jwk"})
	_, _ = c.SubjectDID()
	_, _ = c.CredentialStatuses()
	_, _ = json.Marshal(c)
}

func presentationUtils(p vc.VerifiablePresentation) {
	_, _ = credential.PresentationSigner(p)
	_, _ = credential.PresenterIsCredentialSubject(p)
	_ = credential.PresentationIssuanceDate(p)
	_ = credential.PresentationExpirationDate(p)
	_, _ = credential.ParseLDProof(p)
	_, _ = json.Marshal(p)
	for _, c := range p.VerifiableCredential {
		credentialUtils(c)
	}
}

func vcrEntries(h *harness) []*entry {
	f := theNode(h)
	verifyVC := func(in input) error {
		c, err := vc.ParseVerifiableCredential(string(in.data))
		if err != nil {
			return err
		}
		credentialUtils(*c)
		e1 := f.verifier.Verify(*c, true, true, nil)
		e2 := f.verifier.Verify(*c, false, false, nil)
		if e1 == nil || e2 == nil {
			return nil
		}
		return e1
	}
	verifyVP := func(in input) error {
		p, err := vc.ParseVerifiablePresentation(string(in.data))
		if err != nil {
			return err
		}
		presentationUtils(*p)
		_, err = f.verifier.VerifyVP(*p, true, true, nil)
		return err
	}
	ldVCSeeds := []jsonSeed{{"node-issued-ldp_vc", mustParse(h, f.ldVC)}, {"node-issued-ldp_vc-expiring", mustParse(h, f.ldVCExp)}}
	authSubject := fmt.Sprintf(`{"id":%q,"purposeOfUse":"eTransfer","resources":[{"path":"/composition/1","operations":["read"],"userContext":true,"assuranceLevel":"low"}],"localParameters":{"a":1}}`, atkDIDJWK())
	jwtVCSeeds := seedsOf(
		"self-issued-org-jwt_vc", atkVCTree("NutsOrganizationCredential", "", ""),
		"self-issued-authorization-jwt_vc", atkVCTree("NutsAuthorizationCredential", authSubject, ""),
		"self-issued-other-jwt_vc", atkVCTree("OtherCredential", fmt.Sprintf(`[{"id":%q,"x":[1,2,3],"y":{"z":null}}]`, atkDIDJWK()), ""),
	)
	ldVPSeeds := []jsonSeed{{"node-created-ldp_vp", mustParse(h, f.ldVP)}}
	orgVC := compact(atkVCTree("NutsOrganizationCredential", "", ""))
	jwtVPSeeds := seedsOf("self-signed-jwt_vp", atkVPTree("did:web:verifier.example", orgVC, compact(atkVCTree("OtherCredential", fmt.Sprintf(`{"id":%q,"x":1}`, atkDIDJWK()), ""))))

	entries := []*entry{
		{name: "verifier.Verify.ldp_vc", gen: genJSON(ldVCSeeds, true, plainWrap), call: verifyVC},
		{name: "verifier.Verify.jwt_vc", gen: genJSON(jwtVCSeeds, true, atk.jwsWrap), call: verifyVC},
		{name: "verifier.VerifyVP.ldp_vp", gen: genJSON(ldVPSeeds, true, plainWrap), call: verifyVP},
		{name: "verifier.VerifyVP.jwt_vp", gen: genJSON(jwtVPSeeds, true, atk.jwsWrap), call: verifyVP},
	}

	// revocations arrive as DAG transaction payloads: json.Unmarshal, then RegisterRevocation
	d := atkDIDJWK()
	revSeeds := seedsOf("ld-revocation-unsigned", fmt.Sprintf(`{"@context":["https://nuts.nl/credentials/v1","https://w3c-ccg.github.io/lds-jws2020/contexts/lds-jws2020-v1.json"],"type":["CredentialRevocation"],
"issuer":%[1]q,"subject":"%[1]s#c1","reason":"r","date":"2024-01-01T00:00:00Z",
"proof":{"type":"JsonWebSignature2020","created":"2024-01-01T00:00:00Z","proofPurpose":"assertionMethod","verificationMethod":"%[1]s#0","jws":"eyJhbGciOiJFUzI1NiIsImI2NCI6ZmFsc2UsImNyaXQiOlsiYjY0Il19..c2lnbmF0dXJl"}}`, d))
	entries = append(entries, &entry{name: "verifier.RegisterRevocation",
		gen: func(h *harness, e *entry, emit func(input)) {
			// the harness cannot produce a revocation the node accepts (it would need an LD signature by a resolvable issuer): the seed is itself a hostile input
			genJSON(revSeeds, true, func(s jsonSeed, m jmut.Mutant) (input, bool) {
				in, _ := plainWrap(s, m)
				if len(in.ops) == 0 {
					in.ops = []string{"seed:invalid-signature@"}
				}
				return in, true
			})(h, e, func(in input) { in.valid = false; emit(in) })
		},
		call: func(in input) error {
			var r credential.Revocation
			if err := json.Unmarshal(in.data, &r); err != nil {
				return err
			}
			_ = credential.ValidateRevocation(r)
			return f.verifier.RegisterRevocation(r)
		},
		digest: func() string {
			var n int64
			// revocations are kept in the leia store; the observable is IsRevoked of the subject
			rev, _ := f.verifier.IsRevoked(mustURI(d + "#c1"))
			if rev {
				n = 1
			}
			return fmt.Sprint("revoked=", n)
		}})

	// ---- status lists: bitstring expansion + StatusList2021 verification against hostile remote lists --------
	sl := revocation.NewStatusList2021(f.db, statusDoer{f.rt}, f.n.Public)
	sl.VerifySignature = f.verifier.VerifySignature
	var listN atomic.Int64
	gz := func(raw []byte) string {
		var b bytes.Buffer
		w := gzip.NewWriter(&b)
		_, _ = w.Write(raw)
		_ = w.Close()
		return base64.RawURLEncoding.EncodeToString(b.Bytes())
	}
	goodList := gz(make([]byte, 16*1024))
	const listURLPlaceholder = "https://status.example.com/list/PLACEHOLDER"
	listSeed := func(encoded string) string {
		now := time.Now().Unix()
		return fmt.Sprintf(`{"h":{"alg":"ES256","typ":"JWT","kid":"%[1]s#0"},"p":{"iss":%[1]q,"sub":%[4]q,"jti":%[4]q,"nbf":%[2]d,"exp":%[3]d,
"vc":{"@context":["https://www.w3.org/2018/credentials/v1","https://w3id.org/vc/status-list/2021/v1"],"type":["VerifiableCredential","StatusList2021Credential"],
"credentialSubject":{"id":%[4]q,"type":"StatusList2021","statusPurpose":"revocation","encodedList":%[5]q}}}}`, d, now-60, now+86400, listURLPlaceholder, encoded)
	}
	listSeeds := seedsOf("status-list-credential", listSeed(goodList))
	// extra encodedList values: the structure inside the string (base64 -> gzip -> bits)
	revokedBits := make([]byte, 16*1024)
	revokedBits[0] = 0x04 // index 5
	encodedVariants := map[string]string{
		"revoked-index":     gz(revokedBits),
		"short-list":        gz(make([]byte, 1)),
		"empty-list":        gz(nil),
		"not-gzip":          base64.RawURLEncoding.EncodeToString([]byte("plain text, not gzip")),
		"gzip-truncated":    gz(make([]byte, 16*1024))[:20],
		"gzip-header-only":  base64.RawURLEncoding.EncodeToString([]byte{0x1f, 0x8b, 8, 0, 0, 0, 0, 0, 0, 0xff}),
		"gzip-bad-crc":      func() string { s := []byte(gz(make([]byte, 64))); s[len(s)-3] ^= 1; return string(s) }(),
		"gzip-extra-fields": base64.RawURLEncoding.EncodeToString([]byte{0x1f, 0x8b, 8, 0xff, 0, 0, 0, 0, 0, 0xff, 0xff, 0xff}),
		"padded-base64":     base64.URLEncoding.EncodeToString([]byte{0x1f, 0x8b}),
		"std-base64":        base64.StdEncoding.EncodeToString(bytes.Repeat([]byte{0xfb, 0xff}, 30)),
		"large-list-2MiB":   gz(make([]byte, 2<<20)),
		"concatenated-gzip": gz(make([]byte, 10)) + gz(make([]byte, 10)),
	}
	subjectVCFor := func(url string, index string) vc.VerifiableCredential {
		status := fmt.Sprintf(`{"id":"%s#%s","type":"StatusList2021Entry","statusPurpose":"revocation","statusListIndex":%q,"statusListCredential":%q}`, url, index, index, url)
		c, err := vc.ParseVerifiableCredential(compact(atkVCTree("NutsOrganizationCredential", "", status)))
		if err != nil {
			panic(err)
		}
		return *c
	}
	entries = append(entries, &entry{name: "revocation.StatusList2021.Verify",
		gen: func(h *harness, e *entry, emit func(input)) {
			first := true
			var names []string
			for n := range encodedVariants {
				names = append(names, n)
			}
			sort.Strings(names)
			genJSON(listSeeds, true, atk.jwsWrap)(h, e, func(in input) {
				emit(in)
				if first {
					first = false
					for _, n := range names {
						data, _ := atk.jwsFromTree(jmut.MustParse(listSeed(encodedVariants[n])))
						emit(input{data: data, ops: []string{"encodedList:" + n + "@/p/vc/credentialSubject/encodedList"}, seed: "status-list-credential"})
					}
				}
			})
		},
		call: func(in input) error {
			// every input is served under a URL of its own (the verifier caches lists by URL); the list names itself by that URL
			url := fmt.Sprintf("https://status.example.com/list/%d", listN.Add(1))
			body := in.data
			if parts := bytes.Split(in.data, []byte(".")); len(parts) == 3 {
				hdr, err0 := b64.DecodeString(string(parts[0]))
				if claims, err := b64.DecodeString(string(parts[1])); err == nil && err0 == nil && bytes.Contains(claims, []byte(listURLPlaceholder)) {
					body = atk.signCompact(hdr, bytes.ReplaceAll(claims, []byte(listURLPlaceholder), []byte(url)))
				}
			}
			f.rt.set(url, http.StatusOK, "application/json", []byte(mustJSON(string(body))))
			var firstErr error
			for _, idx := range []string{"5", "0", "131071", "131072", "-1", "99999999999999999999"} {
				err := sl.Verify(subjectVCFor(url, idx))
				// the list itself is rejected when it cannot be obtained/verified ("status list: ..."); a list that was accepted and stored can still make the
				// verification of *this* credential fail (other purpose, index outside the list): that is not a rejection of the list
				if idx == "0" && err != nil && strings.HasPrefix(err.Error(), "status list:") {
					firstErr = err
				}
			}
			return firstErr
		},
		digest: func() string {
			// rows of the status list table written by the verifier (lists it accepted)
			type row struct {
				SubjectID string
				Raw       string
			}
			var rows []row
			f.db.Table("status_list_credential").Select("subject_id", "raw").Order("subject_id").Find(&rows)
			hsh := sha256.New()
			for _, r := range rows {
				hsh.Write([]byte(r.SubjectID + "\x00" + r.Raw + "\x00"))
			}
			return fmt.Sprintf("rows=%d sha256=%s", len(rows), hex.EncodeToString(hsh.Sum(nil)[:8]))
		}})
	return entries
}

type statusDoer struct{ rt *scriptedTransport }

func (s statusDoer) Do(req *http.Request) (*http.Response, error) { return s.rt.RoundTrip(req) }

func mustParse(h *harness, data []byte) *jmut.Node {
	n, err := jmut.Parse(data)
	if err != nil {
		h.r.Fatalf("seed from node does not parse: %v: %s", err, trunc(data, 200))
	}
	return n
}

func mustDecode(b []byte) []byte {
	out, err := b64.DecodeString(string(b))
	if err != nil {
		panic(err)
	}
	return out
}

func mustURI(s string) ssi.URI { return ssi.MustParseURI(s) }
