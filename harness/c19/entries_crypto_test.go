package c19

import (
	"context"
	"crypto"
	"crypto/ecdsa"
	"crypto/elliptic"
	crand "crypto/rand"
	"crypto/sha256"
	"encoding/base64"
	"encoding/json"
	"errors"
	"fmt"
	"net/http"
	"net/http/httptest"
	"time"

	"github.com/labstack/echo/v4"
	"github.com/lestrrat-go/jwx/v2/jwk"
	"github.com/lestrrat-go/jwx/v2/jwt"
	nutsCrypto "github.com/nuts-foundation/nuts-node/crypto"
	"github.com/nuts-foundation/nuts-node/crypto/dpop"
	"github.com/nuts-foundation/nuts-node/http/tokenV2"
	"golang.org/x/crypto/ssh"
	"verif/lib/jmut"
)

// atkDIDJWK is the self-certifying DID of the hostile party (did:jwk of its public key).
func atkDIDJWK() string {
	return "did:jwk:" + base64.RawStdEncoding.EncodeToString([]byte(atk.pubJWK))
}

func cryptoEntries(h *harness) []*entry {
	now := time.Now().Unix()

	// ---- (7a) DPoP proofs: Parse, HTU/HTM, Match -----------------------------------------------------------
	key, _ := jwk.ParseKey([]byte(atk.pubJWK))
	tp, _ := key.Thumbprint(crypto.SHA256)
	jkt := base64.RawURLEncoding.EncodeToString(tp)
	dpopSeeds := seedsOf("dpop-proof", fmt.Sprintf(`{"h":{"typ":"dpop+jwt","alg":"ES256","jwk":%s},"p":{"htm":"POST","htu":"https://server.example.com/oauth2/x/token","jti":"5e6f8b0e-1b7a-4c61-9d5f-0c5d2f7b9a10","iat":%d}}`, atk.pubJWK, now-5),
		"dpop-proof-ath", fmt.Sprintf(`{"h":{"typ":"dpop+jwt","alg":"ES256","jwk":%s},"p":{"htm":"GET","htu":"https://server.example.com:443/resource?x=1#f","jti":"j","iat":%d,"ath":"fUHyO2r2Z3DZ53EsNrWBb0xWXoaNy59IiKCAqksmQEo","nonce":"n"}}`, atk.pubJWK, now-5))
	dpopEntry := &entry{name: "dpop.Parse-HTU-HTM-Match", gen: genJSON(dpopSeeds, false, atk.jwsWrap),
		call: func(in input) error {
			d, err := dpop.Parse(string(in.data))
			if err != nil {
				return err
			}
			_ = d.HTU()
			_ = d.HTM()
			_ = d.String()
			_, mErr := d.Match(jkt, "POST", "https://server.example.com/oauth2/x/token")
			_, _ = d.Match(jkt, d.HTM(), d.HTU())
			js, _ := json.Marshal(d)
			var back dpop.DPoP
			_ = json.Unmarshal(js, &back)
			_ = mErr // a mismatch is a regular negative answer
			return nil
		}}

	// ---- (7b) crypto.ParseJWT / ParseJWS / JWTKidAlg / ExtractProtectedHeaders --------------------------------------
	keyFunc := func(kid string) (crypto.PublicKey, error) {
		if kid == "" {
			return nil, errors.New("no kid")
		}
		return atk.priv.Public(), nil
	}
	jwtSeeds := seedsOf("jwt", fmt.Sprintf(`{"h":{"alg":"ES256","typ":"JWT","kid":"did:web:example.com#key-1"},"p":{"iss":"did:web:example.com","sub":"s","aud":["a","b"],"jti":"j","iat":%d,"nbf":%d,"exp":%d,"nonce":"n","custom":{"a":[1,2,{"b":null}]}}}`, now-5, now-5, now+3600),
		"jws-detached-style", `{"h":{"alg":"ES256","kid":"k","b64":false,"crit":["b64"]},"p":"payload bytes"}`,
		"jws-plain", `{"h":{"alg":"ES256","kid":"k","cty":"text/plain"},"p":"hello"}`)
	jwtEntry := &entry{name: "crypto.ParseJWT-ParseJWS", gen: genJSON(jwtSeeds, false, atk.jwsWrap),
		call: func(in input) error {
			_, _, e0 := nutsCrypto.JWTKidAlg(string(in.data))
			_, e1 := nutsCrypto.ExtractProtectedHeaders(string(in.data))
			tok, e2 := nutsCrypto.ParseJWT(string(in.data), keyFunc, jwt.WithAcceptableSkew(5*time.Second))
			if e2 == nil {
				_ = tok.Issuer()
				_ = tok.Audience()
				_ = tok.Expiration()
				_, _ = tok.AsMap(context.Background())
				_, _ = json.Marshal(tok)
			}
			_, e3 := nutsCrypto.ParseJWS(in.data, keyFunc)
			if e2 == nil || e3 == nil {
				return nil
			}
			return errors.Join(e0, e1, e2, e3)
		}}

	// ---- (7c) token middleware (http/tokenV2) ------------------------------------------------------------------
	apiKey, _ := ecdsa.GenerateKey(elliptic.P256(), crand.Reader)
	sshPub, err := ssh.NewPublicKey(&apiKey.PublicKey)
	if err != nil {
		h.r.Fatalf("ssh key: %v", err)
	}
	authorized := append([]byte(nil), ssh.MarshalAuthorizedKey(sshPub)...)
	authorized = append(authorized[:len(authorized)-1], []byte(" api-user\n")...)
	mw, err := tokenV2.New(nil, "c19-node", authorized)
	if err != nil {
		h.r.Fatalf("token middleware: %v", err)
	}
	apiSigner := &attackerKey{priv: apiKey}
	kid := ssh.FingerprintSHA256(sshPub)
	tokenSeeds := seedsOf("api-token", fmt.Sprintf(`{"h":{"alg":"ES256","typ":"JWT","kid":%q},"p":{"iss":"api-user","sub":"operator","aud":["c19-node"],"jti":"5e6f8b0e-1b7a-4c61-9d5f-0c5d2f7b9a10","iat":%d,"nbf":%d,"exp":%d}}`, kid, now-5, now-5, now+3600))
	e := echo.New()
	tokenEntry := &entry{name: "tokenV2.middleware",
		gen: genJSON(tokenSeeds, false, func(s jsonSeed, m jmut.Mutant) (input, bool) {
			// tokens signed by the authorised key (an API client sending odd tokens) and, for every third input, by a key that is not authorised
			signer := apiSigner
			if len(m.Data)%3 == 0 && len(m.Ops) > 0 {
				signer = atk
			}
			in, ok := signer.jwsWrap(s, m)
			return in, ok
		}),
		call: func(in input) error {
			variants := []string{"Bearer " + string(in.data)}
			if len(in.data)%5 == 0 {
				variants = append(variants, string(in.data), "bearer "+string(in.data), "Bearer  "+string(in.data), "Bearer "+string(in.data)+" x", "Basic "+string(in.data))
			}
			var last error
			granted := false
			for _, v := range variants {
				req := httptest.NewRequest(http.MethodGet, "/internal/vdr/v2/subject", nil)
				req.Header.Set("Authorization", v)
				rec := httptest.NewRecorder()
				c := e.NewContext(req, rec)
				reached := false
				err := mw.Handler(func(echo.Context) error { reached = true; return nil })(c)
				if reached {
					granted = true
				}
				last = err
			}
			if granted {
				return nil
			}
			if last == nil {
				last = errors.New("not granted")
			}
			return last
		}}
	_ = sha256.New
	return []*entry{dpopEntry, jwtEntry, tokenEntry}
}
