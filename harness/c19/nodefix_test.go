package c19

import (
	"bufio"
	"bytes"
	"context"
	"encoding/json"
	"fmt"
	"io"
	"net"
	"net/http"
	"os"
	"strings"
	"sync"
	"time"

	"github.com/nuts-foundation/nuts-node/http/client"
	"github.com/nuts-foundation/nuts-node/storage"
	"github.com/nuts-foundation/nuts-node/vcr"
	"github.com/nuts-foundation/nuts-node/vcr/verifier"
	"gorm.io/gorm"
	"verif/lib/node"
)

// scriptedTransport is the fake *environment* for every outbound HTTP request of the node (did:web hosts, status list hosts,
// remote authorization servers): installed as client.DefaultCachingTransport before the node is built. No socket is opened.
type scriptedTransport struct {
	mu       sync.Mutex
	routes   map[string]scriptedResponse // by URL without query
	requests int
}

type scriptedResponse struct {
	status int
	ct     string
	body   []byte
}

func (s *scriptedTransport) set(url string, status int, ct string, body []byte) {
	s.mu.Lock()
	s.routes[url] = scriptedResponse{status, ct, body}
	s.mu.Unlock()
}

func (s *scriptedTransport) RoundTrip(req *http.Request) (*http.Response, error) {
	s.mu.Lock()
	s.requests++
	u := *req.URL
	u.RawQuery = ""
	r, ok := s.routes[u.String()]
	s.mu.Unlock()
	if !ok {
		r = scriptedResponse{404, "text/plain", []byte("not scripted")}
	}
	h := http.Header{}
	if r.ct != "" {
		h.Set("Content-Type", r.ct)
	}
	return &http.Response{StatusCode: r.status, Status: fmt.Sprintf("%d scripted", r.status), Header: h, Body: io.NopCloser(bytes.NewReader(r.body)),
		ContentLength: int64(len(r.body)), Request: req, Proto: "HTTP/1.1", ProtoMajor: 1, ProtoMinor: 1}, nil
}

// serverLog collects what the node's HTTP servers write to their error log (echo hands net/http a logger on os.Stdout as it was when the
// server was created): that is where net/http reports "http: panic serving ...".
type serverLog struct {
	mu     sync.Mutex
	panics []string // complete panic reports
	cur    []string
	in     bool
}

func (l *serverLog) feed(rd io.Reader, passthrough io.Writer) {
	sc := bufio.NewScanner(rd)
	sc.Buffer(make([]byte, 1<<20), 1<<26)
	for sc.Scan() {
		ln := sc.Text()
		l.mu.Lock()
		if strings.Contains(ln, "http: panic serving") {
			if l.in {
				l.panics = append(l.panics, strings.Join(l.cur, "\n"))
			}
			l.in, l.cur = true, []string{ln}
		} else if l.in {
			// stack lines: function lines, tab-indented file lines, "goroutine N [running]:", "created by"
			if ln == "" || strings.HasPrefix(ln, "\t") || strings.HasPrefix(ln, "goroutine ") || strings.HasPrefix(ln, "created by") || strings.Contains(ln, "(") || strings.HasPrefix(ln, "panic") || strings.HasPrefix(ln, "[signal") {
				l.cur = append(l.cur, ln)
			} else {
				l.panics = append(l.panics, strings.Join(l.cur, "\n"))
				l.in = false
				fmt.Fprintln(passthrough, ln)
			}
		} else {
			fmt.Fprintln(passthrough, ln)
		}
		l.mu.Unlock()
	}
}

// closeOpen closes a report that is still being received.
func (l *serverLog) closeOpen() {
	if l.in {
		l.panics = append(l.panics, strings.Join(l.cur, "\n"))
		l.in, l.cur = false, nil
	}
}

// takeFor returns (and removes) the panic report of the connection with the given client address ("" = none found).
func (l *serverLog) takeFor(addr string) string {
	l.mu.Lock()
	defer l.mu.Unlock()
	l.closeOpen()
	for i, p := range l.panics {
		if strings.Contains(firstLineWith(p, "panic serving"), "panic serving "+addr+":") {
			l.panics = append(l.panics[:i:i], l.panics[i+1:]...)
			return p
		}
	}
	return ""
}

// takeAll returns and clears every report nobody claimed.
func (l *serverLog) takeAll() []string {
	l.mu.Lock()
	defer l.mu.Unlock()
	l.closeOpen()
	out := l.panics
	l.panics = nil
	return out
}

type nodeFixture struct {
	n        *node.Node
	rt       *scriptedTransport
	log      *serverLog
	verifier verifier.Verifier
	db       *gorm.DB
	subject  string
	did      string
	ldVC     []byte
	ldVCExp  []byte
	jwtVC    string
	ldVP     []byte
	jwtVP    string
}

var (
	nodeOnce sync.Once
	nodeFx   *nodeFixture
)

func (f *nodeFixture) post(path string, body any) ([]byte, error) {
	r, err := node.Do("POST", f.n.Internal+path, body, nil)
	if err != nil {
		return nil, err
	}
	if r.Status/100 != 2 {
		return nil, fmt.Errorf("POST %s: %s", path, r)
	}
	return r.Body, nil
}

// theNode boots the one in-process node the verifier and HTTP entry points share.
func theNode(h *harness) *nodeFixture {
	nodeOnce.Do(func() {
		f := &nodeFixture{rt: &scriptedTransport{routes: map[string]scriptedResponse{}}, log: &serverLog{}}
		client.DefaultCachingTransport = f.rt
		// HTTP clients that are built from client.SafeHttpTransport (the IAM client) cannot take a RoundTripper: their connections are
		// redirected, for every host except the node itself, to a local server that answers from the same script.
		ln, err := net.Listen("tcp", "127.0.0.1:0")
		if err != nil {
			h.r.Fatalf("listen: %v", err)
		}
		srv := &http.Server{Handler: http.HandlerFunc(func(w http.ResponseWriter, r *http.Request) {
			u := *r.URL
			u.Scheme, u.Host = "https", r.Host
			resp, _ := f.rt.RoundTrip(&http.Request{URL: &u})
			if ct := resp.Header.Get("Content-Type"); ct != "" {
				w.Header().Set("Content-Type", ct)
			}
			w.WriteHeader(resp.StatusCode)
			_, _ = io.Copy(w, resp.Body)
		})}
		go func() { _ = srv.Serve(ln) }()
		h.t.Cleanup(func() { _ = srv.Close() })
		dialer := &net.Dialer{Timeout: 5 * time.Second}
		toScript := func(ctx context.Context, network, addr string) (net.Conn, error) {
			if host, _, _ := net.SplitHostPort(addr); host == "localhost" || host == "127.0.0.1" {
				return dialer.DialContext(ctx, network, addr)
			}
			return dialer.DialContext(ctx, "tcp", ln.Addr().String())
		}
		client.SafeHttpTransport.DialContext = toScript
		client.SafeHttpTransport.DialTLSContext = toScript // https:// URLs are spoken in clear text to the scripted server
		// the servers' error log goes to the os.Stdout of the moment they are created: give them a pipe for the duration of the start
		realStdout := os.Stdout
		pr, pw, err := os.Pipe()
		if err != nil {
			h.r.Fatalf("pipe: %v", err)
		}
		go f.log.feed(pr, realStdout)
		os.Stdout = pw
		f.n = node.Start(h.t, node.Options{DIDMethods: []string{"web"}, Verbosity: "error", Env: map[string]string{
			"NUTS_HTTP_CACHE_MAXBYTES":                "0",
			"NUTS_DISCOVERY_DEFINITIONS_DIRECTORY":    discoveryDir(h),
			"NUTS_DISCOVERY_SERVER_IDS":               gridServiceIDs(),
			"NUTS_POLICY_DIRECTORY":                   policyDir(h),
			"NUTS_AUTH_AUTHORIZATIONENDPOINT_ENABLED": "true",
		}})
		os.Stdout = realStdout
		f.verifier = node.Engine[vcr.VCR](f.n).Verifier()
		f.db = node.Engine[storage.Engine](f.n).GetSQLDatabase()
		f.subject = "c19"
		dids, err := f.n.CreateSubject(f.subject)
		if err != nil || len(dids) == 0 {
			h.r.Fatalf("create subject: %v", err)
		}
		f.did = dids[0]
		issue := func(format string, extra map[string]any) []byte {
			req := map[string]any{"@context": "https://nuts.nl/credentials/v1", "type": "NutsOrganizationCredential", "issuer": f.did, "format": format,
				"credentialSubject": map[string]any{"id": f.did, "organization": map[string]any{"name": "care organisation", "city": "IJbergen"}}}
			for k, v := range extra {
				req[k] = v
			}
			b, err := f.post("/internal/vcr/v2/issuer/vc", req)
			if err != nil {
				h.r.Fatalf("issue %s: %v", format, err)
			}
			return b
		}
		f.ldVC = issue("ldp_vc", map[string]any{"withStatusList2021Revocation": true})
		f.ldVCExp = issue("ldp_vc", map[string]any{"expirationDate": time.Now().Add(240 * time.Hour).UTC().Format(time.RFC3339)})
		var s string
		if err := json.Unmarshal(issue("jwt_vc", map[string]any{"withStatusList2021Revocation": true}), &s); err != nil {
			h.r.Fatalf("jwt vc: %v", err)
		}
		f.jwtVC = s
		present := func(format string, vcs ...json.RawMessage) []byte {
			b, err := f.post("/internal/vcr/v2/holder/vp", map[string]any{"verifiableCredentials": vcs, "signerDID": f.did, "format": format, "challenge": "c", "domain": "d",
				"expires": time.Now().Add(24 * time.Hour).UTC().Format(time.RFC3339)})
			if err != nil {
				h.r.Fatalf("present %s: %v", format, err)
			}
			return b
		}
		f.ldVP = present("ldp_vp", f.ldVC, json.RawMessage(mustJSON(f.jwtVC)))
		if err := json.Unmarshal(present("jwt_vp", f.ldVCExp, json.RawMessage(mustJSON(f.jwtVC))), &s); err != nil {
			h.r.Fatalf("jwt vp: %v", err)
		}
		f.jwtVP = s
		nodeFx = f
	})
	return nodeFx
}
