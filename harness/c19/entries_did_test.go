package c19

import (
	"bytes"
	"crypto/ecdsa"
	"crypto/ed25519"
	"crypto/elliptic"
	crand "crypto/rand"
	"crypto/rsa"
	"crypto/x509"
	"encoding/base64"
	"encoding/json"
	"errors"
	"fmt"
	"io"
	"net/http"
	"strings"
	"sync"

	"github.com/lestrrat-go/jwx/v2/jwk"
	"github.com/mr-tron/base58"
	ssi "github.com/nuts-foundation/go-did"
	"github.com/nuts-foundation/go-did/did"
	"github.com/nuts-foundation/nuts-node/vdr/didjwk"
	"github.com/nuts-foundation/nuts-node/vdr/didkey"
	"github.com/nuts-foundation/nuts-node/vdr/didnuts"
	"github.com/nuts-foundation/nuts-node/vdr/didweb"
	"github.com/nuts-foundation/nuts-node/vdr/resolver"
	"verif/lib/jmut"
)

// scriptedDoer is the fake *environment* of did:web: the remote web server. It answers every request with the current hostile response.
type scriptedDoer struct {
	mu     sync.Mutex
	status int
	ct     string
	body   []byte
}

func (s *scriptedDoer) set(status int, ct string, body []byte) {
	s.mu.Lock()
	s.status, s.ct, s.body = status, ct, body
	s.mu.Unlock()
}

func (s *scriptedDoer) Do(req *http.Request) (*http.Response, error) {
	s.mu.Lock()
	defer s.mu.Unlock()
	h := http.Header{}
	if s.ct != "" {
		h.Set("Content-Type", s.ct)
	}
	return &http.Response{StatusCode: s.status, Status: fmt.Sprintf("%d x", s.status), Header: h, Body: io.NopCloser(bytes.NewReader(s.body)), Request: req}, nil
}

func ecJWKJSON() string { return atk.pubJWK }

func webDocSeed(id string) string {
	edPub, _, _ := ed25519.GenerateKey(crand.Reader)
	doc := fmt.Sprintf(`{"@context":["https://www.w3.org/ns/did/v1","https://w3c-ccg.github.io/lds-jws2020/contexts/lds-jws2020-v1.json",{"@base":%[1]q}],
"id":%[1]q,"controller":[%[1]q],"alsoKnownAs":["https://example.com/me"],
"verificationMethod":[
 {"id":"%[1]s#key-1","type":"JsonWebKey2020","controller":%[1]q,"publicKeyJwk":%[2]s},
 {"id":"%[1]s#key-2","type":"Ed25519VerificationKey2018","controller":%[1]q,"publicKeyBase58":%[3]q},
 {"id":"#key-3","type":"JsonWebKey2020","controller":%[1]q,"publicKeyJwk":%[2]s}],
"authentication":["%[1]s#key-1",{"id":"%[1]s#key-4","type":"JsonWebKey2020","controller":%[1]q,"publicKeyJwk":%[2]s}],
"assertionMethod":["%[1]s#key-1","%[1]s#key-2","#key-3"],
"keyAgreement":["%[1]s#key-1"],"capabilityInvocation":["%[1]s#key-1"],"capabilityDelegation":["%[1]s#key-2"],
"service":[
 {"id":"%[1]s#svc","type":"svc","serviceEndpoint":"https://example.com/svc"},
 {"id":"%[1]s#ref","type":"ref","serviceEndpoint":"%[1]s/serviceEndpoint?type=svc"},
 {"id":"%[1]s#compound","type":"compound","serviceEndpoint":{"a":"https://example.com/a","b":"%[1]s/serviceEndpoint?type=svc"}},
 {"id":"%[1]s#comm","type":"NutsComm","serviceEndpoint":"grpc://node.nutsnode.nl:5555"},
 {"id":"%[1]s#contact","type":"node-contact-info","serviceEndpoint":{"email":"a@example.com","name":"x"}}]}`,
		id, ecJWKJSON(), base58.Encode(edPub))
	return doc
}

var allRelations = []resolver.RelationType{resolver.Authentication, resolver.AssertionMethod, resolver.KeyAgreement, resolver.CapabilityInvocation, resolver.CapabilityDelegation}

// useDocument drives the consumers of a resolved DID document through the given resolver.
func useDocument(r resolver.DIDResolver, id did.DID) error {
	r = &memoResolver{inner: r} // the consumers below resolve ~40 times; the node resolves once per use: do not multiply the cost of one resolution
	kr := resolver.DIDKeyResolver{Resolver: r}
	sr := resolver.DIDServiceResolver{Resolver: r}
	firstErr := errors.New("no assertion key resolved")
	// every key once through ResolveKeyByID (assertionMethod; key-4 is only an authentication key), every relation once through ResolveKey
	for _, frag := range []string{"#key-1", "#key-2", "#key-3", "#0", "#" + id.ID} {
		if _, err := kr.ResolveKeyByID(id.String()+frag, nil, resolver.AssertionMethod); firstErr != nil {
			firstErr = err
		}
	}
	_, _ = kr.ResolveKeyByID(id.String()+"#key-4", nil, resolver.Authentication)
	_, _ = kr.ResolveKeyByID(id.String()+"#key-1", nil, resolver.RelationType(99))
	for _, rel := range allRelations {
		_, _, _ = kr.ResolveKey(id, nil, rel)
	}
	for _, ty := range []string{"svc", "ref", "compound", "NutsComm", "node-contact-info", "absent"} {
		_, _ = sr.Resolve(resolver.MakeServiceReference(id, ty), resolver.DefaultMaxServiceReferenceDepth)
	}
	doc, _, err := r.Resolve(id, nil)
	if err == nil && doc != nil {
		_ = resolver.IsDeactivated(*doc)
		_, _ = json.Marshal(doc)
		for _, ty := range []string{"svc", "compound"} {
			_, _, _ = doc.ResolveEndpointURL(ty)
		}
		_ = didnuts.NetworkDocumentValidator().Validate(*doc)
		_ = didnuts.ManagedDocumentValidator(sr).Validate(*doc)
	}
	return firstErr
}

type memoResolver struct {
	inner resolver.DIDResolver
	done  map[string]bool
	doc   map[string]*did.Document
	err   map[string]error
}

func (m *memoResolver) Resolve(id did.DID, md *resolver.ResolveMetadata) (*did.Document, *resolver.DocumentMetadata, error) {
	k := id.String()
	if m.done == nil {
		m.done, m.doc, m.err = map[string]bool{}, map[string]*did.Document{}, map[string]error{}
	}
	if !m.done[k] {
		d, _, err := m.inner.Resolve(id, md)
		m.done[k], m.doc[k], m.err[k] = true, d, err
	}
	return m.doc[k], &resolver.DocumentMetadata{}, m.err[k]
}

type staticResolver struct {
	docs map[string]*did.Document
}

func (s staticResolver) Resolve(id did.DID, _ *resolver.ResolveMetadata) (*did.Document, *resolver.DocumentMetadata, error) {
	if d := s.docs[id.String()]; d != nil {
		return d, &resolver.DocumentMetadata{}, nil
	}
	return nil, nil, resolver.ErrNotFound
}

func thumbprint(k *attackerKey) string {
	key, err := jwk.FromRaw(k.priv.Public())
	if err != nil {
		panic(err)
	}
	_ = jwk.AssignKeyID(key)
	return key.KeyID()
}

func didEntries(h *harness) []*entry {
	webID := did.MustParseDID("did:web:example.com")
	doer := &scriptedDoer{}
	web := didweb.Resolver{HttpClient: doer}
	webSeeds := seedsOf("did-web-document", webDocSeed(webID.String()))
	// did:web: hostile document bodies served by the remote host, then every consumer of the resolved document
	webEntry := &entry{name: "didweb.document", serial: false,
		gen: genJSON(webSeeds, false, plainWrap),
		call: func(in input) error {
			doer.set(200, "application/did+json", in.data)
			if _, _, err := web.Resolve(webID, nil); err != nil {
				return err
			}
			return useDocument(web, webID)
		}}
	// did:web: hostile HTTP envelope around a valid body
	validBody := webSeeds[0].tree.Bytes()
	webHTTP := &entry{name: "didweb.http",
		gen: func(h *harness, e *entry, emit func(input)) {
			emit(input{data: []byte("200\napplication/did+json\n"), aux: [3]any{200, "application/did+json", validBody}, valid: true, seed: "ok"})
			cts := []string{"", "application/json", "application/did+ld+json", "application/json; charset=utf-8", "text/html", ";", "application/json;;", "application/json; q", "a/b/c", " ", "\x00", strings.Repeat("a", 70000) + "/json", "application/did+json; charset=\"", "APPLICATION/JSON"}
			statuses := []int{200, 201, 204, 299, 300, 301, 404, 500, 0, -1, 1000}
			bodies := [][]byte{validBody, nil, []byte("null"), []byte("[]"), []byte(`""`), []byte("{}"), []byte(`{"id":null}`), validBody[:len(validBody)/2], bytes.Repeat([]byte("["), 100000), append([]byte("\xef\xbb\xbf"), validBody...)}
			for i, ct := range cts {
				for j, stc := range statuses {
					for k, b := range bodies {
						if (i+j+k)%3 != int(h.r.Seed()%3) && !h.r.Thorough() {
							continue
						}
						emit(input{data: []byte(fmt.Sprintf("%d\n%s\n%s", stc, ct, trunc(b, 200))), aux: [3]any{stc, ct, b},
							ops: []string{fmt.Sprintf("http:status%d@/status", j), fmt.Sprintf("http:content-type%d@/content-type", i), fmt.Sprintf("http:body%d@/body", k)}, seed: "ok"})
					}
				}
			}
		},
		call: func(in input) error {
			a := in.aux.([3]any)
			doer2 := &scriptedDoer{}
			doer2.set(a[0].(int), a[1].(string), a[2].([]byte))
			_, _, err := didweb.Resolver{HttpClient: doer2}.Resolve(webID, nil)
			return err
		}}

	// did:nuts documents as the network delivers them: the ambassador unmarshals the transaction payload, then the validators run
	nutsID := "did:nuts:GvkzxsezHvEc8nGhgz6Xo3jbqkHwswLmWw3CYtCm7hAW"
	k2 := newAttackerKey()
	nutsDoc := fmt.Sprintf(`{"@context":["https://www.w3.org/ns/did/v1","https://w3c-ccg.github.io/lds-jws2020/contexts/lds-jws2020-v1.json"],
"id":%[1]q,"controller":[%[1]q],
"verificationMethod":[
 {"id":"%[1]s#%[3]s","type":"JsonWebKey2020","controller":%[1]q,"publicKeyJwk":%[2]s},
 {"id":"%[1]s#%[5]s","type":"JsonWebKey2020","controller":%[1]q,"publicKeyJwk":%[4]s}],
"authentication":["%[1]s#%[3]s"],"assertionMethod":["%[1]s#%[3]s","%[1]s#%[5]s"],
"keyAgreement":["%[1]s#%[3]s"],"capabilityInvocation":["%[1]s#%[3]s"],"capabilityDelegation":["%[1]s#%[5]s"],
"service":[
 {"id":"%[1]s#svc","type":"svc","serviceEndpoint":"https://example.com/svc"},
 {"id":"%[1]s#ref","type":"ref","serviceEndpoint":"%[1]s/serviceEndpoint?type=svc"},
 {"id":"%[1]s#compound","type":"compound","serviceEndpoint":{"a":"https://example.com/a","b":"%[1]s/serviceEndpoint?type=svc"}},
 {"id":"%[1]s#comm","type":"NutsComm","serviceEndpoint":"grpc://node.nutsnode.nl:5555"},
 {"id":"%[1]s#contact","type":"node-contact-info","serviceEndpoint":{"email":"a@example.com","name":"x"}}]}`,
		nutsID, atk.pubJWK, thumbprint(atk), k2.pubJWK, thumbprint(k2))
	nutsSeeds := seedsOf("did-nuts-document", nutsDoc)
	nutsEntry := &entry{name: "didnuts.document", gen: genJSON(nutsSeeds, false, plainWrap),
		call: func(in input) error {
			var doc did.Document
			if err := json.Unmarshal(in.data, &doc); err != nil {
				return err
			}
			id := did.MustParseDID(nutsID)
			r := staticResolver{docs: map[string]*did.Document{nutsID: &doc, doc.ID.String(): &doc}}
			_ = useDocument(r, id)
			return errors.Join(didnuts.NetworkDocumentValidator().Validate(doc), didnuts.ManagedDocumentValidator(resolver.DIDServiceResolver{Resolver: r}).Validate(doc))
		}}
	_ = ssi.JsonWebKey2020

	// did:jwk: the identifier is the input
	edPub, _, _ := ed25519.GenerateKey(crand.Reader)
	rsaKey, _ := rsa.GenerateKey(crand.Reader, 2048)
	rsaN := base64.RawURLEncoding.EncodeToString(rsaKey.N.Bytes())
	jwkSeeds := seedsOf(
		"jwk-ec", ecJWKJSON(),
		"jwk-okp", fmt.Sprintf(`{"kty":"OKP","crv":"Ed25519","x":%q}`, base64.RawURLEncoding.EncodeToString(edPub)),
		"jwk-rsa", fmt.Sprintf(`{"kty":"RSA","n":%q,"e":"AQAB","alg":"PS256","use":"sig","kid":"k"}`, rsaN),
	)
	jwkResolver := didjwk.NewResolver()
	jwkEntry := &entry{name: "didjwk.Resolve",
		gen: genJSON(jwkSeeds, false, func(s jsonSeed, m jmut.Mutant) (input, bool) {
			enc := base64.RawStdEncoding.EncodeToString(m.Data)
			switch len(m.Data) % 11 {
			case 0:
				enc = base64.RawURLEncoding.EncodeToString(m.Data)
			case 1:
				enc = base64.StdEncoding.EncodeToString(m.Data)
			}
			return input{data: []byte("did:jwk:" + enc), ops: m.Ops}, true
		}),
		call: func(in input) error {
			id, err := did.ParseDID(string(in.data))
			if err != nil {
				return err
			}
			if _, _, err := jwkResolver.Resolve(*id, nil); err != nil {
				return err
			}
			return useDocument(jwkResolver, *id)
		}}

	// did:key: multicodec bytes are the structure
	type mc struct {
		name string
		code []byte
		key  []byte
	}
	p256 := elliptic.MarshalCompressed(elliptic.P256(), atk.priv.X, atk.priv.Y)
	k384, _ := ecdsa.GenerateKey(elliptic.P384(), crand.Reader)
	k521, _ := ecdsa.GenerateKey(elliptic.P521(), crand.Reader)
	x25519 := make([]byte, 32)
	_, _ = crand.Read(x25519)
	codecs := []mc{
		{"ed25519", []byte{0xed, 0x01}, edPub},
		{"x25519", []byte{0xec, 0x01}, x25519},
		{"p256", []byte{0x80, 0x24}, p256},
		{"p384", []byte{0x81, 0x24}, elliptic.MarshalCompressed(elliptic.P384(), k384.X, k384.Y)},
		{"p521", []byte{0x82, 0x24}, elliptic.MarshalCompressed(elliptic.P521(), k521.X, k521.Y)},
		{"rsa", []byte{0x85, 0x24}, x509.MarshalPKCS1PublicKey(&rsaKey.PublicKey)},
	}
	keyResolver := didkey.NewResolver()
	keyEntry := &entry{name: "didkey.Resolve",
		gen: func(h *harness, e *entry, emit func(input)) {
			rnd := h.r.Rand("gen/" + e.name)
			mk := func(code, key []byte) []byte {
				return []byte("did:key:z" + base58.Encode(append(append([]byte{}, code...), key...)))
			}
			for _, c := range codecs {
				emit(input{data: mk(c.code, c.key), valid: true, seed: c.name})
			}
			otherCodes := [][]byte{{0xe7, 0x01}, {0xeb, 0x01}, {0x00}, {0x01}, {0x7f}, {0x80}, {0x80, 0x80, 0x80, 0x80, 0x80, 0x80, 0x80, 0x80, 0x80, 0x80, 0x01}, {0xff, 0xff, 0xff, 0xff, 0xff, 0xff, 0xff, 0xff, 0xff, 0x01}, {0x80, 0x00}, {0x83, 0x24}, {0x84, 0x24}, {0x86, 0x24}, {}}
			for _, c := range codecs {
				// systematic: key length classes and point validity for every codec
				variants := map[string][]byte{
					"empty-key":      {},
					"one-byte":       {0x02},
					"short-by-one":   c.key[:len(c.key)-1],
					"long-by-one":    append(append([]byte{}, c.key...), 0),
					"all-zero":       make([]byte, len(c.key)),
					"all-ff":         bytes.Repeat([]byte{0xff}, len(c.key)),
					"prefix-00":      append([]byte{0x00}, c.key[1:]...),
					"prefix-04":      append([]byte{0x04}, c.key[1:]...),
					"prefix-05":      append([]byte{0x05}, c.key[1:]...),
					"x-off-curve":    append(append([]byte{}, c.key[:len(c.key)-1]...), c.key[len(c.key)-1]^0x5a),
					"x-equals-p":     append([]byte{0x02}, bytes.Repeat([]byte{0xff}, len(c.key)-1)...),
					"uncompressed":   append([]byte{0x04}, bytes.Repeat(c.key[1:], 2)...),
					"doubled":        append(append([]byte{}, c.key...), c.key...),
					"huge":           bytes.Repeat(c.key, 20),
					"other-key-type": codecs[(len(c.key)+1)%len(codecs)].key,
				}
				for name, k := range variants {
					emit(input{data: mk(c.code, k), ops: []string{"didkey:" + name + "@/" + c.name + "/key"}, seed: c.name})
				}
				for i, oc := range otherCodes {
					emit(input{data: mk(oc, c.key), ops: []string{fmt.Sprintf("didkey:codec%d@/%s/codec", i, c.name)}, seed: c.name})
				}
			}
			for _, s := range []string{"did:key:", "did:key:z", "did:key:Z6Mk", "did:key:z0OIl", "did:key:z" + strings.Repeat("1", 5000), "did:key:z6Mk#frag", "did:key:u" + base64.RawURLEncoding.EncodeToString(edPub), "did:key:z6Mk:sub"} {
				emit(input{data: []byte(s), ops: []string{"didkey:identifier@/" + trunc([]byte(s), 16)}, seed: "ed25519"})
			}
			_, nRandom := h.budget(false)
			for i := 0; i < nRandom; i++ {
				c := codecs[rnd.Intn(len(codecs))]
				raw := append(append([]byte{}, c.code...), c.key...)
				var ops []string
				for k := 1 + rnd.Intn(3); k > 0; k-- {
					switch rnd.Intn(5) {
					case 0:
						p := rnd.Intn(len(raw))
						raw[p] ^= 1 << uint(rnd.Intn(8))
						ops = append(ops, fmt.Sprintf("didkey:bitflip@/%s/%d", c.name, p))
					case 1:
						raw = raw[:rnd.Intn(len(raw)+1)]
						ops = append(ops, fmt.Sprintf("didkey:truncate@/%s", c.name))
					case 2:
						p := rnd.Intn(len(raw) + 1)
						raw = append(raw[:p:p], append([]byte{byte(rnd.Intn(256))}, raw[p:]...)...)
						ops = append(ops, fmt.Sprintf("didkey:insert@/%s", c.name))
					case 3:
						p := rnd.Intn(len(raw))
						n := rnd.Intn(len(raw) - p)
						rnd.Read(raw[p : p+n])
						ops = append(ops, fmt.Sprintf("didkey:randomize@/%s", c.name))
					default:
						oc := otherCodes[rnd.Intn(len(otherCodes))]
						raw = append(append([]byte{}, oc...), raw[min(len(c.code), len(raw)):]...)
						ops = append(ops, fmt.Sprintf("didkey:codec@/%s", c.name))
					}
					if len(raw) == 0 {
						raw = []byte{0}
					}
				}
				emit(input{data: []byte("did:key:z" + base58.Encode(raw)), ops: ops, seed: c.name})
			}
		},
		call: func(in input) error {
			id, err := did.ParseDID(string(in.data))
			if err != nil {
				return err
			}
			if _, _, err := keyResolver.Resolve(*id, nil); err != nil {
				return err
			}
			return useDocument(keyResolver, *id)
		}}
	return []*entry{webEntry, webHTTP, nutsEntry, jwkEntry, keyEntry}
}
