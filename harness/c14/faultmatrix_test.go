// Check C14, second workload: STORE FAULTS INSIDE THE ADMISSION WRITES (State.Add and State.WritePayload), position by position.
//
// The crash workload (c14_test.go) kills the process; this one lets it live and makes single store operations fail. A real dag.State on
// bbolt is wrapped in a decorating store (opStore) that can fail exactly one operation of one write transaction: any Get / Put / Delete /
// Iterate / Range on any shelf - the DAG shelves, the payload shelf and the job shelves of the persistent subscribers (that is where
// Notifier.Save reads and writes) - or refuse the commit. For every admission operation of a generated history the operation is first run
// with a refused commit (which yields the complete list of store operations of the closure, and nothing admitted), then once per position of
// that list with that operation failing (in a seeded random order), and finally without fault. Other members of the class: an unparsable
// record that is already on a subscriber's shelf under the transaction's key, a subscriber registered on another database, a payload that
// the private-transaction receiver writes itself (fault inside the nested WritePayload, the notifier retries), and a private payload whose
// arrival makes the caller record the completion of the private-transaction job (v2 handleTransactionPayload).
//
// Oracle (property text only):
//   - what is admitted (transaction in the DAG / payload in the payload store) after a call - whether a fault fired or not, whatever the
//     call returned - has been delivered at least once to every persistent subscriber whose filter selects it, or is still on that
//     subscriber's shelf and is delivered by the start-up replay (Notifier.Run of a fresh notifier) or stays on the shelf; never vanished;
//   - what was not admitted is not delivered to anybody, neither at once nor by a start-up replay of what the failed write left behind.
package c14

import (
	"context"
	"errors"
	"fmt"
	"io"
	"math/rand"
	"os"
	"sort"
	"strconv"
	"strings"
	"sync"
	"time"

	"github.com/nuts-foundation/go-stoabs"
	"github.com/nuts-foundation/nuts-node/crypto/hash"
	"github.com/nuts-foundation/nuts-node/network/dag"
	"github.com/sirupsen/logrus"
	"verif/lib/dagx"
	"verif/lib/ev"
	"verif/lib/sched"
)

// ---- decorating store -------------------------------------------------------------------------------------------

var errOpFault = errors.New("injected store fault")

// opPlan: fail the failAt-th store operation (1-based, counted from the moment the plan is attached to the running write transaction), or
// refuse the commit of that transaction.
type opPlan struct {
	failAt int
	refuse bool
	// filled in while the transaction runs
	trace []string // operations since the plan was attached: "Put _nats_jobs"
	fired string   // the operation that was failed / "commit"
}

type opStore struct {
	stoabs.KVStore
	mu     sync.Mutex
	active *opTx
}

func (s *opStore) Write(ctx context.Context, fn func(stoabs.WriteTx) error, opts ...stoabs.TxOption) error {
	return s.KVStore.Write(ctx, func(tx stoabs.WriteTx) error {
		w := &opTx{WriteTx: tx, store: s}
		s.mu.Lock()
		s.active = w
		s.mu.Unlock()
		err := fn(w)
		s.mu.Lock()
		s.active = nil
		plan := w.plan
		s.mu.Unlock()
		if err != nil {
			return err
		}
		if plan != nil && plan.refuse {
			plan.fired = "commit"
			return stoabs.DatabaseError(fmt.Errorf("commit refused: %w", errOpFault))
		}
		return nil
	}, opts...)
}

func (s *opStore) Read(ctx context.Context, fn func(stoabs.ReadTx) error) error {
	return s.KVStore.Read(ctx, func(tx stoabs.ReadTx) error { return fn(&opReadTx{ReadTx: tx, store: s}) })
}

// armActive attaches plan to the write transaction whose closure is running (called from a hook point inside that closure).
func (s *opStore) armActive(plan *opPlan) bool {
	s.mu.Lock()
	defer s.mu.Unlock()
	if s.active == nil {
		return false
	}
	s.active.plan = plan
	return true
}

type opReadTx struct {
	stoabs.ReadTx
	store *opStore
}

func (r *opReadTx) Store() stoabs.KVStore { return r.store }

type opTx struct {
	stoabs.WriteTx
	store *opStore
	plan  *opPlan
}

func (w *opTx) Store() stoabs.KVStore { return w.store }

func (w *opTx) op(kind, shelf string) error {
	w.store.mu.Lock()
	p := w.plan
	w.store.mu.Unlock()
	if p == nil {
		return nil
	}
	p.trace = append(p.trace, kind+" "+shelf)
	if p.failAt == len(p.trace) {
		p.fired = kind + " " + shelf
		return stoabs.DatabaseError(fmt.Errorf("%s %s: %w", kind, shelf, errOpFault))
	}
	return nil
}

func (w *opTx) GetShelfReader(shelf string) stoabs.Reader {
	return &opReader{Reader: w.WriteTx.GetShelfReader(shelf), tx: w, shelf: shelf}
}

func (w *opTx) GetShelfWriter(shelf string) stoabs.Writer {
	return &opWriter{Writer: w.WriteTx.GetShelfWriter(shelf), tx: w, shelf: shelf}
}

type opReader struct {
	stoabs.Reader
	tx    *opTx
	shelf string
}

func (r *opReader) Get(key stoabs.Key) ([]byte, error) {
	if err := r.tx.op("Get", r.shelf); err != nil {
		return nil, err
	}
	return r.Reader.Get(key)
}

func (r *opReader) Iterate(cb stoabs.CallerFn, keyType stoabs.Key) error {
	if err := r.tx.op("Iterate", r.shelf); err != nil {
		return err
	}
	return r.Reader.Iterate(cb, keyType)
}

func (r *opReader) Range(from, to stoabs.Key, cb stoabs.CallerFn, stopAtNil bool) error {
	if err := r.tx.op("Range", r.shelf); err != nil {
		return err
	}
	return r.Reader.Range(from, to, cb, stopAtNil)
}

type opWriter struct {
	stoabs.Writer
	tx    *opTx
	shelf string
}

func (w *opWriter) Get(key stoabs.Key) ([]byte, error) {
	if err := w.tx.op("Get", w.shelf); err != nil {
		return nil, err
	}
	return w.Writer.Get(key)
}

func (w *opWriter) Iterate(cb stoabs.CallerFn, keyType stoabs.Key) error {
	if err := w.tx.op("Iterate", w.shelf); err != nil {
		return err
	}
	return w.Writer.Iterate(cb, keyType)
}

func (w *opWriter) Range(from, to stoabs.Key, cb stoabs.CallerFn, stopAtNil bool) error {
	if err := w.tx.op("Range", w.shelf); err != nil {
		return err
	}
	return w.Writer.Range(from, to, cb, stopAtNil)
}

func (w *opWriter) Put(key stoabs.Key, value []byte) error {
	if err := w.tx.op("Put", w.shelf); err != nil {
		return err
	}
	return w.Writer.Put(key, value)
}

func (w *opWriter) Delete(key stoabs.Key) error {
	if err := w.tx.op("Delete", w.shelf); err != nil {
		return err
	}
	return w.Writer.Delete(key)
}

// ---- one history ------------------------------------------------------------------------------------------------

// records that cannot be parsed as an event (a leftover of another version, a torn value)
var corruptRecords = []string{"not json", `{"type":"payload","retries":`, `[]`}

type fmRun struct {
	r    *ev.Run
	idx  int
	rnd  *rand.Rand
	dir  string
	db   stoabs.KVStore // the bbolt store
	fs   *opStore
	st   dag.State
	txs  []dag.Transaction
	spec []txSpec
	subs []subSpec
	byRef map[string]int

	mu         sync.Mutex
	deliveries map[string]int // sub|ref|type
	log        []string
	extDone    map[string]bool // private transactions whose job completion was recorded by the caller of WritePayload
	pending    *fmPending
	notifiers  map[string]dag.Notifier
	broken     string
}

// fmPending: the plan that the next write closure of the named kind for ref picks up (one shot).
type fmPending struct {
	hook string // dag.add.inwrite | dag.payload.inwrite
	ref  string
	plan *opPlan
}

func (m *fmRun) logf(format string, a ...any) {
	m.mu.Lock()
	m.log = append(m.log, fmt.Sprintf(format, a...))
	if len(m.log) > 400 {
		m.log = m.log[len(m.log)-300:]
	}
	m.mu.Unlock()
}

func (m *fmRun) setPending(hook, ref string, plan *opPlan) {
	m.mu.Lock()
	m.pending = &fmPending{hook, ref, plan}
	if plan == nil {
		m.pending = nil
	}
	m.mu.Unlock()
}

func (m *fmRun) onHook(name string, a []any) error {
	if name != "dag.add.inwrite" && name != "dag.payload.inwrite" {
		return nil
	}
	ref := a[0].(hash.SHA256Hash).String()
	m.mu.Lock()
	p := m.pending
	if p != nil && p.hook == name && p.ref == ref {
		m.pending = nil
	} else {
		p = nil
	}
	m.mu.Unlock()
	if p != nil {
		m.fs.armActive(p.plan)
	}
	return nil
}

func (m *fmRun) payloadPresent(i int) bool {
	pp, _ := m.st.IsPayloadPresent(context.Background(), m.txs[i].PayloadHash())
	return pp
}

func (m *fmRun) receiver(s subSpec, replay bool) dag.ReceiverFn {
	return func(e dag.Event) (bool, error) {
		ref := e.Hash.String()
		m.mu.Lock()
		m.deliveries[s.Name+"|"+ref+"|"+e.Type]++
		n := m.deliveries[s.Name+"|"+ref+"|"+e.Type]
		m.mu.Unlock()
		i, known := m.byRef[ref]
		m.logf("recv %s tx=%d %s call=%d replay=%v", s.Name, i, e.Type, n, replay)
		if !known || s.Name != "private" || e.Type != dag.TransactionEventType {
			return true, nil
		}
		switch t := m.spec[i]; {
		case t.Mode == "recv":
			// the receiver obtained the payload and writes it
			if m.payloadPresent(i) {
				return true, nil
			}
			err := m.st.WritePayload(context.Background(), e.Transaction, e.Transaction.PayloadHash(), t.Payload)
			m.logf("nested WritePayload tx=%d -> %v", i, err)
			if err != nil {
				return false, err
			}
			return true, nil
		case t.Mode == "late" && t.Private:
			// the payload was asked for; the job is completed by the party that writes the payload when it arrives
			m.mu.Lock()
			done := m.extDone[ref]
			m.mu.Unlock()
			return done, nil
		}
		return true, nil
	}
}

func (m *fmRun) notifierOpts(s subSpec, db stoabs.KVStore) []dag.NotifierOption {
	var opts []dag.NotifierOption
	if s.Persistent {
		opts = append(opts, dag.WithPersistency(db))
	}
	if s.Filter != "any" {
		opts = append(opts, dag.WithSelectionFilter(filterFn(s.Filter)))
	}
	return append(opts, dag.WithRetryDelay(time.Duration(s.DelayNs)))
}

// quiesce waits until no goroutine is inside dag.(*notifier) any more.
func (m *fmRun) quiesce() bool {
	deadline := time.Now().Add(time.Duration(watchdogSeconds()) * time.Second)
	for notifierGoroutines() {
		if time.Now().After(deadline) {
			return false
		}
		time.Sleep(time.Millisecond)
	}
	return true
}

func (m *fmRun) count(sub, ref, typ string) int {
	m.mu.Lock()
	defer m.mu.Unlock()
	return m.deliveries[sub+"|"+ref+"|"+typ]
}

// replay does what a restart does for one subscriber: a fresh notifier on the same shelf, Run().
func (m *fmRun) replay(s subSpec) {
	n := dag.NewNotifier(s.Name, m.receiver(s, true), m.notifierOpts(s, m.fs)...)
	if err := n.Run(); err != nil {
		m.logf("replay %s: %v", s.Name, err)
	}
	m.quiesce()
	_ = n.Close()
	m.r.Count("matrix_start_up_replays", 1)
}

type fmAttempt struct {
	op     string // add | add-with-payload | writepayload | writepayload-private | writepayload-nested | writepayload-corrupt-record | writepayload-foreign-db
	tx     int
	fault  string // "none" | "commit" | "Put _nats_jobs" ...
	pos    int
	trace  []string
	result string
	except string // subscriber that is outside the text for this attempt
}

func (m *fmRun) witness(a fmAttempt, extra map[string]any) map[string]any {
	t := m.spec[a.tx]
	ref := t.Ref
	del := map[string]int{}
	m.mu.Lock()
	for k, v := range m.deliveries {
		if strings.Contains(k, "|"+ref+"|") {
			del[k] = v
		}
	}
	lg := append([]string{}, m.log...)
	m.mu.Unlock()
	if len(lg) > 60 {
		lg = lg[len(lg)-60:]
	}
	sh := map[string]any{}
	for _, s := range m.subs {
		if s.Persistent {
			if e, err := readShelf(m.db, s.Name); err == nil {
				if x, ok := e[ref]; ok {
					sh[s.Name] = x
				}
			}
		}
	}
	inDag, _ := m.st.IsPresent(context.Background(), m.txs[a.tx].Ref())
	w := map[string]any{
		"history": m.idx, "operation": a.op, "fault": a.fault, "fault_position_in_write": a.pos, "store_operations_of_the_write": a.trace, "call_returned": a.result,
		"tx": map[string]any{"index": a.tx, "ref": ref, "payload_type": t.PType, "private": t.Private, "mode": t.Mode, "in_dag": inDag, "payload_in_store": m.payloadPresent(a.tx)},
		"subscribers": m.subs, "deliveries_for_this_transaction": del, "shelf_entries_for_this_transaction": sh, "log_tail": lg,
	}
	for k, v := range extra {
		w[k] = v
	}
	return w
}

// notAdmitted: the offer did not lead to admission of typ(s): nobody may have received it, and nothing that a restart would deliver may be left.
func (m *fmRun) notAdmitted(a fmAttempt, types []string) {
	ref := m.spec[a.tx].Ref
	for _, s := range m.subs {
		for _, typ := range types {
			if n := m.count(s.Name, ref, typ); n > 0 {
				m.r.Violation("C14/delivered-not-admitted/store-fault-"+a.op, fmt.Sprintf("subscriber %s received a %s event for transaction %d although the %s was not admitted (%s failed inside the write, call returned %s) [history %d]", s.Name, typ, a.tx, map[string]string{dag.TransactionEventType: "transaction", dag.PayloadEventType: "payload"}[typ], a.fault, a.result, m.idx), m.witness(a, nil))
				return
			}
		}
		if !s.Persistent || s.Name == a.except {
			continue
		}
		sh, err := readShelf(m.db, s.Name)
		if err != nil {
			continue
		}
		e, on := sh[ref]
		if !on {
			continue
		}
		for _, typ := range types {
			if e.Type != typ {
				continue
			}
			// the failed write left a job behind: a restart delivers it
			m.r.Count("matrix_jobs_left_behind_by_a_refused_offer", 1)
			m.replay(s)
			if n := m.count(s.Name, ref, typ); n > 0 {
				m.r.Violation("C14/delivered-not-admitted/store-fault-"+a.op, fmt.Sprintf("the write that failed (%s) left a %s job for transaction %d on the shelf of %s, which the start-up replay delivered although nothing was admitted [history %d]", a.fault, typ, a.tx, s.Name, m.idx), m.witness(a, nil))
				return
			}
		}
	}
}

// admitted: transaction / payload is in the store now. Every persistent subscriber that selects it has got it, or still has it on the shelf
// (then a start-up replay delivers it or it stays there).
func (m *fmRun) admitted(a fmAttempt, types []string) {
	t := &m.spec[a.tx]
	ref := t.Ref
	// (the first delivery attempts are made inside the admitting call; the private-transaction job of a private transaction whose payload
	// comes later is retried until the payload is in: nothing to wait for after that Add)
	if !(a.op == "add" && t.Private && t.Mode == "late") && !m.quiesce() {
		m.broken = "notifier goroutines did not end after " + a.op
		return
	}
	for _, s := range m.subs {
		if !s.Persistent {
			continue
		}
		if s.Name == a.except {
			m.r.Unspecified(map[string]string{"writepayload-corrupt-record": "unparsable-record-on-the-subscriber's-own-shelf", "writepayload-foreign-db": "subscriber-registered-on-another-database"}[a.op])
			continue
		}
		var sel []string
		for _, typ := range types {
			if selects(s.Filter, t, typ) {
				sel = append(sel, typ)
			}
		}
		if len(sel) == 0 {
			continue
		}
		if s.Filter == "any" {
			// one shelf key for the transaction event and the payload event of one transaction (the second Save finds the first one's record and
			// schedules nothing): outside the text. Something about the admitted transaction was delivered, or is on the shelf.
			sel = []string{dag.TransactionEventType, dag.PayloadEventType}
		}
		got := func() int {
			n := 0
			for _, typ := range sel {
				n += m.count(s.Name, ref, typ)
			}
			return n
		}
		onShelf := func() bool {
			sh, err := readShelf(m.db, s.Name)
			_, on := sh[ref]
			return err == nil && on
		}
		if len(sel) > 1 {
			m.r.Unspecified("subscriber-selects-both-event-types-of-one-tx")
		}
		m.r.Count("matrix_admitted_events_x_selecting_persistent_subscribers", 1)
		if got() > 0 {
			continue
		}
		if onShelf() {
			m.replay(s)
			if got() > 0 || onShelf() {
				m.r.Count("matrix_events_delivered_by_the_start_up_replay_or_still_pending", 1)
				continue
			}
		}
		what := strings.Join(sel, "+")
		if a.fault == "none" {
			m.r.Violation("C14/vanished/"+what+"/fault-matrix-"+a.op, fmt.Sprintf("%s event of admitted transaction %d was never delivered to persistent subscriber %s and is not on its shelf (%s without fault) [history %d]", what, a.tx, s.Name, a.op, m.idx), m.witness(a, map[string]any{"subscriber_without_event": s.Name}))
		} else {
			m.r.Violation("C14/vanished-after-store-fault/"+a.op+"/"+what, fmt.Sprintf("%s of transaction %d was admitted (call returned %s) although %s failed inside the admission write; its %s event was never delivered to persistent subscriber %s and is not on its shelf, a restart has nothing to replay [history %d]", map[bool]string{true: "payload", false: "transaction"}[strings.HasPrefix(a.op, "writepayload")], a.tx, a.result, a.fault, what, s.Name, m.idx), m.witness(a, map[string]any{"subscriber_without_event": s.Name}))
		}
		return
	}
}

func errStr(err error) string {
	if err == nil {
		return "nil"
	}
	return err.Error()
}

// enumerate runs one admission operation under every single store fault, then without.
//
//	call: the operation; isIn: is it admitted now; types: the event types the operation creates; hook: where the plan is attached.
func (m *fmRun) enumerate(op string, i int, hook string, types []string, call func() error, isIn func() bool) {
	ref := m.spec[i].Ref
	attempt := func(plan *opPlan, pos int) (a fmAttempt, in bool) {
		if plan != nil {
			m.setPending(hook, ref, plan)
		}
		err := call()
		m.setPending("", "", nil)
		a = fmAttempt{op: op, tx: i, fault: "none", pos: pos, result: errStr(err)}
		if plan != nil {
			a.trace = plan.trace
			a.fault = plan.fired
			if plan.fired == "" {
				a.fault = "none"
			}
		}
		m.logf("%s tx=%d fault=%q pos=%d -> %s", op, i, a.fault, pos, a.result)
		m.r.Count("matrix_calls", 1)
		in = isIn()
		fired := a.fault != "none"
		if fired {
			m.r.Count("matrix_faults_fired", 1)
			m.r.Distinct("matrix_fault_sites", op+": "+a.fault)
			m.r.Case(fmt.Sprintf("matrix|%s|%s|%d|h%d|tx%d", op, a.fault, pos, m.idx, i), true)
		}
		switch {
		case in:
			if fired {
				m.r.Count("matrix_admitted_although_a_store_operation_failed", 1)
			}
			m.admitted(a, types)
		case fired:
			m.r.Count("matrix_offers_refused_after_a_fault", 1)
			if err == nil {
				m.r.Count("matrix_refused_offers_answered_without_error", 1)
			}
			m.notAdmitted(a, types)
		}
		return a, in
	}
	// the refused commit shows every store operation of the closure
	probe := &opPlan{refuse: true}
	if _, in := attempt(probe, 0); in || m.broken != "" {
		return
	}
	if probe.fired == "" {
		m.broken = fmt.Sprintf("%s of transaction %d: the write closure did not run to its end with a refused commit", op, i)
		return
	}
	n := len(probe.trace)
	m.r.Count("matrix_store_operations_per_write_total", n)
	// order: the mutating operations and everything on the subscribers' job shelves first, the other reads afterwards (each group in a drawn
	// order): the code under test answers some failed reads of DAG metadata with a default and admits - the enumeration of an operation ends there
	var first, rest []int
	for _, k := range m.rnd.Perm(n) {
		if o := probe.trace[k]; strings.HasPrefix(o, "Put ") || strings.HasPrefix(o, "Delete ") || strings.HasSuffix(o, "_jobs") {
			first = append(first, k)
		} else {
			rest = append(rest, k)
		}
	}
	for _, k := range append(first, rest...) {
		if _, in := attempt(&opPlan{failAt: k + 1}, k+1); in || m.broken != "" {
			if in {
				m.r.Count("matrix_positions_not_tried_because_admitted_before", 1)
			}
			return
		}
	}
	if a, in := attempt(nil, -1); !in && m.broken == "" {
		m.broken = fmt.Sprintf("%s of transaction %d without fault did not admit it: %s", op, i, a.result)
	}
}

func (m *fmRun) addOp(i int) {
	t := m.spec[i]
	op, types := "add", []string{dag.TransactionEventType}
	var payload []byte
	if t.Mode == "with" {
		op, types, payload = "add-with-payload", []string{dag.TransactionEventType, dag.PayloadEventType}, t.Payload
	}
	m.enumerate(op, i, "dag.add.inwrite", types, func() error {
		return m.st.Add(context.Background(), m.txs[i], payload)
	}, func() bool {
		in, _ := m.st.IsPresent(context.Background(), m.txs[i].Ref())
		return in
	})
}

// recvOp: transaction of mode "recv" - Add without payload; the private-transaction receiver writes the payload itself, a store fault hits that
// nested write at one drawn position, the notifier's retry repeats it.
func (m *fmRun) recvOp(i int) {
	ref := m.spec[i].Ref
	plan := &opPlan{failAt: m.rnd.Intn(8)}
	plan.refuse = plan.failAt == 0
	m.setPending("dag.payload.inwrite", ref, plan)
	err := m.st.Add(context.Background(), m.txs[i], nil)
	m.r.Count("matrix_calls", 1)
	if !m.quiesce() {
		m.broken = "notifier goroutines did not end after the nested WritePayload"
		return
	}
	m.setPending("", "", nil)
	a := fmAttempt{op: "add", tx: i, fault: "none", pos: -1, result: errStr(err)}
	if in, _ := m.st.IsPresent(context.Background(), m.txs[i].Ref()); !in {
		m.broken = fmt.Sprintf("add of transaction %d without fault did not admit it: %v", i, err)
		return
	}
	m.admitted(a, []string{dag.TransactionEventType})
	a = fmAttempt{op: "writepayload-nested", tx: i, fault: "none", pos: plan.failAt, trace: plan.trace, result: "see log"}
	if plan.fired != "" {
		a.fault = plan.fired
		m.r.Count("matrix_faults_fired", 1)
		m.r.Distinct("matrix_fault_sites", a.op+": "+a.fault)
		m.r.Case(fmt.Sprintf("matrix|%s|%s|%d|h%d|tx%d", a.op, a.fault, plan.failAt, m.idx, i), true)
	}
	m.logf("%s tx=%d fault=%q pos=%d", a.op, i, a.fault, plan.failAt)
	if m.payloadPresent(i) {
		if plan.fired != "" {
			m.r.Count("matrix_payloads_admitted_by_the_retry_after_a_failed_nested_write", 1)
		}
		m.admitted(a, []string{dag.PayloadEventType})
	} else {
		// the receiver did not get the payload in (it reported the failure, the notifier keeps the job): nothing admitted, nothing delivered
		m.notAdmitted(a, []string{dag.PayloadEventType})
	}
}

func (m *fmRun) wpOp(i int, variant string) {
	t := m.spec[i]
	op := "writepayload"
	if t.Private {
		op = "writepayload-private"
	}
	ref := t.Ref
	call := func() error {
		err := m.st.WritePayload(context.Background(), m.txs[i], m.txs[i].PayloadHash(), t.Payload)
		if err == nil && t.Private {
			// as v2 handleTransactionPayload: the payload is in, the private-transaction job is completed
			m.mu.Lock()
			m.extDone[ref] = true
			n := m.notifiers["private"]
			m.mu.Unlock()
			_ = n.Finished(m.txs[i].Ref())
		}
		return err
	}
	isIn := func() bool { return m.payloadPresent(i) }
	types := []string{dag.PayloadEventType}
	switch variant {
	case "corrupt-record":
		// an unparsable record under this transaction's key is on the shelf of one subscriber that selects the payload event
		var cands []subSpec
		for _, s := range m.subs {
			if s.Persistent && selects(s.Filter, &t, dag.PayloadEventType) {
				cands = append(cands, s)
			}
		}
		if len(cands) > 0 {
			s := cands[m.rnd.Intn(len(cands))]
			rec := corruptRecords[m.rnd.Intn(len(corruptRecords))]
			key := stoabs.BytesKey(m.txs[i].Ref().Slice())
			_ = m.db.WriteShelf(context.Background(), "_"+s.Name+"_jobs", func(w stoabs.Writer) error { return w.Put(key, []byte(rec)) })
			err := call()
			a := fmAttempt{op: "writepayload-corrupt-record", tx: i, fault: fmt.Sprintf("unparsable record %q on the shelf of %s", rec, s.Name), result: errStr(err), except: s.Name}
			m.logf("%s tx=%d %s -> %s", a.op, i, a.fault, a.result)
			m.r.Count("matrix_calls", 1)
			m.r.Count("matrix_faults_fired", 1)
			m.r.Distinct("matrix_fault_sites", a.op+": "+rec)
			m.r.Case(fmt.Sprintf("matrix|%s|%s|%s|h%d|tx%d", a.op, s.Name, rec, m.idx, i), true)
			in := isIn()
			if in {
				m.r.Count("matrix_admitted_although_a_store_operation_failed", 1)
				m.admitted(a, types)
			} else {
				m.r.Count("matrix_offers_refused_after_a_fault", 1)
				m.notAdmitted(a, types)
			}
			_ = m.db.WriteShelf(context.Background(), "_"+s.Name+"_jobs", func(w stoabs.Writer) error {
				if v, err := w.Get(key); err == nil && string(v) == rec {
					return w.Delete(key)
				}
				return nil
			})
			if in || m.broken != "" {
				return
			}
		}
	case "foreign-db":
		// a persistent subscriber that was registered with another database: its Save refuses every event
		other, err := openStoreAt(m.dir, "other.db")
		if err != nil {
			m.broken = err.Error()
			return
		}
		defer other.Close(context.Background())
		fsub := subSpec{Name: "foreign", Persistent: true, Filter: "payload:*", DelayNs: int64(time.Millisecond)}
		n, err := m.st.Notifier(fsub.Name, m.receiver(fsub, false), m.notifierOpts(fsub, other)...)
		if err != nil {
			m.broken = err.Error()
			return
		}
		defer n.Close()
		err = call()
		a := fmAttempt{op: "writepayload-foreign-db", tx: i, fault: "Save of a subscriber on another database", result: errStr(err), except: "foreign"}
		m.logf("%s tx=%d -> %s", a.op, i, a.result)
		m.r.Count("matrix_calls", 1)
		m.r.Count("matrix_faults_fired", 1)
		m.r.Distinct("matrix_fault_sites", a.op)
		m.r.Case(fmt.Sprintf("matrix|%s|h%d|tx%d", a.op, m.idx, i), true)
		if isIn() {
			m.r.Count("matrix_admitted_although_a_store_operation_failed", 1)
			m.admitted(a, types)
		} else {
			m.r.Count("matrix_offers_refused_after_a_fault", 1)
			m.notAdmitted(a, types)
		}
		return // that subscriber cannot be removed again: end of this history
	}
	m.enumerate(op, i, "dag.payload.inwrite", types, call, isIn)
}

func openStoreAt(dir, name string) (stoabs.KVStore, error) {
	sub := dir + string(os.PathSeparator) + name + ".d"
	if err := os.MkdirAll(sub, 0o755); err != nil {
		return nil, err
	}
	return openStore(sub, false)
}

// runFaultMatrix is the second workload of TestCheck.
func runFaultMatrix(r *ev.Run) {
	// the code under test logs every rollback
	std := logrus.StandardLogger()
	out := std.Out
	std.SetOutput(io.Discard)
	defer std.SetOutput(out)
	nHist := r.Pick(10, 48)
	if os.Getenv("C14_ONLY") != "" && !strings.HasPrefix(os.Getenv("C14_ONLY"), "matrix") {
		return
	}
	for h := 0; h < nHist; h++ {
		if only := os.Getenv("C14_ONLY"); strings.HasPrefix(only, "matrix") && only != "matrix" && only != "matrix"+strconv.Itoa(h)+"$" {
			continue
		}
		m := oneFaultHistory(r, h)
		if m != nil && m.broken != "" {
			r.Inconclusive(fmt.Sprintf("fault matrix, history %d: %s", h, m.broken))
		}
	}
	r.Extra("fault_matrix_histories", nHist)
}

func oneFaultHistory(r *ev.Run, h int) *fmRun {
	rnd := r.Rand("matrix" + strconv.Itoa(h))
	dir, err := os.MkdirTemp("", "c14-matrix-")
	if err != nil {
		r.Fatalf("temp dir: %v", err)
	}
	defer os.RemoveAll(dir)
	db, err := openStore(dir, false)
	if err != nil {
		r.Fatalf("open store: %v", err)
	}
	defer db.Close(context.Background())
	m := &fmRun{r: r, idx: h, rnd: rnd, dir: dir, db: db, fs: &opStore{KVStore: db}, byRef: map[string]int{}, deliveries: map[string]int{}, extDone: map[string]bool{}, notifiers: map[string]dag.Notifier{}}
	st, err := dag.NewState(m.fs, dag.NewPrevTransactionsVerifier(), dag.NewTransactionSignatureVerifier(nil))
	if err != nil {
		r.Fatalf("state: %v", err)
	}
	dag.VerifLoadState(st)
	m.st = st
	defer st.Shutdown()

	// history: a chain with some second prevs; fixed features first, the rest drawn
	n := 7 + rnd.Intn(3)
	key := dagx.NewKey("")
	now := time.Unix(1700000000, 0)
	for i := 0; i < n; i++ {
		t := txSpec{PType: []string{typeDID, typeVC, typeOther}[rnd.Intn(3)], Mode: "with"}
		switch {
		case i == 0:
			t.PType = typeDID
		case i == 1:
			t.PType = []string{typeDID, typeVC}[rnd.Intn(2)]
		case i == 2:
			t.Private, t.Mode = true, "late"
		case i == 3:
			t.Private, t.Mode = true, "recv"
		case i == 4, i == n-1:
			t.PType, t.Mode = []string{typeDID, typeVC}[rnd.Intn(2)], "late"
		default:
			switch rnd.Intn(5) {
			case 0:
				t.Mode = "late"
			case 1:
				t.Private, t.Mode = true, "late"
			case 2:
				t.Private, t.Mode = true, "recv"
			}
		}
		t.Payload = dagx.Payload(r.Seed()*100000+7000+int64(h), i)
		var prevs []dag.Transaction
		if i > 0 {
			prevs = []dag.Transaction{m.txs[i-1]}
			if i > 2 && rnd.Intn(3) == 0 {
				prevs = append(prevs, m.txs[i-2-rnd.Intn(i-1)])
			}
		}
		var pal [][]byte
		if t.Private {
			pal = [][]byte{{byte(i), 1, 2, 3}, {byte(h), 9}}
		}
		tx := dagx.NewTx(key, true, t.Payload, t.PType, now.Add(time.Duration(i)*time.Second), pal, prevs...)
		t.Data, t.Ref = string(tx.Data()), tx.Ref().String()
		m.txs = append(m.txs, tx)
		m.spec = append(m.spec, t)
		m.byRef[t.Ref] = i
	}
	m.subs = []subSpec{
		{"vdr", true, "payload:did", int64(time.Millisecond)},
		{"vcr_vcs", true, "payload:vc", int64(time.Millisecond)},
		{"nats", true, "payload:*", int64(time.Millisecond)},
		{"private", true, "tx:pal", int64(time.Millisecond)},
		{"txlog", true, "tx:*", int64(time.Millisecond)},
		{"gossip", false, "tx:*", int64(time.Millisecond)},
	}
	if h%3 == 2 {
		m.subs = append(m.subs, subSpec{"audit", true, "any", int64(time.Millisecond)})
	}
	if h%4 == 1 {
		m.subs = append(m.subs, subSpec{"payloadlog", true, "payload:*", int64(time.Millisecond)})
	}
	for _, s := range m.subs {
		nt, err := st.Notifier(s.Name, m.receiver(s, false), m.notifierOpts(s, m.fs)...)
		if err != nil {
			r.Fatalf("notifier: %v", err)
		}
		m.notifiers[s.Name] = nt
	}
	defer func() {
		for _, nt := range st.Notifiers() {
			_ = nt.Close()
		}
	}()
	rec := &sched.Recorder{OnHook: m.onHook}
	uninstall := rec.Install()
	defer uninstall()

	// operations: every Add in order; the WritePayload of a private payload right after its Add, of the others at a drawn later position
	var late []int
	flush := func(k int) {
		i := late[k]
		late = append(late[:k], late[k+1:]...)
		variant := ""
		if i == 4 {
			variant = "corrupt-record"
		}
		m.wpOp(i, variant)
	}
	for i := 0; i < n && m.broken == ""; i++ {
		if m.spec[i].Mode == "recv" {
			m.recvOp(i)
		} else {
			m.addOp(i)
		}
		if m.broken != "" {
			break
		}
		switch t := m.spec[i]; {
		case t.Mode == "late" && t.Private:
			m.wpOp(i, "")
		case t.Mode == "late" && i != n-1:
			late = append(late, i)
		}
		if len(late) > 0 && rnd.Intn(2) == 0 && m.broken == "" {
			flush(rnd.Intn(len(late)))
		}
	}
	for len(late) > 0 && m.broken == "" {
		flush(0)
	}
	if m.broken == "" {
		variant := ""
		if h%2 == 1 {
			variant = "foreign-db"
		}
		m.wpOp(n-1, variant)
	}
	if m.broken == "" && !m.quiesce() {
		m.broken = "notifier goroutines did not end at the end of the history"
	}
	// summary of the history
	inDag, withPayload := 0, 0
	for i := range m.txs {
		if in, _ := st.IsPresent(context.Background(), m.txs[i].Ref()); in {
			inDag++
			if m.payloadPresent(i) {
				withPayload++
			}
		}
	}
	total := 0
	var keys []string
	m.mu.Lock()
	for k, v := range m.deliveries {
		total += v
		keys = append(keys, k)
	}
	m.mu.Unlock()
	sort.Strings(keys)
	r.Count("matrix_deliveries", total)
	r.Count("matrix_transactions_admitted", inDag)
	r.Count("matrix_payloads_admitted", withPayload)
	if h < 2 {
		r.Sample(map[string]any{"case": "matrix" + strconv.Itoa(h), "transactions": n, "admitted": inDag, "payloads_admitted": withPayload, "subscribers": len(m.subs), "deliveries": total})
	}
	return m
}
