// Check C14: admitted transactions and payloads reach every persistent subscriber at least once.
//
// A WORKER child process holds a real dag.State on bbolt (sync writes on) with subscribers registered the way
// network.Subscribe / v2.protocol.Configure do it (persistent through dag.WithPersistency, selection filters on the event
// type / payload type / PAL as the VDR, VCR, nats and private-transaction subscribers use them, dag.WithRetryDelay, plus a
// non-persistent one for contrast). Receivers follow scripts (succeed, fail n times, report incomplete, fatal, slow, write
// the payload themselves). The worker appends a ledger line BEFORE acting and is SIGKILLed at an enumerated crash point;
// a second (and sometimes third) worker is started on the same data directory, registers the same subscribers, calls
// Notifier.Run() for each as Network.Start does, optionally carries on with the remaining operations and runs until the
// notifier machinery is quiescent (no goroutine left inside dag.(*notifier)). The parent merges the ledgers, reads the final
// DAG / payload store / subscriber shelves / GetFailedEvents and decides the property offline over that record.
package c14

import (
	"context"
	"encoding/json"
	"errors"
	"fmt"
	"io"
	"math/rand"
	"os"
	"path/filepath"
	"runtime"
	"runtime/debug"
	"sort"
	"strconv"
	"strings"
	"sync"
	"sync/atomic"
	"testing"
	"time"

	"github.com/lestrrat-go/jwx/v2/jwa"
	"github.com/nuts-foundation/go-stoabs"
	"github.com/nuts-foundation/go-stoabs/bbolt"
	"github.com/nuts-foundation/nuts-node/crypto/hash"
	"github.com/nuts-foundation/nuts-node/network/dag"
	"github.com/sirupsen/logrus"
	"verif/lib/dagx"
	"verif/lib/ev"
	"verif/lib/faultstore"
	"verif/lib/sched"
	"verif/lib/worker"
)

func TestMain(m *testing.M) {
	worker.Register("c14phase", phaseWorker)
	worker.Main(m)
}

// retryBudget is the number of attempts after which the code under test gives up on an event (dag.maxRetries, not exported).
const retryBudget = 20

const (
	typeDID   = "application/did+json"
	typeVC    = "application/vc+json"
	typeOther = "application/x-verif"
)

// ---- scenario description (written as JSON into the data directory, read by every worker phase) -------------------

type txSpec struct {
	Data    string `json:"data"`
	Payload []byte `json:"payload"`
	Ref     string `json:"ref"`
	PType   string `json:"ptype"`
	Private bool   `json:"private"`
	// Mode: "with" = Add(tx, payload); "late" = Add(tx, nil) and a later WritePayload step; "recv" = Add(tx, nil) and the
	// private-transaction receiver writes the payload itself; "never" = Add(tx, nil), payload never arrives.
	Mode string `json:"mode"`
}

type subSpec struct {
	Name       string `json:"name"`
	Persistent bool   `json:"persistent"`
	// Filter: "payload:did" | "payload:vc" | "payload:*" | "tx:pal" | "tx:*" | "any"
	Filter  string `json:"filter"`
	DelayNs int64  `json:"delay_ns"`
}

type script struct {
	Seq  []string `json:"seq"`
	Tail string   `json:"tail"`
}

func (s script) at(i int) string {
	if i < len(s.Seq) {
		return s.Seq[i]
	}
	if s.Tail == "" {
		return "ok"
	}
	return s.Tail
}

func (s script) String() string {
	t := s.Tail
	if t == "" {
		t = "ok"
	}
	return strings.Join(s.Seq, ",") + ">" + t
}

type step struct {
	// Op: "add" | "wp" | "rewp" | "rej" (an offer that must not lead to admission) | "dup" (an admitted transaction is offered again)
	Op string `json:"op"`
	Tx int    `json:"tx"` // index into Txs; for rej kinds that offer an inadmissible transaction: index into Rej
	// Kind of a "rej" step.
	//   inadmissible by construction (Tx -> Rej): second-root | unknown-prev | bad-signature | wrong-lc
	//   an admissible transaction of Txs offered in a way that cannot succeed, before its regular add step:
	//     prev-later (a prev is not there yet) | payload-mismatch (other bytes than the payload hash) |
	//     ctx-cancel (the caller's context ends inside the admission write) | store-fault (N-th store op of the admission write fails, 0 = commit refused)
	//     wp-store-fault (same for the WritePayload of a late payload)
	Kind string `json:"kind,omitempty"`
	N    int    `json:"n,omitempty"`
}

// rejSpec is a well-formed transaction that the DAG must refuse (reference decision by construction, see step.Kind).
type rejSpec struct {
	Kind    string `json:"kind"`
	Data    string `json:"data"`
	Ref     string `json:"ref"`
	PType   string `json:"ptype"`
	Payload []byte `json:"payload"` // nil: offered without payload
}

type crashPlan struct {
	// Point: "" (run to quiescence, clean exit) | inwrite | committed | wp-inwrite | wp-committed | returned | recorded | backoff | finished
	Point string `json:"point"`
	Tx    int    `json:"tx"`   // -1 = any
	Sub   string `json:"sub"`  // "*" = any persistent subscriber
	Occ   int    `json:"occ"`  // n-th matching occurrence in this phase (1-based)
	Op    int    `json:"op"`   // inwrite: kill before the n-th write op of the closure (0 = at the hook)
	Note  string `json:"note"` // what the target attempt returns (evidence only)
}

type scenario struct {
	Index    int               `json:"index"`
	Txs      []txSpec          `json:"txs"`
	Rej      []rejSpec         `json:"rej"`
	Subs     []subSpec         `json:"subs"`
	Steps    []step            `json:"steps"`
	Scripts  map[string]script `json:"scripts"` // "sub|txIndex|type"
	Phases   []crashPlan       `json:"phases"`
	Continue bool              `json:"continue"` // phases after the first carry on with the steps that did not complete
}

func selects(filter string, tx *txSpec, typ string) bool {
	switch filter {
	case "payload:did":
		return typ == dag.PayloadEventType && tx.PType == typeDID
	case "payload:vc":
		return typ == dag.PayloadEventType && tx.PType == typeVC
	case "payload:*":
		return typ == dag.PayloadEventType
	case "tx:pal":
		return typ == dag.TransactionEventType && tx.Private
	case "tx:*":
		return typ == dag.TransactionEventType
	case "any":
		return true
	}
	return false
}

// filterFn is the selection filter registered with the notifier; it looks at the real event only, the way the production filters do.
func filterFn(filter string) dag.NotificationFilter {
	return func(e dag.Event) bool {
		switch filter {
		case "payload:did":
			return e.Type == dag.PayloadEventType && e.Transaction.PayloadType() == typeDID
		case "payload:vc":
			return e.Type == dag.PayloadEventType && e.Transaction.PayloadType() == typeVC
		case "payload:*":
			return e.Type == dag.PayloadEventType
		case "tx:pal":
			return e.Type == dag.TransactionEventType && e.Transaction.PAL() != nil
		case "tx:*":
			return e.Type == dag.TransactionEventType
		}
		return true
	}
}

// nz keeps a ledger field non-empty (fields are separated by blanks).
func nz(s string) string {
	if strings.TrimSpace(s) == "" {
		return "-"
	}
	return strings.ReplaceAll(s, " ", "_")
}

func ledgerPath(dir string, phase int) string {
	return filepath.Join(dir, "ledger."+strconv.Itoa(phase))
}

// openStore opens the bbolt store of a case like dagx.OpenStore, with a lock acquisition timeout far beyond the watchdog: on a loaded machine the
// default (3 s) can expire while other goroutines of the worker commit with sync writes, the notifier then gives up its retry loop for a reason
// that is wall-clock, not part of the fault model (and go-stoabs can leave the store locked when that timeout races the acquisition).
func openStore(dir string, sync bool) (stoabs.KVStore, error) {
	lg := logrus.New()
	lg.SetOutput(io.Discard)
	opts := []stoabs.Option{stoabs.WithLogger(lg), stoabs.WithLockAcquireTimeout(10 * time.Minute)}
	if !sync {
		opts = append(opts, stoabs.WithNoSync())
	}
	return bbolt.CreateBBoltStore(filepath.Join(dir, "dag.db"), opts...)
}

// ---- ledger reading ---------------------------------------------------------------------------------------------
//
// A worker appends one line per write call and is SIGKILLed at arbitrary moments, also while another of its goroutines is inside such a
// call: a line that straddles a page boundary of the file is copied in two steps and can be cut short. What was not written completely
// counts as not written (the line is written BEFORE the action it announces): a tail without line end is dropped, and so is every line
// that does not have the shape of its kind (number of fields, numeric fields). Nothing after this point indexes a line beyond that shape.

type lineShape struct {
	n    int   // minimal number of fields, the tag included
	ints []int // fields that must be integers
}

var lineShapes = map[string]lineShape{
	"kill": {n: 2}, "committed": {n: 3}, "wp-committed": {n: 2}, "ret": {n: 6}, "recorded": {n: 5, ints: []int{4}},
	"finish-failed": {n: 3}, "finished": {n: 3}, "finished-observed": {n: 3}, "fin-ext": {n: 5}, "fin-err": {n: 2},
	"start-dag": {n: 3}, "start-shelf": {n: 5, ints: []int{4}}, "end-shelf": {n: 5, ints: []int{4}},
	"run-begin": {n: 2}, "run-err": {n: 2}, "run-done": {n: 2},
	"add-begin": {n: 4, ints: []int{2}}, "add-err": {n: 2}, "add-ok": {n: 2},
	"wp-skip": {n: 2}, "wp-begin": {n: 2}, "wp-err": {n: 2}, "wp-ok": {n: 2}, "step-ok": {n: 2, ints: []int{1}},
	"recv":      {n: 7, ints: []int{4, 6}},
	"rej-begin": {n: 6, ints: []int{2, 5}}, "rej-end": {n: 4}, "dup-begin": {n: 6, ints: []int{2, 5}}, "dup-end": {n: 4}, "rej-skip": {n: 2},
}

// readLedgerLines returns the fields of the completely written, well-shaped lines of a ledger and the number of lines it dropped.
func readLedgerLines(path string) (lines [][]string, dropped int) {
	raw, err := os.ReadFile(path)
	if err != nil {
		return nil, 0
	}
	text := string(raw)
	if i := strings.LastIndexByte(text, '\n'); i < len(text)-1 {
		if strings.TrimSpace(text[i+1:]) != "" {
			dropped++ // torn tail
		}
		text = text[:i+1]
	}
next:
	for _, ln := range strings.Split(text, "\n") {
		f := strings.Fields(ln)
		if len(f) == 0 {
			continue
		}
		if shape, ok := lineShapes[f[0]]; ok {
			if len(f) < shape.n {
				dropped++
				continue
			}
			for _, i := range shape.ints {
				if _, err := strconv.Atoi(f[i]); err != nil {
					dropped++
					continue next
				}
			}
		}
		lines = append(lines, f)
	}
	return lines, dropped
}

// ---- worker ---------------------------------------------------------------------------------------------------

type shelfEntry struct {
	Type    string
	Retries int
	Error   string
}

func readShelf(db stoabs.KVStore, sub string) (map[string]shelfEntry, error) {
	out := map[string]shelfEntry{}
	err := db.ReadShelf(context.Background(), "_"+sub+"_jobs", func(rd stoabs.Reader) error {
		return rd.Iterate(func(k stoabs.Key, v []byte) error {
			var e dag.Event
			if err := json.Unmarshal(v, &e); err != nil {
				out[fmt.Sprintf("%x", k.Bytes())] = shelfEntry{Type: "unparsable", Error: err.Error()}
				return nil
			}
			out[fmt.Sprintf("%x", k.Bytes())] = shelfEntry{Type: e.Type, Retries: e.Retries, Error: e.Error}
			return nil
		}, stoabs.BytesKey{})
	})
	return out, err
}

// notifierGoroutines tells whether any goroutine is currently executing inside (or sleeping below) a dag.(*notifier) method.
func notifierGoroutines() bool {
	buf := make([]byte, 1<<20)
	for {
		n := runtime.Stack(buf, true)
		if n < len(buf) {
			buf = buf[:n]
			break
		}
		buf = make([]byte, 2*len(buf))
	}
	return strings.Contains(string(buf), "network/dag.(*notifier)")
}

// phaseWorker args: dir, phase index.
func phaseWorker(args []string) int {
	dir := args[0]
	phase, _ := strconv.Atoi(args[1])
	raw, err := os.ReadFile(filepath.Join(dir, "scenario.json"))
	if err != nil {
		fmt.Println("scenario:", err)
		return 3
	}
	var sc scenario
	if err := json.Unmarshal(raw, &sc); err != nil {
		fmt.Println("scenario:", err)
		return 3
	}
	plan := sc.Phases[phase]
	txs := make([]dag.Transaction, len(sc.Txs))
	idxOf := map[string]int{}
	for i, t := range sc.Txs {
		tx, err := dag.ParseTransaction([]byte(t.Data))
		if err != nil {
			fmt.Println("tx:", err)
			return 3
		}
		txs[i] = tx
		idxOf[tx.Ref().String()] = i
	}
	rejTxs := make([]dag.Transaction, len(sc.Rej))
	for i, t := range sc.Rej {
		tx, err := dag.ParseTransaction([]byte(t.Data))
		if err != nil {
			fmt.Println("rej tx:", err)
			return 3
		}
		rejTxs[i] = tx
	}
	// what earlier phases did: attempts per (sub, ref, type) continue the receiver scripts; completed steps are not repeated
	var mu sync.Mutex
	attempts := map[string]int{}
	delivered := map[string]bool{} // sub|ref of persistent subscribers with >=1 recv (any phase)
	stepDone := map[int]bool{}
	// the payload store is keyed by the payload hash, which transactions with identical payload bytes share: whether the payload of a
	// transaction was written (and its event created) is taken from the ledgers; the store is only asked when the bytes are unique
	wpDone := map[string]bool{}
	payloadCount := map[string]int{}
	for _, t := range sc.Txs {
		payloadCount[string(t.Payload)]++
	}
	for p := 0; p < phase; p++ {
		prev, _ := readLedgerLines(ledgerPath(dir, p))
		for _, f := range prev {
			switch f[0] {
			case "recv":
				if len(f) >= 4 {
					attempts[f[1]+"|"+f[2]+"|"+f[3]]++
					delivered[f[1]+"|"+f[2]] = true
				}
			case "step-ok":
				if len(f) >= 2 {
					k, _ := strconv.Atoi(f[1])
					stepDone[k] = true
				}
			case "wp-ok", "wp-committed":
				if len(f) >= 2 {
					wpDone[f[1]] = true
				}
			}
		}
	}
	led := worker.OpenLedger(ledgerPath(dir, phase))
	led.Log("phase %d start plan=%s", phase, plan.Point)

	db, err := openStore(dir, true)
	if err != nil {
		led.Log("harness-error open %v", err)
		return 3
	}
	fs := faultstore.New(db)
	st, err := dag.NewState(fs, dag.NewPrevTransactionsVerifier(), dag.NewTransactionSignatureVerifier(nil))
	if err != nil {
		led.Log("harness-error state %v", err)
		return 3
	}
	dag.VerifLoadState(st)
	ctx := context.Background()

	kill := func(what string) {
		led.Log("kill %s", what)
		worker.KillSelf()
	}
	var targetRef string
	if plan.Tx >= 0 && plan.Tx < len(txs) {
		targetRef = txs[plan.Tx].Ref().String()
	}
	persistent := map[string]bool{}
	delayOf := map[string]time.Duration{}
	for _, s := range sc.Subs {
		persistent[s.Name] = s.Persistent
		delayOf[s.Name] = time.Duration(s.DelayNs)
	}
	matchSub := func(sub string) bool {
		if plan.Sub == "*" {
			return persistent[sub]
		}
		return plan.Sub == sub
	}
	matchRef := func(ref string) bool { return plan.Tx < 0 || ref == targetRef }

	payloadWritten := func(i int) bool {
		mu.Lock()
		done := wpDone[sc.Txs[i].Ref]
		mu.Unlock()
		if done || payloadCount[string(sc.Txs[i].Payload)] > 1 {
			return done
		}
		pp, _ := st.IsPayloadPresent(ctx, txs[i].PayloadHash())
		return pp
	}

	// receivers
	notifiers := map[string]dag.Notifier{}
	pendingFin := map[string]string{} // sub|ref|type -> "ret" | "rec": record the completion externally at that hook of the running attempt
	finishExternally := func(sub string, h hash.SHA256Hash, typ, where string) {
		led.Log("fin-ext %s %s %s %s", sub, h, nz(typ), where)
		mu.Lock()
		n := notifiers[sub]
		mu.Unlock()
		if err := n.Finished(h); err != nil {
			led.Log("fin-err %s %s", h, strings.ReplaceAll(err.Error(), " ", "_"))
		}
	}
	takePendingFin := func(sub, ref, typ, at string) bool {
		mu.Lock()
		defer mu.Unlock()
		if pendingFin[sub+"|"+ref+"|"+typ] == at {
			delete(pendingFin, sub+"|"+ref+"|"+typ)
			return true
		}
		return false
	}
	mkReceiver := func(s subSpec) dag.ReceiverFn {
		return func(e dag.Event) (bool, error) {
			ref := e.Hash.String()
			key := s.Name + "|" + ref + "|" + e.Type
			mu.Lock()
			a := attempts[key]
			attempts[key] = a + 1
			delivered[s.Name+"|"+ref] = true
			mu.Unlock()
			res := "ok"
			if i, ok := idxOf[ref]; ok {
				res = sc.Scripts[s.Name+"|"+strconv.Itoa(i)+"|"+e.Type].at(a)
			} else {
				res = "unknown-ref"
			}
			led.Log("recv %s %s %s %d %s %d", s.Name, ref, nz(e.Type), a+1, nz(res), e.Retries)
			wp, fin, base := decodeResult(res)
			if wp {
				// the private-transaction receiver obtained the payload and writes it (as v2 handleTransactionPayload does), unless it is there already
				i := idxOf[ref]
				if payloadWritten(i) {
					return true, nil
				}
				led.Log("wp-begin %s nested", ref)
				if err := st.WritePayload(ctx, e.Transaction, e.Transaction.PayloadHash(), sc.Txs[i].Payload); err != nil {
					led.Log("wp-err %s %s", ref, strings.ReplaceAll(err.Error(), " ", "_"))
					return false, err
				}
				led.Log("wp-ok %s nested", ref)
			}
			switch fin {
			case "in":
				// the completion of this event is recorded by another party while the receiver is busy (v2 handleTransactionPayload marks the
				// private-transaction job finished when the answer to the query arrives; Network.CleanupSubscriberEvents): whatever the receiver
				// returns afterwards, the event is completed
				finishExternally(s.Name, e.Hash, e.Type, "during-receiver")
			case "ret", "rec":
				mu.Lock()
				pendingFin[key] = fin
				mu.Unlock()
			}
			switch base {
			case "ok":
				return true, nil
			case "fail":
				return false, errors.New("scripted failure")
			case "incomplete":
				return false, nil
			case "fatal":
				return false, dag.EventFatal{Err: errors.New("scripted fatal")}
			case "fatalw":
				return false, fmt.Errorf("scripted (tx=%s): %w", ref, dag.EventFatal{Err: errors.New("wrapped fatal")})
			case "slow-ok":
				time.Sleep(25 * time.Millisecond)
				return true, nil
			case "slow-fail":
				time.Sleep(25 * time.Millisecond)
				return false, errors.New("scripted slow failure")
			}
			return true, nil
		}
	}
	for _, s := range sc.Subs {
		opts := []dag.NotifierOption{dag.WithSelectionFilter(filterFn(s.Filter)), dag.WithRetryDelay(time.Duration(s.DelayNs))}
		if s.Filter == "any" {
			opts = opts[1:]
		}
		if s.Persistent {
			opts = append([]dag.NotifierOption{dag.WithPersistency(fs)}, opts...)
		}
		n, err := st.Notifier(s.Name, mkReceiver(s), opts...)
		if err != nil {
			led.Log("harness-error notifier %v", err)
			return 3
		}
		mu.Lock()
		notifiers[s.Name] = n
		mu.Unlock()
	}

	// hooks: ledger lines for what the notifier does + the crash plan
	var inTarget, stopping atomic.Bool
	var occ atomic.Int32
	// an offer that must be refused / a repeated offer is under way: the crash plan does not aim at its hook points, the fault of the step does
	var inRej, rejFired atomic.Bool
	var rejRef, rejKind atomic.Value // string
	var rejN atomic.Int32
	var rejCancel atomic.Value // context.CancelFunc
	rejRef.Store("")
	rejKind.Store("")
	rejFault := func(ref string, kinds ...string) {
		if rejRef.Load().(string) != ref {
			return
		}
		for _, k := range kinds {
			if rejKind.Load().(string) != k {
				continue
			}
			switch k {
			case "ctx-cancel":
				rejCancel.Load().(context.CancelFunc)()
				rejFired.Store(true)
			case "store-fault", "wp-store-fault":
				n := int(rejN.Load())
				fs.ArmActive(&faultstore.Plan{FailOp: n, FailAtEnd: n == 0})
			}
		}
	}
	hit := func() bool { return int(occ.Add(1)) == max(plan.Occ, 1) }
	rec := &sched.Recorder{OnHook: func(name string, a []any) error {
		switch name {
		case "dag.add.inwrite":
			ref := a[0].(hash.SHA256Hash).String()
			if inRej.Load() {
				rejFault(ref, "ctx-cancel", "store-fault")
				break
			}
			if plan.Point == "inwrite" && matchRef(ref) {
				if plan.Op == 0 {
					kill("inwrite " + ref + " at-hook")
				}
				inTarget.Store(true)
			}
		case "dag.add.committed":
			ref := a[0].(hash.SHA256Hash).String()
			led.Log("committed %s %v", ref, a[1])
			if plan.Point == "committed" && matchRef(ref) && a[1].(bool) && !inRej.Load() {
				kill("committed " + ref)
			}
		case "dag.payload.inwrite":
			ref := a[0].(hash.SHA256Hash).String()
			if inRej.Load() && rejRef.Load().(string) == ref {
				rejFault(ref, "wp-store-fault")
				break
			}
			if plan.Point == "wp-inwrite" && matchRef(ref) {
				kill("wp-inwrite " + ref)
			}
		case "dag.payload.committed":
			ref := a[0].(hash.SHA256Hash).String()
			led.Log("wp-committed %s", ref)
			mu.Lock()
			wpDone[ref] = true
			mu.Unlock()
			if plan.Point == "wp-committed" && matchRef(ref) {
				kill("wp-committed " + ref)
			}
		case "dag.notify.receiver":
			sub, h, typ := a[0].(string), a[1].(hash.SHA256Hash), a[2].(string)
			if i, ok := idxOf[h.String()]; ok {
				mu.Lock()
				n := attempts[sub+"|"+h.String()+"|"+typ]
				mu.Unlock()
				if _, ext, _ := decodeResult(sc.Scripts[sub+"|"+strconv.Itoa(i)+"|"+typ].at(n)); ext == "pre" {
					finishExternally(sub, h, typ, "before-receiver-call")
				}
			}
		case "dag.notify.returned":
			sub, ref, typ := a[0].(string), a[1].(hash.SHA256Hash).String(), a[2].(string)
			e := "nil"
			if a[4] != nil {
				e = "err"
				if errors.As(a[4].(error), new(dag.EventFatal)) {
					e = "fatal"
				}
			}
			led.Log("ret %s %s %s %v %s", sub, ref, nz(typ), a[3], e)
			if takePendingFin(sub, ref, typ, "ret") {
				// the completion is recorded by another party after the receiver returned, before the notifier has recorded the outcome
				finishExternally(sub, a[1].(hash.SHA256Hash), typ, "after-return")
			}
			if plan.Point == "returned" && matchSub(sub) && matchRef(ref) && hit() {
				kill("returned " + sub + " " + ref)
			}
		case "dag.notify.recorded":
			sub, ref, typ := a[0].(string), a[1].(hash.SHA256Hash).String(), a[2].(string)
			led.Log("recorded %s %s %s %d", sub, ref, nz(typ), a[3].(int))
			if takePendingFin(sub, ref, typ, "rec") {
				// ... after the failed attempt was recorded, before the next one (start of the back-off; clean-up of a failed event)
				finishExternally(sub, a[1].(hash.SHA256Hash), typ, "after-record")
			}
			if plan.Point == "recorded" && matchSub(sub) && matchRef(ref) && hit() {
				kill("recorded " + sub + " " + ref)
			}
			if plan.Point == "backoff" && matchSub(sub) && matchRef(ref) && hit() {
				// the retry loop is about to sleep (2 x base delay << n): die in the middle of that sleep
				led.Log("crash-armed backoff %s %s", sub, ref)
				time.AfterFunc(delayOf[sub], func() { kill("backoff " + sub + " " + ref) })
			}
			if plan.Point == "shutdown" && matchSub(sub) && matchRef(ref) && hit() {
				// graceful stop instead of a crash: the notifiers are closed (as Network.Shutdown does) when the retry loop is about to sleep
				led.Log("shutdown %s %s", sub, ref)
				for _, n := range st.Notifiers() {
					_ = n.Close()
				}
				stopping.Store(true)
			}
		case "dag.notify.finished":
			sub, ref := a[0].(string), a[1].(hash.SHA256Hash).String()
			if persistent[sub] {
				// the hook does not see the result of the delete (it fails when the notifier was closed meanwhile): look at the shelf
				if sh, err := readShelf(db, sub); err != nil {
					break
				} else if _, on := sh[ref]; on {
					led.Log("finish-failed %s %s", sub, ref)
					break
				}
			}
			led.Log("finished %s %s", sub, ref)
			if plan.Point == "finished" && matchSub(sub) && matchRef(ref) && hit() {
				kill("finished " + sub + " " + ref)
			}
		}
		return nil
	}}
	rec.Install()
	if plan.Point == "inwrite" {
		fs.Arm(&faultstore.Plan{
			AtOp: func(n int, shelf, kind string) {
				if inTarget.Load() && n+1 >= plan.Op {
					kill(fmt.Sprintf("inwrite %s before-op-%d %s_%s", targetRef, n+1, kind, shelf))
				}
			},
			AtEnd: func() {
				if inTarget.Load() {
					kill("inwrite " + targetRef + " before-commit")
				}
			},
		})
	}

	// state at start
	all, _ := st.FindBetweenLC(ctx, 0, dag.MaxLamportClock)
	for _, tx := range all {
		pp, _ := st.IsPayloadPresent(ctx, tx.PayloadHash())
		led.Log("start-dag %s %v", tx.Ref(), pp)
	}
	logShelves := func(tag string) {
		for _, s := range sc.Subs {
			if !s.Persistent {
				continue
			}
			sh, err := readShelf(db, s.Name)
			if err != nil {
				led.Log("harness-error shelf %s %v", s.Name, err)
				continue
			}
			keys := make([]string, 0, len(sh))
			for k := range sh {
				keys = append(keys, k)
			}
			sort.Strings(keys)
			for _, k := range keys {
				led.Log("%s %s %s %s %d", tag, s.Name, k, nz(sh[k].Type), sh[k].Retries)
			}
		}
	}
	logShelves("start-shelf")

	// restart: resume all notifiers, as Network.Start does
	if phase > 0 {
		for _, n := range st.Notifiers() {
			led.Log("run-begin %s", n.Name())
			if err := n.Run(); err != nil {
				led.Log("run-err %s %s", n.Name(), strings.ReplaceAll(err.Error(), " ", "_"))
			}
			led.Log("run-done %s", n.Name())
		}
	}

	// operations
	if phase == 0 || sc.Continue {
		for i, s := range sc.Steps {
			if stepDone[i] {
				continue
			}
			if stopping.Load() {
				break
			}
			if s.Op == "rej" || s.Op == "dup" {
				// an offer that must not lead to admission (reference decision: by construction of the input / by the injected fault, see step.Kind),
				// or a repeated offer of an admitted transaction. Whatever the call returns, the run carries on; the oracle looks at the deliveries.
				var tx dag.Transaction
				var payload []byte
				switch s.Kind {
				case "second-root", "unknown-prev", "bad-signature", "wrong-lc":
					tx, payload = rejTxs[s.Tx], sc.Rej[s.Tx].Payload
				default:
					tx = txs[s.Tx]
					if sc.Txs[s.Tx].Mode == "with" || s.Op == "dup" && !sc.Txs[s.Tx].Private {
						payload = sc.Txs[s.Tx].Payload
					}
					if s.Kind == "payload-mismatch" {
						payload = append(append([]byte{}, sc.Txs[s.Tx].Payload...), 'x')
					}
				}
				ref := tx.Ref().String()
				if s.Kind == "wp-store-fault" {
					if present, _ := st.IsPresent(ctx, tx.Ref()); !present || payloadWritten(s.Tx) {
						led.Log("rej-skip %s %d %s", ref, i, s.Kind)
						led.Log("step-ok %d", i)
						continue
					}
				}
				kind := s.Kind
				if s.Op == "dup" {
					kind = "dup"
				}
				faults := fs.Faults
				cctx, cancel := context.WithCancel(ctx)
				rejFired.Store(false)
				rejRef.Store(ref)
				rejKind.Store(s.Kind)
				rejN.Store(int32(s.N))
				rejCancel.Store(cancel)
				led.Log("%s-begin %s %d %s %v %d", s.Op, ref, i, kind, payload != nil, s.N)
				inRej.Store(true)
				var err error
				if s.Kind == "wp-store-fault" {
					err = st.WritePayload(cctx, tx, tx.PayloadHash(), sc.Txs[s.Tx].Payload)
				} else {
					err = st.Add(cctx, tx, payload)
				}
				inRej.Store(false)
				rejRef.Store("")
				cancel()
				e := "nil"
				if err != nil {
					e = strings.ReplaceAll(err.Error(), " ", "_")
				}
				led.Log("%s-end %s %s %v", s.Op, ref, e, rejFired.Load() || fs.Faults > faults)
				led.Log("step-ok %d", i)
				continue
			}
			tx := txs[s.Tx]
			spec := sc.Txs[s.Tx]
			switch s.Op {
			case "add":
				var payload []byte
				if spec.Mode == "with" {
					payload = spec.Payload
				}
				led.Log("add-begin %s %d %v", tx.Ref(), i, payload != nil)
				if err := st.Add(ctx, tx, payload); err != nil {
					led.Log("add-err %s %s", tx.Ref(), strings.ReplaceAll(err.Error(), " ", "_"))
					if stopping.Load() {
						break
					}
					return 3
				}
				led.Log("add-ok %s", tx.Ref())
			case "wp", "rewp":
				present, _ := st.IsPresent(ctx, tx.Ref())
				pp := payloadWritten(s.Tx)
				if !present || (s.Op == "wp" && pp) {
					led.Log("wp-skip %s %d tx=%v payload=%v", tx.Ref(), i, present, pp)
					break
				}
				led.Log("wp-begin %s %s %d", tx.Ref(), s.Op, i)
				if err := st.WritePayload(ctx, tx, tx.PayloadHash(), spec.Payload); err != nil {
					led.Log("wp-err %s %s", tx.Ref(), strings.ReplaceAll(err.Error(), " ", "_"))
					if stopping.Load() {
						break
					}
					return 3
				}
				led.Log("wp-ok %s %s", tx.Ref(), s.Op)
			}
			led.Log("step-ok %d", i)
		}
	}
	led.Log("steps-done")

	// run until the notifier machinery is quiescent: no goroutine left inside dag.(*notifier) (retry loops end on
	// completion, fatal error or spent budget). The watchdog only bounds the wait.
	observed := map[string]bool{}
	observe := func() {
		for _, s := range sc.Subs {
			if !s.Persistent {
				continue
			}
			// candidates first, shelf afterwards: an entry that is absent now although its event was delivered before is gone for good
			mu.Lock()
			var cands []string
			for k := range delivered {
				if strings.HasPrefix(k, s.Name+"|") && !observed[k] {
					cands = append(cands, k)
				}
			}
			mu.Unlock()
			sh, err := readShelf(db, s.Name)
			if err != nil {
				continue
			}
			sort.Strings(cands)
			for _, k := range cands {
				if _, on := sh[k[len(s.Name)+1:]]; !on {
					observed[k] = true
					led.Log("finished-observed %s %s", s.Name, k[len(s.Name)+1:])
				}
			}
		}
	}
	deadline := time.Now().Add(time.Duration(watchdogSeconds()) * time.Second)
	code := 0
	for {
		quiet := !notifierGoroutines()
		observe()
		if quiet && stopping.Load() {
			led.Log("stopped") // closed notifiers: what is pending stays pending until the next start
			break
		}
		if quiet {
			led.Log("quiescent")
			break
		}
		if time.Now().After(deadline) {
			led.Log("drain-timeout")
			buf := make([]byte, 1<<20)
			buf = buf[:runtime.Stack(buf, true)]
			for _, g := range strings.Split(string(buf), "\n\n") {
				if strings.Contains(g, "network/dag.(*notifier)") {
					fmt.Println(g)
				}
			}
			code = 4
			break
		}
		time.Sleep(2 * time.Millisecond)
	}
	logShelves("end-shelf")
	if plan.Point != "" && !stopping.Load() {
		led.Log("crash-not-reached %s", plan.Point)
	}
	for _, n := range st.Notifiers() {
		_ = n.Close()
	}
	_ = st.Shutdown()
	_ = db.Close(ctx)
	led.Log("exit-clean")
	return code
}

// ---- scenario generator ---------------------------------------------------------------------------------------

var crashPoints = []string{"none", "inwrite", "committed", "wp-inwrite", "wp-committed", "returned-ok", "returned-fail", "recorded", "backoff", "finished"}

// "shutdown" (graceful Notifier.Close at the start of a back-off instead of SIGKILL) is implemented but not enumerated: cancelling the
// notifier's context while one of its goroutines acquires the store lock runs into go-stoabs util.lockWithCancel, which can leave the
// bbolt store locked for ever (third-party module; every later DB access of the worker hangs -> watchdog). C14_SHUTDOWN=1 adds it.
func init() {
	if os.Getenv("C14_SHUTDOWN") == "1" {
		crashPoints = append(crashPoints, "shutdown")
	}
}

// genScenario: rnd draws the history, subscribers and receiver scripts; rnd2 (a separate stream) draws the offers that must be refused, the
// repeated offers and the completions recorded by another party that are woven into it.
func genScenario(rnd, rnd2 *rand.Rand, seed int64, idx int, maxTx int) *scenario {
	sc := &scenario{Index: idx, Scripts: map[string]script{}, Continue: rnd.Intn(2) == 0}
	n := 5 + rnd.Intn(maxTx-4)
	key := dagx.NewKey("")
	now := time.Unix(1700000000, 0)
	var built []dag.Transaction
	for i := 0; i < n; i++ {
		var prevs []dag.Transaction
		if i > 0 {
			prevs = []dag.Transaction{built[i-1-rnd.Intn(min(i, 3))]}
			if i > 2 && rnd.Intn(3) == 0 {
				p2 := built[i-1-rnd.Intn(min(i, 4))]
				if !p2.Ref().Equals(prevs[0].Ref()) {
					prevs = append(prevs, p2)
				}
			}
		}
		t := txSpec{PType: []string{typeDID, typeDID, typeVC, typeVC, typeOther}[rnd.Intn(5)], Mode: "with"}
		if i > 0 && rnd.Intn(100) < 25 {
			t.Private = true
			t.Mode = []string{"late", "late", "recv", "recv", "never"}[rnd.Intn(5)]
		} else if rnd.Intn(100) < 15 {
			t.Mode = "late"
		}
		// two fixed features so that every crash point has a target in every scenario
		if i == 1 {
			t = txSpec{PType: typeDID, Mode: "with"}
		}
		if i == 2 {
			t = txSpec{PType: []string{typeDID, typeVC}[rnd.Intn(2)], Private: true, Mode: "late"}
		}
		t.Payload = dagx.Payload(seed*100000+int64(idx), i)
		// identical payload bytes under different transactions (one payload-store entry, two payload events): tx 3 always arrives
		// without payload and repeats the bytes of tx 1 (stored with its Add) or of tx 2 (stored by a WritePayload, before or after);
		// other transactions whose payload comes later do so now and then
		if i == 3 {
			src := 1 + idx%2
			t = txSpec{PType: sc.Txs[src].PType, Private: rnd.Intn(2) == 0, Mode: []string{"late", "late", "recv"}[rnd.Intn(3)], Payload: sc.Txs[src].Payload}
			if t.Mode == "recv" {
				t.Private = true
			}
		} else if i > 3 && (t.Mode == "late" || t.Mode == "recv") && rnd.Intn(5) == 0 {
			src := rnd.Intn(i)
			t.Payload = sc.Txs[src].Payload
			t.PType = sc.Txs[src].PType
		}
		var pal [][]byte
		if t.Private {
			pal = [][]byte{{byte(i), 1, 2, 3}, {byte(idx), 9}}
		}
		tx := dagx.NewTx(key, true, t.Payload, t.PType, now.Add(time.Duration(i)*time.Second), pal, prevs...)
		built = append(built, tx)
		t.Data = string(tx.Data())
		t.Ref = tx.Ref().String()
		sc.Txs = append(sc.Txs, t)
	}
	// steps: adds in order, a WritePayload for every late payload at a later position, sometimes a second WritePayload
	for i := range sc.Txs {
		sc.Steps = append(sc.Steps, step{Op: "add", Tx: i})
	}
	insertAfterAdd := func(s step) {
		pos := 0
		for i, st := range sc.Steps {
			if st.Op == "add" && st.Tx == s.Tx {
				pos = i + 1
			}
		}
		pos += rnd.Intn(len(sc.Steps) - pos + 1)
		sc.Steps = append(sc.Steps[:pos], append([]step{s}, sc.Steps[pos:]...)...)
	}
	for i, t := range sc.Txs {
		if t.Mode == "late" {
			insertAfterAdd(step{Op: "wp", Tx: i})
		}
	}
	if rnd.Intn(3) == 0 {
		var cands []int
		for i, t := range sc.Txs {
			if t.Mode == "with" && i != 1 {
				cands = append(cands, i)
			}
		}
		if len(cands) > 0 {
			insertAfterAdd(step{Op: "rewp", Tx: cands[rnd.Intn(len(cands))]})
		}
	}
	// subscribers as production registers them (+ a persistent transaction-event log, a non-persistent one and, in a quarter
	// of the scenarios, one without type filter)
	fast := []string{"nats", "txlog"}[rnd.Intn(2)]
	sc.Subs = []subSpec{
		{"vdr", true, "payload:did", int64(2 * time.Millisecond)},
		{"vcr_vcs", true, "payload:vc", int64(2 * time.Millisecond)},
		{"nats", true, "payload:*", int64(2 * time.Millisecond)},
		{"private", true, "tx:pal", int64(3 * time.Millisecond)},
		{"txlog", true, "tx:*", int64(2 * time.Millisecond)},
		{"gossip", false, "tx:*", int64(2 * time.Millisecond)},
	}
	if idx%4 == 3 {
		sc.Subs = append(sc.Subs, subSpec{"audit", true, "any", int64(2 * time.Millisecond)})
	}
	for i := range sc.Subs {
		if sc.Subs[i].Name == fast {
			sc.Subs[i].DelayNs = int64(time.Microsecond)
		}
	}
	forever := 0
	for _, s := range sc.Subs {
		for i := range sc.Txs {
			for _, typ := range []string{dag.TransactionEventType, dag.PayloadEventType} {
				if !selects(s.Filter, &sc.Txs[i], typ) {
					continue
				}
				k := s.Name + "|" + strconv.Itoa(i) + "|" + typ
				roll := rnd.Intn(100)
				var sp script
				switch {
				case roll < 48:
					continue // succeeds at once
				case roll < 62:
					sp.Seq = rep("fail", 1+rnd.Intn(4))
				case roll < 72:
					sp.Seq = rep("incomplete", 1+rnd.Intn(3))
				case roll < 78:
					sp.Seq = []string{"fail", "incomplete", "slow-fail"}[:2+rnd.Intn(2)]
				case roll < 82:
					sp.Seq = []string{[]string{"fatal", "fatalw"}[rnd.Intn(2)]}
				case roll < 85:
					sp.Seq, sp.Tail = []string{"fatal"}, "fatal"
				case roll < 88:
					sp.Seq = []string{"fail", "fatalw"}
				case roll < 94:
					sp.Seq = []string{"slow-ok"}
				default:
					if s.Name == fast && forever < 2 {
						forever++
						sp.Tail = "fail"
						if rnd.Intn(2) == 0 {
							sp.Tail = "incomplete"
						}
					} else {
						sp.Seq = rep("fail", 2)
					}
				}
				sc.Scripts[k] = sp
			}
		}
	}
	// the private-transaction receiver: incomplete until the payload is there / writes it itself
	for i, t := range sc.Txs {
		if !t.Private {
			continue
		}
		k := "private|" + strconv.Itoa(i) + "|" + dag.TransactionEventType
		switch t.Mode {
		case "recv":
			sc.Scripts[k] = script{Seq: append(rep("incomplete", rnd.Intn(3)), []string{"wp-ok", "wp-fin"}[rnd.Intn(2)])}
		case "late":
			sc.Scripts[k] = script{Seq: rep("incomplete", 1+rnd.Intn(3))}
		}
	}
	// fixed target: the DID document of tx 1 fails three times at the VDR subscriber before it is processed
	sc.Scripts["vdr|1|payload"] = script{Seq: [][]string{{"fail", "fail", "fail"}, {"incomplete", "fail", "incomplete"}, {"fail", "incomplete", "fail", "fail"}}[rnd.Intn(3)]}
	weave(sc, rnd2, key, built, now, seed, idx)
	return sc
}

// completions recorded by another party relative to a running delivery attempt x what the receiver returns for that attempt
var finKinds = []string{"fin-fail", "rfin-fatal", "bfin-incomplete", "fin-fatal", "rfin-fail", "bfin-fail", "fin-incomplete", "rfin-incomplete", "bfin-fatal", "fin-ok", "fin-fatalw", "rfin-ok"}

// offers of an admissible transaction that cannot succeed (it is admitted by its regular add step afterwards)
var rejLaterKinds = []string{"prev-later", "payload-mismatch", "ctx-cancel", "store-fault", "wp-store-fault"}

// weave adds to a generated history: transactions the DAG must refuse (second root, unknown prev, signature by another key, wrong lamport clock),
// offers of admissible transactions that cannot succeed (before a prev, with other payload bytes, with the caller's context ending or a store
// fault inside the admission write), repeated offers of admitted transactions, and completions recorded by another party during / right after /
// between delivery attempts.
func weave(sc *scenario, rnd *rand.Rand, key *dagx.Key, built []dag.Transaction, now time.Time, seed int64, idx int) {
	n := len(sc.Txs)
	pos := func(op string, tx int) int {
		for i, st := range sc.Steps {
			if st.Op == op && st.Tx == tx {
				return i
			}
		}
		return -1
	}
	// insert s at a random position in [lo, hi] (positions of the present step list; hi < 0: its end)
	insert := func(s step, lo, hi int) {
		if hi < 0 || hi > len(sc.Steps) {
			hi = len(sc.Steps)
		}
		if lo > hi {
			lo = hi
		}
		p := lo + rnd.Intn(hi-lo+1)
		sc.Steps = append(sc.Steps[:p], append([]step{s}, sc.Steps[p:]...)...)
	}
	refIdx := map[string]int{}
	for i, t := range built {
		refIdx[t.Ref().String()] = i
	}
	maxPrev := func(i int) int {
		m := -1
		for _, p := range built[i].Previous() {
			if j, ok := refIdx[p.String()]; ok && j > m {
				m = j
			}
		}
		return m
	}
	payload := func(k int) []byte { return dagx.Payload(seed*100000+int64(idx), 1000+k) }
	ptype := func() string { return []string{typeDID, typeVC}[rnd.Intn(2)] }
	addRej := func(kind string, tx dag.Transaction, pl []byte, pt string, lo int) {
		sc.Rej = append(sc.Rej, rejSpec{Kind: kind, Data: string(tx.Data()), Ref: tx.Ref().String(), PType: pt, Payload: pl})
		insert(step{Op: "rej", Tx: len(sc.Rej) - 1, Kind: kind}, lo, -1)
	}

	// (1) a second root transaction, from this node's key or from a stranger (a peer that was bootstrapped on another network), mostly with its payload
	{
		k, pt, pl := key, ptype(), payload(0)
		if rnd.Intn(2) == 0 {
			k = dagx.NewKey("")
		}
		tx := dagx.NewTx(k, true, pl, pt, now.Add(1000*time.Second), nil)
		if rnd.Intn(4) == 0 {
			pl = nil
		}
		addRej("second-root", tx, pl, pt, pos("add", 0)+1)
	}
	// (2) one or two other inadmissible transactions, offered with their payload
	kinds := []string{"unknown-prev", "bad-signature", "wrong-lc"}
	first := (idx + rnd.Intn(2)) % 3
	for c := 0; c < 1+rnd.Intn(2); c++ {
		kind := kinds[(first+c)%3]
		j := rnd.Intn(n)
		pt, pl := ptype(), payload(1+c)
		var tx dag.Transaction
		switch kind {
		case "unknown-prev":
			// refers to a transaction that is never offered, alone or next to a known one
			ghost := dagx.NewTx(key, true, payload(10+c), typeOther, now.Add(1100*time.Second), nil, built[j])
			prevs := []dag.Transaction{ghost}
			if rnd.Intn(2) == 0 {
				prevs = []dag.Transaction{built[j], ghost}
			}
			tx = dagx.NewTx(key, true, pl, pt, now.Add(1101*time.Second), nil, prevs...)
		case "bad-signature":
			// announces the key of this node, is signed by another one
			forged := &dagx.Key{Priv: dagx.NewKey("").Priv, Pub: key.Pub}
			tx = dagx.NewTx(forged, true, pl, pt, now.Add(1102*time.Second), nil, built[j])
		case "wrong-lc":
			h := dagx.Headers(pt, []hash.SHA256Hash{built[j].Ref()}, built[j].Clock()+2+uint32(rnd.Intn(3)), now.Add(1103*time.Second), nil)
			h["jwk"] = key.Pub
			data, err := dagx.SignRaw(h, []byte(hash.SHA256Sum(pl).String()), jwa.ES256, key.Priv)
			if err != nil {
				panic(err)
			}
			if tx, err = dag.ParseTransaction(data); err != nil {
				panic(fmt.Sprintf("generated transaction does not parse: %v", err))
			}
		}
		// after its known prev was admitted, so that the refusal is about what the kind says
		addRej(kind, tx, pl, pt, pos("add", j)+1)
	}
	// (3) two offers of admissible transactions that cannot succeed, before their regular add step (transaction 1 stays the undisturbed crash target)
	firstLater := (idx + rnd.Intn(2)) % len(rejLaterKinds)
	for c := 0; c < 2; c++ {
		kind := rejLaterKinds[(firstLater+c*(1+rnd.Intn(len(rejLaterKinds)-1)))%len(rejLaterKinds)]
		var cands []int
		for i := 2; i < n; i++ {
			t := sc.Txs[i]
			switch kind {
			case "prev-later":
				if maxPrev(i) >= 1 {
					cands = append(cands, i)
				}
			case "payload-mismatch":
				if t.Mode == "with" {
					cands = append(cands, i)
				}
			case "wp-store-fault":
				if t.Mode == "late" && pos("wp", i) >= 0 {
					cands = append(cands, i)
				}
			default:
				cands = append(cands, i)
			}
		}
		if len(cands) == 0 {
			continue
		}
		i := cands[rnd.Intn(len(cands))]
		switch kind {
		case "prev-later":
			insert(step{Op: "rej", Tx: i, Kind: kind}, pos("add", 0)+1, pos("add", maxPrev(i)))
		case "wp-store-fault":
			insert(step{Op: "rej", Tx: i, Kind: kind, N: rnd.Intn(3)}, pos("add", i)+1, pos("wp", i))
		case "store-fault":
			insert(step{Op: "rej", Tx: i, Kind: kind, N: rnd.Intn(4)}, pos("add", maxPrev(i))+1, pos("add", i))
		default:
			insert(step{Op: "rej", Tx: i, Kind: kind}, pos("add", maxPrev(i))+1, pos("add", i))
		}
	}
	// (4) admitted transactions are offered again (they arrive from more than one peer)
	for c := 0; c < 1+rnd.Intn(2); c++ {
		i := rnd.Intn(n)
		insert(step{Op: "dup", Tx: i}, pos("add", i)+1, -1)
	}
	// (5) completions recorded by another party (v2 handleTransactionPayload finishing the private-transaction job, CleanupSubscriberEvents):
	// the private receiver that writes the payload itself ...
	for i, t := range sc.Txs {
		k := "private|" + strconv.Itoa(i) + "|" + dag.TransactionEventType
		if sp, ok := sc.Scripts[k]; ok && t.Private && t.Mode == "recv" && len(sp.Seq) > 0 && sp.Seq[len(sp.Seq)-1] == "wp-fin" {
			sp.Seq = append([]string{}, sp.Seq...)
			sp.Seq[len(sp.Seq)-1] = []string{"wp-fin", "wp-fin-fail", "wp-fin-fatal"}[rnd.Intn(3)]
			sc.Scripts[k] = sp
		}
	}
	// ... and two or three events of other subscribers (not those of transaction 1, not the scripted private receivers, not the subscriber without type filter)
	type pair struct {
		key string
	}
	var cands []pair
	for _, s := range sc.Subs {
		if !s.Persistent || s.Filter == "any" {
			continue
		}
		for i := 2; i < n; i++ {
			t := &sc.Txs[i]
			for _, typ := range []string{dag.TransactionEventType, dag.PayloadEventType} {
				if !selects(s.Filter, t, typ) || typ == dag.PayloadEventType && t.Mode == "never" {
					continue
				}
				if s.Name == "private" && (t.Mode == "late" || t.Mode == "recv") {
					continue
				}
				cands = append(cands, pair{s.Name + "|" + strconv.Itoa(i) + "|" + typ})
			}
		}
	}
	for c := 0; c < 2+rnd.Intn(2) && len(cands) > 0; c++ {
		j := rnd.Intn(len(cands))
		k := cands[j].key
		cands = append(cands[:j], cands[j+1:]...)
		kind := finKinds[rnd.Intn(len(finKinds))]
		if c == 0 {
			kind = finKinds[idx%len(finKinds)]
		}
		lead := [][]string{nil, {"fail"}, {"incomplete"}, {"fail", "incomplete"}}[rnd.Intn(4)]
		sc.Scripts[k] = script{Seq: append(append([]string{}, lead...), kind)}
	}
	// ... and, in every ninth scenario, one event whose completion is recorded after the notifier has read it for an attempt and before it calls
	// the receiver ("pfin-*", hook dag.notify.receiver): the notifier checks, then calls, so that one call follows the completion (own key, see the
	// oracle); what the receiver returns from it decides whether anything is written back. Drawn last: the rest of the scenario does not depend on it.
	if idx%9 == 4 && len(cands) > 0 {
		k := cands[rnd.Intn(len(cands))].key
		lead := [][]string{nil, {"fail"}, {"incomplete"}}[rnd.Intn(3)]
		sc.Scripts[k] = script{Seq: append(append([]string{}, lead...), preKinds[(idx/9)%len(preKinds)])}
	}
}

// completion recorded between the notifier's read of the pending event and its call of the receiver x what the receiver returns from that call
var preKinds = []string{"pfin-fail", "pfin-ok", "pfin-incomplete", "pfin-fatal"}

// eventuallyOK: the receiver reports completion within one process (no fatal error on the way, not failing for ever).
func eventuallyOK(sp script) bool {
	for _, x := range sp.Seq {
		if isFatal(x) {
			return false
		}
	}
	return sp.Tail == "" || sp.Tail == "ok"
}

func rep(s string, n int) []string {
	out := make([]string, n)
	for i := range out {
		out[i] = s
	}
	return out
}

// planFor builds the crash plan of the first phase for a crash point name.
func planFor(sc *scenario, point string, rnd *rand.Rand) crashPlan {
	addTargets := func() int { return 1 + rnd.Intn(len(sc.Txs)-1) }
	var lateTx []int
	for _, s := range sc.Steps {
		if s.Op == "wp" {
			lateTx = append(lateTx, s.Tx)
		}
	}
	vdr := sc.Scripts["vdr|1|payload"]
	switch point {
	case "none":
		return crashPlan{Point: "", Tx: -1}
	case "inwrite":
		return crashPlan{Point: "inwrite", Tx: addTargets(), Op: rnd.Intn(9)}
	case "committed":
		return crashPlan{Point: "committed", Tx: addTargets()}
	case "wp-inwrite":
		return crashPlan{Point: "wp-inwrite", Tx: lateTx[rnd.Intn(len(lateTx))]}
	case "wp-committed":
		return crashPlan{Point: "wp-committed", Tx: lateTx[rnd.Intn(len(lateTx))]}
	case "returned-ok":
		// between the receiver reporting completion and the completion being marked: half of the time the prepared VDR
		// event (succeeds after its failures), else any first-attempt success of another subscriber
		if rnd.Intn(2) == 0 {
			return crashPlan{Point: "returned", Tx: 1, Sub: "vdr", Occ: len(vdr.Seq) + 1, Note: "ok"}
		}
		var cands []crashPlan
		for _, s := range sc.Subs {
			for i := range sc.Txs {
				for _, typ := range []string{dag.TransactionEventType, dag.PayloadEventType} {
					if !s.Persistent || s.Filter == "any" || !selects(s.Filter, &sc.Txs[i], typ) || sc.Txs[i].Mode == "never" && typ == dag.PayloadEventType {
						continue
					}
					if _, scripted := sc.Scripts[s.Name+"|"+strconv.Itoa(i)+"|"+typ]; !scripted {
						cands = append(cands, crashPlan{Point: "returned", Tx: i, Sub: s.Name, Occ: 1, Note: "ok"})
					}
				}
			}
		}
		if len(cands) == 0 {
			return crashPlan{Point: "returned", Tx: 1, Sub: "vdr", Occ: len(vdr.Seq) + 1, Note: "ok"}
		}
		return cands[rnd.Intn(len(cands))]
	case "returned-fail":
		o := 1 + rnd.Intn(len(vdr.Seq))
		return crashPlan{Point: "returned", Tx: 1, Sub: "vdr", Occ: o, Note: vdr.at(o - 1)}
	case "recorded":
		o := 1 + rnd.Intn(len(vdr.Seq))
		return crashPlan{Point: "recorded", Tx: 1, Sub: "vdr", Occ: o, Note: vdr.at(o - 1)}
	case "backoff":
		// the first retry follows the first attempt immediately, the loop sleeps after the second recorded failure
		o := 2 + rnd.Intn(len(vdr.Seq)-1)
		return crashPlan{Point: "backoff", Tx: 1, Sub: "vdr", Occ: o, Note: vdr.at(o - 1)}
	case "shutdown":
		o := 2 + rnd.Intn(len(vdr.Seq)-1)
		return crashPlan{Point: "shutdown", Tx: 1, Sub: "vdr", Occ: o, Note: vdr.at(o - 1)}
	case "finished":
		if nats, scripted := sc.Scripts["nats|1|payload"]; rnd.Intn(2) == 0 && (!scripted || eventuallyOK(nats)) {
			return crashPlan{Point: "finished", Tx: 1, Sub: "nats", Occ: 1}
		}
		return crashPlan{Point: "finished", Tx: 1, Sub: "vdr", Occ: 1}
	}
	panic("unknown crash point " + point)
}

// ---- parent: run a case, merge ledgers, read the final state ----------------------------------------------------

type line struct {
	phase, seq int
	f          []string
}

type finalState struct {
	dag     map[string]bool                  // refs in the DAG
	payload map[string]bool                  // refs whose payload is in the payload store
	shelf   map[string]map[string]shelfEntry // sub -> ref -> entry
	failed  map[string]map[string]int        // sub -> ref -> retries (GetFailedEvents)
}

func readFinal(dir string, sc *scenario) (*finalState, error) {
	db, err := openStore(dir, false)
	if err != nil {
		return nil, err
	}
	defer db.Close(context.Background())
	st, err := dag.NewState(db)
	if err != nil {
		return nil, err
	}
	defer st.Shutdown()
	fin := &finalState{dag: map[string]bool{}, payload: map[string]bool{}, shelf: map[string]map[string]shelfEntry{}, failed: map[string]map[string]int{}}
	all, err := st.FindBetweenLC(context.Background(), 0, dag.MaxLamportClock)
	if err != nil {
		return nil, err
	}
	for _, tx := range all {
		fin.dag[tx.Ref().String()] = true
		if pp, _ := st.IsPayloadPresent(context.Background(), tx.PayloadHash()); pp {
			fin.payload[tx.Ref().String()] = true
		}
	}
	for _, s := range sc.Subs {
		if !s.Persistent {
			continue
		}
		sh, err := readShelf(db, s.Name)
		if err != nil {
			return nil, err
		}
		fin.shelf[s.Name] = sh
		n := dag.NewNotifier(s.Name, nil, dag.WithPersistency(db))
		evs, err := n.GetFailedEvents()
		if err != nil {
			return nil, err
		}
		fin.failed[s.Name] = map[string]int{}
		for _, e := range evs {
			fin.failed[s.Name][e.Hash.String()] = e.Retries
		}
		_ = n.Close()
	}
	return fin, nil
}

type caseResult struct {
	sc       *scenario
	name     string
	points   string
	first    string // crash point of the first process
	lines    []line
	phaseEnd []string // "killed" | "clean" | "timeout" | "broken"
	fin      *finalState
	reached  bool
	broken   string
	note     string
	dropped  int // ledger lines that were not written completely (torn by the SIGKILL)
}

func runCase(sc *scenario, name string) *caseResult {
	res := &caseResult{sc: sc, name: name, reached: true}
	dir, err := os.MkdirTemp("", "c14-")
	if err != nil {
		res.broken = err.Error()
		return res
	}
	defer os.RemoveAll(dir)
	raw, _ := json.Marshal(sc)
	if err := os.WriteFile(filepath.Join(dir, "scenario.json"), raw, 0o644); err != nil {
		res.broken = err.Error()
		return res
	}
	var pts []string
	for p, plan := range sc.Phases {
		pt := plan.Point
		if pt == "" {
			pt = "none"
		}
		pts = append(pts, pt)
		wr := worker.Run("c14phase", []string{dir, strconv.Itoa(p)}, 4*time.Minute)
		end := "clean"
		switch {
		case wr.TimedOut:
			end = "timeout"
		case wr.Signaled:
			end = "killed"
			if plan.Point == "" {
				end = "broken"
				res.broken = fmt.Sprintf("phase %d died of signal %v without a crash plan: %s", p, wr.Signal, tail(wr.Output))
			}
		case wr.ExitCode == 4:
			end = "timeout"
			res.note = tail(wr.Output)
		case wr.ExitCode != 0:
			end = "broken"
			res.broken = fmt.Sprintf("phase %d exit %d: %s", p, wr.ExitCode, tail(wr.Output))
		}
		if tear := os.Getenv("C14_TEAR"); tear != "" && end == "killed" {
			// debugging aid: a write that the SIGKILL cut short at the end of the ledger (happens for real when a line straddles a page boundary of the file)
			if f, err := os.OpenFile(ledgerPath(dir, p), os.O_APPEND|os.O_WRONLY, 0o644); err == nil {
				_, _ = f.WriteString(tear)
				_ = f.Close()
			}
		}
		lns, dropped := readLedgerLines(ledgerPath(dir, p))
		res.dropped += dropped
		for i, f := range lns {
			{
				res.lines = append(res.lines, line{p, i, f})
				if f[0] == "crash-not-reached" {
					res.reached = false
				}
				if f[0] == "stopped" && end == "clean" {
					end = "stopped"
				}
			}
		}
		if dbg := os.Getenv("C14_DEBUG"); dbg != "" && (end == "timeout" || end == "broken") {
			_ = os.MkdirAll(dbg, 0o755)
			n := strings.ReplaceAll(name, "/", "_") + "." + strconv.Itoa(p)
			_ = os.WriteFile(filepath.Join(dbg, n+".out"), []byte(wr.Output), 0o644)
			led, _ := os.ReadFile(ledgerPath(dir, p))
			_ = os.WriteFile(filepath.Join(dbg, n+".ledger"), led, 0o644)
		}
		res.phaseEnd = append(res.phaseEnd, end)
		if end == "broken" {
			break
		}
	}
	res.points = strings.Join(pts, "+")
	res.first = pts[0]
	fin, err := readFinal(dir, sc)
	if err != nil {
		res.broken = "reading the final state: " + err.Error()
		return res
	}
	res.fin = fin
	return res
}

func tail(s string) string {
	if len(s) > 600 {
		return s[len(s)-600:]
	}
	return s
}

// ---- oracle ---------------------------------------------------------------------------------------------------

type recv struct {
	phase, seq, attempt, retries int
	result                       string
	inRun                        bool // made by Notifier.Run (between run-begin and run-done of the subscriber)
}

// decodeResult splits a scripted receiver result: wp = the receiver writes the payload itself first; fin = the completion of the event is
// recorded by another party ("in": while the receiver is busy, "ret": after it returned and before the notifier recorded the outcome,
// "rec": after the outcome was recorded, before the next attempt); base = what the receiver returns.
func decodeResult(res string) (wp bool, fin string, base string) {
	switch res {
	case "wp-ok":
		return true, "", "ok"
	case "wp-fin":
		return true, "in", "incomplete"
	}
	if strings.HasPrefix(res, "wp-fin-") {
		return true, "in", res[len("wp-fin-"):]
	}
	for _, p := range [][2]string{{"fin-", "in"}, {"rfin-", "ret"}, {"bfin-", "rec"}, {"pfin-", "pre"}} {
		if strings.HasPrefix(res, p[0]) {
			return false, p[1], res[len(p[0]):]
		}
	}
	return false, "", res
}

// isOK: the event is completed with this call (the receiver reports completion, or the completion is recorded by another party during/right after it).
func isOK(result string) bool {
	_, fin, base := decodeResult(result)
	return fin != "" || base == "ok" || base == "slow-ok"
}

// isFatal: the receiver returns a fatal error to the notifier.
func isFatal(result string) bool {
	_, _, base := decodeResult(result)
	return base == "fatal" || base == "fatalw"
}

func evaluate(r *ev.Run, c *caseResult) {
	sc, fin := c.sc, c.fin
	refIdx := map[string]int{}
	for i, t := range sc.Txs {
		refIdx[t.Ref] = i
	}
	mustRefuse := map[string]string{} // ref -> kind, transactions that are inadmissible by construction
	for _, t := range sc.Rej {
		mustRefuse[t.Ref] = t.Kind
	}
	payloadCount := map[string]int{}
	for _, t := range sc.Txs {
		payloadCount[string(t.Payload)]++
	}
	uniquePayload := func(i int) bool { return payloadCount[string(sc.Txs[i].Payload)] == 1 }
	witness := func(ref string, sub string) map[string]any {
		var ls []string
		for _, l := range c.lines {
			s := strings.Join(l.f, " ")
			if ref == "" || strings.Contains(s, ref) || l.f[0] == "phase" || l.f[0] == "kill" || l.f[0] == "quiescent" || strings.HasPrefix(l.f[0], "run-") {
				ls = append(ls, fmt.Sprintf("p%d: %s", l.phase, s))
			}
		}
		if len(ls) > 120 {
			ls = ls[len(ls)-120:]
		}
		w := map[string]any{"case": c.name, "crash_plans": sc.Phases, "phase_ends": c.phaseEnd, "continue": sc.Continue, "ledger": ls, "subscribers": sc.Subs}
		if i, ok := refIdx[ref]; ok {
			t := sc.Txs[i]
			w["tx"] = map[string]any{"index": i, "ref": ref, "payload_type": t.PType, "private": t.Private, "mode": t.Mode, "in_dag": fin.dag[ref], "payload_hash_in_store": fin.payload[ref], "payload_bytes_shared_with_other_tx": !uniquePayload(i)}
			scr := map[string]string{}
			for k, v := range sc.Scripts {
				if strings.Contains(k, "|"+strconv.Itoa(i)+"|") {
					scr[k] = v.String()
				}
			}
			w["scripts"] = scr
			sh := map[string]any{}
			for s, m := range fin.shelf {
				if e, ok := m[ref]; ok {
					sh[s] = e
				}
			}
			w["final_shelf_entries"] = sh
		}
		if k, ok := mustRefuse[ref]; ok {
			w["tx"] = map[string]any{"ref": ref, "must_be_refused_because": k, "in_dag": fin.dag[ref]}
		}
		var steps []string
		for i, st := range sc.Steps {
			if st.Op == "rej" || st.Op == "dup" {
				steps = append(steps, fmt.Sprintf("%d:%s/%s tx=%d n=%d", i, st.Op, st.Kind, st.Tx, st.N))
			}
		}
		w["refused_and_repeated_offers"] = steps
		return w
	}
	viol := func(class, what, ref, sub string) {
		r.Violation("C14/"+class, fmt.Sprintf("%s [case %s, crash points %s]", what, c.name, c.points), witness(ref, sub))
	}

	// index the ledger
	type phaseInfo struct {
		startDag, startPayload map[string]bool
		startShelf, endShelf   map[string]shelfEntry // sub|ref
		runDone                map[string]bool
		quiescent              bool
	}
	phases := make([]*phaseInfo, len(sc.Phases))
	for i := range phases {
		phases[i] = &phaseInfo{startDag: map[string]bool{}, startPayload: map[string]bool{}, startShelf: map[string]shelfEntry{}, endShelf: map[string]shelfEntry{}, runDone: map[string]bool{}}
	}
	recvs := map[string][]recv{}       // sub|ref|type
	recorded := map[string][]line{}    // sub|ref|type
	completions := map[string][]line{} // sub|ref: finished hook / finished-observed
	wpBegins := map[string][]line{}    // ref
	wpCommitted := map[string]int{}    // ref -> committed WritePayload calls
	wpDoneAt := map[string][]line{}    // ref -> wp-committed / wp-ok lines
	killOf := map[int]string{}         // phase -> kill line
	addBegins := map[string][]line{}   // ref ; f[3] = with payload
	inRun := ""
	runDoneSeq := map[string]int{} // phase|sub -> ledger position of run-done
	var order []string             // keys in order of first appearance
	// offers that must not lead to admission: they do not count as admission attempts. Those that are refused because of an injected fault
	// (not because of what is offered) count as regular attempts when the fault did not fire or the process died before saying so.
	faultKind := func(k string) bool { return k == "ctx-cancel" || k == "store-fault" || k == "wp-store-fault" }
	var openRej *line
	preCall := map[string][]line{} // sub|ref|type -> completions recorded by another party at the hook right before the receiver call of an attempt
	// sub|ref|type -> completions recorded by another party (the harness calling Notifier.Finished), at any position. The line is written before the
	// call and before the recv line of the attempt it belongs to: a process killed right then leaves the completion without that recv line.
	extFin := map[string]int{}
	foldRej := func(b line) {
		if b.f[3] == "wp-store-fault" {
			wpBegins[b.f[1]] = append(wpBegins[b.f[1]], line{b.phase, b.seq, []string{"wp-begin", b.f[1], "rej"}})
			return
		}
		addBegins[b.f[1]] = append(addBegins[b.f[1]], line{b.phase, b.seq, []string{"add-begin", b.f[1], b.f[2], b.f[4]}})
	}
	closeRej := func() {
		// the process died inside the offer
		if openRej != nil && faultKind(openRej.f[3]) {
			foldRej(*openRej)
		}
		openRej = nil
	}
	for _, l := range c.lines {
		f := l.f
		if l.phase < 0 || l.phase >= len(phases) {
			continue
		}
		ph := phases[l.phase]
		switch f[0] {
		case "rej-begin":
			closeRej()
			cp := l
			openRej = &cp
			r.Count("offers_that_must_be_refused", 1)
			r.Distinct("kinds_of_offers_that_must_be_refused", f[3])
		case "rej-end":
			if openRej != nil && openRej.f[1] == f[1] && openRej.phase == l.phase {
				switch {
				case faultKind(openRej.f[3]) && f[3] != "true":
					r.Count("planned_faults_that_did_not_fire", 1)
					foldRej(*openRej)
				case f[2] == "nil":
					r.Count("offers_that_must_be_refused_answered_without_error", 1)
				}
				openRej = nil
			}
		case "dup-begin":
			r.Count("repeated_offers_of_admitted_transactions", 1)
		case "fin-ext":
			r.Count("completions_recorded_by_another_party", 1)
			r.Distinct("positions_of_completions_recorded_by_another_party", f[4])
			extFin[f[1]+"|"+f[2]+"|"+f[3]]++
			if f[4] == "before-receiver-call" {
				preCall[f[1]+"|"+f[2]+"|"+f[3]] = append(preCall[f[1]+"|"+f[2]+"|"+f[3]], l)
			}
		case "start-dag":
			ph.startDag[f[1]] = true
			if f[2] == "true" {
				ph.startPayload[f[1]] = true
			}
		case "start-shelf", "end-shelf":
			n, _ := strconv.Atoi(f[4])
			e := shelfEntry{Type: f[3], Retries: n}
			if f[0] == "start-shelf" {
				ph.startShelf[f[1]+"|"+f[2]] = e
			} else {
				ph.endShelf[f[1]+"|"+f[2]] = e
			}
		case "run-begin":
			inRun = f[1]
		case "run-done":
			inRun = ""
			ph.runDone[f[1]] = true
			runDoneSeq[strconv.Itoa(l.phase)+"|"+f[1]] = l.seq
		case "quiescent":
			ph.quiescent = true
		case "recv":
			a, _ := strconv.Atoi(f[4])
			n, _ := strconv.Atoi(f[6])
			k := f[1] + "|" + f[2] + "|" + f[3]
			if _, ok := recvs[k]; !ok {
				order = append(order, k)
			}
			recvs[k] = append(recvs[k], recv{phase: l.phase, seq: l.seq, attempt: a, result: f[5], retries: n, inRun: inRun == f[1]})
		case "recorded":
			recorded[f[1]+"|"+f[2]+"|"+f[3]] = append(recorded[f[1]+"|"+f[2]+"|"+f[3]], l)
		case "finished", "finished-observed":
			completions[f[1]+"|"+f[2]] = append(completions[f[1]+"|"+f[2]], l)
		case "wp-begin":
			wpBegins[f[1]] = append(wpBegins[f[1]], l)
		case "wp-committed":
			wpCommitted[f[1]]++
			wpDoneAt[f[1]] = append(wpDoneAt[f[1]], l)
		case "wp-ok":
			wpDoneAt[f[1]] = append(wpDoneAt[f[1]], l)
		case "kill":
			killOf[l.phase] = strings.Join(f[1:], " ")
		case "add-begin":
			addBegins[f[1]] = append(addBegins[f[1]], l)
		case "phase":
			inRun = ""
			closeRej()
		}
	}
	closeRej()
	for _, m := range fin.shelf {
		for ref := range m {
			if !fin.dag[ref] {
				r.Count("queue_entries_at_end_of_transactions_not_in_dag", 1)
			}
		}
	}
	before := func(a line, phase, seq int) bool { return a.phase < phase || a.phase == phase && a.seq < seq }
	lastPhase := len(sc.Phases) - 1
	conclusive := c.phaseEnd[len(c.phaseEnd)-1] == "clean" && phases[lastPhase].quiescent && len(c.phaseEnd) == len(sc.Phases)

	// a second payload write for a transaction makes a new event: the pairs it touches are outside the property text
	rewritten := map[string]bool{}
	wpAmbiguous := map[string][]int{} // ref -> phases that died while a WritePayload for it was under way (shared payload bytes only)
	for ref, n := range wpCommitted {
		if i, ok := refIdx[ref]; ok && (n > 1 || sc.Txs[i].Mode == "with") {
			rewritten[ref] = true
		}
	}
	// payload bytes shared with another transaction: the store cannot tell whether a WritePayload that was cut off by a crash had
	// committed, the worker repeats it then. Unless the crash was inside that very write (not committed for sure) this may have been a second write.
	for ref, begins := range wpBegins {
		i, ok := refIdx[ref]
		if !ok || uniquePayload(i) {
			continue
		}
		for j, b := range begins {
			done := false
			for _, d := range wpDoneAt[ref] {
				if d.phase == b.phase && d.seq > b.seq {
					done = true
				}
			}
			if _, killed := killOf[b.phase]; !done && killed && killOf[b.phase] != "wp-inwrite "+ref {
				if j < len(begins)-1 {
					rewritten[ref] = true
				}
				wpAmbiguous[ref] = append(wpAmbiguous[ref], b.phase)
			}
		}
	}
	// the payload event of a transaction exists when the transaction was admitted together with its payload or a WritePayload for it committed
	// (the payload store itself is keyed by the payload hash and only says so when no other transaction has the same bytes)
	payloadWrittenBefore := func(ref string, phase int) bool {
		i, ok := refIdx[ref]
		if !ok {
			return false
		}
		if sc.Txs[i].Mode == "with" {
			return phases[phase].startDag[ref]
		}
		for _, d := range wpDoneAt[ref] {
			if d.phase < phase {
				return true
			}
		}
		for _, p := range wpAmbiguous[ref] {
			if p < phase {
				return true
			}
		}
		return uniquePayload(i) && phases[phase].startPayload[ref]
	}
	payloadAdmitted := func(ref string) bool {
		i, ok := refIdx[ref]
		if !ok || !fin.dag[ref] {
			return false
		}
		return sc.Txs[i].Mode == "with" || len(wpDoneAt[ref]) > 0 || uniquePayload(i) && fin.payload[ref]
	}

	deliveries, retries := 0, 0
	// ---- (B) every delivery is of an admitted transaction / payload (all subscribers, all phases)
	for _, k := range order {
		p := strings.Split(k, "|")
		sub, ref, typ := p[0], p[1], p[2]
		for _, d := range recvs[k] {
			deliveries++
			if d.attempt > 1 {
				retries++
			}
			ph := phases[d.phase]
			admitted := ph.startDag[ref]
			for _, a := range addBegins[ref] {
				if a.phase == d.phase && a.seq < d.seq {
					admitted = true
				}
			}
			if _, ext, _ := decodeResult(d.result); ext != "" {
				r.Distinct("completion_by_another_party_x_receiver_result", d.result)
			}
			if !admitted || !fin.dag[ref] {
				why := map[bool]string{true: "is not in the DAG at the end", false: "had not been offered to the DAG in a way that can succeed in that process before, and was not in it at start"}[admitted]
				if k, ok := mustRefuse[ref]; ok {
					why = "cannot be admitted (" + k + ")"
				}
				viol("delivered-not-admitted/transaction", fmt.Sprintf("subscriber %s received a %s event for %s, which %s", sub, typ, ref, why), ref, sub)
				break
			}
			if typ == dag.PayloadEventType {
				written := payloadWrittenBefore(ref, d.phase)
				for _, a := range addBegins[ref] {
					if a.phase == d.phase && a.seq < d.seq && a.f[3] == "true" {
						written = true
					}
				}
				for _, a := range wpBegins[ref] {
					if a.phase == d.phase && a.seq < d.seq {
						written = true
					}
				}
				if !written || !payloadAdmitted(ref) && len(wpAmbiguous[ref]) == 0 {
					viol("delivered-not-admitted/payload", fmt.Sprintf("subscriber %s received a payload event for %s whose payload was not written", sub, ref), ref, sub)
					break
				}
			}
		}
	}
	r.Count("deliveries", deliveries)
	r.Count("retries", retries)

	// ---- per (persistent subscriber, admitted event)
	pending, completed := 0, 0
	for _, s := range sc.Subs {
		if !s.Persistent {
			// contrast: a subscriber without persistency loses what was admitted but not delivered when the process died
			for i := range sc.Txs {
				if fin.dag[sc.Txs[i].Ref] && selects(s.Filter, &sc.Txs[i], dag.TransactionEventType) && len(recvs[s.Name+"|"+sc.Txs[i].Ref+"|"+dag.TransactionEventType]) == 0 {
					r.Count("events_never_delivered_to_nonpersistent_subscriber", 1)
				}
			}
			continue
		}
		for i := range sc.Txs {
			t := &sc.Txs[i]
			ref := t.Ref
			if !fin.dag[ref] {
				continue
			}
			if s.Filter == "any" {
				// one shelf key for the transaction event and the payload event of the same transaction: outside the text
				if payloadAdmitted(ref) {
					r.Unspecified("subscriber-selects-both-event-types-of-one-tx")
				}
				// whatever the type: something about an admitted transaction was delivered, or is still on the shelf
				n := len(recvs[s.Name+"|"+ref+"|"+dag.TransactionEventType]) + len(recvs[s.Name+"|"+ref+"|"+dag.PayloadEventType])
				if _, onShelf := fin.shelf[s.Name][ref]; n == 0 && !onShelf {
					viol("vanished/any/"+c.points, fmt.Sprintf("no event of admitted %s was ever delivered to persistent subscriber %s (no type filter) and none is on its shelf", ref, s.Name), ref, s.Name)
				}
				continue
			}
			typ := dag.TransactionEventType
			if strings.HasPrefix(s.Filter, "payload") {
				typ = dag.PayloadEventType
			}
			if !selects(s.Filter, t, typ) || typ == dag.PayloadEventType && !payloadAdmitted(ref) {
				continue
			}
			if typ == dag.PayloadEventType && !uniquePayload(i) && t.Mode != "with" {
				r.Count("payload_events_written_later_for_shared_payload_bytes", 1)
			}
			k := s.Name + "|" + ref + "|" + typ
			ds := recvs[k]
			entry, onShelf := fin.shelf[s.Name][ref]
			anyOK := false
			for _, d := range ds {
				if isOK(d.result) {
					anyOK = true
				}
			}
			if onShelf {
				pending++
			} else {
				completed++
			}
			if rewritten[ref] && typ == dag.PayloadEventType {
				// second WritePayload: a new event may be created after the first one completed (new delivery), or two
				// retry loops may run on one shelf entry. Only "never vanished" is checked for these.
				r.Unspecified("second-WritePayload-for-a-transaction")
				if len(ds) == 0 && !onShelf {
					viol("vanished/"+typ+"/"+c.first, fmt.Sprintf("%s event of admitted %s was never delivered to persistent subscriber %s and is not on its shelf", typ, ref, s.Name), ref, s.Name)
				}
				continue
			}
			// (A) at least once, or still visible; never vanished
			if len(ds) == 0 && !onShelf {
				viol("vanished/"+typ+"/"+c.first, fmt.Sprintf("%s event of admitted %s was never delivered to persistent subscriber %s and is not on its shelf", typ, ref, s.Name), ref, s.Name)
				continue
			}
			if !onShelf && !anyOK && extFin[k] > 0 {
				r.Count("events_completed_by_another_party_before_the_kill_without_a_logged_receiver_call", 1)
			} else if !onShelf && !anyOK {
				viol("vanished-undelivered/"+typ, fmt.Sprintf("%s event of %s left the shelf of %s although the subscriber never reported completion (results: %s)", typ, ref, s.Name, results(ds)), ref, s.Name)
			}
			// an event that comes into being while the restarted process has not finished Run() for its subscriber yet (a receiver of
			// another subscriber wrote the payload during ITS replay) is picked up by Run() as well: two deliveries / retry loops work on
			// one shelf entry concurrently. The text does not speak about events created during the start-up replay: counted, and only
			// the checks that do not depend on one sequential history of the entry are applied.
			concurrentReplay := false
			for p := 1; p < len(phases); p++ {
				if _, atStart := phases[p].startShelf[s.Name+"|"+ref]; atStart {
					continue
				}
				for _, d := range ds {
					if d.phase == p && d.seq < runDoneSeq[strconv.Itoa(p)+"|"+s.Name] {
						concurrentReplay = true
					}
				}
			}
			if concurrentReplay {
				r.Unspecified("event-created-during-start-up-replay")
				continue
			}
			// (C) no delivery after a recorded completion. One call is told apart: when the completion was recorded by another party after the
			// notifier had read the pending event for an attempt and before it called the receiver (check-then-call), the call of THAT attempt
			// follows the completion; it has its own key. Every call after that one is judged as before.
			for j, d := range ds {
				hit := false
				// the completion recorded right before this call, if any: the last such line of this process before the call, with no other call in between
				preSeq := -1
				if _, ext, _ := decodeResult(d.result); ext == "pre" {
					for _, pc := range preCall[k] {
						if pc.phase == d.phase && pc.seq < d.seq && pc.seq > preSeq && (j == 0 || ds[j-1].phase != d.phase || ds[j-1].seq < pc.seq) {
							preSeq = pc.seq
						}
					}
				}
				if preSeq >= 0 {
					earlier, own := false, false
					for _, cm := range completions[s.Name+"|"+ref] {
						if before(cm, d.phase, preSeq) {
							earlier = true
						} else if before(cm, d.phase, d.seq) {
							own = true
						}
					}
					if !earlier {
						if own {
							r.Count("receiver_calls_that_followed_a_completion_recorded_right_before_the_call", 1)
							viol("redelivered-after-completion/completion-recorded-before-receiver-call", fmt.Sprintf("subscriber %s was called for %s (%s, attempt %d, returning %s) although the completion of the event had been recorded by another party after the notifier had read the pending event for this attempt and before it called the receiver", s.Name, ref, typ, d.attempt, d.result), ref, s.Name)
						}
						continue
					}
				}
				for _, cm := range completions[s.Name+"|"+ref] {
					if before(cm, d.phase, d.seq) {
						where := "in the same process"
						if cm.phase < d.phase {
							where = "after restart"
						}
						viol("redelivered-after-completion/"+strings.ReplaceAll(where, " ", "-"), fmt.Sprintf("subscriber %s was called again for %s (%s, attempt %d) %s although its completion had been recorded (%s)", s.Name, ref, typ, d.attempt, where, cm.f[0]), ref, s.Name)
						hit = true
						break
					}
				}
				if hit {
					break
				}
			}
			// (D) fatal stops retries within the process; attempts beyond the budget
			for j, d := range ds {
				if isFatal(d.result) && j+1 < len(ds) && ds[j+1].phase == d.phase {
					viol("retried-after-fatal", fmt.Sprintf("subscriber %s reported a fatal error for %s (%s) and was called again in the same process", s.Name, ref, typ), ref, s.Name)
					break
				}
				if d.retries >= retryBudget {
					if d.inRun {
						r.Unspecified("failed-event-redelivered-once-at-restart")
					} else {
						viol("retry/beyond-budget", fmt.Sprintf("subscriber %s was called for %s (%s) with %d recorded retries outside the start-up replay", s.Name, ref, typ, d.retries), ref, s.Name)
						break
					}
				}
			}
			// (E) retry counter: seen values never decrease, each recorded non-fatal failure adds one, the persisted value is the last recorded one
			{
				bad := ""
				last := 0
				for _, d := range ds {
					if d.retries < last {
						bad = fmt.Sprintf("retry counter seen by the receiver went from %d to %d", last, d.retries)
					}
					last = d.retries
				}
				for p := range phases {
					base, have := 0, false
					if e, ok := phases[p].startShelf[s.Name+"|"+ref]; ok {
						base, have = e.Retries, true
					}
					// merge recv and recorded lines of this phase in ledger order
					type evt struct {
						seq  int
						recv *recv
						n    int
					}
					var es []evt
					for j := range ds {
						if ds[j].phase == p {
							es = append(es, evt{seq: ds[j].seq, recv: &ds[j]})
						}
					}
					for _, l := range recorded[k] {
						if l.phase == p {
							n, _ := strconv.Atoi(l.f[4])
							es = append(es, evt{seq: l.seq, n: n})
						}
					}
					sort.Slice(es, func(a, b int) bool { return es[a].seq < es[b].seq })
					var cur *recv
					for _, e := range es {
						if e.recv != nil {
							if e.recv.retries != base {
								bad = fmt.Sprintf("attempt %d saw retries=%d, the last recorded value was %d", e.recv.attempt, e.recv.retries, base)
							}
							cur = e.recv
							continue
						}
						if cur != nil && !isFatal(cur.result) && e.n != base+1 {
							bad = fmt.Sprintf("failed attempt %d recorded retries=%d after %d", cur.attempt, e.n, base)
						}
						if e.n <= base && !(cur != nil && isFatal(cur.result)) {
							bad = fmt.Sprintf("recorded retries went from %d to %d", base, e.n)
						}
						base, have = e.n, true
					}
					if p == lastPhase && conclusive && onShelf && have && entry.Retries != base {
						bad = fmt.Sprintf("persisted retries=%d at the end, the last recorded value is %d", entry.Retries, base)
					}
					if p+1 < len(phases) && have {
						if e, ok := phases[p+1].startShelf[s.Name+"|"+ref]; ok && e.Retries < base {
							bad = fmt.Sprintf("persisted retries=%d after restart, %d had been recorded before", e.Retries, base)
						}
					}
				}
				if bad != "" {
					viol("retries/inconsistent", fmt.Sprintf("retry bookkeeping of %s for %s (%s): %s", s.Name, ref, typ, bad), ref, s.Name)
				}
			}
			// (F) Run() replays what is on the shelf at start-up
			for p := 1; p < len(phases); p++ {
				e, ok := phases[p].startShelf[s.Name+"|"+ref]
				if !ok || !phases[p].runDone[s.Name] || e.Retries >= retryBudget {
					continue
				}
				got := false
				for _, d := range ds {
					if d.phase == p {
						got = true
					}
				}
				if !got {
					viol("restart/not-replayed", fmt.Sprintf("%s event of %s was pending for %s at restart (retries=%d) and was not delivered by the restarted process", typ, ref, s.Name, e.Retries), ref, s.Name)
				}
			}
			// (G) a process that became quiescent leaves nothing behind that is neither completed nor failed for good
			for p := range phases {
				if !phases[p].quiescent {
					continue
				}
				e, ok := phases[p].endShelf[s.Name+"|"+ref]
				if !ok || e.Retries >= retryBudget {
					continue
				}
				lastFatal := false
				n := 0
				for _, d := range ds {
					if d.phase <= p {
						lastFatal = isFatal(d.result)
						n++
					}
				}
				if lastFatal {
					continue
				}
				class := "stalled/retries-stopped"
				if n == 0 {
					class = "stalled/never-attempted"
				}
				viol(class, fmt.Sprintf("%s event of %s is pending for %s with retries=%d after %d deliveries, and nothing is retrying it any more (no completion, no fatal error, budget %d not spent)", typ, ref, s.Name, e.Retries, n, retryBudget), ref, s.Name)
				break
			}
			// (H) what stays behind for good is visible as failed
			if conclusive && onShelf && (entry.Retries >= retryBudget || len(ds) > 0 && isFatal(ds[len(ds)-1].result)) {
				if _, ok := fin.failed[s.Name][ref]; !ok {
					viol("failed-not-visible", fmt.Sprintf("%s event of %s stays on the shelf of %s for good (retries=%d) but GetFailedEvents does not list it", typ, ref, s.Name, entry.Retries), ref, s.Name)
				}
				r.Count("events_failed_for_good", 1)
			}
		}
	}
	r.Count("events_pending_at_end", pending)
	r.Count("events_completed", completed)
}

func results(ds []recv) string {
	var out []string
	for _, d := range ds {
		out = append(out, d.result)
	}
	return strings.Join(out, ",")
}

// ---- the check ------------------------------------------------------------------------------------------------

func TestCheck(t *testing.T) {
	r := ev.Start(t, "C14", "fault_enumeration")
	defer r.Finish()
	r.SetRule("cases = seeded scenario (5-14 transactions, thorough up to 30: public/private, DID/VC/other payloads, payload with the Add, written later, written by the private receiver, never, " +
		"written twice; tx 3 and some other late payloads repeat the payload bytes of an earlier transaction; 6-7 subscribers with scripted receivers) x every crash point of {none, inside the admission write, after commit before notify, inside/after the WritePayload write, " +
		"receiver returned true before completion marking, receiver returned failure before recording, failure recorded, during back-off, after completion marking} " +
		"(+ per scenario one double crash: second SIGKILL during the start-up replay). Woven into every history (separate seeded stream): offers that must not lead to admission - a second root, " +
		"a transaction with an unknown prev / signed by another key than announced / with a wrong lamport clock (each with its payload), and admissible transactions offered before a prev, with other " +
		"payload bytes, with the caller's context ending or the n-th store operation / the commit failing inside the admission (or WritePayload) write, which are admitted by their regular step afterwards -, " +
		"repeated offers of admitted transactions, and completions recorded by another party (Notifier.Finished as v2 handleTransactionPayload / CleanupSubscriberEvents call it) while the receiver is busy, " +
		"after it returned before the outcome is recorded, or after the outcome was recorded, combined with every receiver outcome (ok, failure, incomplete, fatal). " +
		"Each case = 2-3 worker processes on one data directory; the oracle runs over the merged ledgers and the final store. " +
		"A case is non-trivial when its crash point was reached, the final DAG is not empty and persistent subscribers received deliveries; distinct by (crash points, crash target, scenario). " +
		"Second workload (faultmatrix_test.go, in-process, no crash): 10 (thorough 48) further histories of 7-9 transactions on a store decorator that fails ONE store operation of one write; every Add and every WritePayload " +
		"(public, private with the caller completing the private-transaction job, nested in the private receiver) is run with a refused commit, then once per store operation of its write closure " +
		"(every Get/Put/Delete/Iterate/Range on the DAG, payload and subscriber job shelves) with that operation failing, then without fault; plus an unparsable record under the transaction's key on one subscriber's shelf and a subscriber " +
		"registered on another database. One case per fault that fired (distinct by operation, failed store operation, position, history, transaction); after each call: admitted => delivered to / still queued for every selecting persistent " +
		"subscriber (start-up replay of a fresh notifier included), not admitted => delivered to nobody, also not by a start-up replay.")
	r.Require(r.Pick(100, 800), r.Pick(60, 500))
	r.Assume("bbolt file store with sync writes; page-cache durability (SIGKILL, not power loss); store lock acquisition does not time out (10 min instead of the default 3 s: lock time-outs under machine load are not part of the fault model)")
	r.Assume(fmt.Sprintf("retry budget = %d attempts per event (dag.maxRetries); an event counts as failed for good when its persisted retry counter reached the budget or its last delivery reported a fatal error", retryBudget))
	r.Assume("a process is quiescent when no goroutine has a frame inside dag.(*notifier) (stack dump); wall-clock only bounds the wait for that (-> inconclusive)")
	r.Assume("receiver behaviour is a function of the attempt number per (subscriber, transaction, event type) counted over all processes of a case")
	r.Assume("a completion recorded by another party is placed at hook points of the running attempt (dag.notify.receiver = after the notifier read the pending event and before it calls the receiver, inside the receiver, dag.notify.returned, dag.notify.recorded), i.e. in the attempt's own goroutine: the position relative to the attempt is logical, not timed. The receiver call of the attempt whose completion was recorded at dag.notify.receiver is reported under its own key (redelivered-after-completion/completion-recorded-before-receiver-call); every later call under the general keys")
	r.Assume("ledger lines are written before the action they announce; a line cut short by the SIGKILL (no line end / wrong shape) counts as not written")

	nScen := r.Pick(36, 280)
	maxTx := r.Pick(14, 30)
	type job struct {
		sc   *scenario
		name string
	}
	var jobs []job
	only := os.Getenv("C14_ONLY") // debugging aid: run the cases whose name contains this
	for i := 0; i < nScen; i++ {
		rnd := r.Rand("scenario" + strconv.Itoa(i))
		base := genScenario(rnd, r.Rand("weave"+strconv.Itoa(i)), r.Seed(), i, maxTx)
		for _, pt := range crashPoints {
			sc := *base
			sc.Phases = []crashPlan{planFor(base, pt, rnd), {Point: "", Tx: -1}}
			jobs = append(jobs, job{&sc, fmt.Sprintf("s%d/%s", i, pt)})
		}
		// double crash: die after the commit of tx 1, die again during (or right after) the start-up replay, then run clean
		sc := *base
		second := []string{"returned", "recorded", "finished"}[rnd.Intn(3)]
		sc.Phases = []crashPlan{{Point: "committed", Tx: 1}, {Point: second, Tx: -1, Sub: "*", Occ: 1}, {Point: "", Tx: -1}}
		jobs = append(jobs, job{&sc, fmt.Sprintf("s%d/committed+%s", i, second)})
	}

	if only != "" {
		var sel []job
		for _, j := range jobs {
			if strings.Contains(j.name+"$", only) {
				sel = append(sel, j)
			}
		}
		jobs = sel
	}
	// second workload: single store faults at every position inside the admission writes (faultmatrix_test.go), in this process
	runFaultMatrix(r)

	results := make([]*caseResult, len(jobs))
	sem := make(chan struct{}, 12)
	var wg sync.WaitGroup
	for i := range jobs {
		wg.Add(1)
		sem <- struct{}{}
		go func(i int) {
			defer wg.Done()
			defer func() { <-sem }()
			results[i] = runCase(jobs[i].sc, jobs[i].name)
		}(i)
	}
	wg.Wait()

	allReached := true
	for _, c := range results {
		sc := c.sc
		r.Count("worker_processes", len(c.phaseEnd))
		r.Count("restarts", max(len(c.phaseEnd)-1, 0))
		r.Count("ledger_lines_cut_short_by_a_kill_and_ignored", c.dropped)
		for _, e := range c.phaseEnd {
			r.Count("phase_end_"+e, 1)
		}
		if c.broken != "" {
			r.Inconclusive(fmt.Sprintf("case %s: %s", c.name, c.broken))
			allReached = false
			continue
		}
		inconclusive := false
		for _, e := range c.phaseEnd {
			if e == "timeout" {
				inconclusive = true
			}
		}
		if inconclusive {
			r.Inconclusive(fmt.Sprintf("case %s: a worker did not become quiescent before the watchdog: %s", c.name, c.note))
			allReached = false
		}
		if !c.reached {
			r.Inconclusive(fmt.Sprintf("case %s: crash point not reached (%s)", c.name, c.points))
			allReached = false
		}
		func() {
			// an oracle panic on one recorded history must not end the run silently: that history is reported as undecided
			defer func() {
				if p := recover(); p != nil {
					path := r.SaveWitness("oracle-panic-"+strings.ReplaceAll(c.name, "/", "_"), "oracle panic", map[string]any{"case": c.name, "scenario": sc, "ledger": c.lines, "panic": fmt.Sprint(p), "stack": string(debug.Stack())})
					r.Inconclusive(fmt.Sprintf("case %s: the oracle panicked on this history (%v); history saved at %s", c.name, p, path))
					allReached = false
				}
			}()
			evaluate(r, c)
		}()
		persistentDeliveries := 0
		for _, l := range c.lines {
			if l.f[0] == "recv" {
				for _, s := range sc.Subs {
					if s.Name == l.f[1] && s.Persistent {
						persistentDeliveries++
					}
				}
			}
			if l.f[0] == "kill" {
				r.Count("kills", 1)
				r.Count("kill_at_"+l.f[1], 1)
			}
			if l.f[0] == "shutdown" {
				r.Count("graceful_stops_during_backoff", 1)
			}
		}
		tgt := sc.Phases[0]
		fpr := fmt.Sprintf("%s|%s|%d|%s|%d|s%d", c.points, tgt.Sub, tgt.Occ, tgt.Note, tgt.Op, sc.Index)
		r.Case(fpr, c.reached && !inconclusive && len(c.fin.dag) > 0 && persistentDeliveries > 0)
		r.Distinct("crash_point_sequences", c.points)
		r.Distinct("crash_point_x_target_behaviour", c.points+"|"+tgt.Sub+"|"+tgt.Note)
		r.Sample(map[string]any{"case": c.name, "transactions": len(sc.Txs), "transactions_that_must_be_refused": len(sc.Rej), "steps": len(sc.Steps), "subscribers": len(sc.Subs), "crash_plans": sc.Phases,
			"phase_ends": c.phaseEnd, "continue_after_restart": sc.Continue, "ledger_lines": len(c.lines), "in_dag_at_end": len(c.fin.dag), "deliveries_to_persistent": persistentDeliveries})
	}
	r.Exhaustive(allReached)
	r.Extra("scenarios", nScen)
	r.Extra("crash_points", crashPoints)
}

func watchdogSeconds() int {
	if v, err := strconv.Atoi(os.Getenv("C14_WATCHDOG")); err == nil && v > 0 {
		return v
	}
	return 90
}
