// Verifier side, credentials with several credentialStatus entries (C11): the entry whose bit is set on a list the node can
// retrieve sits at every position of the array; the other entries name lists that are clear, missing, failing, malformed,
// forged, of another purpose, or are entries of another purpose / type. The statement "every later verification on a node
// that has refreshed the list fails as revoked" does not depend on what else the credential carries.
package c11

import (
	"encoding/json"
	"fmt"
	"net"
	"strconv"
	"strings"
	"time"

	"verif/lib/ev"
	"verif/lib/iamflow"
	"verif/lib/node"
)

func multiEntry(r *ev.Run, n *node.Node, srv *listServer, issuer, subject *iamflow.Holder,
	mkList func(signer *iamflow.Holder, id, purpose string, bits []byte, exp time.Time) string,
	bitsWith func(idx ...int) []byte, serve func(path string, f func() string) string) {

	rnd := r.Rand("c11-multi-entry")
	now := time.Now()
	far := now.Add(24 * time.Hour)
	seq := 0
	next := func() int { seq++; return seq }

	// a port nobody listens on
	deadURL := func() string {
		ln, err := net.Listen("tcp", "127.0.0.1:0")
		if err != nil {
			r.Fatalf("listen: %v", err)
		}
		addr := ln.Addr().String()
		_ = ln.Close()
		return "http://" + addr
	}()

	entry := func(listURL string, index int, purpose, typ string) map[string]any {
		return map[string]any{"id": fmt.Sprintf("%s#%d", listURL, index), "type": typ, "statusPurpose": purpose,
			"statusListIndex": strconv.Itoa(index), "statusListCredential": listURL}
	}
	served := func(purpose string, exp time.Time, bits ...int) string {
		path := fmt.Sprintf("/multi/l%d", next())
		return serve(path, func() string { return mkList(issuer, srv.url+path, purpose, bitsWith(bits...), exp) })
	}
	sharedClear := served("revocation", far)
	sharedRevoked := served("revocation", far, 100, 101, 102, 103, 104, 105, 106, 107) // bits 100..107 set; entries below use 100+k%8
	mkCred := func(entries []map[string]any) json.RawMessage {
		k := next()
		claims := map[string]any{"iss": issuer.DID, "sub": subject.DID, "jti": fmt.Sprintf("%s#multi-%d", issuer.DID, k), "nbf": now.Add(-time.Minute).Unix(),
			"vc": map[string]any{"@context": []string{"https://www.w3.org/2018/credentials/v1", "https://nuts.nl/credentials/v1", "https://w3id.org/vc/status-list/2021/v1"},
				"type":              []string{"VerifiableCredential", "NutsOrganizationCredential"},
				"credentialSubject": map[string]any{"id": subject.DID, "organization": map[string]any{"name": "Ext", "city": "Ext"}},
				"credentialStatus":  entries}}
		b, _ := json.Marshal(issuer.SignJWT(map[string]any{"alg": "ES256", "typ": "JWT", "kid": issuer.KID}, claims))
		return b
	}

	// the entry that IS revoked: on a list the node has cached already, or on one it has to download in this very verification
	revokedKinds := []string{"cached-list", "fresh-list"}
	revokedEntry := func(kind string) map[string]any {
		k := next()
		if kind == "cached-list" {
			return entry(sharedRevoked, 100+k%8, "revocation", "StatusList2021Entry")
		}
		return entry(served("revocation", far, 7+k), 7+k, "revocation", "StatusList2021Entry")
	}
	// entries that do not say "revoked"
	neighbourKinds := []string{"clear-cached-list", "clear-fresh-list", "list-missing", "list-http-500", "list-not-json", "list-not-a-credential",
		"list-bad-signature", "list-of-other-subject-id", "list-expired", "list-host-down", "list-purpose-suspension", "entry-purpose-suspension",
		"entry-of-other-type", "index-outside-list"}
	unavailable := map[string]bool{"list-missing": true, "list-http-500": true, "list-not-json": true, "list-not-a-credential": true,
		"list-bad-signature": true, "list-of-other-subject-id": true, "list-host-down": true}
	neighbour := func(kind string) map[string]any {
		k := next()
		path := fmt.Sprintf("/multi/n%d", k)
		switch kind {
		case "clear-cached-list":
			return entry(sharedClear, k, "revocation", "StatusList2021Entry")
		case "clear-fresh-list":
			return entry(served("revocation", far), 5, "revocation", "StatusList2021Entry")
		case "list-missing":
			return entry(srv.url+path, 5, "revocation", "StatusList2021Entry")
		case "list-http-500":
			srv.mu.Lock()
			srv.codes[path] = 500
			srv.mu.Unlock()
			return entry(serve(path, func() string { return mkList(issuer, srv.url+path, "revocation", bitsWith(), far) }), 5, "revocation", "StatusList2021Entry")
		case "list-not-json":
			return entry(serve(path, func() string { return "<html><body>502 Bad Gateway</body></html>" }), 5, "revocation", "StatusList2021Entry")
		case "list-not-a-credential":
			return entry(serve(path, func() string { return `{"not":"a credential"}` }), 5, "revocation", "StatusList2021Entry")
		case "list-bad-signature":
			return entry(serve(path, func() string {
				l := mkList(issuer, srv.url+path, "revocation", bitsWith(), far)
				return l[:len(l)-8] + `AAAAAAA"`
			}), 5, "revocation", "StatusList2021Entry")
		case "list-of-other-subject-id":
			return entry(serve(path, func() string { return mkList(issuer, srv.url+path+"-other", "revocation", bitsWith(), far) }), 5, "revocation", "StatusList2021Entry")
		case "list-expired":
			return entry(served("revocation", now.Add(-time.Hour)), 5, "revocation", "StatusList2021Entry")
		case "list-host-down":
			return entry(deadURL+path, 5, "revocation", "StatusList2021Entry")
		case "list-purpose-suspension":
			return entry(served("suspension", far, 5), 5, "revocation", "StatusList2021Entry")
		case "entry-purpose-suspension":
			return entry(served("suspension", far, 5), 5, "suspension", "StatusList2021Entry")
		case "entry-of-other-type":
			return entry(served("revocation", far, 5), 5, "revocation", "RevocationList2020Status")
		case "index-outside-list":
			return entry(sharedClear, 16*1024*8+5+k, "revocation", "StatusList2021Entry")
		}
		r.Fatalf("unknown neighbour kind %s", kind)
		return nil
	}

	// calibration: the single-entry forms behave (this also puts the two shared lists into the node's cache)
	if ok, msg := verifyVC(n, mkCred([]map[string]any{entry(sharedClear, 1, "revocation", "StatusList2021Entry")})); !ok {
		r.Fatalf("calibration: credential with one clear entry in array form does not verify: %s", msg)
	}
	calRevoked, calMsg := verifyVC(n, mkCred([]map[string]any{revokedEntry("cached-list")}))

	run := func(kinds []string, pos int, revKind string) {
		// kinds[pos] is replaced by the revoked entry when pos >= 0
		entries := make([]map[string]any, len(kinds))
		label := make([]string, len(kinds))
		for i, k := range kinds {
			if i == pos {
				entries[i], label[i] = revokedEntry(revKind), "REVOKED("+revKind+")"
			} else {
				entries[i], label[i] = neighbour(k), k
			}
		}
		doc := mkCred(entries)
		ok, msg := verifyVC(n, doc)
		fpr := "multi-entry/" + strings.Join(label, ",")
		r.Case(fpr, true)
		r.Count("multi_entry_cases", 1)
		r.Distinct("multi_entry_shapes", fpr)
		if pos >= 0 {
			r.Count("multi_entry_with_revoked_entry", 1)
			if ok {
				site := ""
				if pos > 0 {
					site = "after-" + kinds[pos-1]
				} else {
					site = "before-" + kinds[1]
				}
				r.Violation("C11/multi-entry/revoked-verifies/"+site, fmt.Sprintf("credential verifies although entry %d of %d is revoked on a list the node retrieved; entries: %s", pos+1, len(kinds), strings.Join(label, ", ")),
					map[string]any{"entries": entries, "position": pos, "message": msg})
			}
			return
		}
		if !ok {
			hard := true
			for _, k := range kinds {
				if !strings.HasPrefix(k, "clear-") {
					hard = false
				}
			}
			if hard {
				r.Violation("C11/multi-entry/unrevoked-fails", "credential whose entries are all clear on retrievable lists does not verify: "+msg, map[string]any{"entries": entries})
			} else {
				r.Unspecified("multi-entry/no-revoked-entry/" + strings.Join(label, ","))
			}
		}
	}

	caseNo := 0
	revKindFor := func() []string {
		caseNo++
		if r.Thorough() {
			return revokedKinds
		}
		return revokedKinds[caseNo%2 : caseNo%2+1]
	}
	// two entries: every neighbour kind, revoked entry first and last
	for _, k := range neighbourKinds {
		for pos := 0; pos < 2; pos++ {
			for _, rk := range revKindFor() {
				run([]string{k, k}, pos, rk)
			}
		}
	}
	// three and four entries: revoked entry at every position, neighbours drawn from the seeded stream (at least one that cannot be evaluated)
	var bad []string
	for _, k := range neighbourKinds {
		if unavailable[k] {
			bad = append(bad, k)
		}
	}
	for _, size := range []int{3, 4} {
		for pos := 0; pos < size; pos++ {
			for j := 0; j < r.Pick(4, 40); j++ {
				kinds := make([]string, size)
				for i := range kinds {
					kinds[i] = neighbourKinds[rnd.Intn(len(neighbourKinds))]
				}
				other := (pos + 1 + rnd.Intn(size-1)) % size
				kinds[other] = bad[rnd.Intn(len(bad))]
				for _, rk := range revKindFor() {
					run(kinds, pos, rk)
				}
			}
		}
	}
	// no revoked entry at all
	run([]string{"clear-cached-list", "clear-fresh-list"}, -1, "")
	run([]string{"clear-fresh-list", "clear-cached-list", "clear-cached-list"}, -1, "")
	for _, k := range neighbourKinds {
		run([]string{k, "clear-cached-list"}, -1, "")
		run([]string{"clear-fresh-list", k}, -1, "")
	}

	// calibration judged after the matrix: the plain single-entry revoked credential must have been refused
	r.Case("multi-entry/single-revoked-entry-in-array-form", true)
	if calRevoked {
		r.Violation("C11/multi-entry/revoked-verifies/single-entry", "credential with one revoked entry (array form) verifies: "+calMsg, nil)
	}
	r.Sample(map[string]any{"scenario": "multi-entry", "cases": r.Get("multi_entry_cases"), "with_revoked_entry": r.Get("multi_entry_with_revoked_entry")})
}
