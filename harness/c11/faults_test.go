// Fault enumeration under the node's status-list store (C11).
// The harness registers gorm callbacks on the node's own *gorm.DB (the one the StatusList2021 issuer/verifier uses) and can
// make the n-th SQL statement that touches a status_list* table fail; independently it can make SQLite itself refuse
// writes of one kind on one of these tables (BEFORE INSERT/UPDATE trigger raising ABORT). Every statement of
// revoke / issue (Entry, also across a page roll-over) / serve-list (stored and re-issued) is faulted in turn; after the
// fault is cleared the ordinary oracle of the check is applied: what the node REPORTED (revoked / slot handed out / list
// served) must be what the served list and later verifications show.
package c11

import (
	"errors"
	"fmt"
	"net/url"
	"sort"
	"strings"
	"sync"
	"time"

	"gorm.io/gorm"
	"verif/lib/ev"
	"verif/lib/iamflow"
	"verif/lib/node"
)

var errInjected = errors.New("verif: injected disk I/O error")

var faultTables = map[string]bool{"status_list": true, "status_list_entry": true, "status_list_credential": true}

// sqlFault observes (and fails on demand) the SQL statements on the status-list tables. Statements run on the goroutine
// that serves the harness' single request while a fault window is open, so their order is that of the code under test.
type sqlFault struct {
	mu     sync.Mutex
	armed  bool
	failAt int // 1-based position among the statements seen in this window; 0 = observe only
	seen   []string
	fired  string
}

func (f *sqlFault) install(db *gorm.DB) error {
	hook := func(kind string) func(*gorm.DB) {
		return func(tx *gorm.DB) {
			f.mu.Lock()
			defer f.mu.Unlock()
			if !f.armed || tx.Error != nil {
				return
			}
			table := tx.Statement.Table
			if table == "" {
				if sql := tx.Statement.SQL.String(); strings.Contains(sql, "status_list") {
					table = "status_list"
					for t := range faultTables {
						if strings.Contains(sql, t) && len(t) > len(table) {
							table = t
						}
					}
				}
			}
			if !faultTables[table] {
				return
			}
			f.seen = append(f.seen, kind+":"+table)
			if len(f.seen) == f.failAt {
				f.fired = kind + ":" + table
				_ = tx.AddError(errInjected)
			}
		}
	}
	cb := db.Callback()
	return errors.Join(
		cb.Create().Before("gorm:create").Register("verif:c11-create", hook("insert")),
		cb.Query().Before("gorm:query").Register("verif:c11-query", hook("select")),
		cb.Update().Before("gorm:update").Register("verif:c11-update", hook("update")),
		cb.Delete().Before("gorm:delete").Register("verif:c11-delete", hook("delete")),
		cb.Row().Before("gorm:row").Register("verif:c11-row", hook("select")),
		cb.Raw().Before("gorm:raw").Register("verif:c11-raw", hook("exec")),
	)
}

func (f *sqlFault) arm(failAt int) {
	f.mu.Lock()
	f.armed, f.failAt, f.seen, f.fired = true, failAt, nil, ""
	f.mu.Unlock()
}

func (f *sqlFault) disarm() (seen []string, fired string) {
	f.mu.Lock()
	defer f.mu.Unlock()
	f.armed = false
	return f.seen, f.fired
}

type faultEnv struct {
	r            *ev.Run
	n            *node.Node
	db           *gorm.DB
	f            *sqlFault
	issuers      []iamflow.Subject
	tryIssue     func(iss iamflow.Subject, format, scenario string) (*issuedCred, error)
	revoke       func(c *issuedCred) // unfaulted revocation with the check's ordinary oracle
	markRevoked  func(c *issuedCred)
	evalList     func(step, l string, sl *servedList)
	checkListSet func(step string, lists []string)
	verdictOf    func(step string, c *issuedCred)
	credsOn      func(list string) (revoked, unrevoked *issuedCred)
	lists        func() []string
}

// faultOp is one kind of client operation. prepare runs without a fault, run while the fault is active, settle after it was cleared.
type faultOp struct {
	name    string
	prepare func(round int) any
	run     func(st any) (ok bool, detail string)
	settle  func(st any, ok bool, detail, step string)
}

func (e *faultEnv) rawRevoke(id string) (bool, string) {
	resp, err := node.Do("DELETE", e.n.Internal+"/internal/vcr/v2/issuer/vc/"+url.QueryEscape(id), nil, nil)
	if err != nil {
		return false, "transport: " + err.Error()
	}
	return resp.Status/100 == 2, resp.String()
}

func (e *faultEnv) agePageCounter(iss iamflow.Subject, to int) {
	res := e.db.Exec("UPDATE status_list SET last_issued_index = ? WHERE issuer = ? AND page = (SELECT MAX(page) FROM status_list WHERE issuer = ?)", to, iss.DID, iss.DID)
	if res.Error != nil || res.RowsAffected != 1 {
		e.r.Fatalf("ageing page counter: %v rows=%d", res.Error, res.RowsAffected)
	}
}

func (e *faultEnv) ops() []faultOp {
	r := e.r
	formats := []string{"jwt_vc", "ldp_vc"}
	pickIssuer := func(round int) iamflow.Subject { return e.issuers[round%len(e.issuers)] }

	type issueState struct {
		iss  iamflow.Subject
		fmt  string
		cred *issuedCred
	}
	runIssue := func(st any) (bool, string) {
		s := st.(*issueState)
		c, err := e.tryIssue(s.iss, s.fmt, "issued-under-fault")
		if err != nil {
			return false, err.Error()
		}
		s.cred = c
		return true, c.id
	}
	// after a (possibly failed) issuance: the issuer issues again, both slots were checked for uniqueness when they were handed out;
	// the credential obtained under the fault is then revoked and must read as revoked, its successor as not revoked.
	settleIssue := func(st any, ok bool, detail, step string) {
		s := st.(*issueState)
		next, err := e.tryIssue(s.iss, s.fmt, "issued-after-fault")
		if err != nil {
			r.Unspecified("fault/issuance-refused-after-the-fault-was-cleared")
			r.Count("issuance_refused_after_fault", 1)
			return
		}
		lists := map[string]bool{next.slot.list: true}
		if s.cred != nil {
			r.Count("credentials_issued_under_fault", 1)
			lists[s.cred.slot.list] = true
			e.revoke(s.cred)
		} else {
			r.Count("issuances_failed_under_fault", 1)
		}
		var ls []string
		for l := range lists {
			ls = append(ls, l)
		}
		sort.Strings(ls)
		e.checkListSet(step, ls)
		if s.cred != nil {
			e.verdictOf(step, s.cred)
		}
		e.verdictOf(step, next)
	}

	type serveState struct {
		list string
		sl   *servedList
	}
	runServe := func(st any) (bool, string) {
		s := st.(*serveState)
		sl, err := fetchList(s.list)
		if err != nil {
			return false, err.Error()
		}
		s.sl = sl
		return true, ""
	}
	settleServe := func(st any, ok bool, detail, step string) {
		s := st.(*serveState)
		if s.sl != nil {
			// what the node served while the store was failing is a served list like any other
			r.Count("lists_served_under_fault", 1)
			e.evalList(step+"/served-under-fault", s.list, s.sl)
		} else {
			r.Count("lists_unavailable_under_fault", 1)
		}
		e.checkListSet(step, []string{s.list})
		rev, unrev := e.credsOn(s.list)
		if rev != nil {
			e.verdictOf(step, rev)
		}
		if unrev != nil {
			e.verdictOf(step, unrev)
		}
	}
	pickList := func(round int) string {
		// prefer lists that carry revocations
		var with, all []string
		for _, l := range e.lists() {
			all = append(all, l)
			if rev, _ := e.credsOn(l); rev != nil {
				with = append(with, l)
			}
		}
		if len(with) > 0 {
			return with[round%len(with)]
		}
		return all[round%len(all)]
	}

	return []faultOp{
		{
			name: "revoke",
			prepare: func(round int) any {
				c, err := e.tryIssue(pickIssuer(round), formats[round%2], "fault-revoke-victim")
				if err != nil {
					r.Fatalf("issuing the credential to revoke: %v", err)
				}
				return c
			},
			run: func(st any) (bool, string) { return e.rawRevoke(st.(*issuedCred).id) },
			settle: func(st any, ok bool, detail, step string) {
				c := st.(*issuedCred)
				if ok {
					r.Count("revocations_reported_done_under_fault", 1)
					e.markRevoked(c)
				} else {
					// the issuer was told that the revocation failed, and tries again
					r.Count("revocations_reported_failed_under_fault", 1)
					ok2, detail2 := e.rawRevoke(c.id)
					switch {
					case ok2:
						e.markRevoked(c)
					case strings.Contains(detail2, "revoked"):
						// the node answers that this credential is revoked already: the issuer has revoked it, as far as the node tells
						r.Count("retry_answered_already_revoked", 1)
						e.markRevoked(c)
					default:
						r.Violation("C11/revoke/refused", "issuer cannot revoke its own credential after a failed attempt ("+step+"): "+detail2, map[string]any{"credential": c.id, "first_attempt": detail})
						return
					}
				}
				e.checkListSet(step, []string{c.slot.list})
				e.verdictOf(step, c)
				if _, unrev := e.credsOn(c.slot.list); unrev != nil {
					e.verdictOf(step, unrev)
				}
			},
		},
		{
			name:    "issue",
			prepare: func(round int) any { return &issueState{iss: pickIssuer(round), fmt: formats[round%2]} },
			run:     runIssue,
			settle:  settleIssue,
		},
		{
			name: "issue-roll-over",
			prepare: func(round int) any {
				iss := pickIssuer(round)
				e.agePageCounter(iss, maxIndex) // the page is full: the next entry opens a new page and its list
				r.Count("roll_overs_under_fault", 1)
				return &issueState{iss: iss, fmt: formats[round%2]}
			},
			run:    runIssue,
			settle: settleIssue,
		},
		{
			name: "serve-reissue",
			prepare: func(round int) any {
				l := pickList(round)
				if res := e.db.Exec("UPDATE status_list_credential SET expires = ? WHERE subject_id = ?", time.Now().Add(30*time.Minute).Unix(), l); res.Error != nil || res.RowsAffected != 1 {
					r.Fatalf("ageing list %s: %v rows=%d", l, res.Error, res.RowsAffected)
				}
				return &serveState{list: l}
			},
			run:    runServe,
			settle: settleServe,
		},
		{
			name:    "serve-stored",
			prepare: func(round int) any { return &serveState{list: pickList(round)} },
			run:     runServe,
			settle:  settleServe,
		},
	}
}

// faultMatrix: for every operation, a reference run that records its statements on the status-list tables, then one run per
// statement with that statement failing, then one run per (table, INSERT|UPDATE) the operation writes with SQLite refusing it.
func faultMatrix(e *faultEnv) {
	r := e.r
	round := 0
	for rep := 0; rep < r.Pick(1, 3); rep++ {
		for _, op := range e.ops() {
			round++
			st := op.prepare(round)
			e.f.arm(0)
			ok, detail := op.run(st)
			seen, _ := e.f.disarm()
			if !ok {
				r.Fatalf("calibration: operation %q fails without any fault: %s", op.name, detail)
			}
			if len(seen) == 0 {
				r.Fatalf("calibration: operation %q was not seen touching a status-list table: the fault seam observes nothing", op.name)
			}
			op.settle(st, ok, detail, "fault/"+op.name+"/reference")
			if rep == 0 {
				r.Sample(map[string]any{"scenario": "fault-enumeration", "operation": op.name, "statements": seen})
			}
			for k := 1; k <= len(seen); k++ {
				round++
				st := op.prepare(round)
				e.f.arm(k)
				ok, detail := op.run(st)
				_, fired := e.f.disarm()
				step := fmt.Sprintf("fault/%s/stmt%d-%s", op.name, k, seen[k-1])
				r.Case(step, fired != "")
				if fired != "" {
					r.Count("sql_statements_failed", 1)
				} else {
					r.Count("sql_fault_not_reached", 1)
				}
				if !ok {
					r.Count("operations_failed_under_fault", 1)
				}
				op.settle(st, ok, detail, step)
			}
			// SQLite refusing a kind of write on one table for the duration of the operation
			type tw struct{ table, event string }
			var writes []tw
			have := map[tw]bool{}
			for _, s := range seen {
				kind, table, _ := strings.Cut(s, ":")
				var evs []string
				switch kind {
				case "insert":
					evs = []string{"INSERT", "UPDATE"} // the list is stored with an upsert
				case "update":
					evs = []string{"UPDATE"}
				}
				for _, evn := range evs {
					if !have[tw{table, evn}] {
						have[tw{table, evn}] = true
						writes = append(writes, tw{table, evn})
					}
				}
			}
			for _, wr := range writes {
				round++
				st := op.prepare(round)
				if err := e.db.Exec(fmt.Sprintf("CREATE TRIGGER verif_c11_fault BEFORE %s ON %s BEGIN SELECT RAISE(ABORT, 'disk I/O error'); END", wr.event, wr.table)).Error; err != nil {
					r.Fatalf("creating fault trigger: %v", err)
				}
				ok, detail := op.run(st)
				if err := e.db.Exec("DROP TRIGGER verif_c11_fault").Error; err != nil {
					r.Fatalf("dropping fault trigger: %v", err)
				}
				step := fmt.Sprintf("fault/%s/sqlite-refuses-%s-%s", op.name, strings.ToLower(wr.event), wr.table)
				r.Case(step, true)
				r.Count("sqlite_write_refusals", 1)
				if !ok {
					r.Count("operations_failed_under_fault", 1)
				}
				op.settle(st, ok, detail, step)
			}
		}
	}
}
